package harness

import (
	"encoding/base64"
	"encoding/hex"
	"encoding/json"
	"fmt"
	"math/big"
	"sort"
	"strings"
)

// Ledger is the value content of a committed state, decoded from the raw key/value dump by key
// family (DESIGN.md appendix C). Amounts are in base units; whole-OLT stake records are scaled.
type Ledger struct {
	// Total per currency of everything the property C02 counts as "value held on chain".
	Total map[string]*big.Int
	// Holdings per owner ("0lt..." text form) per currency of what C03 counts as an account's holdings.
	Holdings map[string]map[string]*big.Int
	// DelegRewardsTotal is the bookkeeping counter of delegation rewards ever accrued.
	DelegRewardsTotal *big.Int
	// Negative lists stored amounts that are below zero (key -> value).
	Negative map[string]string
	// Unknown lists key families the decoder does not know (so a new escrow cannot escape silently).
	Unknown map[string]int
	// Undecodable lists keys of known value families whose value could not be decoded.
	Undecodable []string
	// Components of the total per family (for reports).
	Parts map[string]*big.Int
	// Trackers: name -> state summary for wrapped-currency allowances.
	Trackers map[string]string
}

var e18 = new(big.Int).Exp(big.NewInt(10), big.NewInt(18), nil)

// SupplyCounterAddr is the text form of the wrapped-supply counter address; its balance is a counter
// mirroring the wrapped tokens in circulation, not value of its own.
var SupplyCounterAddr = "0lt" + hex.EncodeToString([]byte("oneledgerSupplyAddress"))

func parseAmountJSON(v []byte) (*big.Int, bool) {
	var s string
	if err := json.Unmarshal(v, &s); err != nil {
		return nil, false
	}
	n, ok := new(big.Int).SetString(s, 10)
	return n, ok
}

// parseCoinJSON decodes {"currency":{...,"name":"OLT"},"amount":"<base64 of a JSON string>"}.
func parseCoinJSON(v []byte) (string, *big.Int, bool) {
	var c struct {
		Currency struct {
			Name string `json:"name"`
		} `json:"currency"`
		Amount json.RawMessage `json:"amount"`
	}
	if err := json.Unmarshal(v, &c); err != nil {
		return "", nil, false
	}
	var b64 string
	if err := json.Unmarshal(c.Amount, &b64); err != nil {
		return "", nil, false
	}
	if n, ok := new(big.Int).SetString(b64, 10); ok { // plain decimal string
		return c.Currency.Name, n, true
	}
	raw, err := base64.StdEncoding.DecodeString(b64)
	if err != nil {
		return "", nil, false
	}
	n, ok := parseAmountJSON(raw)
	return c.Currency.Name, n, ok
}

func addrText(raw []byte) string { return "0lt" + hex.EncodeToString(raw) }

// DecodeLedger decodes a dump.
func DecodeLedger(dump []KV) *Ledger {
	l := &Ledger{Total: map[string]*big.Int{}, Holdings: map[string]map[string]*big.Int{}, DelegRewardsTotal: new(big.Int),
		Negative: map[string]string{}, Unknown: map[string]int{}, Parts: map[string]*big.Int{}, Trackers: map[string]string{}}
	addTotal := func(part, cur string, n *big.Int) {
		if l.Total[cur] == nil {
			l.Total[cur] = new(big.Int)
		}
		l.Total[cur].Add(l.Total[cur], n)
		k := part + ":" + cur
		if l.Parts[k] == nil {
			l.Parts[k] = new(big.Int)
		}
		l.Parts[k].Add(l.Parts[k], n)
	}
	addHold := func(owner, cur string, n *big.Int) {
		if l.Holdings[owner] == nil {
			l.Holdings[owner] = map[string]*big.Int{}
		}
		if l.Holdings[owner][cur] == nil {
			l.Holdings[owner][cur] = new(big.Int)
		}
		l.Holdings[owner][cur].Add(l.Holdings[owner][cur], n)
	}
	neg := func(k string, n *big.Int) {
		if n.Sign() < 0 {
			l.Negative[k] = n.String()
		}
	}
	scale := func(n *big.Int) *big.Int { return new(big.Int).Mul(n, e18) }
	for _, kv := range dump {
		k := string(kv.K)
		switch {
		case strings.HasPrefix(k, "b_"):
			i := strings.LastIndexByte(k, '_')
			if i <= 2 {
				l.Undecodable = append(l.Undecodable, k)
				continue
			}
			owner, cur := k[2:i], k[i+1:]
			n, ok := parseAmountJSON(kv.V)
			if !ok {
				l.Undecodable = append(l.Undecodable, k)
				continue
			}
			neg(k, n)
			if owner != SupplyCounterAddr {
				addTotal("balance", cur, n)
			}
			addHold(owner, cur, n)
		case strings.HasPrefix(k, "f_"):
			n, ok := parseAmountJSON(kv.V)
			if !ok {
				l.Undecodable = append(l.Undecodable, fmt.Sprintf("%q", k))
				continue
			}
			neg(fmt.Sprintf("%q", k), n)
			addTotal("feepool", "OLT", n)
		case strings.HasPrefix(k, "st__d_e_"), strings.HasPrefix(k, "st__d_b_"):
			n, ok := parseAmountJSON(kv.V)
			if !ok {
				l.Undecodable = append(l.Undecodable, k)
				continue
			}
			neg(k, n)
			part := "stake-locked"
			if strings.HasPrefix(k, "st__d_b_") {
				part = "stake-withdrawable"
			}
			addTotal(part, "OLT", scale(n))
			addHold(k[8:], "OLT", scale(n))
		case strings.HasPrefix(k, "st__m_"):
			var mb struct {
				Data []struct {
					Address string
					Amount  string
				}
			}
			if err := json.Unmarshal(kv.V, &mb); err != nil {
				l.Undecodable = append(l.Undecodable, k)
				continue
			}
			for _, d := range mb.Data {
				n, ok := new(big.Int).SetString(d.Amount, 10)
				if !ok {
					l.Undecodable = append(l.Undecodable, k)
					continue
				}
				neg(k, n)
				addTotal("stake-unlocking", "OLT", scale(n))
				addHold(strings.ToLower(d.Address), "OLT", scale(n))
			}
		case strings.HasPrefix(k, "st__t_"), strings.HasPrefix(k, "st__e_"):
			if n, ok := parseAmountJSON(kv.V); ok {
				neg(k, n)
			}
		case strings.HasPrefix(k, "deleg_a_"):
			cur, n, ok := parseCoinJSON(kv.V)
			if !ok {
				l.Undecodable = append(l.Undecodable, k)
				continue
			}
			neg(k, n)
			// a claim on the delegation pool's balance: part of the owner's holdings, not of the total
			addHold(k[8:], cur, n)
		case strings.HasPrefix(k, "deleg_p_"):
			cur, n, ok := parseCoinJSON(kv.V)
			i := strings.IndexByte(k[8:], '_')
			if !ok || i < 0 {
				l.Undecodable = append(l.Undecodable, k)
				continue
			}
			neg(k, n)
			addTotal("undelegating", cur, n)
			addHold(k[8+i+1:], cur, n)
		case k == "delegRwz_total_rewards":
			if n, ok := parseAmountJSON(kv.V); ok {
				l.DelegRewardsTotal = n
			}
		case strings.HasPrefix(k, "delegRwz_balance_"):
			n, ok := parseAmountJSON(kv.V)
			if !ok {
				l.Undecodable = append(l.Undecodable, k)
				continue
			}
			neg(k, n)
			addTotal("deleg-reward-claims", "OLT", n)
			addHold(k[len("delegRwz_balance_"):], "OLT", n)
		case strings.HasPrefix(k, "delegRwz_pending_"):
			n, ok := parseAmountJSON(kv.V)
			rest := k[len("delegRwz_pending_"):]
			i := strings.IndexByte(rest, '_')
			if !ok || i < 0 {
				l.Undecodable = append(l.Undecodable, k)
				continue
			}
			neg(k, n)
			addTotal("deleg-reward-claims", "OLT", n)
			addHold(rest[i+1:], "OLT", n)
		case strings.HasPrefix(k, "delegRwz_"):
			// other bookkeeping of the rewards store
		case strings.HasPrefix(k, "propFunds_t_"):
			n, ok := parseAmountJSON(kv.V)
			if !ok {
				l.Undecodable = append(l.Undecodable, k)
				continue
			}
			neg(k, n)
			addTotal("proposal-funds", "OLT", n)
		case strings.HasPrefix(k, "propFunds_"):
			if n, ok := parseAmountJSON(kv.V); ok {
				neg(k, n)
			}
		case strings.HasPrefix(k, "extBidOffer_ACTIVE_"):
			var o struct {
				Amount struct {
					Currency string `json:"currency"`
					Value    string `json:"value"`
				} `json:"amount"`
				AmountStatus int `json:"amountStatus"`
				OfferType    int `json:"offerType"`
			}
			if err := json.Unmarshal(kv.V, &o); err != nil {
				l.Undecodable = append(l.Undecodable, k)
				continue
			}
			n, ok := new(big.Int).SetString(o.Amount.Value, 10)
			if !ok {
				l.Undecodable = append(l.Undecodable, k)
				continue
			}
			neg(k, n)
			if o.AmountStatus == 1 && o.OfferType == 1 { // locked bid offer: escrowed from the bidder
				addTotal("bid-escrow", o.Amount.Currency, n)
			}
		case strings.HasPrefix(k, "rwcum_balance_"), strings.HasPrefix(k, "rwcum_withdrawn_"), strings.HasPrefix(k, "rwz_"), k == "rwcum_tdist":
			if n, ok := parseAmountJSON(kv.V); ok {
				neg(k, n)
			}
		case strings.HasPrefix(k, "etht_"), strings.HasPrefix(k, "ethsuccess_"), strings.HasPrefix(k, "ethfailed_"):
			var t struct {
				Type  int `json:"type"`
				State int `json:"state"`
			}
			_ = json.Unmarshal(kv.V, &t)
			l.Trackers[fmt.Sprintf("%x", k)] = fmt.Sprintf("%s type=%d state=%d", k[:strings.IndexByte(k, '_')], t.Type, t.State)
		default:
			fam := k
			if i := strings.IndexByte(k, '_'); i > 0 {
				fam = k[:i]
			}
			for _, known := range []string{"propActive", "propPassed", "propFailed", "propFinalizeFailed", "propFinalized", "propVotes", "extBid", "intx"} {
				if strings.HasPrefix(k, known) {
					fam = known
					break
				}
			}
			switch fam {
			case "v", "purged", "w", "es", "g", "d", "rwcum", "ri", "rwaddr", "keeper", "contracts", "propActive", "propPassed", "propFailed",
				"propFinalized", "propFinalizeFailed", "propVotes", "extBidConvActive", "extBidConvSucceed", "extBidConvRejected", "extBidConvCancelled",
				"extBidConvExpired", "extBidOffer", "btct", "extBidConvExpireFailed", "extBid", "intx":
			default:
				if strings.HasPrefix(fam, "extBidConv") || strings.HasPrefix(fam, "extBid") {
					break
				}
				if len(fam) > 24 {
					fam = fam[:24]
				}
				l.Unknown[fmt.Sprintf("%q", fam)]++
			}
		}
	}
	return l
}

// Owners returns the owners with holdings, sorted.
func (l *Ledger) Owners() []string {
	var out []string
	for o := range l.Holdings {
		out = append(out, o)
	}
	sort.Strings(out)
	return out
}

// TotalOf returns the total of a currency (0 if none).
func (l *Ledger) TotalOf(cur string) *big.Int {
	if n := l.Total[cur]; n != nil {
		return n
	}
	return new(big.Int)
}

// HoldingOf returns an owner's holding in a currency.
func (l *Ledger) HoldingOf(owner, cur string) *big.Int {
	if m := l.Holdings[owner]; m != nil && m[cur] != nil {
		return m[cur]
	}
	return new(big.Int)
}
