package harness

import (
	"encoding/json"

	"github.com/Oneledger/protocol/action"
	"github.com/Oneledger/protocol/action/transfer"
	"github.com/Oneledger/protocol/data/balance"
	"github.com/Oneledger/protocol/data/keys"
)

// DefaultGas is generous enough for every native transaction kind.
const DefaultGas = int64(400000)

// MinFeePrice is the minimum fee price of the default worlds (10^9 base units per gas).
func MinFeePrice() action.Amount {
	return action.Amount{Currency: "OLT", Value: *balance.NewAmount(1000000000)}
}

// TxSpec is a transaction before signing; every field is raw so hostile values are expressible.
type TxSpec struct {
	Type    action.Type
	Data    []byte
	Fee     action.Fee
	Memo    string
	Signers []*Account
	// Vary, if set, turns this spec into a distinct transaction with the same meaning (default: the
	// memo gets a suffix). Kinds whose memo is constrained (OLVM: memo == nonce) set it.
	Vary func(t *TxSpec, tag string) `json:"-"`
	// SignFn, if set, produces the signature list itself (OLVM: one EIP-155 signature over the embedded
	// Ethereum transaction instead of signatures over RawBytes()).
	SignFn func(raw action.RawTx) []action.Signature `json:"-"`
}

// Fresh returns a copy that is a different transaction (different bytes, different hash, correctly
// signed) with the same meaning.
func (t *TxSpec) Fresh(tag string) *TxSpec {
	c := *t
	if t.Vary != nil {
		t.Vary(&c, tag)
	} else {
		c.Memo = c.Memo + "~" + tag
	}
	return &c
}

// Raw returns the RawTx.
func (t *TxSpec) Raw() action.RawTx {
	return action.RawTx{Type: t.Type, Data: t.Data, Fee: t.Fee, Memo: t.Memo}
}

// Signed signs with all signers and returns the structured form.
func (t *TxSpec) Signed() action.SignedTx {
	raw := t.Raw()
	msg := raw.RawBytes()
	st := action.SignedTx{RawTx: raw}
	if t.SignFn != nil {
		st.Signatures = t.SignFn(raw)
		return st
	}
	for _, s := range t.Signers {
		st.Signatures = append(st.Signatures, action.Signature{Signer: s.Pub, Signed: s.Sign(msg)})
	}
	return st
}

// Bytes returns the canonical wire bytes.
func (t *TxSpec) Bytes() []byte {
	st := t.Signed()
	return st.SignedBytes()
}

// NewTx builds a TxSpec from a message object (anything json-marshalable).
func NewTx(typ action.Type, msg interface{}, memo string, signers ...*Account) *TxSpec {
	var data []byte
	switch m := msg.(type) {
	case []byte:
		data = m
	case action.Msg:
		b, err := m.Marshal()
		if err != nil {
			panic(err)
		}
		data = b
	default:
		b, err := json.Marshal(msg)
		if err != nil {
			panic(err)
		}
		data = b
	}
	return &TxSpec{Type: typ, Data: data, Fee: action.Fee{Price: MinFeePrice(), Gas: DefaultGas}, Memo: memo, Signers: signers}
}

// Coin builds an action.Amount.
func Coin(cur string, a balance.Amount) action.Amount { return action.Amount{Currency: cur, Value: a} }

// Send builds a SEND transaction.
func Send(from *Account, to keys.Address, a action.Amount, memo string) *TxSpec {
	return NewTx(action.SEND, &transfer.Send{From: from.Addr, To: to, Amount: a}, memo, from)
}
