package harness

import (
	"fmt"
	"os"
	"syscall"
)

// The repository's package-level loggers and a few fmt.Println calls write to fd 1. SilenceStdout
// redirects fd 1 to a per-process log file (inspectable, truncated at start) and keeps the original
// stdout for the harness' own reporting.
var realOut *os.File = os.Stdout

// StdoutLog is the path fd 1 is redirected to.
var StdoutLog string

func SilenceStdout() {
	if realOut != os.Stdout {
		return
	}
	fd, err := syscall.Dup(1)
	if err != nil {
		panic(err)
	}
	realOut = os.NewFile(uintptr(fd), "real-stdout")
	target := os.Getenv("VERIF_APPLOG")
	if target == "" {
		target = os.DevNull
	}
	StdoutLog = target
	f, err := os.OpenFile(target, os.O_WRONLY|os.O_CREATE|os.O_TRUNC, 0o644)
	if err != nil {
		panic(err)
	}
	if err := syscall.Dup2(int(f.Fd()), 1); err != nil {
		panic(err)
	}
	// stderr carries goroutine dumps of recovered panics (debug.PrintStack): keep it only if asked
	if os.Getenv("VERIF_KEEP_STDERR") == "" {
		syscall.Dup2(int(f.Fd()), 2)
	}
}

// Outf prints to the real stdout.
func Outf(format string, a ...interface{}) { fmt.Fprintf(realOut, format, a...) }

// Out returns the real stdout.
func Out() *os.File { return realOut }

// KeepStdout returns a duplicate of the current fd 1 (call before SilenceStdout in worker processes:
// the duplicate is the pipe to the master).
func KeepStdout() *os.File {
	fd, err := syscall.Dup(1)
	if err != nil {
		panic(err)
	}
	return os.NewFile(uintptr(fd), "worker-out")
}
