package harness

import (
	"encoding/json"
	"math/big"
	"time"

	ethcmn "github.com/ethereum/go-ethereum/common"
	tmtypes "github.com/tendermint/tendermint/types"

	"github.com/Oneledger/protocol/chains/bitcoin"
	ethchain "github.com/Oneledger/protocol/chains/ethereum"
	"github.com/Oneledger/protocol/chains/ethereum/contract"
	"github.com/Oneledger/protocol/config"
	"github.com/Oneledger/protocol/consensus"
	"github.com/Oneledger/protocol/data/balance"
	"github.com/Oneledger/protocol/data/chain"
	"github.com/Oneledger/protocol/data/delegation"
	"github.com/Oneledger/protocol/data/evidence"
	"github.com/Oneledger/protocol/data/fees"
	"github.com/Oneledger/protocol/data/governance"
	"github.com/Oneledger/protocol/data/keys"
	"github.com/Oneledger/protocol/data/network_delegation"
	"github.com/Oneledger/protocol/data/ons"
	"github.com/Oneledger/protocol/data/rewards"
)

// ValSpec describes one (candidate) validator of a world.
type ValSpec struct {
	Name    string
	Val     *Account // validator (consensus) key, ED25519
	Node    *Account // node key
	Ecdsa   *Account // SECP256K1 key used for cross-chain jobs
	Stake   *Account // externally owned stake account
	Power   int64    // genesis stake in whole OLT == voting power; 0 = not staked at genesis
	Witness bool     // ethereum witness at genesis
}

// World is a declarative description of a genesis state.
type World struct {
	Name         string
	ChainID      string
	GenesisTime  time.Time
	Users        []*Account
	EthUsers     []*Account
	SecpUsers    []*Account // accounts held by SECP256K1 keys (the third key algorithm native transactions can be signed with)
	Vals         []*ValSpec
	Gov          governance.GovernanceState
	Currencies   []balance.Currency
	UserBalance  map[string]string // currency -> amount (base units) given to every user and stake account
	PoolBalances []consensus.BalanceState
	Frankenstein int64
	MaxGas       int64
	// Mutate lets a variant add pre-existing records (pending undelegations, proposals, trackers...)
	Mutate func(w *World, st *consensus.AppState)
}

var (
	OLT = balance.Currency{Id: 0, Name: "OLT", Chain: chain.ONELEDGER, Decimal: 18, Unit: "nue"}
	VT  = balance.Currency{Id: 1, Name: "VT", Chain: chain.ONELEDGER, Unit: "vt"}
	BTC = balance.Currency{Id: 2, Name: "BTC", Chain: chain.BITCOIN, Decimal: 8, Unit: "satoshi"}
	ETH = balance.Currency{Id: 3, Name: "ETH", Chain: chain.ETHEREUM, Decimal: 18, Unit: "wei"}
	TTC = balance.Currency{Id: 4, Name: "TTC", Chain: chain.TESTTOKEN, Decimal: 18, Unit: "testUnits"}
)

func amt(s string) balance.Amount {
	a, err := balance.NewAmountFromString(s, 10)
	if err != nil {
		panic(err)
	}
	return *a
}

// Amt parses a base-unit decimal string.
func Amt(s string) balance.Amount { return amt(s) }

// OLTUnits returns n whole OLT in base units.
func OLTUnits(n int64) balance.Amount {
	return *balance.NewAmountFromBigInt(new(big.Int).Mul(big.NewInt(n), OLT.Base()))
}

func oltPtr(n int64) *balance.Amount { a := OLTUnits(n); return &a }

// ETHContractAddr is the lock/redeem contract address used by every world.
var ETHContractAddr = ethcmn.HexToAddress("0x00000000000000000000000000000000000C0DE1")
var ERCContractAddr = ethcmn.HexToAddress("0x00000000000000000000000000000000000C0DE2")
var TTCTokenAddr = ethcmn.HexToAddress("0x00000000000000000000000000000000000C0DE3")

// NewWorld returns the default small world: 3 users, nVals candidate validators of which the first
// nGenesis are staked at genesis, short periods everywhere.
func NewWorld(name string, nVals, nGenesis int) *World {
	w := &World{
		Name:         name,
		ChainID:      "verif-chain",
		GenesisTime:  time.Date(2021, 1, 1, 0, 0, 0, 0, time.UTC),
		Currencies:   []balance.Currency{OLT, VT, BTC, ETH, TTC},
		UserBalance:  map[string]string{"OLT": "1000000000000000000000000000", "ETH": "5000000000000000000"},
		Frankenstein: 1,
		MaxGas:       -1,
	}
	for _, n := range []string{"A", "B", "C"} {
		w.Users = append(w.Users, NewAccount("user-"+n))
	}
	for _, n := range []string{"EA", "EB"} {
		w.EthUsers = append(w.EthUsers, NewEthAccount("ethuser-"+n))
	}
	w.SecpUsers = append(w.SecpUsers, NewSecpAccount("secpuser-S"))
	for i := 0; i < nVals; i++ {
		n := string(rune('1' + i))
		v := &ValSpec{
			Name:  "V" + n,
			Val:   NewAccount("val-" + n),
			Node:  NewAccount("node-" + n),
			Ecdsa: NewSecpAccount("ecdsa-" + n),
			Stake: NewAccount("stake-" + n),
		}
		if i < nGenesis {
			v.Power = 1000000 * int64(nGenesis-i) // distinct powers, all >= 500000 (Frankenstein minimum)
			v.Witness = true
		}
		w.Vals = append(w.Vals, v)
	}
	w.Gov = DefaultGov()
	w.PoolBalances = []consensus.BalanceState{
		{Address: keys.Address("rewardpool"), Currency: "OLT", Amount: OLTUnits(1000000)},
	}
	return w
}

// DefaultGov returns governance options with small periods so that every block-level hook fires
// within a handful of blocks.
func DefaultGov() governance.GovernanceState {
	passed := governance.ProposalFundDistribution{Validators: 18, FeePool: 18, Burn: 18, ExecutionCost: 18, BountyPool: 10, ProposerReward: 18}
	failed := governance.ProposalFundDistribution{Validators: 10, FeePool: 10, Burn: 10, ExecutionCost: 20, BountyPool: 50, ProposerReward: 0}
	po := func(cost string) governance.ProposalOption {
		return governance.ProposalOption{
			InitialFunding:         oltPtr(10),
			FundingGoal:            oltPtr(100),
			FundingDeadline:        3,
			VotingDeadline:         3,
			PassPercentage:         51,
			PassedFundDistribution: passed,
			FailedFundDistribution: failed,
			ProposalExecutionCost:  cost,
		}
	}
	return governance.GovernanceState{
		FeeOption: fees.FeeOption{FeeCurrency: OLT, MinFeeDecimal: 9},
		ETHCDOption: ethchain.ChainDriverOption{
			ContractABI:        contract.LockRedeemABI,
			ContractAddress:    ETHContractAddr,
			TokenList:          []ethchain.ERC20Token{{TokName: "TTC", TokAddr: TTCTokenAddr}},
			ERCContractABI:     contract.LockRedeemERCABI,
			ERCContractAddress: ERCContractAddr,
			TotalSupply:        "2000000000000000000000",
			TotalSupplyAddr:    "oneledgerSupplyAddress",
			BlockConfirmation:  12,
		},
		BTCCDOption: bitcoin.ChainDriverOption{ChainType: "testnet3", TotalSupply: "1000000000", TotalSupplyAddr: "oneledgerSupplyAddress", BlockConfirmation: 6},
		ONSOptions: ons.Options{
			Currency:          "OLT",
			PerBlockFees:      OLTUnits(1),
			FirstLevelDomains: []string{"ol"},
			BaseDomainPrice:   OLTUnits(10),
		},
		PropOptions: governance.ProposalOptionSet{
			ConfigUpdate:      po("executionCostConfig"),
			CodeChange:        po("executionCostCodeChange"),
			General:           po("executionCostGeneral"),
			BountyProgramAddr: "oneledgerBountyProgram",
		},
		StakingOptions: delegation.Options{
			MinSelfDelegationAmount: *balance.NewAmount(500000),
			MinDelegationAmount:     *balance.NewAmount(1),
			TopValidatorCount:       4,
			MaturityTime:            2,
		},
		DelegOptions: network_delegation.Options{RewardsMaturityTime: 4},
		EvidenceOptions: evidence.Options{
			MinVotesRequired:        1,
			BlockVotesDiff:          3,
			PenaltyBasePercentage:   30,
			PenaltyBaseDecimals:     100,
			PenaltyBountyPercentage: 50,
			PenaltyBountyDecimals:   100,
			PenaltyBurnPercentage:   50,
			PenaltyBurnDecimals:     100,
			ValidatorReleaseTime:    1,
			ValidatorVotePercentage: 50,
			ValidatorVoteDecimals:   100,
			AllegationPercentage:    50,
			AllegationDecimals:      100,
		},
		RewardOptions: rewards.Options{
			RewardInterval:           2,
			RewardPoolAddress:        "rewardpool",
			RewardCurrency:           "OLT",
			EstimatedSecondsPerCycle: 3 * 17,
			BlockSpeedCalculateCycle: 3,
			YearCloseWindow:          3600,
			YearBlockRewardShares:    []balance.Amount{OLTUnits(700000), OLTUnits(400000)},
			BurnoutRate:              OLTUnits(5),
		},
	}
}

// AppState builds the application part of the genesis document.
func (w *World) AppState() consensus.AppState {
	st := consensus.AppState{
		Currencies: w.Currencies,
		Governance: w.Gov,
		Rewards: rewards.RewardMasterState{
			RewardState: rewards.NewRewardState(),
			CumuState:   rewards.NewRewardCumuState(),
		},
		Domains: []consensus.DomainState{},
		Fees:    []consensus.BalanceState{},
	}
	give := func(a keys.Address) {
		for _, cur := range []string{"OLT", "ETH", "TTC", "BTC", "VT"} {
			if v, ok := w.UserBalance[cur]; ok {
				st.Balances = append(st.Balances, consensus.BalanceState{Address: a, Currency: cur, Amount: amt(v)})
			}
		}
	}
	for _, u := range w.Users {
		give(u.Addr)
	}
	for _, u := range w.EthUsers {
		give(u.Addr)
	}
	for _, u := range w.SecpUsers {
		// OLT only: the wrapped currencies of the genesis accounts are what the cross-chain models start from
		if v, ok := w.UserBalance["OLT"]; ok {
			st.Balances = append(st.Balances, consensus.BalanceState{Address: u.Addr, Currency: "OLT", Amount: amt(v)})
		}
	}
	for _, v := range w.Vals {
		give(v.Stake.Addr)
		if v.Power > 0 {
			s := consensus.Stake{
				ValidatorAddress: v.Val.Addr,
				StakeAddress:     v.Stake.Addr,
				Pubkey:           v.Val.Pub,
				ECDSAPubKey:      v.Ecdsa.Pub,
				Name:             v.Name,
				Amount:           *balance.NewAmountFromInt(v.Power),
			}
			st.Staking = append(st.Staking, s)
			if v.Witness {
				st.Witness = append(st.Witness, s)
			}
		}
	}
	st.Balances = append(st.Balances, w.PoolBalances...)
	if w.Mutate != nil {
		w.Mutate(w, &st)
	}
	return st
}

// GenesisDoc builds the full genesis document (the same object on every replica).
func (w *World) GenesisDoc() *config.GenesisDoc {
	st := w.AppState()
	raw, err := st.RawJSON()
	if err != nil {
		panic(err)
	}
	cp := tmtypes.DefaultConsensusParams()
	cp.Block.MaxGas = w.MaxGas
	doc := &config.GenesisDoc{
		GenesisTime:     w.GenesisTime,
		ChainID:         w.ChainID,
		ConsensusParams: cp,
		AppState:        json.RawMessage(raw),
		ForkParams:      &config.ForkParams{FrankensteinBlock: w.Frankenstein},
	}
	for _, v := range w.Vals {
		if v.Power > 0 {
			doc.Validators = append(doc.Validators, tmtypes.GenesisValidator{
				Address: v.Val.TM.PubKey().Address(),
				PubKey:  v.Val.TM.PubKey(),
				Power:   v.Power,
				Name:    v.Name,
			})
		}
	}
	return doc
}

// ValByAddr finds the validator spec with the given validator address.
func (w *World) ValByAddr(a []byte) *ValSpec {
	for _, v := range w.Vals {
		if v.Val.Addr.Equal(a) {
			return v
		}
	}
	return nil
}
