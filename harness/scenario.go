package harness

import (
	"fmt"
	"time"

	abci "github.com/tendermint/tendermint/abci/types"
)

// DefaultDt is the default block time step.
const DefaultDt = 17 * time.Second

// BlockSpec describes one block of a scripted history.
type BlockSpec struct {
	Txs    []*TxSpec
	Raw    [][]byte      // additional raw transactions (appended after Txs)
	Dt     time.Duration // 0 = DefaultDt
	Absent []int         // indexes into World.Vals of validators that do not sign the previous block's commit
	Byz    []int         // indexes into World.Vals reported as byzantine (duplicate vote evidence)
	// NoCheck: deliver the transactions without sending them through CheckTx first
	NoCheck bool
	// MayFail: the transactions of this prefix block are EXPECTED to be refused (RunScenario does not insist)
	MayFail bool
}

// Scenario is a scripted history leading to a state in which Target (a transaction of kind Kind)
// is valid: it passes CheckTx and succeeds in DeliverTx when placed alone in the next block.
type Scenario struct {
	Kind   string
	Note   string
	World  func() *World
	Prefix func(w *World) []BlockSpec
	Target func(w *World) *TxSpec
	// Also: further transactions of the target's block, delivered after the target (nil = the target is alone).
	Also func(w *World) []*TxSpec
	// After: blocks to run after the target so that delayed effects (maturities, verdicts) happen.
	After int
}

// Run is a live execution: one chain, one lead replica.
type Run struct {
	W       *World
	C       *Chain
	R       *Replica
	Results []*BlockResult
	Checks  [][]TxRes // CheckTx results per block (nil when NoCheck)
}

// StartRun creates chain + lead replica (identity of validator 0) and runs InitChain.
func StartRun(w *World) (*Run, error) {
	return StartRunAs(w, IdentityOf(w.Vals[0]))
}

// StartRunAs is StartRun with an explicit node identity.
func StartRunAs(w *World, id NodeIdentity) (*Run, error) {
	c := NewChain(w)
	r, err := NewReplica(c, id)
	if err != nil {
		return nil, err
	}
	ir := r.InitChain()
	if r.Dead {
		r.Close()
		return nil, fmt.Errorf("InitChain panicked")
	}
	if len(ir.Validators) == 0 && len(c.Doc.Validators) > 0 {
		// the application signals a failed InitChain by returning an empty response
		r.Close()
		return nil, fmt.Errorf("InitChain failed (empty response)")
	}
	if err := c.AfterInit(ir); err != nil {
		r.Close()
		return nil, err
	}
	return &Run{W: w, C: c, R: r}, nil
}

// Close releases the replica.
func (x *Run) Close() { x.R.Close() }

func (x *Run) absentSet(idx []int) map[string]bool {
	if len(idx) == 0 {
		return nil
	}
	m := map[string]bool{}
	for _, i := range idx {
		m[string(x.W.Vals[i].Val.TM.PubKey().Address())] = true
	}
	return m
}

func (x *Run) byz(idx []int) []abci.Evidence {
	var out []abci.Evidence
	for _, i := range idx {
		v := x.W.Vals[i]
		out = append(out, abci.Evidence{
			Type:             "duplicate/vote",
			Validator:        abci.Validator{Address: v.Val.TM.PubKey().Address(), Power: v.Power},
			Height:           x.C.Height,
			Time:             x.C.Time,
			TotalVotingPower: x.C.Vals.TotalVotingPower(),
		})
	}
	return out
}

// Block executes one block on the lead replica (CheckTx for every tx first unless NoCheck).
func (x *Run) Block(b BlockSpec) (*BlockResult, error) {
	return x.BlockAt(b, true, nil)
}

// BlockAt is Block with a gap callback (see Replica.ExecBlock).
func (x *Run) BlockAt(b BlockSpec, wantDigest bool, at func(g Gap) bool) (*BlockResult, error) {
	req := x.Prepare(b)
	res := x.R.ExecBlock(req, wantDigest, at)
	if res == nil {
		return nil, nil
	}
	return res, x.Finish(res)
}

// Prepare sends the block's transactions through CheckTx (unless NoCheck) and lets the chain produce
// the block; the returned request can be executed (several times, after restarts) with x.R.ExecBlock.
func (x *Run) Prepare(b BlockSpec) *BlockReq {
	var txs [][]byte
	for _, t := range b.Txs {
		txs = append(txs, t.Bytes())
	}
	txs = append(txs, b.Raw...)
	var checks []TxRes
	if !b.NoCheck {
		for _, tx := range txs {
			checks = append(checks, x.R.CheckTx(tx))
		}
	}
	x.Checks = append(x.Checks, checks)
	dt := b.Dt
	if dt == 0 {
		dt = DefaultDt
	}
	return x.C.NextBlock(txs, dt, x.absentSet(b.Absent), x.byz(b.Byz))
}

// Finish records the lead replica's result of the block produced last and advances the chain.
func (x *Run) Finish(res *BlockResult) error {
	x.Results = append(x.Results, res)
	return x.C.AfterBlock(res)
}

// Empty runs n empty blocks.
func (x *Run) Empty(n int) error {
	for i := 0; i < n; i++ {
		if _, err := x.Block(BlockSpec{}); err != nil {
			return err
		}
	}
	return nil
}

// RunScenario executes prefix and target; it returns the run (caller closes), the CheckTx result and
// the DeliverTx result of the target.
func RunScenario(sc *Scenario) (*Run, TxRes, TxRes, error) {
	w := sc.World()
	x, err := StartRun(w)
	if err != nil {
		return nil, TxRes{}, TxRes{}, err
	}
	if sc.Prefix != nil {
		for i, b := range sc.Prefix(w) {
			res, err := x.Block(b)
			if err != nil {
				return x, TxRes{}, TxRes{}, fmt.Errorf("prefix block %d: %v", i+1, err)
			}
			if b.MayFail {
				continue
			}
			for j, t := range res.Txs {
				if t.Code != 0 {
					return x, TxRes{}, TxRes{}, fmt.Errorf("prefix block %d tx %d failed in DeliverTx: %s", i+1, j, t.Log)
				}
			}
			if !b.NoCheck {
				for j, t := range x.Checks[len(x.Checks)-1] {
					if t.Code != 0 {
						return x, TxRes{}, TxRes{}, fmt.Errorf("prefix block %d tx %d failed in CheckTx: %s", i+1, j, t.Log)
					}
				}
			}
		}
	}
	t := sc.Target(w)
	tb := BlockSpec{Txs: []*TxSpec{t}}
	if sc.Also != nil {
		tb.Txs = append(tb.Txs, sc.Also(w)...)
	}
	res, err := x.Block(tb)
	if err != nil {
		return x, TxRes{}, TxRes{}, err
	}
	chk := x.Checks[len(x.Checks)-1][0]
	dlv := res.Txs[0]
	for j, r := range res.Txs[1:] {
		if r.Code != 0 {
			return x, chk, dlv, fmt.Errorf("companion transaction %d of the target's block failed in DeliverTx: %s", j+1, r.Log)
		}
	}
	if sc.After > 0 {
		if err := x.Empty(sc.After); err != nil {
			return x, chk, dlv, err
		}
	}
	return x, chk, dlv, nil
}

// History returns the scenario as a plain list of blocks: prefix, the target alone in a block, After
// empty blocks. TargetBlock is the index of the target's block.
func (sc *Scenario) History(w *World) (blocks []BlockSpec, targetBlock int) {
	if sc.Prefix != nil {
		blocks = append(blocks, sc.Prefix(w)...)
	}
	targetBlock = len(blocks)
	tb := BlockSpec{Txs: []*TxSpec{sc.Target(w)}}
	if sc.Also != nil {
		tb.Txs = append(tb.Txs, sc.Also(w)...)
	}
	blocks = append(blocks, tb)
	for i := 0; i < sc.After; i++ {
		blocks = append(blocks, BlockSpec{})
	}
	return
}

// ID is a stable identifier of the scenario.
func (sc *Scenario) ID() string {
	if sc.Note == "" {
		return sc.Kind
	}
	return sc.Kind + "/" + sc.Note
}
