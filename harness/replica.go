package harness

import (
	"bytes"
	"crypto/sha256"
	"encoding/binary"
	"encoding/hex"
	"fmt"
	"os"
	"os/exec"
	"path/filepath"
	"sync/atomic"
	"time"
	_ "time/tzdata" // zone database embedded: the sandbox has none of its own

	abci "github.com/tendermint/tendermint/abci/types"
	tmrpccore "github.com/tendermint/tendermint/rpc/core"
	"github.com/tendermint/tendermint/state/txindex"
	"github.com/tendermint/tendermint/state/txindex/kv"
	tmtypes "github.com/tendermint/tendermint/types"
	dbm "github.com/tendermint/tm-db"

	"github.com/Oneledger/protocol/app"
	"github.com/Oneledger/protocol/app/node"
	"github.com/Oneledger/protocol/config"
	"github.com/Oneledger/protocol/identity"
	"github.com/Oneledger/protocol/utils/verifseam"
)

// ScratchRoot is where replica directories live (tmpfs).
var ScratchRoot = func() string {
	if d := os.Getenv("VERIF_SCRATCH"); d != "" {
		return d
	}
	return fmt.Sprintf("/dev/shm/verif-%d", os.Getpid())
}()

var dirSeq int64

// NodeIdentity is what distinguishes one node from another (never part of consensus input).
type NodeIdentity struct {
	Name      string
	Node      *Account
	Val       *Account
	Ecdsa     *Account
	IsWitness bool // forced value of the process-wide "I am an ethereum witness" flag while this replica runs
	// Natural: do not force the flag; use what the application's own start-up code computed for this
	// instance (witnesses.Init at process start: false on a node started before InitChain, and the
	// truth after a restart). IsWitness is ignored then.
	Natural bool
	OLTEST  string // value of env OLTEST at construction
	// OtherConfig: run with another node-local configuration file: aggressive pruning of old state
	// versions (keep the last version only), another log level, other service list and addresses
	OtherConfig bool
	// TZ: the operating system's time zone on this node ("" = UTC). time.Local is process-wide; it is set
	// whenever this replica is activated, like the other process-wide globals.
	TZ string
}

// IdentityOf returns the identity of validator i of world w (a validating, witnessing node).
func IdentityOf(v *ValSpec) NodeIdentity {
	return NodeIdentity{Name: v.Name, Node: v.Node, Val: v.Val, Ecdsa: v.Ecdsa, IsWitness: v.Witness}
}

// NaturalIdentityOf is IdentityOf without forcing the witness flag.
func NaturalIdentityOf(v *ValSpec) NodeIdentity {
	id := IdentityOf(v)
	id.Natural = true
	return id
}

// OutsiderIdentity is a non-validator, non-witness node with keys of its own.
func OutsiderIdentity() NodeIdentity {
	return NodeIdentity{Name: "outsider", Node: NewAccount("outsider-node"), Val: NewAccount("outsider-val"), Ecdsa: NewSecpAccount("outsider-ecdsa"), OLTEST: "1", OtherConfig: true, TZ: "America/New_York"}
}

// TxRes is the consensus-relevant part of a DeliverTx/CheckTx response.
type TxRes struct {
	Code      uint32
	Data      []byte
	GasUsed   int64
	GasWanted int64
	Log       string `json:"-"`
}

func (a TxRes) Equal(b TxRes) bool {
	return a.Code == b.Code && bytes.Equal(a.Data, b.Data) && a.GasUsed == b.GasUsed && a.GasWanted == b.GasWanted
}

func (a TxRes) String() string {
	return fmt.Sprintf("{code=%d data=%x gasUsed=%d gasWanted=%d}", a.Code, a.Data, a.GasUsed, a.GasWanted)
}

// BlockResult is the consensus-relevant transcript of one block.
type BlockResult struct {
	Height     int64
	Txs        []TxRes
	ValUpdates []abci.ValidatorUpdate
	AppHash    []byte
	Digest     string // logical digest of the committed key/value state (only if requested)
	Panicked   bool   // the application closed itself (recovered panic) during this block
}

// Equal compares two block transcripts on what the properties call consensus results.
func (a *BlockResult) Equal(b *BlockResult) bool { return a.Diff(b) == "" }

// Diff describes the first difference between two block transcripts ("" if none).
func (a *BlockResult) Diff(b *BlockResult) string {
	if a.Height != b.Height {
		return fmt.Sprintf("height %d vs %d", a.Height, b.Height)
	}
	if len(a.Txs) != len(b.Txs) {
		return fmt.Sprintf("h=%d: %d vs %d tx results", a.Height, len(a.Txs), len(b.Txs))
	}
	for i := range a.Txs {
		if !a.Txs[i].Equal(b.Txs[i]) {
			return fmt.Sprintf("h=%d tx#%d: %v vs %v", a.Height, i, a.Txs[i], b.Txs[i])
		}
	}
	if len(a.ValUpdates) != len(b.ValUpdates) {
		return fmt.Sprintf("h=%d: validator updates %v vs %v", a.Height, a.ValUpdates, b.ValUpdates)
	}
	for i := range a.ValUpdates {
		if a.ValUpdates[i].Power != b.ValUpdates[i].Power || !bytes.Equal(a.ValUpdates[i].PubKey.Data, b.ValUpdates[i].PubKey.Data) {
			return fmt.Sprintf("h=%d: validator update #%d %v vs %v", a.Height, i, a.ValUpdates[i], b.ValUpdates[i])
		}
	}
	if !bytes.Equal(a.AppHash, b.AppHash) {
		return fmt.Sprintf("h=%d: app hash %x vs %x", a.Height, a.AppHash, b.AppHash)
	}
	return ""
}

// Replica is one real application instance with its own data directory and identity.
type Replica struct {
	W     *World
	Chain *Chain
	ID    NodeIdentity
	Dir   string
	App   *app.App
	Index txindex.TxIndexer // Tendermint's tx index of this node (survives restarts)
	// IndexLag: number of blocks the index lags behind (0 = block h indexed right after Commit(h)).
	IndexLag int
	pending  [][]*tmtypes.TxResult
	Dead     bool // the app closed itself after a recovered panic
	natFlag  bool // the witness flag as computed by the start-up code of the current instance
	// Seam is this replica's nondeterminism context (map orders, clock offset, UUID node); only
	// consulted by binaries built with the seam rewriter (C01).
	Seam *verifseam.Ctx
	cur  struct {
		h   int64
		txs [][]byte
		res []abci.ResponseDeliverTx
	}
}

func newDir() string {
	n := atomic.AddInt64(&dirSeq, 1)
	d := filepath.Join(ScratchRoot, fmt.Sprintf("r%d", n))
	if err := os.MkdirAll(d, 0o755); err != nil {
		panic(err)
	}
	return d
}

// NewReplica builds a fresh application instance for chain c with identity id.
func NewReplica(c *Chain, id NodeIdentity) (*Replica, error) {
	r := &Replica{W: c.W, Chain: c, ID: id, Dir: newDir(), Index: kv.NewTxIndex(dbm.NewMemDB())}
	if err := r.open(); err != nil {
		return nil, err
	}
	return r, nil
}

func (r *Replica) open() error {
	cfg := config.DefaultServerConfig()
	cfg.Node.NodeName = r.ID.Name
	cfg.Node.LogLevel = 0
	if lv := os.Getenv("VERIF_LOGLEVEL"); lv != "" {
		fmt.Sscan(lv, &cfg.Node.LogLevel)
	}
	cfg.Node.DB = "goleveldb"
	if r.ID.OtherConfig {
		cfg.Node.ChainStateRotation = config.ChainStateRotationCfg{Recent: 0, Every: 0, Cycles: 0}
		cfg.Node.LogLevel = 1
		cfg.Node.Services = []string{"query"}
		cfg.Node.IndexAllTags = true
		cfg.Network.RPCAddress = "tcp://127.0.0.1:36657"
		cfg.Network.SDKAddress = "http://127.0.0.1:36631"
		cfg.Network.P2PAddress = "tcp://127.0.0.1:36611"
	}
	path := filepath.Join(r.Dir, config.FileName)
	if _, err := os.Stat(path); err != nil {
		if err := cfg.SaveFile(path); err != nil {
			return err
		}
	}
	cfg = &config.Server{}
	if err := cfg.ReadFile(path); err != nil {
		return err
	}
	nctx := node.NewContextForVerif(r.ID.Name, r.ID.Node.Priv, r.ID.Val.Priv, r.ID.Ecdsa.Priv)
	os.Setenv("OLTEST", r.ID.OLTEST)
	r.activate()
	a, err := app.NewAppForVerif(cfg, nctx, r.Chain.Doc, r.Chain.BS)
	if err != nil {
		return err
	}
	r.App = a
	r.Dead = false
	r.natFlag = identity.VerifIsETHWitness()
	return nil
}

var zones = map[string]*time.Location{"": time.UTC}

func zoneOf(name string) *time.Location {
	if l, ok := zones[name]; ok {
		return l
	}
	l, err := time.LoadLocation(name)
	if err != nil {
		panic("time zone " + name + ": " + err.Error())
	}
	zones[name] = l
	return l
}

// activate points the process-wide globals at this replica. Called before every ABCI call.
func (r *Replica) activate() {
	time.Local = zoneOf(r.ID.TZ)
	tmrpccore.SetTxIndexer(r.Index)
	verifseam.Use(r.Seam)
	if r.ID.Natural {
		identity.VerifSetETHWitness(r.natFlag)
	} else {
		identity.VerifSetETHWitness(r.ID.IsWitness)
	}
}

func (r *Replica) checkDead() {
	if !r.Dead && r.App.VerifDBClosed() {
		r.Dead = true
	}
}

// InitChain sends the chain's InitChain request.
func (r *Replica) InitChain() abci.ResponseInitChain {
	r.activate()
	res := r.App.ABCI().InitChain(r.Chain.Init)
	r.checkDead()
	return res
}

func (r *Replica) Info() abci.ResponseInfo {
	r.activate()
	return r.App.ABCI().Info(abci.RequestInfo{})
}

func (r *Replica) CheckTx(tx []byte) TxRes {
	r.activate()
	if r.Dead {
		return TxRes{Code: 999}
	}
	res := r.App.ABCI().CheckTx(abci.RequestCheckTx{Tx: tx, Type: abci.CheckTxType_New})
	r.checkDead()
	return TxRes{Code: res.Code, Data: res.Data, GasUsed: res.GasUsed, GasWanted: res.GasWanted, Log: res.Log}
}

func (r *Replica) Begin(b *BlockReq) {
	r.activate()
	r.cur.h, r.cur.txs, r.cur.res = b.Height, nil, nil
	if r.Dead {
		return
	}
	r.App.ABCI().BeginBlock(b.Begin)
	r.checkDead()
}

func (r *Replica) Deliver(tx []byte) TxRes {
	r.activate()
	if r.Dead {
		return TxRes{Code: 999}
	}
	res := r.App.ABCI().DeliverTx(abci.RequestDeliverTx{Tx: tx})
	r.cur.txs = append(r.cur.txs, tx)
	r.cur.res = append(r.cur.res, res)
	r.checkDead()
	return TxRes{Code: res.Code, Data: res.Data, GasUsed: res.GasUsed, GasWanted: res.GasWanted, Log: res.Log}
}

func (r *Replica) End(b *BlockReq) []abci.ValidatorUpdate {
	r.activate()
	if r.Dead {
		return nil
	}
	res := r.App.ABCI().EndBlock(b.End)
	r.checkDead()
	return res.ValidatorUpdates
}

// Commit commits and then feeds the node's tx index (lagging by IndexLag blocks).
func (r *Replica) Commit() []byte {
	r.activate()
	if r.Dead {
		return nil
	}
	res := r.App.ABCI().Commit()
	r.checkDead()
	var batch []*tmtypes.TxResult
	for i, tx := range r.cur.txs {
		batch = append(batch, &tmtypes.TxResult{Height: r.cur.h, Index: uint32(i), Tx: tx, Result: r.cur.res[i]})
	}
	r.pending = append(r.pending, batch)
	for len(r.pending) > r.IndexLag {
		for _, t := range r.pending[0] {
			_ = r.Index.Index(t)
		}
		r.pending = r.pending[1:]
	}
	return res.Data
}

// Gap identifies a point between two consensus calls of a block.
type Gap struct {
	Height int64
	// Pos: 0 = before BeginBlock, 1 = after BeginBlock, 1+k = after the k-th DeliverTx,
	// 2+n = after EndBlock, 3+n = after Commit (n = number of txs in the block).
	Pos int
}

// Gaps returns the number of gap positions of a block with n transactions.
func Gaps(n int) int { return n + 4 }

// ExecBlock runs one block; at is called at every gap (may be nil). If at returns false the block is
// abandoned at that gap (used by crash exploration) and ExecBlock returns nil.
func (r *Replica) ExecBlock(b *BlockReq, wantDigest bool, at func(g Gap) bool) *BlockResult {
	n := len(b.Txs)
	call := func(pos int) bool {
		if at == nil {
			return true
		}
		return at(Gap{Height: b.Height, Pos: pos})
	}
	res := &BlockResult{Height: b.Height}
	if !call(0) {
		return nil
	}
	r.Begin(b)
	if !call(1) {
		return nil
	}
	for k, tx := range b.Txs {
		res.Txs = append(res.Txs, r.Deliver(tx))
		if !call(2 + k) {
			return nil
		}
	}
	res.ValUpdates = r.End(b)
	if !call(2 + n) {
		return nil
	}
	res.AppHash = r.Commit()
	res.Panicked = r.Dead
	if wantDigest && !r.Dead {
		res.Digest = r.Digest()
	}
	if !call(3 + n) {
		return res
	}
	return res
}

// KV is one committed key/value pair.
type KV struct{ K, V []byte }

// Dump returns the committed tree's content in key order.
func (r *Replica) Dump() []KV {
	var out []KV
	r.App.VerifChainState().Iterate(func(k, v []byte) bool {
		out = append(out, KV{append([]byte(nil), k...), append([]byte(nil), v...)})
		return false
	})
	return out
}

// DigestOf hashes a dump.
func DigestOf(d []KV) string {
	h := sha256.New()
	var l [8]byte
	for _, kv := range d {
		binary.BigEndian.PutUint64(l[:], uint64(len(kv.K)))
		h.Write(l[:])
		h.Write(kv.K)
		binary.BigEndian.PutUint64(l[:], uint64(len(kv.V)))
		h.Write(l[:])
		h.Write(kv.V)
	}
	return hex.EncodeToString(h.Sum(nil)[:16])
}

// Digest is the logical digest (independent of the IAVL shape) of the working tree.
func (r *Replica) Digest() string { return DigestOf(r.Dump()) }

// Close closes the application and removes its directory.
func (r *Replica) Close() {
	r.closeApp()
	os.RemoveAll(r.Dir)
}

func (r *Replica) closeApp() {
	defer func() { recover() }()
	if r.App != nil {
		a := r.App
		r.App = nil
		a.VerifCloseStores()
		a.Close()
	}
}

// CrashRestart simulates a process death now: the data directory is byte-copied while the instance
// is still open (nothing is flushed or closed first), the old instance is then discarded, and a new
// application is started on the copy through the real start-up code. The tx index and the block store
// are Tendermint's and survive.
func (r *Replica) CrashRestart() error {
	nd := newDir()
	os.RemoveAll(nd)
	if out, err := exec.Command("cp", "-a", r.Dir, nd).CombinedOutput(); err != nil {
		return fmt.Errorf("cp: %v: %s", err, out)
	}
	os.Remove(filepath.Join(nd, "nodedata", "chainstate.db", "LOCK"))
	old := r.Dir
	r.closeApp()
	os.RemoveAll(old)
	r.Dir = nd
	// a process death loses the index entries that were still queued
	r.pending = nil
	return r.open()
}

// RemoveScratch removes the whole scratch root of this process.
func RemoveScratch() { os.RemoveAll(ScratchRoot) }
