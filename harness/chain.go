package harness

import (
	"fmt"
	"time"

	abci "github.com/tendermint/tendermint/abci/types"
	"github.com/tendermint/tendermint/crypto/tmhash"
	"github.com/tendermint/tendermint/store"
	tmtypes "github.com/tendermint/tendermint/types"
	"github.com/tendermint/tendermint/version"
	dbm "github.com/tendermint/tm-db"

	"github.com/Oneledger/protocol/config"
)

// BlockReq is everything Tendermint sends to the application for one block.
type BlockReq struct {
	Height int64
	Begin  abci.RequestBeginBlock
	Txs    [][]byte
	End    abci.RequestEndBlock
}

// Chain is the Tendermint stand-in: it owns the block store and the validator sets (with Tendermint's
// own two-block delay and acceptance rule) and turns (txs, time step, vote pattern) into the requests
// a real node would send. It is driven by the responses of one "lead" replica; any other replica is fed
// the very same requests.
type Chain struct {
	W    *World
	Doc  *config.GenesisDoc
	BS   *store.BlockStore
	Init abci.RequestInitChain

	Height      int64
	Time        time.Time
	AppHash     []byte
	LastBlockID tmtypes.BlockID
	LastResHash []byte

	LastVals *tmtypes.ValidatorSet // validators of block Height (signers of the commit in block Height+1)
	Vals     *tmtypes.ValidatorSet // validators of block Height+1
	NextVals *tmtypes.ValidatorSet // validators of block Height+2

	Blocks []*BlockReq
	// Halt is set when the application returned validator updates Tendermint would refuse.
	Halt error
}

// NewChain prepares the InitChain request for world w.
func NewChain(w *World) *Chain {
	doc := w.GenesisDoc()
	c := &Chain{W: w, Doc: doc, BS: store.NewBlockStore(dbm.NewMemDB()), Time: doc.GenesisTime}
	vals := make([]*tmtypes.Validator, 0, len(doc.Validators))
	for _, gv := range doc.Validators {
		vals = append(vals, tmtypes.NewValidator(gv.PubKey, gv.Power))
	}
	vs := tmtypes.NewValidatorSet(vals)
	c.Vals = vs
	c.NextVals = vs.CopyIncrementProposerPriority(1)
	c.LastVals = tmtypes.NewValidatorSet(nil)
	c.Init = abci.RequestInitChain{
		Time:            doc.GenesisTime,
		ChainId:         doc.ChainID,
		ConsensusParams: tmtypes.TM2PB.ConsensusParams(doc.ConsensusParams),
		Validators:      tmtypes.TM2PB.ValidatorUpdates(vs),
		AppStateBytes:   doc.AppState,
	}
	return c
}

// AfterInit applies the lead replica's InitChain response the way Tendermint's handshaker does.
func (c *Chain) AfterInit(res abci.ResponseInitChain) error {
	if len(res.Validators) > 0 {
		vals, err := tmtypes.PB2TM.ValidatorUpdates(res.Validators)
		if err != nil {
			return err
		}
		c.Vals = tmtypes.NewValidatorSet(vals)
		c.NextVals = tmtypes.NewValidatorSet(vals)
	} else if len(c.Doc.Validators) == 0 {
		return fmt.Errorf("validator set is nil in genesis and still empty after InitChain")
	}
	return nil
}

// NextBlock builds block Height+1. absent lists validator addresses (hex of the 20 bytes, as string
// of raw bytes) that did NOT sign the last commit.
func (c *Chain) NextBlock(txs [][]byte, dt time.Duration, absent map[string]bool, byz []abci.Evidence) *BlockReq {
	h := c.Height + 1
	t := c.Time.Add(dt)
	// last commit: signatures of the validators of block h-1
	var sigs []tmtypes.CommitSig
	var votes []abci.VoteInfo
	if h > 1 {
		for _, v := range c.LastVals.Validators {
			signed := !absent[string(v.Address)]
			if signed {
				sigs = append(sigs, tmtypes.NewCommitSigForBlock([]byte("sig"), v.Address, c.Time))
			} else {
				sigs = append(sigs, tmtypes.NewCommitSigAbsent())
			}
			votes = append(votes, abci.VoteInfo{
				Validator:       tmtypes.TM2PB.Validator(v),
				SignedLastBlock: signed,
			})
		}
	}
	lastCommit := tmtypes.NewCommit(h-1, 0, c.LastBlockID, sigs)
	ttxs := make([]tmtypes.Tx, len(txs))
	for i, tx := range txs {
		ttxs[i] = tmtypes.Tx(tx)
	}
	block := tmtypes.MakeBlock(h, ttxs, lastCommit, nil)
	proposer := c.Vals.GetProposer()
	block.Header.Populate(
		version.Consensus{Block: version.BlockProtocol, App: 0}, c.Doc.ChainID,
		t, c.LastBlockID,
		c.Vals.Hash(), c.NextVals.Hash(),
		c.Doc.ConsensusParams.Hash(), c.AppHash, c.LastResHash,
		proposer.Address,
	)
	parts := block.MakePartSet(tmtypes.BlockPartSizeBytes)
	blockID := tmtypes.BlockID{Hash: block.Hash(), PartsHeader: parts.Header()}
	// the commit "seen" for this block: everybody of the current set signs
	var seen []tmtypes.CommitSig
	for _, v := range c.Vals.Validators {
		seen = append(seen, tmtypes.NewCommitSigForBlock([]byte("sig"), v.Address, t))
	}
	c.BS.SaveBlock(block, parts, tmtypes.NewCommit(h, 0, blockID, seen))

	req := &BlockReq{
		Height: h,
		Begin: abci.RequestBeginBlock{
			Hash:                block.Hash(),
			Header:              tmtypes.TM2PB.Header(&block.Header),
			LastCommitInfo:      abci.LastCommitInfo{Round: 0, Votes: votes},
			ByzantineValidators: byz,
		},
		Txs: txs,
		End: abci.RequestEndBlock{Height: h},
	}
	c.Blocks = append(c.Blocks, req)
	c.Height = h
	c.Time = t
	c.LastBlockID = blockID
	return req
}

// AfterBlock applies the lead replica's results of block Height the way Tendermint's updateState does.
// A non-nil error means Tendermint would have halted (invalid validator updates).
func (c *Chain) AfterBlock(res *BlockResult) error {
	ups := res.ValUpdates
	for _, u := range ups {
		if u.Power < 0 {
			c.Halt = fmt.Errorf("voting power can't be negative %v", u)
			return c.Halt
		}
		if u.Power > 0 && !c.Doc.ConsensusParams.Validator.IsValidPubkeyType(u.PubKey.Type) {
			c.Halt = fmt.Errorf("validator pubkey type %s unsupported", u.PubKey.Type)
			return c.Halt
		}
	}
	tmUps, err := tmtypes.PB2TM.ValidatorUpdates(ups)
	if err != nil {
		c.Halt = err
		return err
	}
	nVals := c.NextVals.Copy()
	if len(tmUps) > 0 {
		if err := nVals.UpdateWithChangeSet(tmUps); err != nil {
			c.Halt = fmt.Errorf("error changing validator set: %v", err)
			return c.Halt
		}
	}
	nVals.IncrementProposerPriority(1)
	c.LastVals = c.Vals
	c.Vals = c.NextVals.Copy()
	c.NextVals = nVals
	c.AppHash = res.AppHash
	// results hash as Tendermint 0.33 computes it (code + data only)
	var rs [][]byte
	for _, r := range res.Txs {
		rs = append(rs, append([]byte{byte(r.Code), byte(r.Code >> 8), byte(r.Code >> 16), byte(r.Code >> 24)}, r.Data...))
	}
	hsh := tmhash.New()
	for _, b := range rs {
		hsh.Write(b)
	}
	c.LastResHash = hsh.Sum(nil)
	return nil
}

// CanSkip reports whether the validators in absent may all miss a commit while the block is still
// committed (more than 2/3 of the power of the signing set must sign).
func (c *Chain) CanSkip(absent map[string]bool) bool {
	if c.Height < 1 {
		return len(absent) == 0
	}
	var tot, signed int64
	set := c.LastVals
	for _, v := range set.Validators {
		tot += v.VotingPower
		if !absent[string(v.Address)] {
			signed += v.VotingPower
		}
	}
	return signed*3 > tot*2
}

// SignersOfNext returns the validator set whose signatures the next block's LastCommit carries.
func (c *Chain) SignersOfNext() *tmtypes.ValidatorSet { return c.LastVals }
