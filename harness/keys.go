package harness

import (
	"crypto/ecdsa"
	"crypto/sha256"
	"math/big"

	ethcrypto "github.com/ethereum/go-ethereum/crypto"
	"github.com/tendermint/tendermint/crypto/ed25519"
	"github.com/tendermint/tendermint/crypto/secp256k1"

	"github.com/Oneledger/protocol/data/keys"
)

// Account is a deterministic key pair: nothing in a run depends on a random source.
type Account struct {
	Name string
	Priv keys.PrivateKey
	Pub  keys.PublicKey
	Addr keys.Address
	TM   ed25519.PrivKeyEd25519 // only for ED25519 accounts
	Eth  *ecdsa.PrivateKey      // only for ETHSECP accounts
}

// NewAccount derives an ED25519 account from a seed string.
func NewAccount(name string) *Account {
	tm := ed25519.GenPrivKeyFromSecret([]byte("verif-seed-" + name))
	pubTM := tm.PubKey().(ed25519.PubKeyEd25519)
	priv, err := keys.GetPrivateKeyFromBytes(tm[:], keys.ED25519)
	if err != nil {
		panic(err)
	}
	pub, err := keys.GetPublicKeyFromBytes(pubTM[:], keys.ED25519)
	if err != nil {
		panic(err)
	}
	h, _ := pub.GetHandler()
	return &Account{Name: name, Priv: priv, Pub: pub, Addr: h.Address(), TM: tm}
}

// NewSecpAccount derives a SECP256K1 account (32-byte private key).
func NewSecpAccount(name string) *Account {
	d := secpScalar("verif-secp-" + name)
	var tm secp256k1.PrivKeySecp256k1
	copy(tm[:], d)
	pubTM := tm.PubKey().(secp256k1.PubKeySecp256k1)
	priv, err := keys.GetPrivateKeyFromBytes(d, keys.SECP256K1)
	if err != nil {
		panic(err)
	}
	pub, err := keys.GetPublicKeyFromBytes(pubTM[:], keys.SECP256K1)
	if err != nil {
		panic(err)
	}
	h, _ := pub.GetHandler()
	return &Account{Name: name, Priv: priv, Pub: pub, Addr: h.Address()}
}

// NewEthAccount derives an ETHSECP account (used by OLVM and by embedded Ethereum transactions).
func NewEthAccount(name string) *Account {
	d := secpScalar("verif-eth-" + name)
	ek, err := ethcrypto.ToECDSA(d)
	if err != nil {
		panic(err)
	}
	priv, err := keys.GetPrivateKeyFromBytes(d, keys.ETHSECP)
	if err != nil {
		panic(err)
	}
	ph, _ := priv.GetHandler()
	pub := ph.PubKey()
	h, err := pub.GetHandler()
	if err != nil {
		panic(err)
	}
	return &Account{Name: name, Priv: priv, Pub: pub, Addr: h.Address(), Eth: ek}
}

func secpScalar(seed string) []byte {
	n := ethcrypto.S256().Params().N
	for i := 0; ; i++ {
		s := sha256.Sum256([]byte(seed + string(rune('a'+i))))
		k := new(big.Int).SetBytes(s[:])
		if k.Sign() > 0 && k.Cmp(n) < 0 {
			out := make([]byte, 32)
			kb := k.Bytes()
			copy(out[32-len(kb):], kb)
			return out
		}
	}
}

// Sign signs msg with the account key.
func (a *Account) Sign(msg []byte) []byte {
	h, err := a.Priv.GetHandler()
	if err != nil {
		panic(err)
	}
	if a.Eth != nil && len(msg) != 32 {
		// ETHSECP keys sign 32-byte digests only
		d := sha256.Sum256(msg)
		msg = d[:]
	}
	s, err := h.Sign(msg)
	if err != nil {
		panic(err)
	}
	return s
}
