// Package store is Engine S: exhaustive, bounded model checking of the layered state store of
// /repo/storage (State -> sessionCache/cacheSession [-> GasStore] -> ChainState/IAVL) against a plain
// map reference model, for property C09.
package store

import (
	"fmt"
	"strconv"
	"strings"
)

// Kind is an operation kind of the store interface alphabet.
type Kind uint8

const (
	Set Kind = iota
	Delete
	Get
	Exists
	Begin       // State.BeginTxSession
	CommitTx    // State.CommitTxSession
	DiscardTx   // State.DiscardTxSession
	CommitBlock // State.Commit (+ a fresh State for the next block, as app.blockBeginner does)
	Reopen      // new ChainState over the same DB (+SetupRotation) and a new State: process restart
	GetVersioned
)

var kindNames = [...]string{"Set", "Delete", "Get", "Exists", "BeginTxSession", "CommitTxSession", "DiscardTxSession", "Commit", "Reopen", "GetVersioned"}

func (k Kind) String() string { return kindNames[k] }

// MaxKeys bounds the key alphabet (the model uses fixed arrays).
const MaxKeys = 6

// Op is one operation instance. Key and Val index into the alphabet's Keys / Vals; Ver is the offset
// below the last committed version (0 = last, 1 = last-1, ...).
type Op struct {
	K   Kind
	Key int8
	Val int8
	Ver int8
}

// IsRead reports whether the operation is a read, existence check or versioned read.
func (o Op) IsRead() bool { return o.K == Get || o.K == Exists || o.K == GetVersioned }

// Alphabet is a finite operation alphabet over a small key and value set.
type Alphabet struct {
	Name string
	Keys []string
	Vals []string
	Ops  []Op

	keyB [][]byte
	valB [][]byte
	// indices of some ops, -1 if not in the alphabet
	getOf    []int // per key
	existsOf []int // per key
}

func (a *Alphabet) finish() *Alphabet {
	if len(a.Keys) > MaxKeys {
		panic("too many keys")
	}
	a.keyB = nil
	a.valB = nil
	for _, k := range a.Keys {
		a.keyB = append(a.keyB, []byte(k))
	}
	for _, v := range a.Vals {
		a.valB = append(a.valB, []byte(v))
	}
	a.getOf = make([]int, len(a.Keys))
	a.existsOf = make([]int, len(a.Keys))
	for i := range a.Keys {
		a.getOf[i], a.existsOf[i] = -1, -1
	}
	for i, o := range a.Ops {
		if o.K == Get {
			a.getOf[o.Key] = i
		}
		if o.K == Exists {
			a.existsOf[o.Key] = i
		}
	}
	return a
}

// OpString renders an op with this alphabet's key/value names, e.g. "Set(a,1)", "GetVersioned(last-1,b)".
func (a *Alphabet) OpString(o Op) string {
	switch o.K {
	case Set:
		return fmt.Sprintf("Set(%s,%s)", a.Keys[o.Key], a.Vals[o.Val])
	case Delete, Get, Exists:
		return fmt.Sprintf("%s(%s)", o.K, a.Keys[o.Key])
	case GetVersioned:
		v := "last"
		if o.Ver > 0 {
			v = "last-" + strconv.Itoa(int(o.Ver))
		}
		return fmt.Sprintf("GetVersioned(%s,%s)", v, a.Keys[o.Key])
	}
	return o.K.String()
}

// Strings renders a sequence of alphabet indices.
func (a *Alphabet) Strings(seq []uint8) []string {
	out := make([]string, len(seq))
	for i, x := range seq {
		out[i] = a.OpString(a.Ops[x])
	}
	return out
}

// FullAlphabet builds the complete alphabet over the given keys, values and version offsets.
func FullAlphabet(name string, keys, vals []string, verOffsets int) *Alphabet {
	a := &Alphabet{Name: name, Keys: keys, Vals: vals}
	for k := range keys {
		for v := range vals {
			a.Ops = append(a.Ops, Op{K: Set, Key: int8(k), Val: int8(v)})
		}
	}
	for _, kind := range []Kind{Delete, Get, Exists} {
		for k := range keys {
			a.Ops = append(a.Ops, Op{K: kind, Key: int8(k)})
		}
	}
	for _, kind := range []Kind{Begin, CommitTx, DiscardTx, CommitBlock, Reopen} {
		a.Ops = append(a.Ops, Op{K: kind, Key: -1})
	}
	for ver := 0; ver < verOffsets; ver++ {
		for k := range keys {
			a.Ops = append(a.Ops, Op{K: GetVersioned, Key: int8(k), Ver: int8(ver)})
		}
	}
	return a.finish()
}

// MainAlphabet is the C09 alphabet: keys {a,b}, values {1,2}, versions {last,last-1}: 19 op instances.
func MainAlphabet() *Alphabet {
	return FullAlphabet("K2V2", []string{"a", "b"}, []string{"1", "2"}, 2)
}

// OrderAlphabet is a second, narrower alphabet with three keys and one value. With two keys an IAVL tree
// has one possible shape, so the order in which a block's writes reach the tree cannot show in the root
// hash; three keys are the smallest alphabet in which it does (insert a,b,c and c,b,a give different
// trees). Used for the hash clauses (twin equality, run-to-run determinism), 8 op instances.
func OrderAlphabet() *Alphabet {
	a := &Alphabet{Name: "K3V1", Keys: []string{"a", "b", "c"}, Vals: []string{"1"}}
	a.Ops = []Op{
		{K: Set, Key: 0}, {K: Set, Key: 1}, {K: Set, Key: 2},
		{K: Delete, Key: 1},
		{K: Begin, Key: -1}, {K: CommitTx, Key: -1}, {K: DiscardTx, Key: -1}, {K: CommitBlock, Key: -1},
	}
	return a.finish()
}

// RandomAlphabet is the alphabet of the long random sequences: 6 keys, 3 values, versions last..last-3.
func RandomAlphabet() *Alphabet {
	return FullAlphabet("K6V3", []string{"a", "b", "c", "d", "e", "f"}, []string{"1", "2", "3"}, 4)
}

// AlphabetByName returns one of the built-in alphabets.
func AlphabetByName(n string) *Alphabet {
	switch n {
	case "K2V2":
		return MainAlphabet()
	case "K3V1":
		return OrderAlphabet()
	case "K6V3":
		return RandomAlphabet()
	}
	return nil
}

// ParseOps builds an ad-hoc alphabet from rendered ops (used by -replay so that a replay file is
// self-contained: it does not depend on the built-in alphabets).
func ParseOps(ops ...[]string) (*Alphabet, [][]uint8, error) {
	a := &Alphabet{Name: "replay"}
	keyIdx := map[string]int{}
	valIdx := map[string]int{}
	opIdx := map[Op]int{}
	key := func(s string) int8 {
		if i, ok := keyIdx[s]; ok {
			return int8(i)
		}
		keyIdx[s] = len(a.Keys)
		a.Keys = append(a.Keys, s)
		return int8(len(a.Keys) - 1)
	}
	val := func(s string) int8 {
		if i, ok := valIdx[s]; ok {
			return int8(i)
		}
		valIdx[s] = len(a.Vals)
		a.Vals = append(a.Vals, s)
		return int8(len(a.Vals) - 1)
	}
	var seqs [][]uint8
	for _, list := range ops {
		seq := []uint8{}
		for _, s := range list {
			name, args := s, ""
			if i := strings.IndexByte(s, '('); i >= 0 && strings.HasSuffix(s, ")") {
				name, args = s[:i], s[i+1:len(s)-1]
			}
			kind := -1
			for i, n := range kindNames {
				if n == name {
					kind = i
				}
			}
			if kind < 0 {
				return nil, nil, fmt.Errorf("unknown op %q", s)
			}
			o := Op{K: Kind(kind), Key: -1}
			parts := strings.Split(args, ",")
			switch o.K {
			case Set:
				if len(parts) != 2 {
					return nil, nil, fmt.Errorf("bad op %q", s)
				}
				o.Key, o.Val = key(parts[0]), val(parts[1])
			case Delete, Get, Exists:
				if args == "" {
					return nil, nil, fmt.Errorf("bad op %q", s)
				}
				o.Key = key(args)
			case GetVersioned:
				if len(parts) != 2 || !strings.HasPrefix(parts[0], "last") {
					return nil, nil, fmt.Errorf("bad op %q", s)
				}
				if rest := strings.TrimPrefix(parts[0], "last"); rest != "" {
					n, err := strconv.Atoi(strings.TrimPrefix(rest, "-"))
					if err != nil {
						return nil, nil, fmt.Errorf("bad op %q", s)
					}
					o.Ver = int8(n)
				}
				o.Key = key(parts[1])
			}
			i, ok := opIdx[o]
			if !ok {
				i = len(a.Ops)
				opIdx[o] = i
				a.Ops = append(a.Ops, o)
			}
			seq = append(seq, uint8(i))
		}
		seqs = append(seqs, seq)
	}
	if len(a.Keys) > MaxKeys {
		return nil, nil, fmt.Errorf("more than %d keys", MaxKeys)
	}
	return a.finish(), seqs, nil
}

// Legal reports whether the sequence stays inside the documented use of the interface. The only
// excluded call is CommitTxSession without an open session, which State.CommitTxSession answers with
// panic("no tx session in state") by design. Everything else is used by the application and therefore
// legal: BeginTxSession while a session is open (app/internalTX.go `continue` paths; the open session is
// dropped), DiscardTxSession without a session (app/controller.go doEthTransitions), block Commit or
// Reopen with an open session (the session is dropped).
func (a *Alphabet) Legal(seq []uint8) bool {
	in := false
	for _, x := range seq {
		switch a.Ops[x].K {
		case Begin:
			in = true
		case CommitTx:
			if !in {
				return false
			}
			in = false
		case DiscardTx, CommitBlock, Reopen:
			in = false
		}
	}
	return true
}

// StripReads returns the sequence without Get/Exists/GetVersioned (twin 1).
func (a *Alphabet) StripReads(seq []uint8) []uint8 {
	out := make([]uint8, 0, len(seq))
	for _, x := range seq {
		if !a.Ops[x].IsRead() {
			out = append(out, x)
		}
	}
	return out
}

// StripDiscarded returns the sequence without its discarded sessions (twin 2): every session that ends
// in DiscardTxSession, or is dropped by a following BeginTxSession / Commit / Reopen, is removed
// together with everything issued inside it (the op that ends it is kept unless it is the
// DiscardTxSession itself). A DiscardTxSession with no session open is removed as well. A session still
// open at the end of the sequence is kept.
func (a *Alphabet) StripDiscarded(seq []uint8) []uint8 {
	out := make([]uint8, 0, len(seq))
	start := -1 // index in out where the open session began
	for _, x := range seq {
		switch a.Ops[x].K {
		case Begin:
			if start >= 0 {
				out = out[:start]
			}
			start = len(out)
			out = append(out, x)
		case CommitTx:
			start = -1
			out = append(out, x)
		case DiscardTx:
			if start >= 0 {
				out = out[:start]
			}
			start = -1
		case CommitBlock, Reopen:
			if start >= 0 {
				out = out[:start]
			}
			start = -1
			out = append(out, x)
		default:
			out = append(out, x)
		}
	}
	return out
}

// WithRereads returns the sequence with a Get and an Exists of every key after every op (twin 3).
// The alphabet must contain Get and Exists for every key.
func (a *Alphabet) WithRereads(seq []uint8) []uint8 {
	out := make([]uint8, 0, len(seq)*(1+2*len(a.Keys)))
	for _, x := range seq {
		out = append(out, x)
		for k := range a.Keys {
			if a.getOf[k] >= 0 {
				out = append(out, uint8(a.getOf[k]))
			}
			if a.existsOf[k] >= 0 {
				out = append(out, uint8(a.existsOf[k]))
			}
		}
	}
	return out
}

// HasRereadOps reports whether twin 3 can be built in this alphabet.
func (a *Alphabet) HasRereadOps() bool {
	for k := range a.Keys {
		if a.getOf[k] < 0 {
			return false
		}
	}
	return true
}

// sessionOpenAfter reports whether a transaction session is open after the (legal) sequence.
func (a *Alphabet) sessionOpenAfter(seq []uint8) bool {
	in := false
	for _, x := range seq {
		switch a.Ops[x].K {
		case Begin:
			in = true
		case CommitTx, DiscardTx, CommitBlock, Reopen:
			in = false
		}
	}
	return in
}

// readKinds names the kinds of read ops occurring in seq, e.g. "Get+Exists".
func (a *Alphabet) readKinds(seq []uint8) string {
	var has [GetVersioned + 1]bool
	for _, x := range seq {
		has[a.Ops[x].K] = true
	}
	ks := ""
	for _, k := range []Kind{Get, Exists, GetVersioned} {
		if has[k] {
			if ks != "" {
				ks += "+"
			}
			ks += k.String()
		}
	}
	return ks
}

func (a *Alphabet) hasReads(seq []uint8) bool {
	for _, x := range seq {
		if a.Ops[x].IsRead() {
			return true
		}
	}
	return false
}
