package store

import (
	"fmt"
	"testing"
	"time"
)

func TestProbe(t *testing.T) {
	a := MainAlphabet()
	fmt.Println("ops", len(a.Ops), a.Strings([]uint8{0, 1, 2, 3, 4, 5, 6, 7, 8, 9, 10, 11, 12, 13, 14, 15, 16, 17, 18}))
	r := NewRunner(a, Config{Recent: 0})
	r.KeepTrace = true
	al, ss, err := ParseOps([]string{"Set(a,1)", "Commit", "Delete(a)", "Get(a)", "Exists(a)", "BeginTxSession", "Set(a,2)", "Get(a)", "Delete(a)", "Get(a)", "Exists(a)", "DiscardTxSession", "Get(a)", "Commit", "Get(a)", "GetVersioned(last,a)", "GetVersioned(last-1,a)", "Reopen", "Get(a)", "Delete(b)", "Commit", "Commit"})
	if err != nil {
		t.Fatal(err)
	}
	for _, cfg := range []Config{{Recent: 0}, {Gas: true, Recent: 2}} {
		r = NewRunner(al, cfg)
		r.KeepTrace = true
		r.Run(ss[0])
		fmt.Println(cfg)
		for _, l := range r.Trace {
			fmt.Println(l)
		}
	}
	// timing
	r = NewRunner(a, Config{Recent: 2})
	seq := []uint8{0, 8, 15, 6, 16}
	t0 := time.Now()
	n := 200000
	for i := 0; i < n; i++ {
		seq[0] = uint8(i % 19)
		seq[2] = uint8((i / 19) % 19)
		if !a.Legal(seq) {
			continue
		}
		r.Run(seq)
	}
	fmt.Println("per seq", time.Since(t0)/time.Duration(n))
}
