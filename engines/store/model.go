package store

// The reference model: a transactional, versioned map. Three layered maps (open transaction session,
// current block, last commit) plus the list of committed versions. Deliberately boring.

// cell is the content of one key in one layer: 0 = not touched in this layer / absent in a snapshot,
// -1 = deleted in this layer, v+1 = value index v.
type cell int8

const deleted cell = -1

// layer is one overlay (session or block): per-key cells plus first-write order (the order is not used
// for any expectation; it is part of the model state so that the state-merging search does not merge two
// prefixes whose pending writes will reach the tree in different orders).
type layer struct {
	c     [MaxKeys]cell
	order [MaxKeys]int8
	n     int8
}

func (l *layer) put(k int8, c cell) {
	if l.c[k] == 0 {
		l.order[l.n] = k
		l.n++
	}
	l.c[k] = c
}

func (l *layer) reset() { *l = layer{} }

// snapshot is the full content of one committed version (0 = absent, v+1 = value index v).
type snapshot [MaxKeys]cell

// Scope says which layer decided a read.
type Scope uint8

const (
	ScopeNone Scope = iota // never written anywhere in scope: absent
	ScopeCommit
	ScopeBlock
	ScopeSession
)

func (s Scope) String() string { return [...]string{"none", "commit", "block", "session"}[s] }

// Expect is what the model says a read must return.
type Expect struct {
	Present bool
	Val     int8  // value index if Present
	Scope   Scope // the layer holding the most recent write of the key
	Deleted bool  // absent because the most recent write in scope is a delete
	Pruned  bool  // versioned read of a version the configured rotation has released: absent or the old value
	NoVer   bool  // versioned read of a version that never existed
}

// Model is the reference state.
type Model struct {
	NK     int
	Recent int64

	versions []snapshot // versions[i] is version i+1
	block    layer
	sess     layer
	inSess   bool

	// hints for classifying a wrong read (not part of the state): the last thing a discarded session /
	// a block dropped by Reopen wrote to each key
	ghostSess  [MaxKeys]cell
	ghostBlock [MaxKeys]cell
}

// NewModel returns the empty store.
func NewModel(nkeys int, recent int64) *Model { return &Model{NK: nkeys, Recent: recent} }

// Reset empties the model for reuse.
func (m *Model) Reset() {
	m.versions = m.versions[:0]
	m.block.reset()
	m.sess.reset()
	m.inSess = false
	m.ghostSess = [MaxKeys]cell{}
	m.ghostBlock = [MaxKeys]cell{}
}

// Version is the number of committed versions (= the last version).
func (m *Model) Version() int64 { return int64(len(m.versions)) }

// InSession reports whether a transaction session is open.
func (m *Model) InSession() bool { return m.inSess }

func (m *Model) last() snapshot {
	if len(m.versions) == 0 {
		return snapshot{}
	}
	return m.versions[len(m.versions)-1]
}

// Lookup is the model's Get/Exists.
func (m *Model) Lookup(k int8) Expect {
	if m.inSess {
		if c := m.sess.c[k]; c != 0 {
			return expectOf(c, ScopeSession)
		}
	}
	if c := m.block.c[k]; c != 0 {
		return expectOf(c, ScopeBlock)
	}
	if c := m.last()[k]; c != 0 {
		return expectOf(c, ScopeCommit)
	}
	return Expect{Scope: ScopeNone}
}

func expectOf(c cell, s Scope) Expect {
	if c == deleted {
		return Expect{Scope: s, Deleted: true}
	}
	return Expect{Present: true, Val: int8(c - 1), Scope: s}
}

// LookupVersioned is the model's GetVersioned(last-off, k).
func (m *Model) LookupVersioned(off int8, k int8) Expect {
	last := m.Version()
	v := last - int64(off)
	if v < 1 || v > last {
		return Expect{NoVer: true}
	}
	e := Expect{Scope: ScopeCommit}
	if c := m.versions[v-1][k]; c != 0 {
		e.Present, e.Val = true, int8(c-1)
	}
	// storage/chainstate.go: "recent = 0 : keep last version only; recent = 3 : keep last 4 version"
	if v < last-m.Recent {
		e.Pruned = true
	}
	return e
}

func (m *Model) top() *layer {
	if m.inSess {
		return &m.sess
	}
	return &m.block
}

// Apply advances the model by one non-read op. wrote reports whether the op discarded pending writes
// (used only for vacuity counters).
func (m *Model) Apply(o Op) (discardedWrites bool) {
	switch o.K {
	case Set:
		m.top().put(o.Key, cell(o.Val+1))
	case Delete:
		m.top().put(o.Key, deleted)
	case Begin:
		discardedWrites = m.dropSession()
		m.inSess = true
	case CommitTx:
		if !m.inSess {
			panic("model: CommitTxSession without a session (illegal sequence)")
		}
		for i := int8(0); i < m.sess.n; i++ {
			k := m.sess.order[i]
			m.block.put(k, m.sess.c[k])
		}
		m.sess.reset()
		m.inSess = false
	case DiscardTx:
		discardedWrites = m.dropSession()
	case CommitBlock:
		discardedWrites = m.dropSession()
		s := m.last()
		for k := 0; k < m.NK; k++ {
			switch c := m.block.c[k]; {
			case c == deleted:
				s[k] = 0
			case c > 0:
				s[k] = c
			}
		}
		m.versions = append(m.versions, s)
		m.block.reset()
	case Reopen:
		discardedWrites = m.dropSession()
		for k := 0; k < m.NK; k++ {
			if m.block.c[k] != 0 {
				m.ghostBlock[k] = m.block.c[k]
				discardedWrites = true
			}
		}
		m.block.reset()
	}
	return
}

func (m *Model) dropSession() (hadWrites bool) {
	if m.inSess {
		for k := 0; k < m.NK; k++ {
			if m.sess.c[k] != 0 {
				m.ghostSess[k] = m.sess.c[k]
				hadWrites = true
			}
		}
	}
	m.sess.reset()
	m.inSess = false
	return
}

// Encode appends a canonical encoding of the model state (what can influence any future expectation:
// the two newest snapshots, the version count, both overlays with their first-write order).
func (m *Model) Encode(b []byte) []byte {
	b = append(b, byte(len(m.versions)))
	for i := 0; i < 2; i++ {
		var s snapshot
		if j := len(m.versions) - 1 - i; j >= 0 {
			s = m.versions[j]
		}
		for k := 0; k < m.NK; k++ {
			b = append(b, byte(s[k]))
		}
	}
	enc := func(l *layer) {
		b = append(b, byte(l.n))
		for i := int8(0); i < l.n; i++ {
			b = append(b, byte(l.order[i]), byte(l.c[l.order[i]]))
		}
	}
	enc(&m.block)
	if m.inSess {
		b = append(b, 1)
		enc(&m.sess)
	} else {
		b = append(b, 0)
	}
	return b
}
