package store

import (
	_ "unsafe" // go:linkname

	olog "github.com/Oneledger/protocol/log"
)

// storage's package-level logger writes one line to fd 1 for every NewChainState and one for every
// delete of a key that is not in the tree; with a write syscall per executed sequence and a mutex shared
// by all goroutines that dominates the run time. The variable is unexported, so it is reached by name.
// Only the verbosity is changed. If the variable is ever renamed the link still succeeds and the pointer
// below stays nil: the check then merely runs slower (fd 1 is redirected by the caller in any case).
//
//go:linkname storageLog github.com/Oneledger/protocol/storage.log
var storageLog *olog.Logger

// QuietStorageLog raises the storage logger's threshold to Fatal. It reports whether it could.
func QuietStorageLog() bool {
	if storageLog == nil {
		return false
	}
	storageLog.WithLevel(olog.Fatal)
	return true
}
