package store

import (
	"bytes"
	"encoding/hex"
	"fmt"

	"github.com/Oneledger/protocol/storage"
)

// Mismatch is one disagreement between the implementation and the model (oracle 1).
type Mismatch struct {
	Step int    `json:"step"`
	Sig  string `json:"signature"`
	What string `json:"what"`
}

// Vac is a set of vacuity bits: which interesting situations a sequence actually exercised.
type Vac uint32

const (
	VReadAfterDelete     Vac = 1 << iota // a Get/Exists whose key's most recent write in scope is a delete
	VReadSessionValue                    // a read decided by a value written in the open session
	VReadBlockValue                      // ... by a value written in the current block
	VReadCommitValue                     // ... by the last commit
	VReadBlockUnderSess                  // a read inside an open session decided by the block layer
	VDiscardWithWrites                   // a session holding writes was discarded (explicitly or by Begin/Commit/Reopen)
	VSessionCommitWrites                 // CommitTxSession of a session holding writes
	VReopenAfterCommit                   // Reopen with at least one committed version
	VReopenDropsBlock                    // Reopen with uncommitted block or session writes
	VVersionedOld                        // GetVersioned of an existing, retained version older than last
	VVersionedOldDiffers                 // ... whose value differs from what the same key reads in the newest version
	VVersionedPruned                     // GetVersioned of a version released by the rotation
	VCommitNonEmpty                      // a block commit returning a non-empty root hash
	VCommitChangesHash                   // a block commit whose hash differs from the previous commit's
	VDeleteCommitted                     // a block commit that removed a key present in the previous version
	VDeleteNeverExisted                  // a block commit carrying a delete of a key absent from the tree
	VReadDependsOnWrite                  // some compared read was decided by an earlier write or delete of the sequence
	nVac                 = iota
)

// VacNames names the vacuity counters in evidence files.
var VacNames = [nVac]string{
	"read_after_delete", "read_decided_by_session_value", "read_decided_by_block_value", "read_decided_by_last_commit",
	"read_in_session_decided_by_block", "discarded_session_with_writes", "committed_session_with_writes",
	"reopen_after_commit", "reopen_dropping_uncommitted_writes", "versioned_read_of_older_version",
	"versioned_read_old_value_differs_from_new", "versioned_read_of_pruned_version", "commit_with_nonempty_hash",
	"commit_changing_hash", "commit_removing_committed_key", "commit_with_delete_of_absent_key", "read_depends_on_earlier_write",
}

// HashEvent is the root hash/version reported by one Commit or Reopen.
type HashEvent struct {
	Step    int    `json:"step"`
	Op      string `json:"op"`
	Hash    string `json:"hash"`
	Version int64  `json:"version"`
}

// Runner executes sequences against a fresh implementation and a fresh model, step by step.
type Runner struct {
	A   *Alphabet
	Cfg Config

	model *Model

	// results of the last Run
	Mismatches []Mismatch
	Vac        Vac
	Digest     uint64   // digest of the (hash, version) list of all Commit/Reopen ops
	Prefix     []uint64 // Prefix[i] = Digest after the first i ops (len = len(seq)+1)
	NCommits   int
	Events     []HashEvent // only if KeepEvents
	Trace      []string    // only if KeepTrace: one line per op
	KeepEvents bool
	KeepTrace  bool
	OnHash     func(h []byte) // called for every non-empty commit hash (distinct-hash counting)

	lastHash []byte
	Impl     *Impl // the instance of the last Run (for Digest)
}

// NewRunner creates a runner for one alphabet and store configuration.
func NewRunner(a *Alphabet, cfg Config) *Runner {
	return &Runner{A: a, Cfg: cfg, model: NewModel(len(a.Keys), cfg.Recent)}
}

// Model returns the model after the last Run.
func (r *Runner) Model() *Model { return r.model }

const fnvOff, fnvPrime = 14695981039346656037, 1099511628211

func mix(h uint64, b []byte) uint64 {
	for _, c := range b {
		h ^= uint64(c)
		h *= fnvPrime
	}
	return h
}

var tombstone = []byte(storage.TOMBSTONE)

// Run executes seq (alphabet indices) on a fresh store and a fresh model and judges every observation.
func (r *Runner) Run(seq []uint8) {
	a := r.A
	r.Mismatches = r.Mismatches[:0]
	r.Vac = 0
	r.NCommits = 0
	r.Events = r.Events[:0]
	r.Trace = r.Trace[:0]
	r.lastHash = nil
	r.Prefix = append(r.Prefix[:0], fnvOff)
	h := uint64(fnvOff)
	m := r.model
	m.Reset()
	impl := NewImpl(a, r.Cfg)
	r.Impl = impl
	for step, x := range seq {
		o := a.Ops[x]
		var exp Expect
		switch o.K {
		case Get, Exists:
			exp = m.Lookup(o.Key)
		case GetVersioned:
			exp = m.LookupVersioned(o.Ver, o.Key)
		}
		// model-side bookkeeping that needs the pre-state
		var prevSnap snapshot
		var blockBefore layer
		if o.K == CommitBlock {
			prevSnap = m.last()
			blockBefore = m.block
		}
		if o.K == Reopen {
			if m.Version() > 0 {
				r.Vac |= VReopenAfterCommit
			}
		}
		if o.K == CommitTx && m.sess.n > 0 {
			r.Vac |= VSessionCommitWrites
		}

		obs := impl.Apply(o)

		if obs.Panic != "" {
			msg := obs.Panic
			if len(msg) > 60 {
				msg = msg[:60]
			}
			r.mismatch(step, fmt.Sprintf("C09|panic|op=%s|layer=%s|msg=%s", o.K, r.Cfg.Layer(), msg),
				fmt.Sprintf("%s panicked in a legal sequence: %s", a.OpString(o), obs.Panic))
			if r.KeepTrace {
				r.Trace = append(r.Trace, fmt.Sprintf("%2d %-24s PANIC %s", step, a.OpString(o), obs.Panic))
			}
			for len(r.Prefix) < len(seq)+1 {
				r.Prefix = append(r.Prefix, h)
			}
			r.Digest = h
			return
		}
		line := ""
		switch o.K {
		case Get:
			r.noteRead(exp, m.InSession())
			line = r.checkGet(step, o, exp, obs)
		case Exists:
			r.noteRead(exp, m.InSession())
			line = r.checkExists(step, o, exp, obs)
		case GetVersioned:
			if !exp.NoVer && o.Ver > 0 {
				if exp.Pruned {
					r.Vac |= VVersionedPruned
				} else {
					r.Vac |= VVersionedOld | VReadDependsOnWrite
					if cur := m.LookupVersioned(0, o.Key); cur.Present != exp.Present || cur.Val != exp.Val {
						r.Vac |= VVersionedOldDiffers
					}
				}
			}
			if !exp.NoVer && o.Ver == 0 && exp.Present {
				r.Vac |= VReadDependsOnWrite
			}
			line = r.checkVersioned(step, o, exp, obs)
		case Set, Delete:
			if obs.Err != nil {
				r.mismatch(step, fmt.Sprintf("C09|write-error|op=%s|layer=%s", o.K, r.Cfg.Layer()),
					fmt.Sprintf("%s returned error %v", a.OpString(o), obs.Err))
			}
			m.Apply(o)
		case Begin, CommitTx, DiscardTx:
			if m.Apply(o) {
				r.Vac |= VDiscardWithWrites
			}
		case CommitBlock:
			if m.Apply(o) {
				r.Vac |= VDiscardWithWrites
			}
			r.NCommits++
			for k := 0; k < m.NK; k++ {
				if blockBefore.c[k] == deleted {
					if prevSnap[k] != 0 {
						r.Vac |= VDeleteCommitted
					} else {
						r.Vac |= VDeleteNeverExisted
					}
				}
			}
			if obs.Version != m.Version() {
				r.mismatch(step, fmt.Sprintf("C09|commit|field=version|layer=%s", r.Cfg.Layer()),
					fmt.Sprintf("Commit returned version %d, the model has %d committed versions", obs.Version, m.Version()))
			}
			if len(obs.Hash) > 0 {
				r.Vac |= VCommitNonEmpty
				if r.OnHash != nil {
					r.OnHash(obs.Hash)
				}
			}
			if !bytes.Equal(obs.Hash, r.lastHash) {
				r.Vac |= VCommitChangesHash
			}
			r.lastHash = append(r.lastHash[:0], obs.Hash...)
			h = mixEvent(h, 'C', obs.Hash, obs.Version)
			if r.KeepTrace {
				line = fmt.Sprintf("-> hash %s version %d", hex.EncodeToString(obs.Hash), obs.Version)
			}
		case Reopen:
			if m.Apply(o) {
				r.Vac |= VReopenDropsBlock
			}
			if obs.Version != m.Version() {
				r.mismatch(step, fmt.Sprintf("C09|reopen|field=version|layer=%s", r.Cfg.Layer()),
					fmt.Sprintf("after reopening the version is %d, the last commit was version %d", obs.Version, m.Version()))
			}
			if !bytes.Equal(obs.Hash, r.lastHash) {
				r.mismatch(step, fmt.Sprintf("C09|reopen|field=hash|layer=%s", r.Cfg.Layer()),
					fmt.Sprintf("after reopening the root hash is %x, the last commit returned %x", obs.Hash, r.lastHash))
			}
			h = mixEvent(h, 'R', obs.Hash, obs.Version)
			if r.KeepTrace {
				line = fmt.Sprintf("-> hash %s version %d", hex.EncodeToString(obs.Hash), obs.Version)
			}
		}
		if r.KeepEvents && (o.K == CommitBlock || o.K == Reopen) {
			r.Events = append(r.Events, HashEvent{Step: step, Op: o.K.String(), Hash: hex.EncodeToString(obs.Hash), Version: obs.Version})
		}
		if r.KeepTrace {
			r.Trace = append(r.Trace, fmt.Sprintf("%2d %-24s %s", step, a.OpString(o), line))
		}
		r.Prefix = append(r.Prefix, h)
	}
	r.Digest = h
}

func mixEvent(h uint64, tag byte, hash []byte, ver int64) uint64 {
	h = mix(h, []byte{tag, byte(len(hash))})
	h = mix(h, hash)
	return mix(h, []byte{byte(ver), byte(ver >> 8)})
}

func (r *Runner) mismatch(step int, sig, what string) {
	r.Mismatches = append(r.Mismatches, Mismatch{Step: step, Sig: sig, What: what})
}

func (r *Runner) noteRead(e Expect, inSess bool) {
	if e.Deleted {
		r.Vac |= VReadAfterDelete | VReadDependsOnWrite
	}
	if e.Present {
		r.Vac |= VReadDependsOnWrite
		switch e.Scope {
		case ScopeSession:
			r.Vac |= VReadSessionValue
		case ScopeBlock:
			r.Vac |= VReadBlockValue
			if inSess {
				r.Vac |= VReadBlockUnderSess
			}
		case ScopeCommit:
			r.Vac |= VReadCommitValue
		}
	}
}

// classify what a byte result is: "absent", "tombstone", "value" (+ index) or "garbage".
func (r *Runner) valKind(v []byte) (string, int8) {
	if len(v) == 0 {
		return "absent", -1
	}
	if bytes.Equal(v, tombstone) {
		return "tombstone", -1
	}
	for i, x := range r.A.valB {
		if bytes.Equal(v, x) {
			return "value", int8(i)
		}
	}
	return "garbage", -1
}

// src guesses where a wrong result came from (a hint for the message, not part of the signature).
func (r *Runner) src(key int8, kind string, idx int8) string {
	var c cell
	switch kind {
	case "tombstone":
		c = deleted
	case "value":
		c = cell(idx + 1)
	default:
		return "none"
	}
	m := r.model
	switch {
	case m.ghostSess[key] == c:
		return "discarded-session"
	case m.ghostBlock[key] == c:
		return "dropped-block"
	case m.block.c[key] == c || m.last()[key] == c:
		return "lower-layer"
	}
	return "other"
}

func (r *Runner) expString(e Expect) string {
	switch {
	case e.NoVer:
		return "absent (no such version)"
	case e.Pruned && e.Present:
		return fmt.Sprintf("%q or absent (version released by rotation)", r.A.Vals[e.Val])
	case e.Pruned:
		return "absent (version released by rotation)"
	case e.Present:
		return fmt.Sprintf("%q (written in %s)", r.A.Vals[e.Val], e.Scope)
	case e.Deleted:
		return fmt.Sprintf("absent (deleted in %s)", e.Scope)
	}
	return "absent (never written)"
}

func clause(e Expect) string {
	switch {
	case e.Deleted:
		return "read-after-delete"
	case e.Present:
		return "most-recent-write"
	}
	return "absent-key"
}

func (r *Runner) checkGet(step int, o Op, e Expect, obs Obs) string {
	kind, idx := r.valKind(obs.Val)
	if obs.Err != nil && kind != "absent" {
		kind = "error"
	}
	ok := (e.Present && kind == "value" && idx == e.Val && obs.Err == nil) || (!e.Present && kind == "absent")
	line := ""
	if r.KeepTrace {
		line = fmt.Sprintf("-> %q err=%v; model: %s", obs.Val, obs.Err, r.expString(e))
	}
	if ok {
		return line
	}
	got := kind
	if kind == "value" && e.Present {
		got = "other-value"
	}
	sig := fmt.Sprintf("C09|%s|op=Get|scope=%s|got=%s|layer=%s", clause(e), e.Scope, got, r.Cfg.Layer())
	hint := ""
	if h := r.src(o.Key, kind, idx); h == "discarded-session" || h == "dropped-block" {
		hint = " (the returned value was last written by a " + h + ")"
	}
	r.mismatch(step, sig, fmt.Sprintf("%s returned %q (err=%v), the model says %s%s", r.A.OpString(o), obs.Val, obs.Err, r.expString(e), hint))
	return line + "  <-- MISMATCH " + sig
}

func (r *Runner) checkExists(step int, o Op, e Expect, obs Obs) string {
	line := ""
	if r.KeepTrace {
		line = fmt.Sprintf("-> %v; model: %s", obs.Bool, r.expString(e))
	}
	if obs.Bool == e.Present {
		return line
	}
	sig := fmt.Sprintf("C09|%s|op=Exists|scope=%s|got=%v|layer=%s", clause(e), e.Scope, obs.Bool, r.Cfg.Layer())
	r.mismatch(step, sig, fmt.Sprintf("%s returned %v, the model says %s", r.A.OpString(o), obs.Bool, r.expString(e)))
	return line + "  <-- MISMATCH " + sig
}

func (r *Runner) checkVersioned(step int, o Op, e Expect, obs Obs) string {
	kind, idx := r.valKind(obs.Val)
	var ok bool
	want := "absent"
	switch {
	case e.NoVer:
		ok = kind == "absent"
		want = "no-version"
	case e.Pruned:
		ok = kind == "absent" || (e.Present && kind == "value" && idx == e.Val)
		want = "pruned"
	case e.Present:
		ok = kind == "value" && idx == e.Val
		want = "value"
	default:
		ok = kind == "absent"
	}
	line := ""
	if r.KeepTrace {
		line = fmt.Sprintf("-> %q; model: %s", obs.Val, r.expString(e))
	}
	if ok {
		return line
	}
	got := kind
	if kind == "value" && e.Present {
		got = "other-value"
	}
	ver := "last"
	if o.Ver > 0 {
		ver = fmt.Sprintf("last-%d", o.Ver)
	}
	sig := fmt.Sprintf("C09|versioned-read|op=GetVersioned|ver=%s|want=%s|got=%s|rotation=recent%d|layer=%s", ver, want, got, r.Cfg.Recent, r.Cfg.Layer())
	r.mismatch(step, sig, fmt.Sprintf("%s returned %q, the model says %s", r.A.OpString(o), obs.Val, r.expString(e)))
	return line + "  <-- MISMATCH " + sig
}
