package store

import (
	"fmt"
	"math/rand"
	"sync"
	"sync/atomic"
	"time"
)

// Random runs long seeded pseudo-random sequences over a wider alphabet (6 keys: IAVL rotations and many
// versions occur) with the same oracles; the twins are executed directly. The sequences are a function
// of the seed only, so a run is reproducible; the verdict of each sequence is deterministic.
type Random struct {
	A        *Alphabet
	Cfgs     []Config
	N, Len   int
	Seed     int64
	Workers  int
	Deadline time.Time
	Found    *found

	Sequences   int64
	Executions  int64
	OpsExecuted int64
	Commits     int64
	MaxVersion  int64
	Vac         [nVac]int64
	TwinsRun    int64
	Hashes      int
	Complete    bool
	Sample      []string
}

var kindWeights = [...]int{Set: 25, Delete: 10, Get: 14, Exists: 8, Begin: 8, CommitTx: 8, DiscardTx: 5, CommitBlock: 8, Reopen: 3, GetVersioned: 11}

// Generate builds the i-th sequence of the run.
func (g *Random) Generate(i int) []uint8 {
	a := g.A
	rng := rand.New(rand.NewSource(g.Seed*1000003 + int64(i)))
	byKind := map[Kind][]uint8{}
	for x, o := range a.Ops {
		byKind[o.K] = append(byKind[o.K], uint8(x))
	}
	total := 0
	for _, w := range kindWeights {
		total += w
	}
	seq := make([]uint8, 0, g.Len)
	in := false
	for len(seq) < g.Len {
		n := rng.Intn(total)
		k := Kind(0)
		for n >= kindWeights[k] {
			n -= kindWeights[k]
			k++
		}
		if k == CommitTx && !in {
			continue
		}
		ops := byKind[k]
		if len(ops) == 0 {
			continue
		}
		seq = append(seq, ops[rng.Intn(len(ops))])
		switch k {
		case Begin:
			in = true
		case CommitTx, DiscardTx, CommitBlock, Reopen:
			in = false
		}
	}
	return seq
}

// Run executes the sequences. Returns false if the deadline cut it short.
func (g *Random) Run() bool {
	a := g.A
	if g.Found == nil {
		g.Found = newFound()
	}
	var next int64 = -1
	var wg sync.WaitGroup
	var mu sync.Mutex
	hashes := map[[32]byte]struct{}{}
	var expired int32
	for w := 0; w < g.Workers; w++ {
		wg.Add(1)
		go func() {
			defer wg.Done()
			local := map[[32]byte]struct{}{}
			f := newFound()
			var seqs, execs, ops, commits, maxVer, twins int64
			var vac [nVac]int64
			for {
				i := atomic.AddInt64(&next, 1)
				if int(i) >= g.N {
					break
				}
				if !g.Deadline.IsZero() && time.Now().After(g.Deadline) {
					atomic.StoreInt32(&expired, 1)
					break
				}
				cfg := g.Cfgs[int(i)%len(g.Cfgs)]
				seq := g.Generate(int(i))
				r := NewRunner(a, cfg)
				r.OnHash = func(h []byte) {
					if len(h) == 32 {
						var k [32]byte
						copy(k[:], h)
						local[k] = struct{}{}
					}
				}
				r.Run(seq)
				seqs++
				execs++
				ops += int64(len(seq))
				commits += int64(r.NCommits)
				if v := r.Model().Version(); v > maxVer {
					maxVer = v
				}
				for b := 0; b < nVac; b++ {
					if r.Vac&(1<<uint(b)) != 0 {
						vac[b]++
					}
				}
				for _, m := range r.Mismatches {
					f.add(foundEntry{sig: m.Sig, what: m.What, cfg: cfg, seq: seq[:m.Step+1], step: m.Step}, 1)
				}
				d := r.Digest
				t := NewRunner(a, cfg)
				for _, tw := range []struct {
					name string
					seq  []uint8
					sig  string
					what string
				}{
					{"reads-removed", a.StripReads(seq), fmt.Sprintf("C09|hash-depends-on-reads|reads=%s|layer=%s", a.readKinds(seq), cfg.Layer()),
						"a commit hash differs between a sequence and the same sequence with its reads removed"},
					{"discarded-sessions-removed", a.StripDiscarded(seq), fmt.Sprintf("C09|hash-depends-on-discarded-session|layer=%s", cfg.Layer()),
						"a commit hash differs between a sequence and the same sequence with its discarded sessions removed"},
				} {
					if len(tw.seq) == len(seq) {
						continue
					}
					t.Run(tw.seq)
					execs++
					twins++
					ops += int64(len(tw.seq))
					if t.Digest != d {
						f.add(foundEntry{sig: tw.sig, what: tw.what, cfg: cfg, seq: seq, twin: tw.name, twinSeq: tw.seq, step: len(seq) - 1}, 1)
					}
				}
			}
			mu.Lock()
			g.Sequences += seqs
			g.Executions += execs
			g.OpsExecuted += ops
			g.Commits += commits
			g.TwinsRun += twins
			if maxVer > g.MaxVersion {
				g.MaxVersion = maxVer
			}
			for b := range vac {
				g.Vac[b] += vac[b]
			}
			for h := range local {
				hashes[h] = struct{}{}
			}
			g.Found.merge(f)
			mu.Unlock()
		}()
	}
	wg.Wait()
	g.Hashes = len(hashes)
	g.Complete = expired == 0
	if g.N > 0 {
		s := a.Strings(g.Generate(0))
		if len(s) > 40 {
			s = s[:40]
		}
		g.Sample = s
	}
	return g.Complete
}

// Results confirms every class (3 re-executions) and returns them.
func (g *Random) Results() []Found { return confirmAll(g.A, g.Found, &g.Executions) }
