package store

import (
	"fmt"

	"github.com/Oneledger/protocol/config"
	"github.com/Oneledger/protocol/storage"
	tmdb "github.com/tendermint/tm-db"
)

// Config is one way of assembling the store under test.
type Config struct {
	Gas    bool  `json:"gas"`    // State.WithGas(NewGasCalculator(huge)) as app.blockBeginner does, else plain NewState
	Recent int64 `json:"recent"` // config.ChainStateRotationCfg{Recent: n} (Every, Cycles = 0)
	Reuse  bool  `json:"reuse"`  // keep using the same *State after Commit (app/internalTX.go style) instead of a new State per block (app.blockBeginner style)
}

func (c Config) Layer() string {
	if c.Gas {
		return "gas"
	}
	return "plain"
}

func (c Config) String() string {
	s := c.Layer() + fmt.Sprintf("/recent%d", c.Recent)
	if c.Reuse {
		return s + "/reuse"
	}
	return s + "/fresh"
}

// hugeGas never runs out in any explored sequence (the costliest op charges 200+20*len).
const hugeGas = storage.Gas(1) << 55

// Impl drives the real storage package.
type Impl struct {
	cfg Config
	a   *Alphabet
	db  tmdb.DB
	cs  *storage.ChainState
	st  *storage.State
}

// NewImpl creates an empty chain state over a fresh MemDB.
func NewImpl(a *Alphabet, cfg Config) *Impl {
	m := &Impl{cfg: cfg, a: a, db: tmdb.NewMemDB()}
	m.open()
	return m
}

func (m *Impl) open() {
	m.cs = storage.NewChainState("c09", m.db)
	if err := m.cs.SetupRotation(config.ChainStateRotationCfg{Recent: m.cfg.Recent}); err != nil {
		panic(err)
	}
	m.newState()
}

func (m *Impl) newState() {
	m.st = storage.NewState(m.cs)
	if m.cfg.Gas {
		m.st = m.st.WithGas(storage.NewGasCalculator(hugeGas))
	}
}

// Obs is what one op returned.
type Obs struct {
	Val     []byte // Get, GetVersioned
	Err     error  // Get, Set, Delete
	Bool    bool   // Exists; Delete's ok
	Hash    []byte // Commit, Reopen
	Version int64  // Commit, Reopen
	Panic   string // non-empty if the call panicked
}

// Apply executes one op against the real code.
func (m *Impl) Apply(o Op) (obs Obs) {
	defer func() {
		if r := recover(); r != nil {
			obs.Panic = fmt.Sprint(r)
			if obs.Panic == "" {
				obs.Panic = "panic"
			}
		}
	}()
	switch o.K {
	case Set:
		obs.Err = m.st.Set(storage.StoreKey(m.a.keyB[o.Key]), m.a.valB[o.Val])
	case Delete:
		obs.Bool, obs.Err = m.st.Delete(storage.StoreKey(m.a.keyB[o.Key]))
	case Get:
		obs.Val, obs.Err = m.st.Get(storage.StoreKey(m.a.keyB[o.Key]))
	case Exists:
		obs.Bool = m.st.Exists(storage.StoreKey(m.a.keyB[o.Key]))
	case Begin:
		m.st.BeginTxSession()
	case CommitTx:
		m.st.CommitTxSession()
	case DiscardTx:
		m.st.DiscardTxSession()
	case CommitBlock:
		obs.Hash, obs.Version = m.st.Commit()
		if !m.cfg.Reuse {
			m.newState()
		}
	case Reopen:
		m.open()
		obs.Hash, obs.Version = m.st.RootHash(), m.st.Version()
	case GetVersioned:
		obs.Val = m.st.GetVersioned(m.st.Version()-int64(o.Ver), storage.StoreKey(m.a.keyB[o.Key]))
	}
	return
}

// Digest appends everything observable about the implementation through its public interface that can
// bear on future behaviour: committed root hash and version, for every key the result of Get, Exists and
// GetVersioned(last / last-1), and the pending block overlay in its replay order
// (State.GetGasStore().GetIterable().Iterate). Only used on an instance that is thrown away afterwards,
// so the digest's own reads cannot disturb anything that is checked.
func (m *Impl) Digest(b []byte) (out []byte, panicked string) {
	defer func() {
		if r := recover(); r != nil {
			panicked = fmt.Sprint(r)
			out = b
		}
	}()
	b = append(b, byte(m.st.Version()))
	b = append(b, byte(len(m.st.RootHash())))
	b = append(b, m.st.RootHash()...)
	for k := range m.a.keyB {
		key := storage.StoreKey(m.a.keyB[k])
		v, err := m.st.Get(key)
		b = appendVal(b, v, err)
		if m.st.Exists(key) {
			b = append(b, 1)
		} else {
			b = append(b, 0)
		}
		b = appendVal(b, m.st.GetVersioned(m.st.Version(), key), nil)
		b = appendVal(b, m.st.GetVersioned(m.st.Version()-1, key), nil)
	}
	b = append(b, '|')
	m.st.GetGasStore().GetIterable().Iterate(func(k, v []byte) bool {
		b = appendVal(b, k, nil)
		b = appendVal(b, v, nil)
		return false
	})
	return b, ""
}

func appendVal(b []byte, v []byte, err error) []byte {
	if err != nil {
		b = append(b, 0xff)
	}
	b = append(b, byte(len(v)))
	return append(b, v...)
}
