package store

import (
	"crypto/sha256"
	"fmt"
	"sync"
	"sync/atomic"
	"time"
)

// Search is a breadth-first search over op sequences with state merging. A state is the pair
// (reference-model state, observable digest of the implementation); two prefixes reaching the same pair
// are explored once. The implementation cannot be snapshotted, so each state keeps a representative
// path (parent pointers) and every transition re-executes path+op on a fresh store; the whole path is
// judged against the model again, the new step's verdicts are recorded.
//
// Oracles per transition: (1) the op's observation agrees with the model; (2) a read leads back to the
// very same state; (3) an op that drops a session (DiscardTxSession, or BeginTxSession / Commit / Reopen
// while one is open) leads to the same state as the path with that session removed. A failure of (2) or
// (3) is not yet a violation of the statement (the digest contains more than the statement fixes, e.g.
// the pending-write overlay): it is confirmed by executing both paths followed by every write-only
// continuation of length <= 2 and a block commit, and reported only if a commit hash differs.
type Search struct {
	A         *Alphabet
	Cfg       Config
	Workers   int
	Deadline  time.Time
	MaxStates int
	Found     *found
	Log       func(format string, a ...interface{})

	States         int64
	Transitions    int64
	PerDepth       []int64
	DepthDone      int
	Executions     int64
	OpsExecuted    int64
	ReadLoops      int64 // read transitions checked to be self-loops
	DropChecks     int64 // session-dropping transitions compared with the session-free path
	Suspects       int64
	Unconfirmed    int64
	MergedInto     int64 // transitions that led to an already known state
	StoppedBy      string
	Sample         []string
	UnconfirmedEx  []string
	DistinctHashes int

	nodes []node
	keys  [][16]byte
	index map[[16]byte]int32
}

type node struct {
	parent int32
	op     uint8
}

func (s *Search) path(id int32, buf []uint8) []uint8 {
	buf = buf[:0]
	for id > 0 {
		buf = append(buf, s.nodes[id].op)
		id = s.nodes[id].parent
	}
	for i, j := 0, len(buf)-1; i < j; i, j = i+1, j-1 {
		buf[i], buf[j] = buf[j], buf[i]
	}
	return buf
}

type succ struct {
	from int32
	op   uint8
	key  [16]byte
}

type suspect struct {
	seq, twin []uint8
	kind      string // "read" | "drop"
	op        Op
}

func stateKey(r *Runner, buf []byte) ([16]byte, []byte, string) {
	buf = r.Model().Encode(buf[:0])
	buf = append(buf, 0xfe)
	buf, p := r.Impl.Digest(buf)
	h := sha256.Sum256(buf)
	var k [16]byte
	copy(k[:], h[:16])
	return k, buf, p
}

// Run explores to the given depth (number of ops). Returns false if a cap or the deadline stopped it.
func (s *Search) Run(depth int) bool {
	a := s.A
	if s.Found == nil {
		s.Found = newFound()
	}
	s.index = map[[16]byte]int32{}
	root := NewRunner(a, s.Cfg)
	root.Run(nil)
	k0, _, _ := stateKey(root, nil)
	s.nodes = append(s.nodes, node{parent: -1})
	s.keys = append(s.keys, k0)
	s.index[k0] = 0
	s.PerDepth = []int64{1}
	s.Executions++
	hashes := map[[32]byte]struct{}{}
	var hmu sync.Mutex
	lo, hi := int32(0), int32(1)
	for d := 0; d < depth; d++ {
		var next int64 = int64(lo) - 1
		var wg sync.WaitGroup
		var suspects []suspect
		var smu sync.Mutex
		var expired int32
		var execs, ops, readLoops, dropChecks int64
		const chunk = 64
		nchunks := (int64(hi-lo) + chunk - 1) / chunk
		chunkRes := make([][]succ, nchunks)
		next = -1
		for w := 0; w < s.Workers; w++ {
			wg.Add(1)
			go func(w int) {
				defer wg.Done()
				r := NewRunner(a, s.Cfg)
				local := map[[32]byte]struct{}{}
				r.OnHash = func(h []byte) {
					if len(h) == 32 {
						var k [32]byte
						copy(k[:], h)
						local[k] = struct{}{}
					}
				}
				q := NewRunner(a, s.Cfg)
				f := newFound()
				var pbuf, seq []uint8
				var kbuf []byte
				var ne, no, nr, nd int64
				for {
					c := atomic.AddInt64(&next, 1)
					if c >= nchunks {
						break
					}
					if !s.Deadline.IsZero() && time.Now().After(s.Deadline) {
						atomic.StoreInt32(&expired, 1)
						break
					}
					var out []succ
					from, to := lo+int32(c*chunk), lo+int32((c+1)*chunk)
					if to > hi {
						to = hi
					}
					for id := from; id < to; id++ {
						pbuf = s.path(id, pbuf)
						inSess := a.sessionOpenAfter(pbuf)
						for x := range a.Ops {
							o := a.Ops[x]
							if o.K == CommitTx && !inSess {
								continue
							}
							seq = append(append(seq[:0], pbuf...), uint8(x))
							r.Run(seq)
							ne++
							no += int64(len(seq))
							for _, m := range r.Mismatches {
								if m.Step == len(seq)-1 {
									f.add(foundEntry{sig: m.Sig, what: m.What, cfg: s.Cfg, seq: seq, step: m.Step}, 1)
								}
							}
							var key [16]byte
							var pan string
							key, kbuf, pan = stateKey(r, kbuf)
							if pan != "" {
								f.add(foundEntry{sig: fmt.Sprintf("C09|panic|op=digest|layer=%s|msg=%.60s", s.Cfg.Layer(), pan),
									what: "reading the store after a legal sequence panicked: " + pan, cfg: s.Cfg, seq: seq, step: len(seq) - 1}, 1)
								continue
							}
							out = append(out, succ{from: id, op: uint8(x), key: key})
							switch {
							case o.IsRead():
								nr++
								if key != s.keys[id] {
									smu.Lock()
									suspects = append(suspects, suspect{seq: append([]uint8(nil), seq...), twin: append([]uint8(nil), pbuf...), kind: "read", op: o})
									smu.Unlock()
								}
							case o.K == DiscardTx || (inSess && (o.K == Begin || o.K == CommitBlock || o.K == Reopen)):
								t := a.StripDiscarded(seq)
								var tk [16]byte
								if len(t) == len(pbuf) && o.K == DiscardTx && !inSess {
									tk = s.keys[id] // DiscardTxSession without a session: must be a no-op
								} else {
									q.Run(t)
									ne++
									no += int64(len(t))
									tk, kbuf, _ = stateKey(q, kbuf)
								}
								nd++
								if tk != key {
									smu.Lock()
									suspects = append(suspects, suspect{seq: append([]uint8(nil), seq...), twin: append([]uint8(nil), t...), kind: "drop", op: o})
									smu.Unlock()
								}
							}
						}
					}
					chunkRes[c] = out
				}
				atomic.AddInt64(&execs, ne)
				atomic.AddInt64(&ops, no)
				atomic.AddInt64(&readLoops, nr)
				atomic.AddInt64(&dropChecks, nd)
				hmu.Lock()
				for h := range local {
					hashes[h] = struct{}{}
				}
				s.Found.merge(f)
				hmu.Unlock()
			}(w)
		}
		wg.Wait()
		s.Executions += execs
		s.OpsExecuted += ops
		s.ReadLoops += readLoops
		s.DropChecks += dropChecks
		if expired != 0 {
			s.StoppedBy = fmt.Sprintf("deadline while expanding depth %d", d)
			break
		}
		// merge deterministically: frontier order, then op order
		newLo := int32(len(s.nodes))
		capped := false
		for _, out := range chunkRes {
			for _, sc := range out {
				s.Transitions++
				if _, ok := s.index[sc.key]; ok {
					s.MergedInto++
					continue
				}
				if s.MaxStates > 0 && len(s.nodes) >= s.MaxStates {
					capped = true
					continue
				}
				s.index[sc.key] = int32(len(s.nodes))
				s.nodes = append(s.nodes, node{parent: sc.from, op: sc.op})
				s.keys = append(s.keys, sc.key)
			}
		}
		s.confirm(suspects)
		lo, hi = newLo, int32(len(s.nodes))
		s.PerDepth = append(s.PerDepth, int64(hi-lo))
		s.DepthDone = d + 1
		if s.Log != nil {
			s.Log("  search %s depth %d: %d new states, %d total, %d transitions, %.1fs", s.Cfg, d+1, hi-lo, len(s.nodes), s.Transitions, time.Since(startTime).Seconds())
		}
		if capped {
			s.StoppedBy = fmt.Sprintf("state cap %d reached at depth %d", s.MaxStates, d+1)
			break
		}
		if hi == lo {
			break
		}
	}
	s.States = int64(len(s.nodes))
	s.DistinctHashes = len(hashes)
	// a few sample paths: the last states found
	var pbuf []uint8
	for i := 0; i < 3 && i < len(s.nodes); i++ {
		id := int32(len(s.nodes) - 1 - i*len(s.nodes)/3)
		if id < 0 {
			id = 0
		}
		pbuf = s.path(id, pbuf)
		s.Sample = append(s.Sample, fmt.Sprint(a.Strings(pbuf)))
	}
	return s.StoppedBy == ""
}

// confirm turns a state difference into a statement-level violation if some write-only continuation
// makes a commit hash differ.
func (s *Search) confirm(suspects []suspect) {
	a := s.A
	if len(suspects) == 0 {
		return
	}
	var writes []uint8
	commit := -1
	for x, o := range a.Ops {
		if !o.IsRead() {
			writes = append(writes, uint8(x))
		}
		if o.K == CommitBlock {
			commit = x
		}
	}
	var conts [][]uint8
	conts = append(conts, []uint8{uint8(commit)})
	for _, w1 := range writes {
		conts = append(conts, []uint8{w1, uint8(commit)})
		for _, w2 := range writes {
			conts = append(conts, []uint8{w1, w2, uint8(commit)})
		}
	}
	r1, r2 := NewRunner(a, s.Cfg), NewRunner(a, s.Cfg)
	// bound the work: the suspects of one layer usually share one cause
	if len(suspects) > 200 {
		suspects = suspects[:200]
	}
	for _, sp := range suspects {
		s.Suspects++
		confirmed := false
		for _, c := range conts {
			s1 := append(append([]uint8(nil), sp.seq...), c...)
			s2 := append(append([]uint8(nil), sp.twin...), c...)
			if !a.Legal(s1) || !a.Legal(s2) {
				continue
			}
			r1.Run(s1)
			r2.Run(s2)
			s.Executions += 2
			if r1.Digest != r2.Digest {
				var sig, what, twin string
				if sp.kind == "read" {
					sig = fmt.Sprintf("C09|hash-depends-on-reads|reads=%s|layer=%s", sp.op.K, s.Cfg.Layer())
					what = "a commit hash differs between a sequence and the same sequence without one of its reads"
					twin = "reads-removed"
				} else {
					sig = fmt.Sprintf("C09|hash-depends-on-discarded-session|layer=%s", s.Cfg.Layer())
					what = "a commit hash differs between a sequence and the same sequence with a discarded session removed"
					twin = "discarded-sessions-removed"
				}
				s.Found.add(foundEntry{sig: sig, what: what, cfg: s.Cfg, seq: s1, twin: twin, twinSeq: s2, step: len(s1) - 1}, 1)
				confirmed = true
				break
			}
		}
		if !confirmed {
			s.Unconfirmed++
			if len(s.UnconfirmedEx) < 3 {
				s.UnconfirmedEx = append(s.UnconfirmedEx, fmt.Sprintf("%v vs %v", a.Strings(sp.seq), a.Strings(sp.twin)))
			}
		}
	}
}

// Results confirms every class (3 re-executions) and returns them.
func (s *Search) Results() []Found { return confirmAll(s.A, s.Found, &s.Executions) }
