package store

import (
	"fmt"
	"sort"
	"sync"
	"sync/atomic"
	"time"
)

// Found is one violation class with its smallest witness.
type Found struct {
	Sig   string
	What  string
	Count int64
	Case  *Case
}

// Case is a replayable witness: a sequence (and, for the hash clauses, its twin) under one configuration.
type Case struct {
	Alphabet string   `json:"alphabet"`
	Config   Config   `json:"config"`
	ConfigB  *Config  `json:"config_b,omitempty"` // cross-variant comparison only
	Ops      []string `json:"ops"`
	Twin     string   `json:"twin,omitempty"` // reads-removed | discarded-sessions-removed | reread-after-every-op | same-sequence | store-variant
	TwinOps  []string `json:"twin_ops,omitempty"`
	TwinSig  string   `json:"twin_signature,omitempty"` // the violation class if the two hash lists differ
	Step     int      `json:"step"`
	Note     string   `json:"note,omitempty"`
}

// found collects violation classes; the witness kept per class is the shortest, then lexicographically
// smallest sequence, so the result does not depend on goroutine scheduling.
type found struct {
	mu sync.Mutex
	m  map[string]*foundEntry
}

type foundEntry struct {
	sig, what string
	count     int64
	cfg       Config
	seq       []uint8
	twin      string
	twinSeq   []uint8
	step      int
	cfgB      *Config
}

func newFound() *found { return &found{m: map[string]*foundEntry{}} }

func lessSeq(a, b []uint8) bool {
	if len(a) != len(b) {
		return len(a) < len(b)
	}
	for i := range a {
		if a[i] != b[i] {
			return a[i] < b[i]
		}
	}
	return false
}

func (f *found) add(e foundEntry, n int64) {
	f.mu.Lock()
	defer f.mu.Unlock()
	cur, ok := f.m[e.sig]
	if !ok {
		c := e
		c.seq = append([]uint8(nil), e.seq...)
		c.twinSeq = append([]uint8(nil), e.twinSeq...)
		c.count = n
		f.m[e.sig] = &c
		return
	}
	cur.count += n
	if lessSeq(e.seq, cur.seq) {
		cnt := cur.count
		c := e
		c.seq = append([]uint8(nil), e.seq...)
		c.twinSeq = append([]uint8(nil), e.twinSeq...)
		c.count = cnt
		f.m[e.sig] = &c
	}
}

func (f *found) merge(o *found) {
	for _, e := range o.m {
		f.add(*e, e.count)
	}
}

// Stats are the measured coverage numbers of an enumeration.
type Stats struct {
	Executions      int64 // sequences executed on the real store (all configs, rounds, twins, confirmations)
	OpsExecuted     int64
	DistinctSeqs    int64 // distinct legal sequences (all lengths <= L) whose hash list was recorded, per config
	MaxLenSeqs      int64 // legal sequences of the maximal length, per config
	RereadTwins     int64
	MemoTwinChecks  int64 // twin comparisons answered from the table of executed sequences
	PrefixRechecks  int64 // times a prefix's hash list was recomputed by another run and compared
	CrossCfgChecks  int64
	Vac             [][nVac]int64 // per config, per vacuity bit: maximal-length sequences that exercised it
	Nontrivial      int64
	Hashes          map[[32]byte]struct{}
	ShardsDone      int
	ShardsTotal     int
	Complete        bool
	CompletedLength int // every legal sequence up to this length was executed under every config
}

// Enumerator runs every legal sequence up to a length bound under a set of store configurations.
type Enumerator struct {
	A        *Alphabet
	Cfgs     []Config
	Workers  int
	Deadline time.Time
	Found    *found
	Stats    Stats
	Samples  []interface{}
	Log      func(format string, a ...interface{})

	n    int
	offs []int64
}

func (e *Enumerator) init(L int) {
	e.n = len(e.A.Ops)
	e.offs = make([]int64, L+2)
	p := int64(1)
	for l := 0; l <= L; l++ {
		e.offs[l+1] = e.offs[l] + p
		p *= int64(e.n)
	}
	if e.Found == nil {
		e.Found = newFound()
	}
	if e.Stats.Hashes == nil {
		e.Stats.Hashes = map[[32]byte]struct{}{}
	}
}

func (e *Enumerator) index(seq []uint8) int64 {
	x := int64(0)
	for _, d := range seq {
		x = x*int64(e.n) + int64(d)
	}
	return e.offs[len(seq)] + x
}

func (e *Enumerator) decode(idx int64, buf []uint8) []uint8 {
	l := sort.Search(len(e.offs), func(i int) bool { return e.offs[i] > idx }) - 1
	x := idx - e.offs[l]
	buf = buf[:l]
	for i := l - 1; i >= 0; i-- {
		buf[i] = uint8(x % int64(e.n))
		x /= int64(e.n)
	}
	return buf
}

func nz(d uint64) uint64 {
	if d == 0 {
		return 1
	}
	return d
}

type workerAcc struct {
	found   *found
	vac     [nVac]int64
	nontriv int64
	execs   int64
	ops     int64
	maxLen  int64
	reread  int64
	recheck int64
	hashes  map[[32]byte]struct{}
}

func newAcc() *workerAcc { return &workerAcc{found: newFound(), hashes: map[[32]byte]struct{}{}} }

func (w *workerAcc) onHash(h []byte) {
	if len(h) == 32 {
		var k [32]byte
		copy(k[:], h)
		w.hashes[k] = struct{}{}
	}
}

// Run enumerates lengths L-1 and then L (so that a deadline inside the last round still leaves a
// completed smaller bound). Returns false if the deadline ended the run early.
func (e *Enumerator) Run(L int) bool {
	e.init(L)
	e.Stats.Complete = true
	for _, l := range []int{L - 1, L} {
		if l < 2 {
			continue
		}
		if !e.round(l, l == L) {
			e.Stats.Complete = false
			return false
		}
		e.Stats.CompletedLength = l
	}
	return true
}

// round executes every legal sequence of length exactly l under every config, records the hash-list
// digest of every prefix in a table (re-validating entries written by other runs: the same op prefix must
// always produce the same hashes), then answers the twin comparisons from the table.
func (e *Enumerator) round(l int, final bool) bool {
	a := e.A
	// shards: legal prefixes of length 2
	var shards [][2]uint8
	for i := 0; i < e.n; i++ {
		for j := 0; j < e.n; j++ {
			if a.Legal([]uint8{uint8(i), uint8(j)}) {
				shards = append(shards, [2]uint8{uint8(i), uint8(j)})
			}
		}
	}
	var base []uint64
	for ci, cfg := range e.Cfgs {
		memo := make([]uint64, e.offs[l+1])
		var next int64 = -1
		var wg sync.WaitGroup
		accs := make([]*workerAcc, e.Workers)
		var expired int32
		for w := 0; w < e.Workers; w++ {
			acc := newAcc()
			accs[w] = acc
			wg.Add(1)
			go func() {
				defer wg.Done()
				r := NewRunner(a, cfg)
				r.OnHash = acc.onHash
				tw := NewRunner(a, cfg)
				seq := make([]uint8, l)
				for {
					s := atomic.AddInt64(&next, 1)
					if int(s) >= len(shards) {
						return
					}
					if !e.Deadline.IsZero() && time.Now().After(e.Deadline) {
						atomic.StoreInt32(&expired, 1)
						return
					}
					seq[0], seq[1] = shards[s][0], shards[s][1]
					e.dfs(seq, 2, a.sessionOpenAfter(seq[:2]), r, tw, memo, acc, final, ci == 0)
				}
			}()
		}
		wg.Wait()
		for _, acc := range accs {
			e.Found.merge(acc.found)
			e.Stats.Executions += acc.execs
			e.Stats.OpsExecuted += acc.ops
			e.Stats.RereadTwins += acc.reread
			e.Stats.PrefixRechecks += acc.recheck
			if final {
				for len(e.Stats.Vac) <= ci {
					e.Stats.Vac = append(e.Stats.Vac, [nVac]int64{})
				}
				for i := range acc.vac {
					e.Stats.Vac[ci][i] += acc.vac[i]
				}
				if ci == 0 {
					e.Stats.MaxLenSeqs += acc.maxLen
					e.Stats.Nontrivial += acc.nontriv
				}
			}
			for h := range acc.hashes {
				e.Stats.Hashes[h] = struct{}{}
			}
		}
		if expired != 0 {
			return false
		}
		// twins from the table
		distinct := e.memoTwins(l, cfg, memo)
		if final && ci == 0 {
			e.Stats.DistinctSeqs = distinct
		}
		// the hash list must not depend on the store variant (gas wrapper, rotation, State reuse): none
		// of them is a write
		if ci == 0 {
			base = memo
		} else {
			e.crossCfg(l, e.Cfgs[0], cfg, base, memo)
		}
		if e.Log != nil {
			e.Log("  length %d config %s done: %d executions so far, %.1fs", l, cfg, e.Stats.Executions, time.Since(startTime).Seconds())
		}
	}
	return true
}

var startTime = time.Now()

// dfs extends seq[:d] to every legal sequence of length len(seq) and executes each one.
func (e *Enumerator) dfs(seq []uint8, d int, inSess bool, r, tw *Runner, memo []uint64, acc *workerAcc, final, first bool) {
	a := e.A
	if d == len(seq) {
		e.exec(seq, r, tw, memo, acc, final, first)
		return
	}
	for x := 0; x < e.n; x++ {
		in := inSess
		switch a.Ops[x].K {
		case Begin:
			in = true
		case CommitTx:
			if !inSess {
				continue
			}
			in = false
		case DiscardTx, CommitBlock, Reopen:
			in = false
		}
		seq[d] = uint8(x)
		e.dfs(seq, d+1, in, r, tw, memo, acc, final, first)
	}
}

func (e *Enumerator) exec(seq []uint8, r, tw *Runner, memo []uint64, acc *workerAcc, final, first bool) {
	a := e.A
	r.Run(seq)
	acc.execs++
	acc.ops += int64(len(seq))
	if final {
		acc.maxLen++
		for i := 0; i < nVac; i++ {
			if r.Vac&(1<<uint(i)) != 0 {
				acc.vac[i]++
			}
		}
		if first && r.Vac&(VReadDependsOnWrite|VCommitNonEmpty) != 0 {
			acc.nontriv++
		}
	}
	for _, m := range r.Mismatches {
		acc.found.add(foundEntry{sig: m.Sig, what: m.What, cfg: r.Cfg, seq: seq[:m.Step+1], step: m.Step}, 1)
	}
	// record / re-validate the hash list of every prefix
	x := int64(0)
	for i := 0; i <= len(seq); i++ {
		if i > 0 {
			x = x*int64(e.n) + int64(seq[i-1])
		}
		idx := e.offs[i] + x
		d := nz(r.Prefix[i])
		if old := atomic.LoadUint64(&memo[idx]); old == 0 {
			if !atomic.CompareAndSwapUint64(&memo[idx], 0, d) {
				old = atomic.LoadUint64(&memo[idx])
				if old != d {
					e.nondet(seq[:i], r.Cfg, acc)
				}
			}
		} else {
			acc.recheck++
			if old != d {
				e.nondet(seq[:i], r.Cfg, acc)
			}
		}
	}
	// twin 3: a Get and an Exists of every key after every op must not change any commit hash. Executed
	// for the read-free sequences with a block commit: a sequence with reads has the same hashes as its
	// read-free skeleton (twin 1, checked for every sequence), whose twin 3 is executed here.
	if final && r.NCommits > 0 && a.HasRereadOps() && !a.hasReads(seq) {
		t := a.WithRereads(seq)
		tw.Run(t)
		acc.execs++
		acc.ops += int64(len(t))
		acc.reread++
		for _, m := range tw.Mismatches {
			acc.found.add(foundEntry{sig: m.Sig, what: m.What, cfg: tw.Cfg, seq: t[:m.Step+1], step: m.Step}, 1)
		}
		if tw.Digest != r.Digest {
			acc.found.add(foundEntry{
				sig:  fmt.Sprintf("C09|hash-depends-on-reads|twin=reread-after-every-op|layer=%s", r.Cfg.Layer()),
				what: "a commit hash changes when a Get and an Exists of every key are issued after every operation of the sequence",
				cfg:  r.Cfg, seq: seq, twin: "reread-after-every-op", twinSeq: t, step: len(seq) - 1}, 1)
		}
	}
}

func (e *Enumerator) nondet(seq []uint8, cfg Config, acc *workerAcc) {
	acc.found.add(foundEntry{
		sig:  fmt.Sprintf("C09|hash-not-a-function-of-writes|twin=same-sequence|layer=%s", cfg.Layer()),
		what: "two executions of the same operation sequence on fresh stores returned different commit hashes",
		cfg:  cfg, seq: seq, twin: "same-sequence", twinSeq: seq, step: len(seq) - 1}, 1)
}

// memoTwins compares, for every executed sequence, its hash list with that of the same sequence without
// reads (twin 1) and without discarded sessions (twin 2). Both twins are themselves legal sequences of at
// most the same length, hence executed in the same round: the comparison is a table lookup.
func (e *Enumerator) memoTwins(l int, cfg Config, memo []uint64) (distinct int64) {
	a := e.A
	total := e.offs[l+1]
	var wg sync.WaitGroup
	chunk := (total + int64(e.Workers) - 1) / int64(e.Workers)
	var checks, dist int64
	for w := 0; w < e.Workers; w++ {
		lo, hi := int64(w)*chunk, int64(w+1)*chunk
		if hi > total {
			hi = total
		}
		wg.Add(1)
		go func() {
			defer wg.Done()
			f := newFound()
			buf := make([]uint8, l)
			var n, nd int64
			for idx := lo; idx < hi; idx++ {
				d := memo[idx]
				if d == 0 {
					continue
				}
				nd++
				seq := e.decode(idx, buf)
				if t := a.StripReads(seq); len(t) != len(seq) {
					n++
					td := memo[e.index(t)]
					if td == 0 {
						panic(fmt.Sprintf("internal: twin %v of %v was not executed", a.Strings(t), a.Strings(seq)))
					}
					if td != d {
						f.add(foundEntry{sig: fmt.Sprintf("C09|hash-depends-on-reads|reads=%s|layer=%s", a.readKinds(seq), cfg.Layer()),
							what: "a commit hash differs between a sequence and the same sequence with its reads removed",
							cfg:  cfg, seq: seq, twin: "reads-removed", twinSeq: t, step: len(seq) - 1}, 1)
					}
				}
				if t := a.StripDiscarded(seq); len(t) != len(seq) {
					n++
					td := memo[e.index(t)]
					if td == 0 {
						panic(fmt.Sprintf("internal: twin %v of %v was not executed", a.Strings(t), a.Strings(seq)))
					}
					if td != d {
						f.add(foundEntry{sig: fmt.Sprintf("C09|hash-depends-on-discarded-session|layer=%s", cfg.Layer()),
							what: "a commit hash differs between a sequence and the same sequence with its discarded sessions removed",
							cfg:  cfg, seq: seq, twin: "discarded-sessions-removed", twinSeq: t, step: len(seq) - 1}, 1)
					}
				}
			}
			atomic.AddInt64(&checks, n)
			atomic.AddInt64(&dist, nd)
			e.Found.merge(f)
		}()
	}
	wg.Wait()
	e.Stats.MemoTwinChecks += checks
	return dist
}

func (e *Enumerator) crossCfg(l int, ca, cb Config, ma, mb []uint64) {
	total := e.offs[l+1]
	buf := make([]uint8, l)
	for idx := int64(0); idx < total; idx++ {
		if ma[idx] == 0 && mb[idx] == 0 {
			continue
		}
		e.Stats.CrossCfgChecks++
		if ma[idx] != mb[idx] {
			seq := e.decode(idx, buf)
			b := cb
			e.Found.add(foundEntry{sig: fmt.Sprintf("C09|hash-depends-on-store-variant|a=%s|b=%s", ca, cb),
				what: "the same operation sequence returns different commit hashes under two store configurations (gas wrapper / rotation / State reuse are not writes)",
				cfg:  ca, cfgB: &b, seq: seq, twin: "store-variant", twinSeq: seq, step: len(seq) - 1}, 1)
		}
	}
}

// Results confirms every class by re-executing its witness three times and returns the confirmed
// classes, sorted by signature.
func (e *Enumerator) Results() []Found {
	return confirmAll(e.A, e.Found, &e.Stats.Executions)
}

func caseOf(a *Alphabet, fe *foundEntry) *Case {
	c := &Case{Alphabet: a.Name, Config: fe.cfg, ConfigB: fe.cfgB, Ops: a.Strings(fe.seq), Twin: fe.twin, Step: fe.step}
	if fe.twin != "" {
		c.TwinOps = a.Strings(fe.twinSeq)
		c.TwinSig = fe.sig
	}
	return c
}

// confirmAll re-runs each witness 3 times. A read/model mismatch must reappear with the same signature at
// the same step every time; a hash twin must differ every time. A hash comparison that does not come out
// the same way three times means that identical inputs give different commit hashes: it is folded into
// the class "hash-not-a-function-of-writes|twin=same-sequence", which is confirmed by executing the one
// sequence up to 64 times and counting distinct hash lists.
func confirmAll(a *Alphabet, f *found, execs *int64) []Found {
	var sigs []string
	for s := range f.m {
		sigs = append(sigs, s)
	}
	sort.Strings(sigs)
	res := map[string]*Found{}
	put := func(sig, what string, count int64, c *Case) {
		if cur, ok := res[sig]; ok {
			cur.Count += count
			if len(c.Ops) < len(cur.Case.Ops) {
				cur.Case, cur.What = c, what
			}
			return
		}
		res[sig] = &Found{Sig: sig, What: what, Count: count, Case: c}
	}
	for _, s := range sigs {
		fe := f.m[s]
		c := caseOf(a, fe)
		same := 0
		if fe.twin != "same-sequence" {
			for i := 0; i < 3; i++ {
				sigsNow, _ := ReplayCase(a, c, fe.seq, fe.twinSeq)
				*execs += 2
				for _, x := range sigsNow {
					if x == s {
						same++
						break
					}
				}
			}
			if same == 3 && fe.twin == "" {
				put(s, fe.what, fe.count, c)
				continue
			}
		}
		if fe.twin != "" {
			// a hash comparison: before blaming the twin transformation make sure each side is a function of
			// its own sequence. 3 of 3 differing pairs get 16 repetitions of each side, anything else 64.
			reps := 64
			if same == 3 {
				reps = 16
			}
			nondet := false
			for _, side := range [][]uint8{fe.seq, fe.twinSeq} {
				distinct, runs := repeatRuns(a, fe.cfg, side, reps)
				*execs += int64(runs)
				if distinct > 1 {
					nd := &Case{Alphabet: a.Name, Config: fe.cfg, Ops: a.Strings(side), Twin: "same-sequence", TwinOps: a.Strings(side), Step: len(side) - 1,
						TwinSig: fmt.Sprintf("C09|hash-not-a-function-of-writes|twin=same-sequence|layer=%s", fe.cfg.Layer())}
					nd.Note = fmt.Sprintf("%d distinct hash lists in %d executions of this one sequence (found while checking %s)", distinct, runs, s)
					put(nd.TwinSig, "executions of one and the same operation sequence on fresh stores return different commit hashes", fe.count, nd)
					nondet = true
					break
				}
			}
			if nondet {
				continue
			}
			if same == 3 {
				put(s, fe.what, fe.count, c)
				continue
			}
		}
		what := fmt.Sprintf("re-executing the witness 3 times reproduced the finding %d times: the store behaves differently on identical inputs (%s)", same, fe.what)
		c.Note = what
		put("C09|not-reproducible|"+s[len("C09|"):], what, fe.count, c)
	}
	var out []Found
	for _, fd := range res {
		out = append(out, *fd)
	}
	sort.Slice(out, func(i, j int) bool { return out[i].Sig < out[j].Sig })
	return out
}

// repeatRuns executes seq up to max times and returns the number of distinct hash lists seen (it stops at
// the first difference).
func repeatRuns(a *Alphabet, cfg Config, seq []uint8, max int) (distinct, runs int) {
	r := NewRunner(a, cfg)
	seen := map[uint64]bool{}
	for runs < max {
		r.Run(seq)
		runs++
		seen[r.Digest] = true
		if len(seen) > 1 {
			break
		}
	}
	return len(seen), runs
}

// ReplayCase executes a case (sequence + optional twin) and returns the violation signatures it shows,
// plus a human-readable transcript.
func ReplayCase(a *Alphabet, c *Case, seq, twinSeq []uint8) (sigs []string, transcript []string) {
	r := NewRunner(a, c.Config)
	r.KeepTrace, r.KeepEvents = true, true
	r.Run(seq)
	transcript = append(transcript, fmt.Sprintf("config %s", c.Config))
	transcript = append(transcript, r.Trace...)
	for _, m := range r.Mismatches {
		sigs = append(sigs, m.Sig)
	}
	if c.Twin == "" {
		return
	}
	if c.Twin == "same-sequence" {
		distinct, runs := repeatRuns(a, c.Config, seq, 64)
		if distinct > 1 {
			sig := c.TwinSig
			if sig == "" {
				sig = fmt.Sprintf("C09|hash-not-a-function-of-writes|twin=same-sequence|layer=%s", c.Config.Layer())
			}
			sigs = append(sigs, sig)
			transcript = append(transcript, fmt.Sprintf("HASH LISTS DIFFER between executions of this one sequence (%d executions needed)  <-- %s", runs+1, sig))
		} else {
			transcript = append(transcript, fmt.Sprintf("%d further executions of the sequence all returned the same hash list", runs))
		}
		return
	}
	cfgB := c.Config
	if c.ConfigB != nil {
		cfgB = *c.ConfigB
	}
	t := NewRunner(a, cfgB)
	t.KeepTrace, t.KeepEvents = true, true
	t.Run(twinSeq)
	transcript = append(transcript, fmt.Sprintf("twin (%s) config %s", c.Twin, cfgB))
	transcript = append(transcript, t.Trace...)
	for _, m := range t.Mismatches {
		sigs = append(sigs, m.Sig)
	}
	if r.Digest != t.Digest {
		sig := c.TwinSig
		if sig == "" {
			sig = "C09|hash-differs|twin=" + c.Twin
		}
		sigs = append(sigs, sig)
		transcript = append(transcript, fmt.Sprintf("HASH LISTS DIFFER: %v vs %v  <-- %s", r.Events, t.Events, sig))
	} else {
		transcript = append(transcript, fmt.Sprintf("hash lists equal (%d commit/reopen events)", len(r.Events)))
	}
	return
}
