// Package evm is Engine E: bounded exhaustive differential checking of the chain's EVM state adapter
// (github.com/Oneledger/protocol/vm.CommitStateDB over a real storage.State) against go-ethereum's own
// core/state.StateDB, for property C16.
package evm

import (
	"fmt"
	"io"
	"math"
	"math/big"

	"github.com/Oneledger/protocol/data/balance"
	"github.com/Oneledger/protocol/data/chain"
	dataevm "github.com/Oneledger/protocol/data/evm"
	"github.com/Oneledger/protocol/log"
	"github.com/Oneledger/protocol/storage"
	olvm "github.com/Oneledger/protocol/vm"
	ethcmn "github.com/ethereum/go-ethereum/common"
	"github.com/ethereum/go-ethereum/core/rawdb"
	ethstate "github.com/ethereum/go-ethereum/core/state"
	ethtypes "github.com/ethereum/go-ethereum/core/types"
	tmdb "github.com/tendermint/tm-db"
)

// seedAccount is one starting account, installed identically on both back-ends.
type seedAccount struct {
	Addr    ethcmn.Address
	Balance int64
	Nonce   uint64
	Code    []byte
	Storage map[ethcmn.Hash]ethcmn.Hash
	// Legacy: the account exists only as a native balance (key b_<addr>_OLT), the way accounts funded by a
	// native SEND or by genesis exist before their first OLVM transaction (no "keeper" record). Requires
	// Nonce==0 and no code/storage.
	Legacy bool
}

var (
	blockHash1 = ethcmn.HexToHash("0xb10c000000000000000000000000000000000000000000000000000000000001")
)

func blockHash(n int) ethcmn.Hash {
	h := blockHash1
	h[31] = byte(n + 1)
	return h
}

func txHash(n int) ethcmn.Hash {
	var h ethcmn.Hash
	h[0] = 0x7a
	h[30] = byte(n >> 8)
	h[31] = byte(n + 1)
	return h
}

// genesis is an immutable, committed starting point shared by all executions of one worker that do not
// commit a block. Executions that do (EndBlock) build a private copy with newGenesis.
type genesis struct {
	seeds      []seedAccount
	cs         *storage.ChainState
	currencies *balance.CurrencySet
	logger     *log.Logger
	refDB      ethstate.Database
	refRoot    ethcmn.Hash
	privates   int
}

func oltCurrency() balance.Currency {
	return balance.Currency{Id: 0, Name: "OLT", Chain: chain.Type(0), Decimal: 18, Unit: "nue"}
}

// newGenesis installs the seed accounts on both back-ends and commits them (chain state version 1 / trie root).
//
// The adapter side is seeded the way the chain itself gets such accounts: legacy accounts through the
// native balance store, contract accounts through the adapter's own write path (SetNonce/SetCode/SetState,
// Finalise, block commit). The very first comparison of every run (the empty sequence) checks that both
// back-ends report the same starting accounts.
func newGenesis(seeds []seedAccount) (*genesis, error) {
	g := &genesis{seeds: seeds}
	if err := g.seedAdapter(); err != nil {
		return nil, err
	}
	// go-ethereum's state.NewDatabase maps a 64 MiB off-heap code cache on first use, so the reference database
	// is created once per genesis and shared by its private copies (see private()): trie nodes and code are
	// content-addressed, so block commits of different executions cannot interfere.
	g.refDB = ethstate.NewDatabase(rawdb.NewMemoryDatabase())
	ref, err := ethstate.New(ethcmn.Hash{}, g.refDB, nil)
	if err != nil {
		return nil, err
	}
	for _, s := range seeds {
		ref.CreateAccount(s.Addr)
		ref.SetBalance(s.Addr, big.NewInt(s.Balance))
		ref.SetNonce(s.Addr, s.Nonce)
		if len(s.Code) > 0 {
			ref.SetCode(s.Addr, s.Code)
		}
		for k, v := range s.Storage {
			ref.SetState(s.Addr, k, v)
		}
	}
	root, err := ref.Commit(true)
	if err != nil {
		return nil, err
	}
	g.refRoot = root
	return g, nil
}

// private returns a genesis with its own chain state (so that the execution may commit blocks) that shares
// the reference database of g.
func (g *genesis) private() *genesis {
	p := &genesis{seeds: g.seeds, refDB: g.refDB, refRoot: g.refRoot}
	if err := p.seedAdapter(); err != nil {
		panic(err)
	}
	g.privates++
	return p
}

func (g *genesis) seedAdapter() error {
	seeds := g.seeds
	g.currencies = balance.NewCurrencySet()
	if err := g.currencies.Register(oltCurrency()); err != nil {
		return err
	}
	g.logger = log.NewLoggerWithPrefix(io.Discard, "stateDB").WithLevel(log.Fatal)
	g.cs = storage.NewChainState("chainstate", tmdb.NewDB("c16", tmdb.MemDBBackend, ""))

	a := newAdapter(g)
	for _, s := range seeds {
		if s.Legacy {
			if s.Nonce != 0 || len(s.Code) != 0 || len(s.Storage) != 0 {
				return fmt.Errorf("legacy seed %s with nonce/code/storage", s.Addr.Hex())
			}
			coin := balance.Coin{Currency: oltCurrency(), Amount: balance.NewAmountFromBigInt(big.NewInt(s.Balance))}
			if err := a.balances.SetBalance(s.Addr.Bytes(), coin); err != nil {
				return err
			}
			continue
		}
		a.sdb.CreateAccount(s.Addr)
		if s.Balance != 0 {
			a.sdb.AddBalance(s.Addr, big.NewInt(s.Balance))
		}
		a.sdb.SetNonce(s.Addr, s.Nonce)
		if len(s.Code) > 0 {
			a.sdb.SetCode(s.Addr, s.Code)
		}
		for k, v := range s.Storage {
			a.sdb.SetState(s.Addr, k, v)
		}
	}
	if err := a.sdb.Finalise(true); err != nil {
		return fmt.Errorf("seeding the adapter: %v", err)
	}
	a.st.CommitTxSession()
	a.sdb.Reset()
	a.st.Commit()
	return nil
}

// adapter is one instance of the system under test, wired as in app/context.go and driven as in
// app/controller.go: one storage.State per block (WithGas, as in BeginBlock), shared by the balance store,
// the contract store and the account keeper; a tx session per transaction.
type adapter struct {
	g        *genesis
	st       *storage.State
	balances *balance.Store
	sdb      *olvm.CommitStateDB
	block    int
	tx       int
}

func newBlockState(cs *storage.ChainState) *storage.State {
	return storage.NewState(cs).WithGas(storage.NewGasCalculator(storage.Gas(math.MaxInt64)))
}

func newAdapter(g *genesis) *adapter {
	a := &adapter{g: g}
	a.st = newBlockState(g.cs)
	a.balances = balance.NewStore("b", a.st)
	contracts := dataevm.NewContractStore(a.st)
	keeper := balance.NewNesterAccountKeeper(a.st, a.balances, g.currencies)
	a.sdb = olvm.NewCommitStateDB(contracts, keeper, g.logger)
	a.sdb.WithState(a.st)
	a.sdb.SetBlockHash(blockHash(0))
	a.sdb.Prepare(txHash(0))
	a.st.BeginTxSession()
	return a
}

// finalise is the transaction boundary of txDeliverer: Finalise(true) (EVMTransaction.Apply), then the tx
// session is committed into the block cache and a new one is opened.
func (a *adapter) finalise() error {
	err := a.sdb.Finalise(true)
	a.st.CommitTxSession()
	a.st.BeginTxSession()
	return err
}

// nextTx = finalise + Prepare(hash of the next transaction), as DeliverTx does for every transaction.
func (a *adapter) nextTx() error {
	err := a.finalise()
	a.tx++
	a.sdb.Prepare(txHash(a.tx))
	return err
}

// endBlock = finalise, EndBlock's Reset(), Commit of the block state, BeginBlock of the next block
// (fresh deliver state, SetBlockHash) and Prepare for its first transaction. Only legal on a private genesis.
func (a *adapter) endBlock() error {
	err := a.sdb.Finalise(true)
	a.st.CommitTxSession()
	a.sdb.Reset()
	a.st.Commit()
	a.block++
	a.tx++
	a.st = newBlockState(a.g.cs)
	a.sdb.WithState(a.st)
	a.sdb.SetBlockHash(blockHash(a.block))
	a.sdb.Prepare(txHash(a.tx))
	a.st.BeginTxSession()
	return err
}

// reference is go-ethereum's own state.
type reference struct {
	g     *genesis
	sdb   *ethstate.StateDB
	block int
	tx    int
}

func newReference(g *genesis) *reference {
	sdb, err := ethstate.New(g.refRoot, g.refDB, nil)
	if err != nil {
		panic(err)
	}
	sdb.Prepare(txHash(0), 0)
	return &reference{g: g, sdb: sdb}
}

func (r *reference) finalise() { r.sdb.Finalise(true) }

func (r *reference) nextTx() {
	r.finalise()
	r.tx++
	r.sdb.Prepare(txHash(r.tx), r.tx)
}

func (r *reference) endBlock() {
	r.sdb.Finalise(true)
	root, err := r.sdb.Commit(true)
	if err != nil {
		panic(err)
	}
	sdb, err := ethstate.New(root, r.g.refDB, nil)
	if err != nil {
		panic(err)
	}
	r.sdb = sdb
	r.block++
	r.tx++
	r.sdb.Prepare(txHash(r.tx), 0)
}

func (r *reference) txLogs() []*ethtypes.Log { return r.sdb.GetLogs(txHash(r.tx), blockHash(r.block)) }
func (a *adapter) txLogs() []*ethtypes.Log   { return a.sdb.GetTxLogs() }
