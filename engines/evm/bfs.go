package evm

import (
	"encoding/binary"
	"hash/fnv"
	"sync"
	"sync/atomic"
	"time"
)

// Merged breadth-first search: sequences are explored level by level, but two sequences that leave
// go-ethereum's reference state in the same abstract state are merged (only the first one found is extended).
//
// The abstract state (bfsKey) is: every getter of the reference now, the getter digests recorded at each
// currently valid snapshot (what a RevertToSnapshot would restore), whether unfinalised changes exist, and
// every getter of a copy of the reference after Finalise(true) (this exposes the hidden "touched/dirty"
// set that decides which empty accounts Finalise deletes).
//
// Merging is sound for the reference by construction; the adapter may hold different internal state on two
// merged paths, so this search extends coverage beyond the exhaustively enumerated lengths, it is not
// exhaustive over sequences.

type bfsKey struct{ a, b uint64 }

type bfsNode struct {
	n   uint8
	ops [8]Op
}

func (n bfsNode) seq() []Op { return append([]Op(nil), n.ops[:n.n]...) }

type bfsStats struct {
	levelsCompleted int
	levelSizes      []int
	executions      int64
	transitions     int64
	merged          int64
	diverged        int64
	capHit          string
}

func (x *ifaceRun) bfsKey(scratch []byte) (bfsKey, []byte) {
	buf := x.observe(false, scratch[:0])
	var u8 [8]byte
	for _, d := range x.snapDigest {
		binary.BigEndian.PutUint64(u8[:], d)
		buf = append(buf, u8[:]...)
	}
	buf = append(buf, byte(len(x.snapDigest)), b2b(x.jl > 0))
	cp := x.r.sdb.Copy()
	cp.Finalise(true)
	buf = observeDB(cp, cp.GetLogs(txHash(x.r.tx), blockHash(x.r.block)), false, nil, buf)
	h1 := fnv.New64a()
	h1.Write(buf)
	h2 := fnv.New64()
	h2.Write(buf)
	return bfsKey{h1.Sum64(), h2.Sum64()}, buf
}

func (e *ifaceEngine) bfs(alphaName string, maxDepth int, maxNodes int, deadline time.Time) bfsStats {
	alpha := alphabet(alphaName)
	var st bfsStats
	seen := map[bfsKey]struct{}{}
	frontier := []bfsNode{{}}
	{
		w := newIfaceWorker()
		x := newIfaceRun(w.shared)
		k, _ := x.bfsKey(nil)
		seen[k] = struct{}{}
	}
	total := 1
	type child struct {
		k  bfsKey
		op Op
	}
	for depth := 0; depth < maxDepth; depth++ {
		// phase 1 (parallel): execute every child of every frontier node; keep those whose abstract state
		// was not seen on an earlier level. phase 2 (sequential, in frontier order): merge within the level,
		// so that the representative of every abstract state does not depend on scheduling.
		children := make([][]child, len(frontier))
		var idx int64 = -1
		var stop int32
		var wg sync.WaitGroup
		for i := 0; i < e.workers; i++ {
			wg.Add(1)
			go func() {
				defer wg.Done()
				w := newIfaceWorker()
				var scratch []byte
				for {
					j := atomic.AddInt64(&idx, 1)
					if j >= int64(len(frontier)) || atomic.LoadInt32(&stop) != 0 {
						return
					}
					if j%64 == 0 && time.Now().After(deadline) {
						atomic.StoreInt32(&stop, 1)
						return
					}
					parent := frontier[j].seq()
					pres := w.exec(parent, false, false)
					enabled := pres.x.enabled(alpha, false, nil)
					for _, op := range enabled {
						seq := append(parent[:len(parent):len(parent)], op)
						res := w.exec(seq, false, false)
						atomic.AddInt64(&st.executions, 1)
						atomic.AddInt64(&st.transitions, int64(len(seq)))
						atomic.AddInt64(&e.stats.opKindApplied[op.K], 1)
						if res.diffs != nil {
							atomic.AddInt64(&st.diverged, 1)
							e.record(w, seq)
							continue
						}
						var k bfsKey
						k, scratch = res.x.bfsKey(scratch)
						e.stats.states.add(digest(w.bufR))
						if _, dup := seen[k]; dup { // seen is read-only during phase 1
							atomic.AddInt64(&st.merged, 1)
							continue
						}
						children[j] = append(children[j], child{k, op})
					}
				}
			}()
		}
		wg.Wait()
		if stop != 0 {
			st.capHit = "deadline"
			return st
		}
		var next []bfsNode
		for j, cs := range children {
			for _, c := range cs {
				if _, dup := seen[c.k]; dup {
					st.merged++
					continue
				}
				seen[c.k] = struct{}{}
				n := frontier[j]
				n.ops[n.n] = c.op
				n.n++
				next = append(next, n)
			}
		}
		st.levelsCompleted = depth + 1
		st.levelSizes = append(st.levelSizes, len(next))
		total += len(next)
		if len(next) == 0 {
			return st
		}
		if total > maxNodes && depth+1 < maxDepth {
			st.capHit = "max_nodes"
			return st
		}
		frontier = next
	}
	return st
}
