package evm

import (
	"bytes"
	"encoding/binary"
	"fmt"
	"hash/fnv"
	"math/big"
	"sort"
	"strings"

	"github.com/Oneledger/protocol/utils"
	ethcmn "github.com/ethereum/go-ethereum/common"
	ethtypes "github.com/ethereum/go-ethereum/core/types"
	ethvm "github.com/ethereum/go-ethereum/core/vm"
	ethcrypto "github.com/ethereum/go-ethereum/crypto"
)

// ---------------------------------------------------------------------------------------------
// The small world of the interface level
// ---------------------------------------------------------------------------------------------

var (
	addrA = ethcmn.HexToAddress("0xa1a1a1a1a1a1a1a1a1a1a1a1a1a1a1a1a1a1a1a1") // pre-funded EOA (native balance only)
	addrB = ethcmn.HexToAddress("0xb2b2b2b2b2b2b2b2b2b2b2b2b2b2b2b2b2b2b2b2") // contract: code, storage, balance, nonce 1
	addrC = ethcmn.HexToAddress("0xc3c3c3c3c3c3c3c3c3c3c3c3c3c3c3c3c3c3c3c3") // fresh (does not exist)

	ifaceAddrs = []ethcmn.Address{addrA, addrB, addrC}
	addrNames  = []string{"A", "B", "C"}

	// storage keys of the interface level ("slot0", "slot1"). Not the zero hash: go-ethereum's ForEachStorage
	// reports keys whose preimage it cannot resolve as the zero hash.
	slot0      = ethcmn.HexToHash("0x01")
	slot1      = ethcmn.HexToHash("0x02")
	ifaceSlots = []ethcmn.Hash{slot0, slot1}
	// storage keys observed at the program level (the snippets use key 0; the pre-deployed callees too)
	progSlots = []ethcmn.Hash{ethcmn.HexToHash("0x00"), ethcmn.HexToHash("0x01")}

	// codes[0] is "no code"
	ifaceCodes = [][]byte{nil, {0x00}, {0x60, 0x00, 0x00}}

	precompile1 = ethcmn.HexToAddress("0x01")
)

func val(i int) ethcmn.Hash { return ethcmn.BigToHash(big.NewInt(int64(i))) }

func ifaceSeeds() []seedAccount {
	return []seedAccount{
		{Addr: addrA, Balance: 1, Legacy: true},
		{Addr: addrB, Balance: 1, Nonce: 1, Code: ifaceCodes[1], Storage: map[ethcmn.Hash]ethcmn.Hash{slot0: val(1)}},
	}
}

// ---------------------------------------------------------------------------------------------
// Operations
// ---------------------------------------------------------------------------------------------

type opKind uint8

const (
	opCreateAccount opKind = iota
	opAddBalance
	opSubBalance
	opSetNonce
	opSetCode
	opSetState
	opSuicide
	opAddRefund
	opSubRefund
	opAddLog
	opAddAddressToAccessList
	opAddSlotToAccessList
	opPrepareAccessList
	opAddPreimage
	opSnapshot
	opRevertToSnapshot
	opFinalise
	opNextTx
	opEndBlock
	numOpKinds
)

var opNames = [...]string{"CreateAccount", "AddBalance", "SubBalance", "SetNonce", "SetCode", "SetState", "Suicide",
	"AddRefund", "SubRefund", "AddLog", "AddAddressToAccessList", "AddSlotToAccessList", "PrepareAccessList",
	"AddPreimage", "Snapshot", "RevertToSnapshot", "Finalise", "NextTx", "EndBlock"}

// Op is one call of the state interface. A = address index (0..2), S = slot index, V = value / code index /
// variant / (for RevertToSnapshot) the position of the snapshot in the stack of currently valid ones (0 = oldest).
type Op struct {
	K opKind
	A int8
	S int8
	V int8
}

func (o Op) String() string {
	n := opNames[o.K]
	switch o.K {
	case opCreateAccount, opSuicide, opAddAddressToAccessList:
		return fmt.Sprintf("%s(%s)", n, addrNames[o.A])
	case opAddBalance, opSubBalance, opSetNonce:
		return fmt.Sprintf("%s(%s,%d)", n, addrNames[o.A], o.V)
	case opSetCode:
		return fmt.Sprintf("%s(%s,code%d)", n, addrNames[o.A], o.V)
	case opSetState:
		return fmt.Sprintf("%s(%s,slot%d,%d)", n, addrNames[o.A], o.S, o.V)
	case opAddRefund, opSubRefund:
		return fmt.Sprintf("%s(%d)", n, o.V)
	case opAddLog:
		return fmt.Sprintf("%s(%s,topic%d)", n, addrNames[o.A], o.V)
	case opAddSlotToAccessList:
		return fmt.Sprintf("%s(%s,slot%d)", n, addrNames[o.A], o.S)
	case opPrepareAccessList:
		return fmt.Sprintf("%s(variant%d)", n, o.V)
	case opRevertToSnapshot:
		return fmt.Sprintf("%s(#%d)", n, o.V)
	case opFinalise:
		return "Finalise(true)"
	}
	return n + "()"
}

// ParseOp is the inverse of String (for replay files).
func ParseOp(s string) (Op, error) {
	open := strings.IndexByte(s, '(')
	if open < 0 || !strings.HasSuffix(s, ")") {
		return Op{}, fmt.Errorf("bad op %q", s)
	}
	name, argstr := s[:open], s[open+1:len(s)-1]
	k := -1
	for i, n := range opNames {
		if n == name {
			k = i
		}
	}
	if k < 0 {
		return Op{}, fmt.Errorf("unknown op %q", name)
	}
	o := Op{K: opKind(k)}
	var args []string
	if argstr != "" {
		args = strings.Split(argstr, ",")
	}
	num := func(a, prefix string) (int8, error) {
		var n int
		if _, err := fmt.Sscanf(strings.TrimPrefix(a, prefix), "%d", &n); err != nil {
			return 0, fmt.Errorf("bad argument %q in %q", a, s)
		}
		return int8(n), nil
	}
	addr := func(a string) (int8, error) {
		for i, n := range addrNames {
			if n == a {
				return int8(i), nil
			}
		}
		return 0, fmt.Errorf("bad address %q in %q", a, s)
	}
	need := func(n int) error {
		if len(args) != n {
			return fmt.Errorf("%q: want %d arguments", s, n)
		}
		return nil
	}
	var err error
	switch o.K {
	case opCreateAccount, opSuicide, opAddAddressToAccessList:
		if err = need(1); err == nil {
			o.A, err = addr(args[0])
		}
	case opAddBalance, opSubBalance, opSetNonce:
		if err = need(2); err == nil {
			if o.A, err = addr(args[0]); err == nil {
				o.V, err = num(args[1], "")
			}
		}
	case opSetCode:
		if err = need(2); err == nil {
			if o.A, err = addr(args[0]); err == nil {
				o.V, err = num(args[1], "code")
			}
		}
	case opSetState:
		if err = need(3); err == nil {
			if o.A, err = addr(args[0]); err == nil {
				if o.S, err = num(args[1], "slot"); err == nil {
					o.V, err = num(args[2], "")
				}
			}
		}
	case opAddRefund, opSubRefund:
		if err = need(1); err == nil {
			o.V, err = num(args[0], "")
		}
	case opAddLog:
		if err = need(2); err == nil {
			if o.A, err = addr(args[0]); err == nil {
				o.V, err = num(args[1], "topic")
			}
		}
	case opAddSlotToAccessList:
		if err = need(2); err == nil {
			if o.A, err = addr(args[0]); err == nil {
				o.S, err = num(args[1], "slot")
			}
		}
	case opPrepareAccessList:
		if err = need(1); err == nil {
			o.V, err = num(args[0], "variant")
		}
	case opRevertToSnapshot:
		if err = need(1); err == nil {
			o.V, err = num(args[0], "#")
		}
	case opFinalise:
		if len(args) != 1 || args[0] != "true" {
			err = fmt.Errorf("bad op %q", s)
		}
	default:
		err = need(0)
	}
	if err == nil && (int(o.A) >= len(ifaceAddrs) || int(o.S) >= len(ifaceSlots) || o.A < 0 || o.S < 0 || o.V < 0) {
		err = fmt.Errorf("argument out of range in %q", s)
	}
	return o, err
}

func opStrings(ops []Op) []string {
	out := make([]string, len(ops))
	for i, o := range ops {
		out[i] = o.String()
	}
	return out
}

func kindsOf(ops []Op) string {
	names := make([]string, len(ops))
	for i, o := range ops {
		names[i] = opNames[o.K]
	}
	return strings.Join(names, ";")
}

// alphabet returns the static part of an alphabet (RevertToSnapshot is added dynamically, one instance per
// currently valid snapshot).
//
// "full": every operation with every address, both slots and values {0,1,2}.
// "core": every operation kind, with the subset of arguments listed here (documented in the evidence).
// "bfs":  the alphabet of the merged breadth-first search.
func alphabet(name string) []Op {
	var ops []Op
	add := func(o ...Op) { ops = append(ops, o...) }
	switch name {
	case "full":
		for a := int8(0); a < 3; a++ {
			add(Op{K: opCreateAccount, A: a})
			for v := int8(0); v < 3; v++ {
				add(Op{K: opAddBalance, A: a, V: v})
				if v > 0 {
					add(Op{K: opSubBalance, A: a, V: v})
				}
				add(Op{K: opSetNonce, A: a, V: v})
				add(Op{K: opSetCode, A: a, V: v})
				for s := int8(0); s < 2; s++ {
					add(Op{K: opSetState, A: a, S: s, V: v})
				}
			}
			add(Op{K: opSuicide, A: a})
			add(Op{K: opAddAddressToAccessList, A: a})
			for s := int8(0); s < 2; s++ {
				add(Op{K: opAddSlotToAccessList, A: a, S: s})
			}
		}
		add(Op{K: opAddRefund, V: 1}, Op{K: opAddRefund, V: 2}, Op{K: opSubRefund, V: 1}, Op{K: opSubRefund, V: 2})
		add(Op{K: opAddLog, A: 1, V: 1}, Op{K: opAddLog, A: 0, V: 2})
		add(Op{K: opPrepareAccessList, V: 0}, Op{K: opPrepareAccessList, V: 1})
		add(Op{K: opAddPreimage}, Op{K: opSnapshot}, Op{K: opFinalise}, Op{K: opNextTx}, Op{K: opEndBlock})
	case "core":
		for a := int8(0); a < 3; a++ {
			add(Op{K: opCreateAccount, A: a}, Op{K: opAddBalance, A: a, V: 1}, Op{K: opAddBalance, A: a, V: 0},
				Op{K: opSubBalance, A: a, V: 1}, Op{K: opSetNonce, A: a, V: 1}, Op{K: opSuicide, A: a})
		}
		add(Op{K: opSetNonce, A: 1, V: 0})
		add(Op{K: opSetCode, A: 2, V: 2}, Op{K: opSetCode, A: 1, V: 2}, Op{K: opSetCode, A: 1, V: 0})
		add(Op{K: opSetState, A: 1, S: 0, V: 0}, Op{K: opSetState, A: 1, S: 0, V: 1}, Op{K: opSetState, A: 1, S: 0, V: 2},
			Op{K: opSetState, A: 1, S: 1, V: 1}, Op{K: opSetState, A: 1, S: 1, V: 0},
			Op{K: opSetState, A: 2, S: 0, V: 1}, Op{K: opSetState, A: 0, S: 0, V: 1})
		add(Op{K: opAddRefund, V: 2}, Op{K: opSubRefund, V: 1})
		add(Op{K: opAddLog, A: 1, V: 1})
		add(Op{K: opAddAddressToAccessList, A: 2})
		add(Op{K: opAddSlotToAccessList, A: 1, S: 0}, Op{K: opAddSlotToAccessList, A: 2, S: 1})
		add(Op{K: opPrepareAccessList, V: 0})
		add(Op{K: opAddPreimage}, Op{K: opSnapshot}, Op{K: opFinalise})
	case "core5": // subset of core, for the longest exhaustive length
		add(Op{K: opCreateAccount, A: 2}, Op{K: opAddBalance, A: 2, V: 1}, Op{K: opAddBalance, A: 2, V: 0}, Op{K: opAddBalance, A: 1, V: 1},
			Op{K: opSubBalance, A: 1, V: 1}, Op{K: opSubBalance, A: 0, V: 1}, Op{K: opSetNonce, A: 2, V: 1}, Op{K: opSetNonce, A: 1, V: 0},
			Op{K: opSetCode, A: 2, V: 2}, Op{K: opSetCode, A: 1, V: 0},
			Op{K: opSetState, A: 1, S: 0, V: 0}, Op{K: opSetState, A: 1, S: 0, V: 2}, Op{K: opSetState, A: 1, S: 1, V: 1}, Op{K: opSetState, A: 2, S: 0, V: 1},
			Op{K: opSuicide, A: 1}, Op{K: opSuicide, A: 2}, Op{K: opAddRefund, V: 2}, Op{K: opSubRefund, V: 1}, Op{K: opAddLog, A: 1, V: 1},
			Op{K: opAddAddressToAccessList, A: 2}, Op{K: opAddSlotToAccessList, A: 1, S: 0}, Op{K: opSnapshot}, Op{K: opFinalise})
	case "bfs":
		add(Op{K: opCreateAccount, A: 2}, Op{K: opAddBalance, A: 2, V: 1}, Op{K: opAddBalance, A: 2, V: 0},
			Op{K: opSubBalance, A: 1, V: 1}, Op{K: opSetNonce, A: 2, V: 1}, Op{K: opSetCode, A: 2, V: 2},
			Op{K: opSetState, A: 1, S: 0, V: 0}, Op{K: opSetState, A: 1, S: 0, V: 2}, Op{K: opSetState, A: 1, S: 1, V: 1},
			Op{K: opSuicide, A: 1}, Op{K: opSuicide, A: 2}, Op{K: opAddRefund, V: 1}, Op{K: opAddLog, A: 1, V: 1},
			Op{K: opAddSlotToAccessList, A: 1, S: 0}, Op{K: opSnapshot}, Op{K: opFinalise}, Op{K: opNextTx})
	default:
		panic("unknown alphabet " + name)
	}
	return ops
}

// ---------------------------------------------------------------------------------------------
// One execution of a sequence on both back-ends
// ---------------------------------------------------------------------------------------------

type fieldDiff struct {
	Getter  string `json:"getter"`
	Arg     string `json:"arg,omitempty"`
	Adapter string `json:"adapter"`
	Ref     string `json:"reference"`
}

func (d fieldDiff) String() string {
	return fmt.Sprintf("%s(%s): adapter=%s reference=%s", d.Getter, d.Arg, d.Adapter, d.Ref)
}

// ifaceRun holds both back-ends while one sequence executes.
type ifaceRun struct {
	a *adapter
	r *reference

	snapA, snapR []int    // ids returned by Snapshot on either side, for the currently valid snapshots
	snapJl       []int    // number of unreverted mutating ops at each valid snapshot
	snapDigest   []uint64 // digest of the reference observation at each valid snapshot
	jl           int      // unreverted mutating ops since the last Finalise

	// side results of the last applied op (compared like getters)
	lastA, lastR string

	// slots with a non-zero value in the last committed block, per address (ForEachStorage comparability)
	committed [3][2]bool

	// true right after a block commit (EndBlock) until the next operation
	atBlockStart bool

	// vacuity flags
	revertUndid     bool
	suicided        bool
	finalisePending bool
	blocks          int
}

func newIfaceRun(g *genesis) *ifaceRun {
	x := &ifaceRun{a: newAdapter(g), r: newReference(g)}
	for _, s := range g.seeds {
		for ai, a := range ifaceAddrs {
			if a == s.Addr {
				for si, sl := range ifaceSlots {
					if v, ok := s.Storage[sl]; ok && v != (ethcmn.Hash{}) {
						x.committed[ai][si] = true
					}
				}
			}
		}
	}
	return x
}

func catch(f func()) (panicked string) {
	defer func() {
		if r := recover(); r != nil {
			panicked = fmt.Sprintf("panic: %v", r)
		}
	}()
	f()
	return ""
}

var (
	logTopics   = []ethcmn.Hash{{}, ethcmn.HexToHash("0x1111"), ethcmn.HexToHash("0x2222")}
	preimage    = []byte("c16 preimage")
	preimageKey = ethcrypto.Keccak256Hash(preimage)
)

// applyTo applies op to one back-end through go-ethereum's vm.StateDB interface (plus the three
// transaction-boundary operations, which are not part of that interface). It returns what the call itself
// returned, if anything ("" otherwise).
func applyTo(db ethvm.StateDB, op Op, snaps *[]int, fin func() string, next func() string, endb func() string) string {
	switch op.K {
	case opCreateAccount:
		// as in go-ethereum's core/vm/evm.go create() under EIP-158 (always active in vm.EthereumConfig):
		// CreateAccount is immediately followed by SetNonce(addr, 1). A bare CreateAccount is not generated
		// because go-ethereum's own state keeps a re-created, otherwise untouched object alive in memory only
		// (resetObjectChange dirties nothing) - an artefact the EVM cannot expose.
		db.CreateAccount(ifaceAddrs[op.A])
		db.SetNonce(ifaceAddrs[op.A], 1)
	case opAddBalance:
		db.AddBalance(ifaceAddrs[op.A], big.NewInt(int64(op.V)))
	case opSubBalance:
		db.SubBalance(ifaceAddrs[op.A], big.NewInt(int64(op.V)))
	case opSetNonce:
		db.SetNonce(ifaceAddrs[op.A], uint64(op.V))
	case opSetCode:
		db.SetCode(ifaceAddrs[op.A], append([]byte(nil), ifaceCodes[op.V]...))
	case opSetState:
		db.SetState(ifaceAddrs[op.A], ifaceSlots[op.S], val(int(op.V)))
	case opSuicide:
		return fmt.Sprintf("Suicide=%v", db.Suicide(ifaceAddrs[op.A]))
	case opAddRefund:
		db.AddRefund(uint64(op.V))
	case opSubRefund:
		db.SubRefund(uint64(op.V))
	case opAddLog:
		db.AddLog(&ethtypes.Log{Address: ifaceAddrs[op.A], Topics: []ethcmn.Hash{logTopics[op.V]}, Data: []byte{byte(op.V)}, BlockNumber: 5})
	case opAddAddressToAccessList:
		db.AddAddressToAccessList(ifaceAddrs[op.A])
	case opAddSlotToAccessList:
		db.AddSlotToAccessList(ifaceAddrs[op.A], ifaceSlots[op.S])
	case opPrepareAccessList:
		if op.V == 0 {
			dst := addrB
			db.PrepareAccessList(addrA, &dst, []ethcmn.Address{precompile1}, ethtypes.AccessList{
				{Address: addrB, StorageKeys: []ethcmn.Hash{slot0}}, {Address: addrC}})
		} else {
			db.PrepareAccessList(addrC, nil, nil, nil)
		}
	case opAddPreimage:
		db.AddPreimage(preimageKey, preimage)
	case opSnapshot:
		id := db.Snapshot()
		*snaps = append(*snaps, id)
		return fmt.Sprintf("Snapshot=%d", id)
	case opRevertToSnapshot:
		id := (*snaps)[op.V]
		db.RevertToSnapshot(id)
		*snaps = (*snaps)[:op.V]
	case opFinalise:
		*snaps = (*snaps)[:0]
		return fin()
	case opNextTx:
		*snaps = (*snaps)[:0]
		return next()
	case opEndBlock:
		*snaps = (*snaps)[:0]
		return endb()
	}
	return ""
}

func errStr(err error) string {
	if err == nil {
		return "Finalise.err=<nil>"
	}
	return "Finalise.err=" + err.Error()
}

func isMutating(k opKind) bool {
	switch k {
	case opSnapshot, opRevertToSnapshot, opFinalise, opNextTx, opEndBlock:
		return false
	}
	return true
}

// apply applies op to both back-ends. The reference observation digest before a RevertToSnapshot is
// compared with the one after it to count reverts that undid something.
func (x *ifaceRun) apply(op Op) {
	var before uint64
	if op.K == opRevertToSnapshot {
		before = digest(x.observe(false, nil))
	}
	x.atBlockStart = op.K == opEndBlock
	if pa := catch(func() {
		x.lastA = applyTo(x.a.sdb, op, &x.snapA,
			func() string { return errStr(x.a.finalise()) },
			func() string { return errStr(x.a.nextTx()) },
			func() string { return errStr(x.a.endBlock()) })
	}); pa != "" {
		x.lastA = pa
	}
	if pr := catch(func() {
		x.lastR = applyTo(x.r.sdb, op, &x.snapR,
			func() string { x.r.finalise(); return errStr(nil) },
			func() string { x.r.nextTx(); return errStr(nil) },
			func() string { x.r.endBlock(); return errStr(nil) })
	}); pr != "" {
		x.lastR = pr
	}
	switch op.K {
	case opSnapshot:
		x.snapJl = append(x.snapJl, x.jl)
		x.snapDigest = append(x.snapDigest, digest(x.observe(false, nil)))
	case opRevertToSnapshot:
		x.jl = x.snapJl[op.V]
		x.snapJl = x.snapJl[:op.V]
		x.snapDigest = x.snapDigest[:op.V]
		if digest(x.observe(false, nil)) != before {
			x.revertUndid = true
		}
	case opFinalise, opNextTx, opEndBlock:
		if x.jl > 0 {
			x.finalisePending = true
		}
		x.jl = 0
		x.snapJl = x.snapJl[:0]
		x.snapDigest = x.snapDigest[:0]
		if op.K == opEndBlock {
			x.blocks++
			for ai, a := range ifaceAddrs {
				for si, s := range ifaceSlots {
					x.committed[ai][si] = x.r.sdb.GetState(a, s) != (ethcmn.Hash{})
				}
			}
		}
	case opSuicide:
		if x.lastR == "Suicide=true" {
			x.suicided = true
		}
		x.jl++
	default:
		if isMutating(op.K) {
			x.jl++
		}
	}
}

// creatable is the precondition under which go-ethereum's EVM calls CreateAccount (core/vm/evm.go create():
// otherwise ErrContractAddressCollision): no nonce and no code at the address.
func (x *ifaceRun) creatable(a ethcmn.Address) bool {
	h := x.r.sdb.GetCodeHash(a)
	return x.r.sdb.GetNonce(a) == 0 && (h == (ethcmn.Hash{}) || h == emptyCodeHash)
}

var emptyCodeHash = ethcrypto.Keccak256Hash(nil)

// enabled lists the operations of alpha that are legal now: CreateAccount only where the EVM may call it,
// SetState only on an existing account (the EVM stores only into the executing account; on a missing one
// go-ethereum re-creates an object that a no-op SetState leaves undirtied, the same in-memory artefact), SubBalance only up to the balance (the adapter
// panics below zero, go-ethereum goes negative; the EVM never does it: CanTransfer), SubRefund only up to
// the refund counter (both panic below zero), RevertToSnapshot for every currently valid snapshot,
// EndBlock only when the execution owns its chain state.
func (x *ifaceRun) enabled(alpha []Op, private bool, out []Op) []Op {
	out = out[:0]
	for _, op := range alpha {
		switch op.K {
		case opCreateAccount:
			if !x.creatable(ifaceAddrs[op.A]) {
				continue
			}
		case opSetState:
			if !x.r.sdb.Exist(ifaceAddrs[op.A]) {
				continue
			}
		case opSubBalance:
			if x.r.sdb.GetBalance(ifaceAddrs[op.A]).Cmp(big.NewInt(int64(op.V))) < 0 {
				continue
			}
		case opSubRefund:
			if x.r.sdb.GetRefund() < uint64(op.V) {
				continue
			}
		case opEndBlock:
			if !private {
				continue
			}
		}
		out = append(out, op)
	}
	for i := range x.snapR {
		out = append(out, Op{K: opRevertToSnapshot, V: int8(i)})
	}
	return out
}

// ---------------------------------------------------------------------------------------------
// Observation: every getter of go-ethereum's vm.StateDB interface, on one back-end
// ---------------------------------------------------------------------------------------------

// GettersCovered is reported in the evidence.
var GettersCovered = []string{"Exist", "Empty", "GetBalance", "GetNonce", "GetCodeHash", "GetCode", "GetCodeSize",
	"GetState", "GetCommittedState", "HasSuicided", "GetRefund", "AddressInAccessList", "SlotInAccessList",
	"logs (GetTxLogs vs GetLogs: Address, Topics, Data, TxHash, Index)", "ForEachStorage (compared right after every block commit)",
	"return values of Snapshot and Suicide", "error returned by Finalise"}

// MutatorsCovered is reported in the evidence.
var MutatorsCovered = []string{"CreateAccount", "AddBalance", "SubBalance", "SetNonce", "SetCode", "SetState", "Suicide",
	"AddRefund", "SubRefund", "AddLog", "AddAddressToAccessList", "AddSlotToAccessList", "PrepareAccessList",
	"AddPreimage (no getter exists on the adapter; covered for panics and journal effects only)", "Snapshot",
	"RevertToSnapshot", "Finalise(true)", "Prepare (NextTx/EndBlock)", "Reset + block commit (EndBlock)"}

func storageHashKey(a ethcmn.Address, slot ethcmn.Hash) ethcmn.Hash {
	return utils.GetStorageByAddressKey(a, slot.Bytes())
}

var hashedSlots = func() (m [3][2]ethcmn.Hash) {
	for ai, a := range ifaceAddrs {
		for si, s := range ifaceSlots {
			m[ai][si] = storageHashKey(a, s)
		}
	}
	return
}()

func b2b(b bool) byte {
	if b {
		return 1
	}
	return 0
}

// observe serialises the observation of one back-end (adapterSide selects which) into buf.
func (x *ifaceRun) observe(adapterSide bool, buf []byte) []byte {
	var committed *[3][2]bool
	if x.atBlockStart {
		committed = &x.committed
	}
	if adapterSide {
		return observeDB(x.a.sdb, x.a.txLogs(), true, committed, buf)
	}
	return observeDB(x.r.sdb, x.r.txLogs(), false, committed, buf)
}

// observeDB: committed != nil means "a block was just committed": only then ForEachStorage is compared (the
// adapter's implementation iterates the committed chain state only, see storage/state.go IterateRange).
func observeDB(db ethvm.StateDB, logs []*ethtypes.Log, adapterSide bool, committed *[3][2]bool, buf []byte) []byte {
	var u8 [8]byte
	for ai, a := range ifaceAddrs {
		buf = append(buf, b2b(db.Exist(a)), b2b(db.Empty(a)), b2b(db.HasSuicided(a)), b2b(db.AddressInAccessList(a)))
		bal := db.GetBalance(a)
		if bal.Sign() < 0 {
			buf = append(buf, '-')
		}
		buf = append(buf, ethcmn.BigToHash(bal).Bytes()...)
		binary.BigEndian.PutUint64(u8[:], db.GetNonce(a))
		buf = append(buf, u8[:]...)
		buf = append(buf, db.GetCodeHash(a).Bytes()...)
		code := db.GetCode(a)
		buf = append(buf, byte(len(code)))
		buf = append(buf, code...)
		buf = append(buf, byte(db.GetCodeSize(a)))
		for _, s := range ifaceSlots {
			buf = append(buf, db.GetState(a, s).Bytes()...)
			buf = append(buf, db.GetCommittedState(a, s).Bytes()...)
			ao, so := db.SlotInAccessList(a, s)
			buf = append(buf, b2b(ao), b2b(so))
		}
		// ForEachStorage
		if committed == nil {
			continue
		}
		var seen [2]ethcmn.Hash
		var has [2]bool
		extra := 0
		if adapterSide {
			db.ForEachStorage(a, func(k, v ethcmn.Hash) bool {
				switch k {
				case hashedSlots[ai][0]:
					seen[0], has[0] = v, true
				case hashedSlots[ai][1]:
					seen[1], has[1] = v, true
				default:
					extra++
				}
				return true // go-ethereum's convention: true = continue
			})
		} else {
			db.ForEachStorage(a, func(k, v ethcmn.Hash) bool {
				for si, s := range ifaceSlots {
					if k == s && committed[ai][si] {
						seen[si], has[si] = v, true
					}
				}
				return true
			})
		}
		for si := range ifaceSlots {
			buf = append(buf, b2b(has[si]))
			buf = append(buf, seen[si].Bytes()...)
		}
		buf = append(buf, byte(extra))
	}
	binary.BigEndian.PutUint64(u8[:], db.GetRefund())
	buf = append(buf, u8[:]...)
	buf = append(buf, byte(len(logs)))
	for _, l := range logs {
		buf = append(buf, l.Address.Bytes()...)
		buf = append(buf, byte(len(l.Topics)))
		for _, t := range l.Topics {
			buf = append(buf, t.Bytes()...)
		}
		buf = append(buf, byte(len(l.Data)))
		buf = append(buf, l.Data...)
		buf = append(buf, l.TxHash.Bytes()...)
		binary.BigEndian.PutUint64(u8[:], uint64(l.Index))
		buf = append(buf, u8[:]...)
	}
	return buf
}

func digest(b []byte) uint64 {
	h := fnv.New64a()
	h.Write(b)
	return h.Sum64()
}

// namedObservation is the slow, labelled version of observe, used only to explain a mismatch.
type namedField struct{ getter, arg, val string }

func (x *ifaceRun) namedObservation(adapterSide bool) (out []namedField) {
	var db ethvm.StateDB
	var logs []*ethtypes.Log
	if adapterSide {
		db, logs = x.a.sdb, x.a.txLogs()
	} else {
		db, logs = x.r.sdb, x.r.txLogs()
	}
	add := func(g, arg string, v interface{}) { out = append(out, namedField{g, arg, fmt.Sprint(v)}) }
	hx := func(h ethcmn.Hash) string { return "0x" + strings.TrimLeft(h.Hex()[2:], "0") }
	for ai, a := range ifaceAddrs {
		n := addrNames[ai]
		add("Exist", n, db.Exist(a))
		add("Empty", n, db.Empty(a))
		add("GetBalance", n, db.GetBalance(a))
		add("GetNonce", n, db.GetNonce(a))
		add("GetCodeHash", n, db.GetCodeHash(a).Hex())
		add("GetCode", n, fmt.Sprintf("%x", db.GetCode(a)))
		add("GetCodeSize", n, db.GetCodeSize(a))
		for si, s := range ifaceSlots {
			add("GetState", fmt.Sprintf("%s,slot%d", n, si), hx(db.GetState(a, s)))
		}
		for si, s := range ifaceSlots {
			add("GetCommittedState", fmt.Sprintf("%s,slot%d", n, si), hx(db.GetCommittedState(a, s)))
		}
		add("HasSuicided", n, db.HasSuicided(a))
		add("AddressInAccessList", n, db.AddressInAccessList(a))
		for si, s := range ifaceSlots {
			ao, so := db.SlotInAccessList(a, s)
			add("SlotInAccessList", fmt.Sprintf("%s,slot%d", n, si), fmt.Sprintf("%v,%v", ao, so))
		}
		if !x.atBlockStart {
			continue
		}
		var items []string
		if adapterSide {
			db.ForEachStorage(a, func(k, v ethcmn.Hash) bool {
				name := "unknown-key-" + k.Hex()
				for si := range ifaceSlots {
					if k == hashedSlots[ai][si] {
						name = fmt.Sprintf("slot%d", si)
					}
				}
				items = append(items, name+"="+hx(v))
				return true
			})
		} else {
			db.ForEachStorage(a, func(k, v ethcmn.Hash) bool {
				for si, s := range ifaceSlots {
					if k == s && x.committed[ai][si] {
						items = append(items, fmt.Sprintf("slot%d=%s", si, hx(v)))
					}
				}
				return true
			})
		}
		sort.Strings(items)
		add("ForEachStorage", n, strings.Join(items, " "))
	}
	add("GetRefund", "", db.GetRefund())
	var ls []string
	for _, l := range logs {
		ls = append(ls, fmt.Sprintf("{addr=%s topics=%v data=%x txhash=%s index=%d}", l.Address.Hex(), l.Topics, l.Data, l.TxHash.Hex(), l.Index))
	}
	add("logs", "", strings.Join(ls, " "))
	return out
}

// getterOrder fixes which differing getter names a divergence (the first in this order).
var getterOrder = []string{"panic", "Finalise.err", "Snapshot", "Suicide", "Exist", "Empty", "GetBalance", "GetNonce", "GetCodeHash",
	"GetCode", "GetCodeSize", "GetState", "GetCommittedState", "HasSuicided", "GetRefund", "AddressInAccessList",
	"SlotInAccessList", "logs", "ForEachStorage"}

func getterRank(g string) int {
	for i, n := range getterOrder {
		if n == g {
			return i
		}
	}
	return len(getterOrder)
}

// compare returns nil if both back-ends agree on the result of the last op and on every getter.
func (x *ifaceRun) compare(bufA, bufR *[]byte) []fieldDiff {
	var pa, pr string
	if x.lastA == x.lastR {
		pa = catch(func() { *bufA = x.observe(true, (*bufA)[:0]) })
		pr = catch(func() { *bufR = x.observe(false, (*bufR)[:0]) })
		if pa == "" && pr == "" && bytes.Equal(*bufA, *bufR) {
			return nil
		}
	}
	// slow path
	var diffs []fieldDiff
	if x.lastA != x.lastR {
		g := "panic"
		if !strings.HasPrefix(x.lastA, "panic") && !strings.HasPrefix(x.lastR, "panic") {
			if i := strings.IndexByte(x.lastA+x.lastR, '='); i > 0 {
				g = (x.lastA + x.lastR)[:i]
			}
		}
		diffs = append(diffs, fieldDiff{Getter: g, Arg: "result of the call", Adapter: x.lastA, Ref: x.lastR})
	}
	var na, nr []namedField
	pa = catch(func() { na = x.namedObservation(true) })
	pr = catch(func() { nr = x.namedObservation(false) })
	if pa != "" || pr != "" {
		diffs = append(diffs, fieldDiff{Getter: "panic", Arg: "in a getter", Adapter: pa, Ref: pr})
	} else {
		for i := range na {
			if na[i].val != nr[i].val {
				diffs = append(diffs, fieldDiff{Getter: na[i].getter, Arg: na[i].arg, Adapter: na[i].val, Ref: nr[i].val})
			}
		}
	}
	sort.SliceStable(diffs, func(i, j int) bool { return getterRank(diffs[i].Getter) < getterRank(diffs[j].Getter) })
	return diffs
}
