package evm

import (
	"encoding/json"
	"flag"
	"fmt"
	"os"
	"runtime"
	"runtime/debug"
	"runtime/pprof"
	"strings"
	"sync/atomic"
	"time"

	"verif/explore"
	"verif/harness"
)

var replayObserveAll bool

// Main is the entry point of `vevm C16 ...`.
func Main(args []string) int {
	var maxIface, maxProg int
	var noBFS bool
	var cpuProfile string
	flags := explore.ParseFlags("C16", args, func(fs *flag.FlagSet) {
		fs.IntVar(&maxIface, "iface-len", 0, "override the interface-level sequence length of the core alphabet (0 = tier default)")
		fs.IntVar(&maxProg, "prog-len", 0, "override the maximal number of snippets per program (0 = tier default)")
		fs.BoolVar(&noBFS, "no-bfs", false, "skip the merged breadth-first search (thorough tier)")
		fs.StringVar(&cpuProfile, "cpuprofile", "", "write a CPU profile (development aid)")
		fs.BoolVar(&replayObserveAll, "observe-all", false, "with -replay of an interface-level case: print (and thereby call) every getter after every step, not only after the last one; the adapter's getters have side effects (dbErr), so this can change what happens")
	})
	if cpuProfile != "" {
		if f, err := os.Create(cpuProfile); err == nil {
			pprof.StartCPUProfile(f)
			defer pprof.StopCPUProfile()
		}
	}
	harness.SilenceStdout()
	debug.SetGCPercent(400)
	out := harness.Out()
	if flags.Replay != "" {
		return replay(flags.Replay, out)
	}
	workers := flags.Workers
	if workers <= 0 || workers > runtime.NumCPU() {
		workers = runtime.NumCPU()
	}
	if workers < 1 {
		workers = 1
	}
	rep := explore.NewReporter("C16", "model_checking", flags, out)

	// ---- bounds per tier
	fullLen, coreLen, core5Len, progLen, bfsDepth := 3, 4, 0, 3, 0
	budget := 80 * time.Second
	if flags.Tier == "thorough" {
		fullLen, coreLen, core5Len, progLen, bfsDepth = 3, 4, 5, 4, 8
		budget = 17 * time.Minute
	}
	if flags.Budget > 0 {
		budget = flags.Budget
	}
	if maxIface > 0 {
		coreLen = maxIface
		if fullLen > coreLen {
			fullLen = coreLen
		}
		if core5Len > 0 && core5Len <= coreLen {
			core5Len = 0
		}
	}
	if maxProg > 0 {
		progLen = maxProg
	}
	if noBFS {
		bfsDepth = 0
	}
	start := time.Now()
	// Order: shallow first (iterative deepening across both levels), so that a short budget still covers
	// every short sequence and program completely. One deadline for the exhaustive part; in the thorough
	// tier the last 20% of the budget are reserved for the merged BFS.
	exhaustiveDeadline := start.Add(budget)
	if bfsDepth > 0 {
		exhaustiveDeadline = start.Add(budget * 80 / 100)
	}
	bfsDeadline := start.Add(budget)

	// ---- sanity: both back-ends must report the same starting accounts
	for _, seeds := range [][]seedAccount{ifaceSeeds(), progSeeds()} {
		if _, err := newGenesis(seeds); err != nil {
			fmt.Fprintf(out, "HARNESS-ERROR: cannot build the starting state: %v\n", err)
			return 2
		}
	}

	pe := newProgEngine(workers, exhaustiveDeadline)
	ie := newIfaceEngine(workers, exhaustiveDeadline)
	progExhaustive, ifaceExhaustive := true, true
	var progWall, ifaceWall time.Duration
	progNext := 0
	programsUpTo := func(n int) {
		t := time.Now()
		for ; progExhaustive && progNext <= n && progNext <= progLen; progNext++ {
			if !pe.enumerate(progNext) {
				progExhaustive = false
				break
			}
			pe.stats.completedLen = progNext
		}
		progWall += time.Since(t)
	}
	// pass runs every sequence over the alphabet of exactly length l (shorter ones were counted by earlier
	// passes: core5 is a subset of core, core of full)
	pass := func(alpha string, l int, done *int) {
		if !ifaceExhaustive {
			return
		}
		t := time.Now()
		if ie.enumerate(alpha, l, l-1) {
			*done = l
		} else {
			ifaceExhaustive = false
		}
		ifaceWall += time.Since(t)
	}
	for l := 0; l <= fullLen && l <= 2; l++ {
		pass("full", l, &ie.stats.completedFullLen)
	}
	programsUpTo(2)
	for l := 3; l <= fullLen; l++ {
		pass("full", l, &ie.stats.completedFullLen)
	}
	programsUpTo(3)
	ie.stats.completedCoreLen = ie.stats.completedFullLen
	for l := fullLen + 1; l <= coreLen; l++ {
		pass("core", l, &ie.stats.completedCoreLen)
	}
	programsUpTo(progLen)
	for l := coreLen + 1; l <= core5Len; l++ {
		pass("core5", l, &ie.stats.completedCore5Len)
	}

	// ---- merged BFS
	var bs bfsStats
	t2 := time.Now()
	if bfsDepth > 0 {
		bs = ie.bfs("bfs", bfsDepth, 6_000_000, bfsDeadline)
	}
	bfsWall := time.Since(t2)

	// ---- findings
	for _, f := range ie.sortedFindings() {
		c := ifaceCase{Level: "iface", Ops: opStrings(f.minimal), Step: f.res.step, Diffs: f.res.diffs, Original: opStrings(f.original)}
		rep.Violation(f.sig, f.what, c)
		for i := int64(1); i < f.count; i++ {
			rep.Violation(f.sig, f.what, nil)
		}
	}
	for _, f := range pe.sortedFindings() {
		c := f.minimal
		c.Runtime = hexOr(c.runtime())
		c.Tx = f.res.tx
		c.Diffs = f.res.diffs
		orig := f.original
		c.Original = &orig
		rep.Violation(f.sig, f.what, c)
		for i := int64(1); i < f.count; i++ {
			rep.Violation(f.sig, f.what, nil)
		}
	}

	// ---- evidence
	is, ps := &ie.stats, &pe.stats
	seqs := atomic.LoadInt64(&is.sequences)
	for _, s := range ie.samples {
		rep.Sample(s)
	}
	for _, s := range pe.samples {
		rep.Sample(s)
	}
	if len(ie.samples)+len(pe.samples) == 0 {
		rep.Sample(ifaceCase{Level: "iface", Ops: []string{}})
	}
	byLen := map[string]int64{}
	for l, n := range is.leafByLen {
		if n > 0 {
			byLen[fmt.Sprint(l)] = n
		}
	}
	opCounts := map[string]int64{}
	for k := opKind(0); k < numOpKinds; k++ {
		opCounts[opNames[k]] = is.opKindApplied[k]
	}
	states := is.states.len() + ps.finalStates.len()
	rep.Set("states", states)
	rep.Set("transitions", is.transitions+bs.transitions+ps.transactions)
	rep.Set("traces_validated_against_impl", seqs+bs.executions+ps.runs)
	rep.Set("evaluations", seqs+bs.executions+ps.runs)
	rep.Set("distinct_nontrivial", is.nontrivial+int64(ps.finalStates.len()))
	rep.Set("rule", "interface level: every sequence over the listed alphabet up to the listed length whose proper prefixes agree is executed once on both back-ends (distinct by construction); non-trivial = the reference's getters after the sequence differ from the starting state. program level: every snippet list up to the listed length x {plain,ctor} deployment x {same,split} blocks, run as deploy+call+call; non-trivial = distinct final outcome digests (all compared fields of all transactions) among agreeing runs. distinct_nontrivial is the sum of both measured counts.")
	rep.Set("exhaustive", ifaceExhaustive && progExhaustive)
	rep.Set("exhaustive_note", "exhaustive = every sequence/program inside the bounds below was executed, except the extensions of sequences on which the back-ends already disagree (those are reported and not extended: see iface.diverged_sequences_not_extended); the merged BFS is a non-exhaustive extension and does not enter this flag")
	caps := []string{}
	if !ifaceExhaustive {
		caps = append(caps, "iface: internal deadline")
	}
	if !progExhaustive {
		caps = append(caps, "program: internal deadline")
	}
	if bs.capHit != "" {
		caps = append(caps, "bfs: "+bs.capHit)
	}
	rep.Set("caps_hit", caps)
	rep.Set("bounds", map[string]interface{}{
		"iface_full_alphabet_len":  fullLen,
		"iface_core_alphabet_len":  coreLen,
		"iface_full_alphabet":      opStrings(alphabet("full")),
		"iface_core_alphabet":      opStrings(alphabet("core")),
		"iface_core5_alphabet_len": core5Len,
		"iface_core5_alphabet":     opStrings(alphabet("core5")),
		"completed_core5_len":      is.completedCore5Len,
		"iface_dynamic_ops":        "RevertToSnapshot(#i) for every currently valid snapshot i; SubBalance/SubRefund only when legal; CreateAccount (= CreateAccount+SetNonce 1, as in evm.create) only on addresses without nonce and code; SetState only on existing accounts",
		"iface_world":              "A=funded EOA (native balance 1, no keeper record), B=contract (balance 1, nonce 1, code 0x00, slot0=1), C=fresh; 2 storage keys (slot0=0x01, slot1=0x02); values {0,1,2}; codes {none,0x00,0x600000}",
		"bfs_alphabet":             opStrings(alphabet("bfs")),
		"bfs_max_depth":            bfsDepth,
		"program_max_snippets":     progLen,
		"program_snippets":         snippetDocs(),
		"program_transactions":     "deploy (value 1), call (value 1), call (value 1); gas 300000, gas price 2",
		"program_deploy_modes":     []string{"plain", "ctor"},
		"program_block_modes":      []string{"same", "split"},
		"workers":                  workers,
		"budget_s":                 budget.Seconds(),
		"completed_full_len":       is.completedFullLen,
		"completed_core_len":       is.completedCoreLen,
		"completed_program_len":    ps.completedLen,
		"completed_bfs_levels":     bs.levelsCompleted,
	})
	rep.Set("iface", map[string]interface{}{
		"sequences":                                seqs,
		"sequences_by_length":                      byLen,
		"transitions":                              is.transitions,
		"distinct_reference_states":                is.states.len(),
		"nontrivial_sequences":                     is.nontrivial,
		"diverged_sequences_not_extended":          is.diverged,
		"sequences_with_revert_that_undid_changes": is.withRevertUndo,
		"sequences_with_successful_suicide":        is.withSuicide,
		"sequences_with_finalise_of_pending":       is.withFinalisePend,
		"sequences_with_block_commit":              is.withBlockCommit,
		"max_snapshot_nesting":                     is.maxSnapshotNested,
		"last_op_kind_counts":                      opCounts,
		"wall_s":                                   ifaceWall.Seconds(),
	})
	rep.Set("bfs", map[string]interface{}{
		"executions":                    bs.executions,
		"transitions":                   bs.transitions,
		"levels_completed":              bs.levelsCompleted,
		"new_abstract_states_per_level": bs.levelSizes,
		"merged":                        bs.merged,
		"diverged":                      bs.diverged,
		"wall_s":                        bfsWall.Seconds(),
	})
	rep.Set("program", map[string]interface{}{
		"programs":                ps.programs,
		"runs":                    ps.runs,
		"transactions":            ps.transactions,
		"diverged_runs":           ps.diverged,
		"runs_with_revert":        ps.reverted,
		"runs_with_out_of_gas":    ps.oog,
		"runs_with_invalid_op":    ps.invalid,
		"runs_with_create":        ps.created,
		"runs_with_selfdestruct":  ps.destructed,
		"runs_with_logs":          ps.logged,
		"distinct_final_outcomes": ps.finalStates.len(),
		"fields_compared":         ProgramFieldsCompared,
		"wall_s":                  progWall.Seconds(),
	})
	rep.Set("interface_methods", map[string]interface{}{
		"mutators_driven":  MutatorsCovered,
		"getters_compared": GettersCovered,
		"not_compared":     []string{"AddPreimage has no read accessor on the adapter", "Log.BlockHash (go-ethereum 1.10.8 sets it in GetLogs, the adapter in AddLog)", "Log.TxIndex (the adapter's Prepare takes no index: vm/statedb.go Prepare(thash))", "state roots / IntermediateRoot / tries (the adapter has none)"},
	})
	rep.Assume("go-ethereum v1.10.8 core/state.StateDB over rawdb.NewMemoryDatabase() is the reference; the EVM interpreter, the chain config (vm.EthereumConfig), the fee/refund logic (vm.StateTransition.TransitionDb, refund quotient 3) are the repository's own on both sides, only the StateDB differs")
	rep.Assume("adapter wired as in app/context.go over one storage.State per block (WithGas, unlimited gas calculator) with a tx session per transaction as in app/controller.go txDeliverer; native fee handling after the transaction (action.ContractFeeHandling) is not part of this check (C17)")
	rep.Assume("SubBalance below zero and SubRefund below zero are never generated (the EVM checks CanTransfer first; go-ethereum itself panics on a negative refund)")
	rep.Assume("ForEachStorage (used by neither the EVM nor the app) is compared only right after a block commit: storage.State.IterateRange cannot see keys that live only in the block cache (storage/state.go IterateRange 'todo'), go-ethereum iterates the trie")
	rep.Assume("SetState is only generated on existing accounts (the EVM stores only into the executing account; on a missing account go-ethereum re-creates an object that a no-op SetState leaves undirtied and therefore alive in memory only)")
	rep.Assume("CreateAccount(X) is always followed by SetNonce(X,1) and only generated where X has no nonce and no code, exactly as go-ethereum's EVM calls it (core/vm/evm.go create): go-ethereum's own state keeps a re-created but otherwise untouched object alive in memory only, an artefact the EVM cannot expose")
	rep.Assume("sequences on which the back-ends already disagree are not extended; longer sequences through such a prefix are unexplored until the divergence is repaired")
	return rep.Finish()
}

func snippetDocs() []string {
	var out []string
	for _, s := range snippets {
		out = append(out, fmt.Sprintf("%s: %s [%x]", s.Name, s.Doc, s.Code))
	}
	return out
}

// ---------------------------------------------------------------------------------------------
// Replay
// ---------------------------------------------------------------------------------------------

func replay(path string, out *os.File) int {
	b, err := os.ReadFile(path)
	if err != nil {
		fmt.Fprintf(out, "cannot read %s: %v\n", path, err)
		return 2
	}
	var file struct {
		Signature string          `json:"signature"`
		What      string          `json:"what"`
		Case      json.RawMessage `json:"case"`
	}
	if err := json.Unmarshal(b, &file); err != nil {
		fmt.Fprintf(out, "cannot parse %s: %v\n", path, err)
		return 2
	}
	raw := file.Case
	if len(raw) == 0 {
		raw = b // a bare case
	}
	var head struct {
		Level string `json:"level"`
	}
	json.Unmarshal(raw, &head)
	fmt.Fprintf(out, "replaying %s\n  signature: %s\n", path, file.Signature)
	switch head.Level {
	case "iface":
		var c ifaceCase
		if err := json.Unmarshal(raw, &c); err != nil {
			fmt.Fprintf(out, "bad case: %v\n", err)
			return 2
		}
		return replayIface(c, out)
	case "program":
		var c progCase
		if err := json.Unmarshal(raw, &c); err != nil {
			fmt.Fprintf(out, "bad case: %v\n", err)
			return 2
		}
		return replayProgram(c, out)
	}
	fmt.Fprintf(out, "unknown case level %q\n", head.Level)
	return 2
}

func printObservation(out *os.File, na, nr []namedField) (differs bool) {
	for i := range na {
		mark := "   "
		if na[i].val != nr[i].val {
			mark = "!! "
			differs = true
		}
		fmt.Fprintf(out, "    %s%-20s %-14s adapter=%-70s reference=%s\n", mark, na[i].getter, na[i].arg, na[i].val, nr[i].val)
	}
	return
}

func replayIface(c ifaceCase, out *os.File) int {
	var ops []Op
	for _, s := range c.Ops {
		o, err := ParseOp(s)
		if err != nil {
			fmt.Fprintf(out, "%v\n", err)
			return 2
		}
		ops = append(ops, o)
	}
	g, err := newGenesis(ifaceSeeds())
	if err != nil {
		fmt.Fprintf(out, "HARNESS-ERROR: %v\n", err)
		return 2
	}
	x := newIfaceRun(g)
	diverged := false
	show := func(title string, getters bool) {
		fmt.Fprintf(out, "  %s\n", title)
		if x.lastA != "" || x.lastR != "" {
			mark := "   "
			if x.lastA != x.lastR {
				mark = "!! "
				diverged = true
			}
			fmt.Fprintf(out, "    %s%-20s %-14s adapter=%-70s reference=%s\n", mark, "result of the call", "", x.lastA, x.lastR)
		}
		if !getters {
			return
		}
		var na, nr []namedField
		pa := catch(func() { na = x.namedObservation(true) })
		pr := catch(func() { nr = x.namedObservation(false) })
		if pa != "" || pr != "" {
			fmt.Fprintf(out, "    !! panic in a getter: adapter=%q reference=%q\n", pa, pr)
			diverged = true
			return
		}
		if printObservation(out, na, nr) {
			diverged = true
		}
	}
	// like the enumeration, the getters are called once, after the last operation (unless -observe-all)
	show("step 0: starting state", replayObserveAll || len(ops) == 0)
	for i, op := range ops {
		if diverged {
			break
		}
		if !x.legal(op, true) {
			fmt.Fprintf(out, "  step %d: %s is not legal here\n", i+1, op)
			return 2
		}
		x.lastA, x.lastR = "", ""
		x.apply(op)
		show(fmt.Sprintf("step %d: %s", i+1, op), replayObserveAll || i == len(ops)-1)
	}
	if diverged {
		fmt.Fprintf(out, "RESULT: the back-ends DISAGREE (lines marked !!)\n")
		return 1
	}
	fmt.Fprintf(out, "RESULT: the back-ends agree\n")
	return 0
}

func replayProgram(c progCase, out *os.File) int {
	for _, n := range c.Snippets {
		if snippetIndex(n) < 0 {
			fmt.Fprintf(out, "unknown snippet %q\n", n)
			return 2
		}
	}
	if c.Txs <= 0 || c.Txs > 3 {
		c.Txs = 3
	}
	if c.Deploy == "" {
		c.Deploy = "plain"
	}
	if c.Blocks == "" {
		c.Blocks = "same"
	}
	fmt.Fprintf(out, "  program: [%s] deploy=%s blocks=%s\n  runtime: %x\n  init:    %x\n", strings.Join(c.Snippets, " "), c.Deploy, c.Blocks, c.runtime(), c.initCode())
	g, err := newGenesis(progSeeds())
	if err != nil {
		fmt.Fprintf(out, "HARNESS-ERROR: %v\n", err)
		return 2
	}
	a, r := newAdapter(g), newReference(g)
	for i := 0; i < c.Txs; i++ {
		kind := "call the contract (value 1)"
		if i == 0 {
			kind = "deploy (value 1)"
		}
		fmt.Fprintf(out, "  transaction %d: %s\n", i+1, kind)
		fa, pa := c.runAdapterTx(a, i)
		fr, pr := c.runReferenceTx(r, i)
		if pa != "" || pr != "" {
			fmt.Fprintf(out, "    !! panic: adapter=%q reference=%q\nRESULT: the back-ends DISAGREE\n", pa, pr)
			return 1
		}
		if printObservation(out, fa, fr) {
			fmt.Fprintf(out, "RESULT: the back-ends DISAGREE (lines marked !!)\n")
			return 1
		}
		if i+1 < c.Txs {
			a.progNext(c.Blocks == "split")
			r.progNext(c.Blocks == "split")
		}
	}
	fmt.Fprintf(out, "RESULT: the back-ends agree on every compared field of every transaction\n")
	return 0
}
