package evm

import (
	"bytes"
	"fmt"
	"math/big"
	"sort"
	"strings"
	"sync"
	"sync/atomic"
	"time"

	"github.com/Oneledger/protocol/data/keys"
	olvm "github.com/Oneledger/protocol/vm"
	ethcmn "github.com/ethereum/go-ethereum/common"
	ethcore "github.com/ethereum/go-ethereum/core"
	ethtypes "github.com/ethereum/go-ethereum/core/types"
	ethvm "github.com/ethereum/go-ethereum/core/vm"
	ethcrypto "github.com/ethereum/go-ethereum/crypto"
	abci "github.com/tendermint/tendermint/abci/types"
)

// ---------------------------------------------------------------------------------------------
// The bytecode grammar
// ---------------------------------------------------------------------------------------------

type snippet struct {
	Name string
	Code []byte
	Doc  string
}

func hexb(s string) []byte { return ethcmn.FromHex("0x" + strings.ReplaceAll(s, " ", "")) }

var (
	progSender   = ethcmn.HexToAddress("0x5e5e5e5e5e5e5e5e5e5e5e5e5e5e5e5e5e5e5e5e")
	progOther    = ethcmn.HexToAddress("0xc0") // pre-deployed callee: increments slot 0, logs, stops
	progReverter = ethcmn.HexToAddress("0xc1") // pre-deployed callee: writes slot 0, reverts
	progCreator  = ethcmn.HexToAddress("0xc2") // pre-deployed callee: CREATE2s a child, pays 0xc0, reverts
	progFresh    = ethcmn.HexToAddress("0xf1") // never seeded: SELFDESTRUCT beneficiary, EXTCODEHASH/BALANCE target
	progCoinbase = ethcmn.HexToAddress("0xcb")

	otherCode    = hexb("6001 6000 54 01 6000 55  60bb 6000 6000 a1  00")
	reverterCode = hexb("6001 6000 55  6000 6000 fd")

	// creatorCode is built in init() (it embeds childInit)
	creatorCode []byte

	// init code of the children made by CREATE/CREATE2: SSTORE(0,1); RETURN(mem[0:1]) => runtime 0x00 (STOP)
	childInit = hexb("6001 6000 55 6001 6000 f3")

	snippets = []snippet{
		{"SSTORE1", hexb("6001 6000 55"), "SSTORE(0,1)"},
		{"SSTORE0", hexb("6000 6000 55"), "SSTORE(0,0) (clears: refund)"},
		{"SSTORE2", hexb("6002 6000 55"), "SSTORE(0,2)"},
		{"SLOAD", hexb("6000 54 6000 52"), "mem[0]=SLOAD(0)"},
		{"LOG1", hexb("60aa 6020 6000 a1"), "LOG1(mem[0:32], topic 0xaa)"},
		{"CALLSELF", hexb("36 58 6015 01 57  6000 6000 6001 6000 6001 30 5a f1 6020 52  5b"),
			"if CALLDATASIZE==0 { mem[32]=CALL(gas, ADDRESS, value 1, 1 byte of calldata) } (re-entrancy depth 1)"},
		{"CALLOTHER", hexb("6000 6000 6000 6000 6001 60c0 5a f1 6020 52"), "mem[32]=CALL(gas, 0xc0, value 1)"},
		{"CALLREVERTER", hexb("6000 6000 6000 6000 6001 60c1 5a f1 6020 52"), "mem[32]=CALL(gas, 0xc1, value 1) (callee writes then reverts)"},
		{"CALLCREATOR", hexb("6000 6000 6000 6000 6001 60c2 5a f1 6020 52"), "mem[32]=CALL(gas, 0xc2, value 1) (callee CREATE2s a child with value 0, pays 1 to 0xc0, then reverts)"},
		{"CREATE", append(append(hexb("69"), childInit...), hexb("6040 52  600a 6056 6001 f0  6020 52")...), "mem[32]=CREATE(value 1, child init)"},
		{"CREATE2", append(append(hexb("69"), childInit...), hexb("6040 52  6000 600a 6056 6000 f5  6020 52")...), "mem[32]=CREATE2(value 0, child init, salt 0) (second time: address collision)"},
		{"SELFDESTRUCT", hexb("60f1 ff"), "SELFDESTRUCT(0xf1)"},
		{"REVERT", hexb("6020 6000 fd"), "REVERT(mem[0:32])"},
		{"INVALID", hexb("fe"), "INVALID"},
		{"OOGLOOP", hexb("5b 58 6001 90 03 56"), "infinite loop (out of gas)"},
		{"RETURN", hexb("6040 6000 f3"), "RETURN(mem[0:64])"},
		{"EXT", hexb("60f1 3f 60f1 31 01 6000 52"), "mem[0]=EXTCODEHASH(0xf1)+BALANCE(0xf1)"},
	}
)

func init() {
	// CREATE2(value 0, child init, salt 0); CALL(gas, 0xc0, value 1); REVERT(0,0)
	creatorCode = append(append(hexb("69"), childInit...), hexb("6040 52  6000 600a 6056 6000 f5 50  6000 6000 6000 6000 6001 60c0 5a f1 50  6000 6000 fd")...)
}

func snippetIndex(name string) int {
	for i, s := range snippets {
		if s.Name == name {
			return i
		}
	}
	return -1
}

// progCase is the replayable form of a program-level case.
type progCase struct {
	Level    string   `json:"level"` // "program"
	Snippets []string `json:"snippets"`
	Deploy   string   `json:"deploy"` // "plain": init code only returns the runtime; "ctor": the snippets also run in the constructor
	Blocks   string   `json:"blocks"` // "same": all transactions in one block; "split": one block per transaction
	Txs      int      `json:"txs"`
	// reports
	Runtime  string      `json:"runtime_hex,omitempty"`
	Tx       int         `json:"diverges_in_tx,omitempty"`
	Diffs    []fieldDiff `json:"differences,omitempty"`
	Original *progCase   `json:"found_as,omitempty"`
}

func (c progCase) runtime() []byte {
	var code []byte
	for _, n := range c.Snippets {
		code = append(code, snippets[snippetIndex(n)].Code...)
	}
	return code
}

// initCode: [runtime when Deploy=="ctor"] ++ wrapper ++ runtime, where the wrapper copies the trailing
// runtime to memory and returns it.
func (c progCase) initCode() []byte {
	rt := c.runtime()
	var pre []byte
	if c.Deploy == "ctor" {
		pre = rt
	}
	const wlen = 15
	off := len(pre) + wlen
	w := []byte{0x61, byte(len(rt) >> 8), byte(len(rt)), 0x61, byte(off >> 8), byte(off), 0x60, 0x00, 0x39,
		0x61, byte(len(rt) >> 8), byte(len(rt)), 0x60, 0x00, 0xf3}
	return append(append(append([]byte(nil), pre...), w...), rt...)
}

func progSeeds() []seedAccount {
	return []seedAccount{
		{Addr: progSender, Balance: 1_000_000_000_000_000_000, Legacy: true},
		{Addr: progOther, Balance: 0, Nonce: 1, Code: otherCode},
		{Addr: progReverter, Balance: 0, Nonce: 1, Code: reverterCode},
		{Addr: progCreator, Balance: 0, Nonce: 1, Code: creatorCode},
	}
}

const (
	progGas      = uint64(300_000)
	progGasPrice = int64(2)
	progPool     = uint64(10_000_000)
	progChainID  = "verif-c16"
)

var progHeaderTime = time.Unix(1_700_000_000, 0).UTC()

func progHeader(block int) *abci.Header {
	return &abci.Header{ChainID: progChainID, Height: int64(5 + block), Time: progHeaderTime, ProposerAddress: progCoinbase.Bytes()}
}

// tracked returns the accounts whose post-state is compared after every transaction.
func progTracked() (addrs []ethcmn.Address, names []string) {
	d := ethcrypto.CreateAddress(progSender, 0)
	addrs = []ethcmn.Address{progSender, d, progOther, progReverter, progFresh, progCoinbase,
		ethcrypto.CreateAddress2(d, ethcmn.Hash{}, ethcrypto.Keccak256(childInit)), progCreator,
		ethcrypto.CreateAddress2(progCreator, ethcmn.Hash{}, ethcrypto.Keccak256(childInit))}
	names = []string{"sender", "contract", "other", "reverter", "fresh", "coinbase", "create2child", "creator", "creatorchild"}
	for n := uint64(1); n <= 6; n++ {
		addrs = append(addrs, ethcrypto.CreateAddress(d, n))
		names = append(names, fmt.Sprintf("child%d", n))
	}
	return
}

var trackedAddrs, trackedNames = progTracked()

// txOutcome is everything the property compares for one transaction.
type txOutcome struct {
	fields []namedField
	// vacuity
	vmErr    string
	nLogs    int
	refDigst uint64
}

func hexOr(b []byte) string { return fmt.Sprintf("%x", b) }

func outcomeFields(res *olvm.ExecutionResult, err error, pool uint64, logs []*ethtypes.Log, db ethvm.StateDB) []namedField {
	var f []namedField
	add := func(g, arg string, v interface{}) { f = append(f, namedField{g, arg, fmt.Sprint(v)}) }
	if err != nil {
		add("error", "", err.Error())
	} else {
		add("error", "", "<nil>")
	}
	if res != nil {
		if res.Err != nil {
			add("vmError", "", res.Err.Error())
		} else {
			add("vmError", "", "<nil>")
		}
		add("returnData", "", hexOr(res.ReturnData))
		add("gasUsed", "", res.UsedGas)
		add("contractAddress", "", res.ContractAddress.Hex())
	} else {
		add("vmError", "", "<no result>")
		add("returnData", "", "<no result>")
		add("gasUsed", "", "<no result>")
		add("contractAddress", "", "<no result>")
	}
	add("gasPool", "", pool)
	var ls []string
	for _, l := range logs {
		ls = append(ls, fmt.Sprintf("{addr=%s topics=%v data=%x txhash=%s index=%d}", l.Address.Hex(), l.Topics, l.Data, l.TxHash.Hex(), l.Index))
	}
	add("logs", "", strings.Join(ls, " "))
	hx := func(h ethcmn.Hash) string { return "0x" + strings.TrimLeft(h.Hex()[2:], "0") }
	for i, a := range trackedAddrs {
		n := trackedNames[i]
		add("Exist", n, db.Exist(a))
		add("Empty", n, db.Empty(a))
		add("GetBalance", n, db.GetBalance(a))
		add("GetNonce", n, db.GetNonce(a))
		add("GetCodeHash", n, db.GetCodeHash(a).Hex())
		add("GetCode", n, hexOr(db.GetCode(a)))
		add("GetCodeSize", n, db.GetCodeSize(a))
		for s := 0; s < 2; s++ {
			add("GetState", fmt.Sprintf("%s,slot%d", n, s), hx(db.GetState(a, progSlots[s])))
			add("GetCommittedState", fmt.Sprintf("%s,slot%d", n, s), hx(db.GetCommittedState(a, progSlots[s])))
		}
		add("HasSuicided", n, db.HasSuicided(a))
	}
	add("GetRefund", "", db.GetRefund())
	return f
}

var progFieldOrder = []string{"panic", "error", "vmError", "returnData", "gasUsed", "contractAddress", "gasPool", "logs",
	"Exist", "Empty", "GetBalance", "GetNonce", "GetCodeHash", "GetCode", "GetCodeSize", "GetState", "GetCommittedState",
	"HasSuicided", "GetRefund"}

func progFieldRank(g string) int {
	for i, n := range progFieldOrder {
		if n == g {
			return i
		}
	}
	return len(progFieldOrder)
}

// ProgramFieldsCompared is reported in the evidence.
var ProgramFieldsCompared = []string{"error returned by the state transition (EVMTransaction.Apply incl. its Finalise / TransitionDb)",
	"ExecutionResult.Err", "ExecutionResult.ReturnData", "ExecutionResult.UsedGas", "ExecutionResult.ContractAddress",
	"gas left in the block gas pool", "logs of the transaction (Address, Topics, Data, TxHash, Index)",
	"after Finalise(true), for sender, contract, the three pre-deployed callees, the fresh address, coinbase, the CREATE2 children and CREATE children 1..6: Exist, Empty, GetBalance, GetNonce, GetCodeHash, GetCode, GetCodeSize, GetState/GetCommittedState of slots 0 and 1, HasSuicided; GetRefund"}

func (c progCase) message(i int, sdb *olvm.CommitStateDB, gp *ethcore.GasPool, block int) *olvm.EVMTransaction {
	var to *keys.Address
	data := []byte(nil)
	if i == 0 {
		data = c.initCode()
	} else {
		d := keys.Address(ethcrypto.CreateAddress(progSender, 0).Bytes())
		to = &d
	}
	return olvm.NewEVMTransaction(sdb, gp, progHeader(block), keys.Address(progSender.Bytes()), to, uint64(i),
		big.NewInt(1), data, nil, progGas, big.NewInt(progGasPrice), false)
}

// runAdapterTx executes transaction i exactly as action/olvm.runOLVM + app.txDeliverer do: Prepare was
// called with the transaction hash, a tx session is open; EVMTransaction.Apply (the repository's state
// transition + Finalise(true)); the session is committed unless Apply returned an error.
func (c progCase) runAdapterTx(a *adapter, i int) (out []namedField, panicked string) {
	panicked = catch(func() {
		gp := new(ethcore.GasPool).AddGas(progPool)
		msg := c.message(i, a.sdb, gp, a.block)
		res, err := msg.Apply()
		logs := a.txLogs()
		a.sdb.Finality(nil)
		if err != nil {
			a.st.DiscardTxSession()
		} else {
			a.st.CommitTxSession()
		}
		a.st.BeginTxSession()
		out = outcomeFields(res, err, gp.Gas(), logs, a.sdb)
	})
	return
}

// runReferenceTx executes the same message with the repository's own state transition
// (vm.NewStateTransition(...).TransitionDb()) and an EVM configured exactly like EVMTransaction.NewEVM,
// but over go-ethereum's StateDB.
func (c progCase) runReferenceTx(r *reference, i int) (out []namedField, panicked string) {
	panicked = catch(func() {
		gp := new(ethcore.GasPool).AddGas(progPool)
		msg := c.message(i, nil, gp, r.block)
		header := progHeader(r.block)
		blockCtx := ethvm.BlockContext{
			CanTransfer: ethcore.CanTransfer,
			Transfer:    ethcore.Transfer,
			GetHash:     func(uint64) ethcmn.Hash { return ethcmn.Hash{} },
			Coinbase:    ethcmn.BytesToAddress(header.ProposerAddress),
			GasLimit:    gp.Gas(),
			BlockNumber: new(big.Int).SetInt64(header.GetHeight()),
			Time:        new(big.Int).SetInt64(header.Time.Unix()),
			Difficulty:  new(big.Int).Set(olvm.DefaultDifficulty),
		}
		txCtx := ethvm.TxContext{Origin: msg.From(), GasPrice: msg.GasPrice()}
		evm := ethvm.NewEVM(blockCtx, txCtx, r.sdb, olvm.EthereumConfig(header.ChainID), ethvm.Config{ExtraEips: make([]int, 0)})
		snap := r.sdb.Snapshot()
		res, err := olvm.NewStateTransition(evm, msg, gp).TransitionDb()
		if err != nil {
			r.sdb.RevertToSnapshot(snap) // an invalid transaction leaves no trace (the app discards the session)
		}
		r.sdb.Finalise(true)
		logs := r.txLogs()
		out = outcomeFields(res, err, gp.Gas(), logs, r.sdb)
	})
	return
}

func (a *adapter) progNext(split bool) {
	if !split {
		a.tx++
		a.sdb.Prepare(txHash(a.tx))
		return
	}
	// EndBlock + Commit + BeginBlock (see adapter.endBlock); everything was finalised by Apply already
	a.st.DiscardTxSession()
	a.sdb.Reset()
	a.st.Commit()
	a.block++
	a.tx++
	a.st = newBlockState(a.g.cs)
	a.sdb.WithState(a.st)
	a.sdb.SetBlockHash(blockHash(a.block))
	a.sdb.Prepare(txHash(a.tx))
	a.st.BeginTxSession()
}

func (r *reference) progNext(split bool) {
	if !split {
		r.tx++
		r.sdb.Prepare(txHash(r.tx), r.tx)
		return
	}
	r.endBlock()
}

type progResult struct {
	tx    int // 1-based transaction in which the back-ends disagree (0: none)
	diffs []fieldDiff
	// vacuity, from the reference side
	reverted, oog, invalid, created, destructed, logged, callFailed bool
	finalDigest                                                     uint64
}

func fieldVal(f []namedField, getter, arg string) string {
	for _, x := range f {
		if x.getter == getter && x.arg == arg {
			return x.val
		}
	}
	return ""
}

// run executes the case on fresh back-ends.
func (c progCase) run(shared *genesis) progResult {
	g := shared
	split := c.Blocks == "split"
	if split {
		g = shared.private()
	}
	a, r := newAdapter(g), newReference(g)
	var res progResult
	var all bytes.Buffer
	for i := 0; i < c.Txs; i++ {
		hadCode := r.sdb.GetCodeSize(trackedAddrs[1]) > 0
		fa, pa := c.runAdapterTx(a, i)
		fr, pr := c.runReferenceTx(r, i)
		if pa != "" || pr != "" {
			res.tx = i + 1
			res.diffs = []fieldDiff{{Getter: "panic", Adapter: pa, Ref: pr}}
			return res
		}
		for j := range fr {
			if fa[j].val != fr[j].val {
				res.diffs = append(res.diffs, fieldDiff{Getter: fa[j].getter, Arg: fa[j].arg, Adapter: fa[j].val, Ref: fr[j].val})
			}
			all.WriteString(fr[j].val)
			all.WriteByte(0)
		}
		switch e := fieldVal(fr, "vmError", ""); {
		case e == ethvm.ErrExecutionReverted.Error():
			res.reverted = true
		case e == ethvm.ErrOutOfGas.Error() || strings.Contains(e, "out of gas"):
			res.oog = true
		case strings.Contains(e, "invalid opcode"):
			res.invalid = true
		}
		if fieldVal(fr, "logs", "") != "" {
			res.logged = true
		}
		for k, n := range trackedNames {
			if (strings.HasPrefix(n, "child") || n == "create2child" || n == "creatorchild") && r.sdb.Exist(trackedAddrs[k]) {
				res.created = true
			}
		}
		if hadCode && !r.sdb.Exist(trackedAddrs[1]) {
			res.destructed = true
		}
		if res.diffs != nil {
			sort.SliceStable(res.diffs, func(x, y int) bool { return progFieldRank(res.diffs[x].Getter) < progFieldRank(res.diffs[y].Getter) })
			res.tx = i + 1
			return res
		}
		if i+1 < c.Txs {
			a.progNext(split)
			r.progNext(split)
		}
	}
	res.finalDigest = digest(all.Bytes())
	return res
}

// minimise brings a diverging case into a canonical small form (deterministic function of the input):
// prefer one block, prefer the plain deployment, drop snippets greedily (left to right, to a fixpoint),
// replace a snippet by the first snippet preceding it in the grammar; every accepted candidate must diverge
// in the same first field as the case that was found (so that one defect is not filed under the signature
// of another one it happens to contain); transactions after the first disagreement are dropped.
func (c progCase) minimise(shared *genesis, memo map[string]string) (progCase, progResult) {
	cur := c
	cur.Txs = 3
	best := cur.run(shared)
	bestField := best.diffs[0].Getter
	// memo: candidate -> first differing field ("" = the back-ends agree); candidates repeat a lot
	try := func(cand progCase, sameField bool) bool {
		cand.Txs = 3
		key := strings.Join(cand.Snippets, "+") + "|" + cand.Deploy + "|" + cand.Blocks
		if f, ok := memo[key]; ok && (f == "" || sameField && f != bestField) {
			return false
		}
		r := cand.run(shared)
		if r.diffs == nil {
			memo[key] = ""
			return false
		}
		memo[key] = r.diffs[0].Getter
		if sameField && r.diffs[0].Getter != bestField {
			return false
		}
		cur, best, bestField = cand, r, r.diffs[0].Getter
		return true
	}
	if cur.Blocks == "split" {
		cand := cur
		cand.Blocks = "same"
		try(cand, true)
	}
	if cur.Deploy == "ctor" {
		cand := cur
		cand.Deploy = "plain"
		try(cand, true)
	}
	removal := func() {
		for changed := true; changed; {
			changed = false
			for i := 0; i < len(cur.Snippets); i++ {
				cand := cur
				cand.Snippets = append(append([]string(nil), cur.Snippets[:i]...), cur.Snippets[i+1:]...)
				if try(cand, true) {
					changed = true
					i--
				}
			}
		}
	}
	removal()
	for rounds := 0; rounds < 32; rounds++ {
		replaced := false
	positions:
		for i, name := range cur.Snippets {
			for k := 0; k < snippetIndex(name); k++ {
				cand := cur
				cand.Snippets = append([]string(nil), cur.Snippets...)
				cand.Snippets[i] = snippets[k].Name
				if try(cand, true) {
					replaced = true
					break positions
				}
			}
		}
		if !replaced {
			break
		}
		removal()
	}
	cur.Txs = best.tx
	return cur, best
}

func progSignature(c progCase, diffs []fieldDiff) string {
	s := strings.Join(c.Snippets, "+")
	if s == "" {
		s = "(empty)"
	}
	return fmt.Sprintf("C16|program|snippets=%s|deploy=%s|blocks=%s|field=%s", s, c.Deploy, c.Blocks, diffs[0].Getter)
}

// ---------------------------------------------------------------------------------------------
// Enumeration
// ---------------------------------------------------------------------------------------------

type progStats struct {
	programs                                            int64 // distinct snippet lists
	runs                                                int64 // (program, deploy mode, block mode) executions
	transactions                                        int64 // transactions executed on both back-ends and compared
	diverged                                            int64
	reverted, oog, invalid, created, destructed, logged int64
	finalStates                                         *u64set
	completedLen                                        int
	deadlineHit                                         int32
}

type progFinding struct {
	sig      string
	what     string
	minimal  progCase
	original progCase
	res      progResult
	count    int64
}

type progEngine struct {
	stats    progStats
	workers  int
	deadline time.Time
	mu       sync.Mutex
	findings map[string]*progFinding
	samples  []progCase
}

func newProgEngine(workers int, deadline time.Time) *progEngine {
	e := &progEngine{workers: workers, deadline: deadline, findings: map[string]*progFinding{}}
	e.stats.finalStates = newU64set()
	return e
}

func progLess(a, b progCase) bool {
	if len(a.Snippets) != len(b.Snippets) {
		return len(a.Snippets) < len(b.Snippets)
	}
	if a.Txs != b.Txs {
		return a.Txs < b.Txs
	}
	return strings.Join(a.Snippets, "+") < strings.Join(b.Snippets, "+")
}

func (e *progEngine) record(shared *genesis, memo map[string]string, c progCase) {
	min, res := c.minimise(shared, memo)
	sig := progSignature(min, res.diffs)
	e.mu.Lock()
	defer e.mu.Unlock()
	f, ok := e.findings[sig]
	if !ok {
		f = &progFinding{sig: sig}
		e.findings[sig] = f
	}
	f.count++
	if f.what == "" || progLess(min, f.minimal) {
		f.minimal, f.original, f.res = min, c, res
		f.what = fmt.Sprintf("program [%s] (deploy=%s, blocks=%s): in transaction %d the adapter and go-ethereum disagree: %s",
			strings.Join(min.Snippets, " "), min.Deploy, min.Blocks, res.tx, res.diffs[0])
	}
}

// enumerate runs every program of exactly n snippets (all deploy and block modes, 3 transactions).
func (e *progEngine) enumerate(n int) bool {
	total := 1
	for i := 0; i < n; i++ {
		total *= len(snippets)
	}
	var idx int64 = -1
	var wg sync.WaitGroup
	for w := 0; w < e.workers; w++ {
		wg.Add(1)
		go func() {
			defer wg.Done()
			shared, err := newGenesis(progSeeds())
			if err != nil {
				panic(err)
			}
			memo := map[string]string{}
			for {
				j := atomic.AddInt64(&idx, 1)
				if j >= int64(total) {
					return
				}
				if time.Now().After(e.deadline) {
					atomic.StoreInt32(&e.stats.deadlineHit, 1)
					return
				}
				names := make([]string, n)
				for k, v := n-1, int(j); k >= 0; k-- {
					names[k] = snippets[v%len(snippets)].Name
					v /= len(snippets)
				}
				atomic.AddInt64(&e.stats.programs, 1)
				for _, deploy := range []string{"plain", "ctor"} {
					for _, blocks := range []string{"same", "split"} {
						c := progCase{Level: "program", Snippets: names, Deploy: deploy, Blocks: blocks, Txs: 3}
						res := c.run(shared)
						st := &e.stats
						atomic.AddInt64(&st.runs, 1)
						ntx := int64(c.Txs)
						if res.tx > 0 {
							ntx = int64(res.tx)
						}
						atomic.AddInt64(&st.transactions, ntx)
						for _, p := range []struct {
							b bool
							c *int64
						}{{res.reverted, &st.reverted}, {res.oog, &st.oog}, {res.invalid, &st.invalid}, {res.created, &st.created},
							{res.destructed, &st.destructed}, {res.logged, &st.logged}} {
							if p.b {
								atomic.AddInt64(p.c, 1)
							}
						}
						if res.diffs != nil {
							atomic.AddInt64(&st.diverged, 1)
							e.record(shared, memo, c)
							continue
						}
						st.finalStates.add(res.finalDigest)
						if n >= 2 && (res.created || res.destructed) {
							e.mu.Lock()
							if len(e.samples) < 3 {
								c.Runtime = hexOr(c.runtime())
								e.samples = append(e.samples, c)
							}
							e.mu.Unlock()
						}
					}
				}
			}
		}()
	}
	wg.Wait()
	return atomic.LoadInt32(&e.stats.deadlineHit) == 0
}

func (e *progEngine) sortedFindings() []*progFinding {
	var out []*progFinding
	for _, f := range e.findings {
		out = append(out, f)
	}
	sort.Slice(out, func(i, j int) bool { return out[i].sig < out[j].sig })
	return out
}
