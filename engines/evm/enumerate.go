package evm

import (
	"fmt"
	"sort"
	"sync"
	"sync/atomic"
	"time"
)

// ifaceCase is the replayable form of an interface-level case.
type ifaceCase struct {
	Level string   `json:"level"` // "iface"
	Ops   []string `json:"ops"`
	// filled for reports
	Step     int         `json:"diverges_after_step,omitempty"`
	Diffs    []fieldDiff `json:"differences,omitempty"`
	Original []string    `json:"found_as,omitempty"`
}

func containsEndBlock(ops []Op) bool {
	for _, o := range ops {
		if o.K == opEndBlock {
			return true
		}
	}
	return false
}

// ifaceWorker owns the shared genesis of one goroutine and scratch buffers.
type ifaceWorker struct {
	shared     *genesis
	bufA, bufR []byte
	enabledBuf []Op
	memo       map[memoKey]memoRes
}

// privateGenesis: own chain state, shared reference database (renewed now and then to bound its growth).
func (w *ifaceWorker) privateGenesis() *genesis {
	if w.shared.privates >= 20000 {
		g, err := newGenesis(ifaceSeeds())
		if err != nil {
			panic(err)
		}
		w.shared = g
	}
	return w.shared.private()
}

func newIfaceWorker() *ifaceWorker {
	g, err := newGenesis(ifaceSeeds())
	if err != nil {
		panic(err)
	}
	return &ifaceWorker{shared: g}
}

type execResult struct {
	diffs   []fieldDiff // non-nil: the back-ends disagree after step `step` (1-based; 0 = before any op)
	step    int
	x       *ifaceRun
	private bool
	illegal bool // the sequence contains an operation that is not enabled where it stands
}

// exec runs ops on fresh back-ends. checkAll compares after every step (and before the first); otherwise
// only after the last one (the caller knows that every proper prefix agreed).
func (w *ifaceWorker) exec(ops []Op, checkAll bool, allowEndBlock bool) execResult {
	g := w.shared
	private := false
	if allowEndBlock && containsEndBlock(ops) {
		g = w.privateGenesis()
		private = true
	}
	x := newIfaceRun(g)
	res := execResult{x: x, private: private}
	if checkAll || len(ops) == 0 {
		if d := x.compare(&w.bufA, &w.bufR); d != nil {
			res.diffs, res.step = d, 0
			return res
		}
	}
	for i, op := range ops {
		if !x.legal(op, private) {
			res.illegal = true
			res.step = i + 1
			return res
		}
		x.apply(op)
		if checkAll || i == len(ops)-1 {
			if d := x.compare(&w.bufA, &w.bufR); d != nil {
				res.diffs, res.step = d, i+1
				return res
			}
		}
	}
	return res
}

// legal reports whether op is enabled now (same rules as enabled).
func (x *ifaceRun) legal(op Op, private bool) bool {
	switch op.K {
	case opCreateAccount:
		return x.creatable(ifaceAddrs[op.A])
	case opSetState:
		return x.r.sdb.Exist(ifaceAddrs[op.A])
	case opSubBalance:
		return x.r.sdb.GetBalance(ifaceAddrs[op.A]).Int64() >= int64(op.V) && x.r.sdb.GetBalance(ifaceAddrs[op.A]).Sign() >= 0
	case opSubRefund:
		return x.r.sdb.GetRefund() >= uint64(op.V)
	case opRevertToSnapshot:
		return int(op.V) < len(x.snapR) && int(op.V) < len(x.snapA)
	case opEndBlock:
		return private
	}
	return true
}

// diverges runs ops the way the enumeration does - both back-ends are observed once, after the last
// operation - and reports whether they disagree there (and the rank of the first differing getter).
// The observation schedule matters: the adapter's getters are not free of side effects (a failed account
// read is remembered in dbErr and makes the next Finalise fail), so the minimiser must judge candidates
// exactly like the enumeration judges sequences. Results for short sequences are memoised per worker: the
// minimiser asks for the same short candidates again and again.
type memoRes struct {
	illegal  bool
	diverged bool
	getter   int16
}

// memoKey is pointer-free so that the garbage collector does not scan the memo tables.
type memoKey [21]byte

func seqKey(ops []Op) (k memoKey) {
	k[0] = byte(len(ops))
	for i, o := range ops {
		k[1+4*i], k[2+4*i], k[3+4*i], k[4+4*i] = byte(o.K), byte(o.A), byte(o.S), byte(o.V)
	}
	return
}

func (w *ifaceWorker) diverges(ops []Op) memoRes {
	memoise := len(ops) <= 5
	var k memoKey
	if memoise {
		k = seqKey(ops)
		if m, ok := w.memo[k]; ok {
			return m
		}
	}
	r := w.exec(ops, false, true)
	m := memoRes{illegal: r.illegal}
	if !r.illegal && r.diffs != nil {
		m.diverged = true
		m.getter = int16(getterRank(r.diffs[0].Getter))
	}
	if memoise {
		if w.memo == nil || len(w.memo) > 600000 {
			w.memo = map[memoKey]memoRes{}
		}
		w.memo[k] = m
	}
	return m
}

func opLess(a, b Op) bool {
	if a.K != b.K {
		return a.K < b.K
	}
	if a.A != b.A {
		return a.A < b.A
	}
	if a.S != b.S {
		return a.S < b.S
	}
	return a.V < b.V
}

// canonicalOps: every operation instance in canonical order (kind, address, slot, value).
var canonicalOps = func() []Op {
	ops := append([]Op(nil), alphabet("full")...)
	for i := int8(0); i < 8; i++ {
		ops = append(ops, Op{K: opRevertToSnapshot, V: i})
	}
	sort.Slice(ops, func(i, j int) bool { return opLess(ops[i], ops[j]) })
	return ops
}()

// minimise brings a diverging sequence into a canonical small form, as a deterministic function of the
// input sequence. A candidate is accepted if it is legal and diverges (observed after its last operation,
// see diverges) with the same first differing getter as the sequence that was found, so that one defect is
// not filed under the signature of another one it happens to contain. Candidates, to a fixpoint:
//  1. the shortest diverging proper prefix, then the shortest diverging proper suffix;
//  2. removal of single operations, left to right;
//  3. replacement, left to right, of an operation by the first operation instance that precedes it in
//     canonical order (so EndBlock -> NextTx -> Finalise, SetNonce -> AddBalance, ...).
//
// RevertToSnapshot positions are kept as they are; a change that makes one dangle is simply illegal.
func (w *ifaceWorker) minimise(ops []Op) ([]Op, execResult) {
	cur := append([]Op(nil), ops...)
	base := w.diverges(cur)
	if base.illegal || !base.diverged {
		panic(fmt.Sprintf("minimise: %v does not diverge", opStrings(ops)))
	}
	ok := func(cand []Op) bool {
		m := w.diverges(cand)
		return !m.illegal && m.diverged && m.getter == base.getter
	}
	for rounds := 0; rounds < 64; rounds++ {
		changed := false
		for k := 1; k < len(cur); k++ {
			if ok(cur[:k]) {
				cur, changed = append([]Op(nil), cur[:k]...), true
				break
			}
		}
		for k := 1; k < len(cur); k++ {
			if ok(cur[len(cur)-k:]) {
				cur, changed = append([]Op(nil), cur[len(cur)-k:]...), true
				break
			}
		}
		for i := 0; i < len(cur); i++ {
			cand := append(append([]Op(nil), cur[:i]...), cur[i+1:]...)
			if len(cand) > 0 && ok(cand) {
				cur, changed = cand, true
				i--
			}
		}
	positions:
		for i := range cur {
			for _, c := range canonicalOps {
				if !opLess(c, cur[i]) {
					break
				}
				cand := append([]Op(nil), cur...)
				cand[i] = c
				if ok(cand) {
					cur, changed = cand, true
					break positions
				}
			}
		}
		if !changed {
			break
		}
	}
	return cur, w.exec(cur, false, true)
}

// ---------------------------------------------------------------------------------------------
// Exhaustive enumeration
// ---------------------------------------------------------------------------------------------

type u64set struct {
	shards [256]struct {
		mu sync.Mutex
		m  map[uint64]struct{}
	}
}

func newU64set() *u64set {
	s := &u64set{}
	for i := range s.shards {
		s.shards[i].m = map[uint64]struct{}{}
	}
	return s
}

func (s *u64set) add(v uint64) bool {
	sh := &s.shards[v&255]
	sh.mu.Lock()
	_, ok := sh.m[v]
	if !ok {
		sh.m[v] = struct{}{}
	}
	sh.mu.Unlock()
	return !ok
}

func (s *u64set) len() int {
	n := 0
	for i := range s.shards {
		s.shards[i].mu.Lock()
		n += len(s.shards[i].m)
		s.shards[i].mu.Unlock()
	}
	return n
}

// ifaceStats are measured counters of the interface level.
type ifaceStats struct {
	sequences         int64 // sequences executed on both back-ends and compared
	transitions       int64 // operations applied (per back-end pair) in compared executions
	leafByLen         [16]int64
	diverged          int64 // sequences whose last step made the back-ends disagree (not extended further)
	nontrivial        int64 // sequences whose final reference observation differs from the starting one
	withRevertUndo    int64
	withSuicide       int64
	withFinalisePend  int64
	withBlockCommit   int64
	minimiseExecs     int64
	opKindApplied     [numOpKinds]int64
	revertDepthMax    int64
	deadlineHit       int32
	states            *u64set
	genesisDigest     uint64
	divergentByKinds  sync.Map // signature -> *int64
	completedFullLen  int
	completedCoreLen  int
	completedCore5Len int
	maxSnapshotNested int64
}

type finding struct {
	sig      string
	what     string
	minimal  []Op
	original []Op
	res      execResult
	count    int64
}

type ifaceEngine struct {
	stats    ifaceStats
	deadline time.Time
	workers  int

	mu       sync.Mutex
	findings map[string]*finding
	samples  []ifaceCase
	nSamples int32
}

func newIfaceEngine(workers int, deadline time.Time) *ifaceEngine {
	e := &ifaceEngine{deadline: deadline, workers: workers, findings: map[string]*finding{}}
	e.stats.states = newU64set()
	return e
}

func (e *ifaceEngine) expired() bool {
	if atomic.LoadInt32(&e.stats.deadlineHit) != 0 {
		return true
	}
	if time.Now().After(e.deadline) {
		atomic.StoreInt32(&e.stats.deadlineHit, 1)
		return true
	}
	return false
}

func ifaceSignature(min []Op, diffs []fieldDiff) string {
	return fmt.Sprintf("C16|iface|op=%s|getter=%s", kindsOf(min), diffs[0].Getter)
}

// record minimises a diverging sequence and files it under its signature.
func (e *ifaceEngine) record(w *ifaceWorker, ops []Op) {
	min, res := w.minimise(ops)
	sig := ifaceSignature(min, res.diffs)
	e.mu.Lock()
	defer e.mu.Unlock()
	f, ok := e.findings[sig]
	if !ok {
		f = &finding{sig: sig}
		e.findings[sig] = f
	}
	f.count++
	// keep the smallest reproduction (by length, then text) so that reports are stable across runs
	if f.minimal == nil || less(min, f.minimal) {
		f.minimal, f.original, f.res = min, append([]Op(nil), ops...), res
		f.what = fmt.Sprintf("after %v the adapter and go-ethereum disagree: %s", opStrings(min), res.diffs[0])
	}
}

func less(a, b []Op) bool {
	if len(a) != len(b) {
		return len(a) < len(b)
	}
	return fmt.Sprint(opStrings(a)) < fmt.Sprint(opStrings(b))
}

// visit executes one sequence (all proper prefixes are known to agree), accounts for it and returns the
// operations enabled after it (nil if it diverged).
func (e *ifaceEngine) visit(w *ifaceWorker, seq []Op, alpha []Op, allowEndBlock bool, count bool) (enabled []Op, ok bool) {
	res := w.exec(seq, false, allowEndBlock)
	if res.illegal {
		panic(fmt.Sprintf("enumerator produced an illegal sequence %v", opStrings(seq)))
	}
	x := res.x
	if count {
		st := &e.stats
		atomic.AddInt64(&st.sequences, 1)
		atomic.AddInt64(&st.transitions, int64(len(seq)))
		atomic.AddInt64(&st.leafByLen[len(seq)], 1)
		if len(seq) > 0 {
			atomic.AddInt64(&st.opKindApplied[seq[len(seq)-1].K], 1)
		}
		d := digest(w.bufR)
		if res.diffs != nil {
			d = digest(x.observe(false, nil))
		}
		st.states.add(d)
		if d != st.genesisDigest {
			atomic.AddInt64(&st.nontrivial, 1)
		}
		if x.revertUndid {
			atomic.AddInt64(&st.withRevertUndo, 1)
		}
		if x.suicided {
			atomic.AddInt64(&st.withSuicide, 1)
		}
		if x.finalisePending {
			atomic.AddInt64(&st.withFinalisePend, 1)
		}
		if x.blocks > 0 {
			atomic.AddInt64(&st.withBlockCommit, 1)
		}
		if n := int64(len(x.snapR)); n > atomic.LoadInt64(&st.maxSnapshotNested) {
			atomic.StoreInt64(&st.maxSnapshotNested, n)
		}
	}
	if res.diffs != nil {
		if count {
			atomic.AddInt64(&e.stats.diverged, 1)
			e.record(w, seq)
		}
		return nil, false
	}
	if count && len(seq) >= 3 && (x.revertUndid || x.finalisePending) && atomic.LoadInt32(&e.nSamples) < 3 {
		e.mu.Lock()
		if len(e.samples) < 3 {
			e.samples = append(e.samples, ifaceCase{Level: "iface", Ops: opStrings(seq)})
			atomic.StoreInt32(&e.nSamples, int32(len(e.samples)))
		}
		e.mu.Unlock()
	}
	w.enabledBuf = x.enabled(alpha, res.private || allowEndBlock, w.enabledBuf)
	return append([]Op(nil), w.enabledBuf...), true
}

// dfs explores everything below seq down to maxLen. countFrom: only sequences longer than this are counted
// and reported (shorter ones were handled by an earlier pass or by the caller).
func (e *ifaceEngine) dfs(w *ifaceWorker, seq []Op, alpha []Op, allowEndBlock bool, maxLen, countFrom int) {
	if e.expired() {
		return
	}
	enabled, ok := e.visit(w, seq, alpha, allowEndBlock, len(seq) > countFrom)
	if !ok || len(seq) >= maxLen {
		return
	}
	for _, op := range enabled {
		e.dfs(w, append(seq[:len(seq):len(seq)], op), alpha, allowEndBlock, maxLen, countFrom)
	}
}

// enumerate runs all sequences over alpha of length countFrom+1..maxLen whose proper prefixes agree.
// Returns true if it completed before the deadline.
func (e *ifaceEngine) enumerate(alphaName string, maxLen, countFrom int) bool {
	alpha := alphabet(alphaName)
	allowEndBlock := false
	for _, o := range alpha {
		if o.K == opEndBlock {
			allowEndBlock = true
		}
	}
	root := newIfaceWorker()
	if e.stats.genesisDigest == 0 {
		x := newIfaceRun(root.shared)
		e.stats.genesisDigest = digest(x.observe(false, nil))
	}
	// the tasks are the agreeing prefixes of length min(2,maxLen); they are produced sequentially
	split := 2
	if maxLen < split {
		split = maxLen
	}
	var tasks [][]Op
	var gen func(seq []Op)
	gen = func(seq []Op) {
		if len(seq) == split {
			tasks = append(tasks, append([]Op(nil), seq...))
			return
		}
		enabled, ok := e.visit(root, seq, alpha, allowEndBlock, len(seq) > countFrom)
		if !ok {
			return
		}
		for _, op := range enabled {
			gen(append(seq[:len(seq):len(seq)], op))
		}
	}
	gen(nil)
	ch := make(chan []Op, len(tasks))
	for _, t := range tasks {
		ch <- t
	}
	close(ch)
	var wg sync.WaitGroup
	for i := 0; i < e.workers; i++ {
		wg.Add(1)
		go func() {
			defer wg.Done()
			w := newIfaceWorker()
			for t := range ch {
				e.dfs(w, t, alpha, allowEndBlock, maxLen, countFrom)
			}
		}()
	}
	wg.Wait()
	return !e.expired()
}

func (e *ifaceEngine) sortedFindings() []*finding {
	var out []*finding
	for _, f := range e.findings {
		out = append(out, f)
	}
	sort.Slice(out, func(i, j int) bool { return out[i].sig < out[j].sig })
	return out
}
