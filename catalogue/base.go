package catalogue

import (
	"github.com/Oneledger/protocol/action"

	"verif/harness"
)

func init() { Register(baseScenarios) }

// baseScenarios are the harness' own minimal scenarios (SEND); the per-group packages add the rest.
func baseScenarios() []*harness.Scenario {
	world := func() *harness.World { return harness.NewWorld("base", 4, 3) }
	return []*harness.Scenario{
		{
			Kind: action.SEND.String(), Note: "plain",
			World: world,
			Target: func(w *harness.World) *harness.TxSpec {
				return harness.Send(w.Users[0], w.Users[1].Addr, harness.Coin("OLT", harness.OLTUnits(5)), "send-1")
			},
			After: 2,
		},
		{
			// the sender's account is held by a SECP256K1 key (its address is the Tendermint secp256k1 address:
			// RIPEMD160(SHA256(compressed key)), which other key types can collide with by construction)
			Kind: action.SEND.String(), Note: "from-a-secp256k1-account",
			World: world,
			Target: func(w *harness.World) *harness.TxSpec {
				return harness.Send(w.SecpUsers[0], w.Users[1].Addr, harness.Coin("OLT", harness.OLTUnits(4)), "send-secp")
			},
			After: 2,
		},
		{
			Kind: action.SEND.String(), Note: "after-traffic",
			World: world,
			Prefix: func(w *harness.World) []harness.BlockSpec {
				return []harness.BlockSpec{
					{Txs: []*harness.TxSpec{
						harness.Send(w.Users[0], w.Users[1].Addr, harness.Coin("OLT", harness.OLTUnits(7)), "p1"),
						harness.Send(w.Users[1], w.Users[2].Addr, harness.Coin("OLT", harness.OLTUnits(3)), "p2"),
					}},
					{},
					{Txs: []*harness.TxSpec{harness.Send(w.Users[2], w.Users[0].Addr, harness.Coin("ETH", harness.Amt("1000")), "p3")}},
				}
			},
			Target: func(w *harness.World) *harness.TxSpec {
				return harness.Send(w.Users[1], w.Vals[3].Stake.Addr, harness.Coin("OLT", harness.OLTUnits(1)), "send-2")
			},
			After: 3,
		},
	}
}
