package catalogue

import (
	"time"

	"github.com/Oneledger/protocol/action"
	"github.com/Oneledger/protocol/consensus"
	"github.com/Oneledger/protocol/data/balance"
	"github.com/Oneledger/protocol/data/delegation"

	"verif/harness"
	"verif/txs/stk"
)

func init() { Register(multiScenarios) }

// multiScenarios are scripted histories in which one block-level hook handles SEVERAL records at
// once (two purges, two verdicts, two maturity heights): the situations in which an iteration order
// can matter. The hook of interest fires in the prefix or in the target's block; the target itself
// is a plain SEND so that the history has the usual shape.
func multiScenarios() []*harness.Scenario {
	send := func(tag string) func(w *harness.World) *harness.TxSpec {
		return func(w *harness.World) *harness.TxSpec {
			return harness.Send(w.Users[0], w.Users[1].Addr, harness.Coin("OLT", harness.OLTUnits(1)), tag)
		}
	}
	four := func(name string) func() *harness.World {
		return func() *harness.World { return harness.NewWorld(name, 4, 4) }
	}
	return []*harness.Scenario{
		{
			Kind: action.SEND.String(), Note: "multi-two-validators-purged-in-one-endblock",
			World: four("multi-purge"),
			Prefix: func(w *harness.World) []harness.BlockSpec {
				return []harness.BlockSpec{{}, {},
					{Txs: []*harness.TxSpec{
						stk.Unstake(w.Vals[2].Val, w.Vals[2].Stake, stk.WholeOLT(w.Vals[2].Power), "mp-u3"),
						stk.Unstake(w.Vals[3].Val, w.Vals[3].Stake, stk.WholeOLT(w.Vals[3].Power), "mp-u4"),
					}},
				}
			},
			Target: send("mp-send"),
			After:  5,
		},
		{
			Kind: action.SEND.String(), Note: "multi-two-guilty-verdicts-in-one-endblock",
			World: four("multi-verdict"),
			Prefix: func(w *harness.World) []harness.BlockSpec {
				return []harness.BlockSpec{{}, {},
					{Txs: []*harness.TxSpec{
						stk.Allegation("multi-req-a", w.Vals[0].Val, w.Vals[2].Val.Addr, 1, "proof-a", "mv-a1"),
						stk.Allegation("multi-req-b", w.Vals[0].Val, w.Vals[3].Val.Addr, 1, "proof-b", "mv-a2"),
					}},
					{Txs: []*harness.TxSpec{
						stk.AllegationVote("multi-req-a", w.Vals[0].Val, stk.Yes, "mv-v1"),
						stk.AllegationVote("multi-req-b", w.Vals[0].Val, stk.Yes, "mv-v2"),
					}},
					{Txs: []*harness.TxSpec{
						stk.AllegationVote("multi-req-a", w.Vals[1].Val, stk.Yes, "mv-v3"),
						stk.AllegationVote("multi-req-b", w.Vals[1].Val, stk.Yes, "mv-v4"),
					}},
				}
			},
			Target: send("mv-send"),
			After:  5,
		},
		{
			Kind: action.SEND.String(), Note: "multi-two-verdicts-guilty-and-innocent-in-one-endblock",
			World: four("multi-verdict2"),
			Prefix: func(w *harness.World) []harness.BlockSpec {
				return []harness.BlockSpec{{}, {},
					{Txs: []*harness.TxSpec{
						stk.Allegation("multi-req-c", w.Vals[0].Val, w.Vals[2].Val.Addr, 1, "proof-c", "mw-a1"),
						stk.Allegation("multi-req-d", w.Vals[1].Val, w.Vals[3].Val.Addr, 1, "proof-d", "mw-a2"),
					}},
					{Txs: []*harness.TxSpec{
						stk.AllegationVote("multi-req-c", w.Vals[0].Val, stk.Yes, "mw-v1"),
						stk.AllegationVote("multi-req-d", w.Vals[0].Val, stk.No, "mw-v2"),
					}},
					{Txs: []*harness.TxSpec{
						stk.AllegationVote("multi-req-c", w.Vals[1].Val, stk.Yes, "mw-v3"),
						stk.AllegationVote("multi-req-d", w.Vals[1].Val, stk.No, "mw-v4"),
					}},
				}
			},
			Target: send("mw-send"),
			After:  4,
		},
		{
			Kind: action.SEND.String(), Note: "multi-genesis-with-two-stake-maturity-heights",
			World: func() *harness.World {
				w := harness.NewWorld("multi-mature", 4, 3)
				w.Mutate = func(w *harness.World, st *consensus.AppState) {
					st.Delegation = *delegation.NewDelegationState()
					for i, h := range []int64{3, 5, 3} {
						st.Delegation.MatureAmounts = append(st.Delegation.MatureAmounts, &delegation.MatureData{
							Address: w.Vals[i%2].Stake.Addr, Amount: *balance.NewAmount(int64(1000 * (i + 1))), Height: h})
					}
				}
				return w
			},
			Prefix: func(w *harness.World) []harness.BlockSpec { return []harness.BlockSpec{{}, {}} },
			Target: send("mm-send"),
			After:  4,
		},
		{
			Kind: action.SEND.String(), Note: "multi-long-time-step-and-absent-validator",
			World: four("multi-time"),
			Prefix: func(w *harness.World) []harness.BlockSpec {
				return []harness.BlockSpec{{}, {Absent: []int{3}}, {Dt: 40 * 24 * time.Hour, Absent: []int{3}}, {Absent: []int{3}}}
			},
			Target: send("mt-send"),
			After:  4,
		},
	}
}
