package catalogue

import (
	"fmt"
	"time"

	"github.com/Oneledger/protocol/action"
	"github.com/Oneledger/protocol/consensus"
	"github.com/Oneledger/protocol/data/balance"
	"github.com/Oneledger/protocol/data/delegation"
	"github.com/Oneledger/protocol/data/network_delegation"

	"verif/harness"
	"verif/txs/gov"
	"verif/txs/stk"
	"verif/txs/xch"
)

// plainStoreRuntime: storage[0] = calldata[0:32]; stop  (unlike xch.StoreRuntime it also stores zero)
var plainStoreRuntime = []byte{0x60, 0x00, 0x35, 0x60, 0x00, 0x55, 0x00}

func init() { Register(multiScenarios) }

// multiScenarios are scripted histories in which one block-level hook handles SEVERAL records at
// once (two purges, two verdicts, two maturity heights): the situations in which an iteration order
// can matter. The hook of interest fires in the prefix or in the target's block; the target itself
// is a plain SEND so that the history has the usual shape.
func multiScenarios() []*harness.Scenario {
	send := func(tag string) func(w *harness.World) *harness.TxSpec {
		return func(w *harness.World) *harness.TxSpec {
			return harness.Send(w.Users[0], w.Users[1].Addr, harness.Coin("OLT", harness.OLTUnits(1)), tag)
		}
	}
	four := func(name string) func() *harness.World {
		return func() *harness.World { return harness.NewWorld(name, 4, 4) }
	}
	return []*harness.Scenario{
		{
			Kind: action.SEND.String(), Note: "multi-two-validators-purged-in-one-endblock",
			World: four("multi-purge"),
			Prefix: func(w *harness.World) []harness.BlockSpec {
				return []harness.BlockSpec{{}, {},
					{Txs: []*harness.TxSpec{
						stk.Unstake(w.Vals[2].Val, w.Vals[2].Stake, stk.WholeOLT(w.Vals[2].Power), "mp-u3"),
						stk.Unstake(w.Vals[3].Val, w.Vals[3].Stake, stk.WholeOLT(w.Vals[3].Power), "mp-u4"),
					}},
				}
			},
			Target: send("mp-send"),
			After:  5,
		},
		{
			Kind: action.SEND.String(), Note: "multi-two-guilty-verdicts-in-one-endblock",
			World: four("multi-verdict"),
			Prefix: func(w *harness.World) []harness.BlockSpec {
				return []harness.BlockSpec{{}, {},
					{Txs: []*harness.TxSpec{
						stk.Allegation("multi-req-a", w.Vals[0].Val, w.Vals[2].Val.Addr, 1, "proof-a", "mv-a1"),
						stk.Allegation("multi-req-b", w.Vals[0].Val, w.Vals[3].Val.Addr, 1, "proof-b", "mv-a2"),
					}},
					{Txs: []*harness.TxSpec{
						stk.AllegationVote("multi-req-a", w.Vals[0].Val, stk.Yes, "mv-v1"),
						stk.AllegationVote("multi-req-b", w.Vals[0].Val, stk.Yes, "mv-v2"),
					}},
					{Txs: []*harness.TxSpec{
						stk.AllegationVote("multi-req-a", w.Vals[1].Val, stk.Yes, "mv-v3"),
						stk.AllegationVote("multi-req-b", w.Vals[1].Val, stk.Yes, "mv-v4"),
					}},
				}
			},
			Target: send("mv-send"),
			After:  5,
		},
		{
			Kind: action.SEND.String(), Note: "multi-two-verdicts-guilty-and-innocent-in-one-endblock",
			World: four("multi-verdict2"),
			Prefix: func(w *harness.World) []harness.BlockSpec {
				return []harness.BlockSpec{{}, {},
					{Txs: []*harness.TxSpec{
						stk.Allegation("multi-req-c", w.Vals[0].Val, w.Vals[2].Val.Addr, 1, "proof-c", "mw-a1"),
						stk.Allegation("multi-req-d", w.Vals[1].Val, w.Vals[3].Val.Addr, 1, "proof-d", "mw-a2"),
					}},
					{Txs: []*harness.TxSpec{
						stk.AllegationVote("multi-req-c", w.Vals[0].Val, stk.Yes, "mw-v1"),
						stk.AllegationVote("multi-req-d", w.Vals[0].Val, stk.No, "mw-v2"),
					}},
					{Txs: []*harness.TxSpec{
						stk.AllegationVote("multi-req-c", w.Vals[1].Val, stk.Yes, "mw-v3"),
						stk.AllegationVote("multi-req-d", w.Vals[1].Val, stk.No, "mw-v4"),
					}},
				}
			},
			Target: send("mw-send"),
			After:  4,
		},
		{
			Kind: action.SEND.String(), Note: "multi-genesis-with-two-stake-maturity-heights",
			World: func() *harness.World {
				w := harness.NewWorld("multi-mature", 4, 3)
				w.Mutate = func(w *harness.World, st *consensus.AppState) {
					st.Delegation = *delegation.NewDelegationState()
					for i, h := range []int64{3, 5, 3} {
						st.Delegation.MatureAmounts = append(st.Delegation.MatureAmounts, &delegation.MatureData{
							Address: w.Vals[i%2].Stake.Addr, Amount: *balance.NewAmount(int64(1000 * (i + 1))), Height: h})
					}
				}
				return w
			},
			Prefix: func(w *harness.World) []harness.BlockSpec { return []harness.BlockSpec{{}, {}} },
			Target: send("mm-send"),
			After:  4,
		},
		{
			// a maturity queue that already holds ANOTHER account's entry (from the genesis state) gets a new entry
			// by an unstake, in a block in which that other account signs nothing - once with the new entry sorting
			// before, once behind the old one (height 6: S2 joins S1's queue; height 7: S1 joins S2's).
			// (Added after a seeded change - the new entry inserted through an aliased slice - escaped C03: its
			// victims had always signed in the block concerned.)
			Kind: action.SEND.String(), Note: "multi-unstake-joins-another-accounts-maturity-queue",
			World: func() *harness.World {
				w := harness.NewWorld("multi-queue", 4, 3)
				w.Mutate = func(w *harness.World, st *consensus.AppState) {
					st.Delegation = *delegation.NewDelegationState()
					st.Delegation.MatureAmounts = append(st.Delegation.MatureAmounts,
						&delegation.MatureData{Address: w.Vals[0].Stake.Addr, Amount: *balance.NewAmount(1000), Height: 6},
						&delegation.MatureData{Address: w.Vals[1].Stake.Addr, Amount: *balance.NewAmount(2000), Height: 7})
				}
				return w
			},
			Prefix: func(w *harness.World) []harness.BlockSpec {
				return []harness.BlockSpec{{}, {}, {},
					{Txs: []*harness.TxSpec{stk.Unstake(w.Vals[1].Val, w.Vals[1].Stake, stk.WholeOLT(30), "mq-u2")}}, // block 4 -> matures at 6
					{Txs: []*harness.TxSpec{stk.Unstake(w.Vals[0].Val, w.Vals[0].Stake, stk.WholeOLT(40), "mq-u1")}}, // block 5 -> matures at 7
				}
			},
			Target: send("mq-send"),
			After:  4,
		},
		{
			// non-initial state: a chain restarted from an exported state with undelegations in flight
			Kind: action.SEND.String(), Note: "multi-genesis-with-pending-undelegations-at-3-and-30",
			World: func() *harness.World {
				w := harness.NewWorld("multi-pending", 4, 3)
				w.Mutate = func(w *harness.World, st *consensus.AppState) {
					mk := func(u *harness.Account, olt int64, h int64) network_delegation.PendingDelegator {
						a := u.Addr
						c := harness.OLT.NewCoinFromAmount(harness.OLTUnits(olt))
						return network_delegation.PendingDelegator{Address: &a, Amount: &c, Height: h}
					}
					st.NetDelegators.PendingList = append(st.NetDelegators.PendingList,
						mk(w.Users[0], 100, 3), mk(w.Users[1], 250, 30), mk(w.Users[2], 70, 4))
				}
				return w
			},
			Prefix: func(w *harness.World) []harness.BlockSpec { return []harness.BlockSpec{{}, {}} },
			Target: send("mpu-send"),
			After:  4,
		},
		{
			// two unstakes of one stake account maturing at the same height
			Kind: action.SEND.String(), Note: "multi-two-unstakes-of-one-account-mature-in-one-endblock",
			World: four("multi-unstake2"),
			Prefix: func(w *harness.World) []harness.BlockSpec {
				v := w.Vals[0]
				return []harness.BlockSpec{{}, {},
					{Txs: []*harness.TxSpec{
						stk.Unstake(v.Val, v.Stake, stk.WholeOLT(30), "mu-u1"),
						stk.Unstake(v.Val, v.Stake, stk.WholeOLT(40), "mu-u2"),
					}},
				}
			},
			Target: send("mu-send"),
			After:  5,
		},
		{
			// EVERY validator unstakes everything: nobody is eligible any more, all records carry power 0 while
			// Tendermint keeps its last set, fees keep arriving in the pool (the block-end fee distribution divides
			// by the total power of the records)
			Kind: action.SEND.String(), Note: "multi-all-validators-unstake-everything",
			World: func() *harness.World { return harness.NewWorld("multi-allgone", 4, 3) },
			Prefix: func(w *harness.World) []harness.BlockSpec {
				bs := []harness.BlockSpec{{}, {}}
				for i, v := range w.Vals {
					bs = append(bs, harness.BlockSpec{Txs: []*harness.TxSpec{stk.Unstake(v.Val, v.Stake, stk.WholeOLT(v.Power), fmt.Sprintf("ag-u%d", i))}})
				}
				return bs
			},
			Target: send("ag-send"),
			After:  5,
		},
		{
			// a proposal passes right after EVERY validator dropped below the minimum self-delegation: when the
			// block hook finalises it (and shares out its funds) no validator has an active status any more.
			// (Added after a seeded change - the validators' share divided by the number of ACTIVE validators -
			// escaped all histories: a hook fed by a count that valid transactions bring to zero.)
			Kind: action.PROPOSAL_VOTE.String(), Note: "multi-decisive-vote-after-every-validator-dropped-below-the-minimum",
			World: func() *harness.World { return harness.NewWorld("multi-noactive", 4, 3) },
			Prefix: func(w *harness.World) []harness.BlockSpec {
				bs := gov.PrefixUpToFirstVote(w, gov.PID("multi-noactive"))
				var txs []*harness.TxSpec
				for i, v := range w.Vals {
					txs = append(txs, stk.Unstake(v.Val, v.Stake, stk.WholeOLT(v.Power-400000), fmt.Sprintf("na-u%d", i)))
				}
				return append(bs, harness.BlockSpec{Txs: txs})
			},
			Target: func(w *harness.World) *harness.TxSpec { return gov.SecondYesVote(w, gov.PID("multi-noactive")) },
			After:  5,
		},
		{
			// three of four validators unstake EVERYTHING right before the decisive vote of the fourth: when the block
			// hook finalises the proposal and shares out its funds, most validator records carry no power (they are
			// kept until their validators have left Tendermint's set). (Added after a seeded change - the validators'
			// share divided by the number of records WITH power but paid to every record - escaped the ledger check:
			// the over-payment only exceeds what the same distribution burns when most records are powerless.)
			Kind: action.PROPOSAL_VOTE.String(), Note: "multi-decisive-vote-after-most-validators-unstaked-everything",
			World: func() *harness.World { return harness.NewWorld("multi-powerless", 5, 4) },
			Prefix: func(w *harness.World) []harness.BlockSpec {
				bs := gov.PrefixUpToFirstVote(w, gov.PID("multi-powerless"))
				var txs []*harness.TxSpec
				for _, i := range []int{0, 2, 3} {
					v := w.Vals[i]
					txs = append(txs, stk.Unstake(v.Val, v.Stake, stk.WholeOLT(v.Power), fmt.Sprintf("pl-u%d", i)))
				}
				return append(bs, harness.BlockSpec{Txs: txs})
			},
			Target: func(w *harness.World) *harness.TxSpec { return gov.SecondYesVote(w, gov.PID("multi-powerless")) },
			After:  5,
		},
		{
			// an EVM call that clears a storage slot (non-zero -> zero): the only way to a gas refund
			Kind: action.OLVM.String(), Note: "multi-call-clears-storage-slot-gas-refund",
			World: func() *harness.World { return harness.NewWorld("multi-refund", 4, 3) },
			Prefix: func(w *harness.World) []harness.BlockSpec {
				ea := w.EthUsers[0]
				return []harness.BlockSpec{{},
					{Txs: []*harness.TxSpec{xch.OLVMCreate(w, ea, 0, harness.Amt("0"), xch.InitCode(plainStoreRuntime))}},
					{Txs: []*harness.TxSpec{xch.OLVMCall(w, ea, xch.ContractAddr(ea, 0), 1, harness.Amt("0"), xch.Word(1))}},
				}
			},
			Target: func(w *harness.World) *harness.TxSpec {
				ea := w.EthUsers[0]
				return xch.OLVMCall(w, ea, xch.ContractAddr(ea, 0), 2, harness.Amt("0"), xch.Word(0))
			},
			After: 2,
		},
		{
			// native and EVM transactions touching the same account in one block, under a block gas limit
			Kind: action.OLVM.String(), Note: "multi-native-and-evm-same-account-one-block-with-block-gas-limit",
			World: func() *harness.World {
				w := harness.NewWorld("multi-mixed", 4, 3)
				w.MaxGas = 2000000
				return w
			},
			Prefix: func(w *harness.World) []harness.BlockSpec {
				ea, eb := w.EthUsers[0], w.EthUsers[1]
				return []harness.BlockSpec{{},
					{Txs: []*harness.TxSpec{
						harness.Send(w.Users[0], ea.Addr, harness.Coin("OLT", harness.OLTUnits(500)), "mx-s1"),
						xch.OLVMSend(w, ea, eb.Addr, 0, harness.OLTUnits(3)),
						harness.Send(w.Users[1], eb.Addr, harness.Coin("OLT", harness.OLTUnits(20)), "mx-s2"),
						xch.OLVMSend(w, eb, ea.Addr, 0, harness.OLTUnits(1)),
					}},
				}
			},
			Target: func(w *harness.World) *harness.TxSpec {
				return xch.OLVMSend(w, w.EthUsers[0], w.Users[2].Addr, 1, harness.OLTUnits(2))
			},
			After: 2,
		},
		{
			Kind: action.SEND.String(), Note: "multi-long-time-step-and-absent-validator",
			World: four("multi-time"),
			Prefix: func(w *harness.World) []harness.BlockSpec {
				return []harness.BlockSpec{{}, {Absent: []int{3}}, {Dt: 40 * 24 * time.Hour, Absent: []int{3}}, {Absent: []int{3}}}
			},
			Target: send("mt-send"),
			After:  4,
		},
	}
}
