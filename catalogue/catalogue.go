// Package catalogue is the history catalogue: every scripted scenario of every transaction-kind group,
// addressable by a stable ID so that worker processes can rebuild any history from its name.
package catalogue

import (
	"sort"

	"verif/harness"
)

var groups []func() []*harness.Scenario

// Register adds a group of scenarios.
func Register(f func() []*harness.Scenario) { groups = append(groups, f) }

var all []*harness.Scenario
var byID map[string]*harness.Scenario

func load() {
	if byID != nil {
		return
	}
	byID = map[string]*harness.Scenario{}
	for _, g := range groups {
		for _, s := range g() {
			id := s.ID()
			if _, dup := byID[id]; dup {
				panic("duplicate scenario id " + id)
			}
			byID[id] = s
			all = append(all, s)
		}
	}
	sort.Slice(all, func(i, j int) bool { return all[i].ID() < all[j].ID() })
}

// All returns every scenario, sorted by ID.
func All() []*harness.Scenario { load(); return all }

// Get returns the scenario with the given ID (nil if unknown).
func Get(id string) *harness.Scenario { load(); return byID[id] }

// Kinds returns the distinct tx kinds that have at least one scenario.
func Kinds() []string {
	load()
	seen := map[string]bool{}
	var out []string
	for _, s := range all {
		if !seen[s.Kind] {
			seen[s.Kind] = true
			out = append(out, s.Kind)
		}
	}
	sort.Strings(out)
	return out
}
