package catalogue

import (
	"verif/txs/gov"
	"verif/txs/stk"
	"verif/txs/xch"
)

func init() {
	Register(gov.Scenarios)
	Register(stk.Scenarios)
	Register(xch.Scenarios)
}
