package catalogue

import (
	"verif/txs/gov"
	"verif/txs/stk"
)

func init() {
	Register(gov.Scenarios)
	Register(stk.Scenarios)
}
