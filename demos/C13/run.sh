#!/bin/bash
# usage: demos/C13/run.sh [patch-file ...]   (default: every *.patch in this directory)
# Applies each mutation to a scratch worktree of /repo (never to /repo itself), builds the C13 explorer
# against it and runs the quick tier with deviation bound 1 (enough for all four mutations; ~20 s each).
# Prints the VIOLATION / KNOWN-FINDING lines. The worktree and the binaries are removed afterwards.
set -u
export GOFLAGS=-mod=mod GOPROXY=off GOSUMDB=off GOTOOLCHAIN=local
HERE="$(cd "$(dirname "$0")" && pwd)"
WT=/tmp/wt-c13-demo
# replays of the mutants go to a scratch VERIF_DIR (with a copy of the known findings), not to /verif
D=/tmp/c13-demo-dir; rm -rf "$D"; mkdir -p "$D"; cp /verif/KNOWN_FINDINGS.jsonl "$D/"
PATCHES=("$@")
[ ${#PATCHES[@]} -eq 0 ] && PATCHES=("$HERE"/*.patch)
git -C /repo worktree remove --force "$WT" >/dev/null 2>&1
git -C /repo worktree add "$WT" HEAD >/dev/null 2>&1 || { echo "cannot create worktree"; exit 2; }
for p in "${PATCHES[@]}"; do
  n="$(basename "$p" .patch)"
  git -C "$WT" checkout -q . && git -C "$WT" apply "$p" || { echo "$n: patch does not apply"; continue; }
  (cd /verif && VERIF_REPO="$WT" VERIF_BIN="/tmp/vc13-demo-$n" VERIF_BUILD=/tmp/vc13-demo-build ./build.sh vc13) || { echo "$n: build failed"; continue; }
  echo "=== $n"
  VERIF_DIR="$D" "/tmp/vc13-demo-$n" C13 -tier quick -k 1 -workers "${WORKERS:-8}" -evidence "/tmp/c13-demo-$n.json" 2>&1 | grep -A2 "^VIOLATION\|^C13 " | cut -c1-330
  rm -f "/tmp/vc13-demo-$n"
done
git -C /repo worktree remove --force "$WT" >/dev/null 2>&1
rm -rf /tmp/vc13-demo-build
