#!/bin/bash
# Detection demo for the C09 check: each m*.patch is a realistic mutation of /repo/storage.
# Nothing under /repo is touched: the patched file lives in a scratch directory and is substituted with
# a `go build -overlay` / `go test -overlay` JSON. For every mutation this script
#   1. builds a vstore binary against the mutated storage package,
#   2. runs the quick tier RUNS times (default 3) with the committed KNOWN_FINDINGS.jsonl (so the known
#      tombstone classes are not what fails the run) and prints the verdict lines,
#   3. runs /repo's own storage tests with the same overlay.
# usage: demos/C09/run.sh [m1 m2 ...]      env: RUNS=3  SCRATCH=/tmp/c09demo  TIER_FLAGS="-budget 55s"
set -u
cd "$(dirname "$0")"
DEMO=$PWD
export GOFLAGS=-mod=mod GOPROXY=off GOSUMDB=off GOTOOLCHAIN=local CGO_ENABLED=1
SCRATCH=${SCRATCH:-/tmp/c09demo}
RUNS=${RUNS:-3}
which=${*:-$(ls m*.patch | sed 's/-.*//' | sort -u)}
rm -rf "$SCRATCH"; mkdir -p "$SCRATCH"

echo "### baseline: /repo storage tests without any overlay"
(cd /repo && go test -vet=off -count=1 ./storage/... 2>&1 | grep -a '^ok  \|^FAIL\|^--- FAIL\|^panic:')

for m in $which; do
  p=$(ls $DEMO/$m-*.patch)
  file=$(sed -n 's#^--- a/##p' "$p" | head -1)          # e.g. storage/state.go
  d=$SCRATCH/$m; mkdir -p $d/verif/replays $d/verif/evidence
  cp /repo/$file $d/$(basename $file)
  patch -s $d/$(basename $file) < "$p" || { echo "patch $p does not apply"; exit 2; }
  echo "{\"Replace\":{\"/repo/$file\":\"$d/$(basename $file)\"}}" > $d/ov.json
  cp /verif/KNOWN_FINDINGS.jsonl $d/verif/
  echo
  echo "### $m: $(basename $p)"
  (cd /verif && go build -tags verif -overlay $d/ov.json -ldflags=-checklinkname=0 -o $d/vstore ./cmd/vstore) || { echo "build failed"; exit 2; }
  for i in $(seq $RUNS); do
    VERIF_DIR=$d/verif $d/vstore C09 -tier quick ${TIER_FLAGS:-} > $d/run$i.out 2>&1
    code=$?
    echo "run $i: exit $code"
    grep -a -A2 '^VIOLATION' $d/run$i.out | grep -av '^--' | sed 's/^/    /'
    grep -a '^C09 quick' $d/run$i.out | sed 's/^/    /'
  done
  echo "  first replay of run 1, re-executed with the mutated binary:"
  r=$(grep -a -m1 '^VIOLATION' $d/run1.out | sed 's/.*replay=//')
  [ -n "$r" ] && VERIF_DIR=$d/verif $d/vstore C09 -replay "$r" 2>&1 | sed 's/^/    /'
  echo "  /repo storage tests with the mutation:"
  (cd /repo && go test -vet=off -count=1 -overlay $d/ov.json ./storage/... 2>&1 | grep -a '^ok  \|^FAIL\|^--- FAIL\|^panic:' | sed 's/^/    /')
done
