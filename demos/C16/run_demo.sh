#!/bin/bash
# usage: demos/C16/run_demo.sh <mutation.patch> [quick|thorough]
#
# Shows that the C16 check detects a realistic mutation of /repo/vm that /repo's own tests do not notice.
# /repo is never edited: the mutated file is a patched copy under a scratch directory that is handed to the
# Go tool chain with -overlay (merged with the overlay build.sh generates for the verif hooks).
#
#  1. builds the checker (cmd/vevm) against /repo + mutation
#  2. runs `vevm C16 -tier <tier>` in a scratch VERIF_DIR that holds a copy of KNOWN_FINDINGS.jsonl
#     (so known findings stay known; evidence and replay files go to the scratch directory)
#  3. runs /repo's own tests of the touched packages with the same mutation
#
# exit 0: the mutation was detected (check exit code 1 + VIOLATION line) AND /repo's tests still pass.
set -u
PATCH="$(readlink -f "$1")"; TIER="${2:-quick}"
NAME="$(basename "$PATCH" .patch)"
export GOFLAGS=-mod=mod GOPROXY=off GOSUMDB=off GOTOOLCHAIN=local CGO_ENABLED=1
S="${C16_SCRATCH:-/tmp/c16demo}/$NAME"; rm -rf "$S"; mkdir -p "$S/vd"
cd /verif
./build.sh vevm || { echo "cannot build the unmutated checker"; exit 2; }

REL="$(sed -n 's#^+++ b/##p' "$PATCH" | head -1)"
mkdir -p "$S/$(dirname "$REL")"
patch -s -o "$S/$REL" "/repo/$REL" < "$PATCH" || { echo "patch does not apply"; exit 2; }
python3 - "$S" "$REL" <<'PY'
import json, sys
s, rel = sys.argv[1], sys.argv[2]
ov = json.load(open('/verif/build/vevm/overlay.json'))
ov['Replace']['/repo/' + rel] = s + '/' + rel
json.dump(ov, open(s + '/overlay-check.json', 'w'), indent=1)
json.dump({'Replace': {'/repo/' + rel: s + '/' + rel}}, open(s + '/overlay-tests.json', 'w'), indent=1)
PY
go build -tags verif -overlay "$S/overlay-check.json" -ldflags=-checklinkname=0 -o "$S/vevm" ./cmd/vevm || { echo "mutant does not compile"; exit 2; }

[ -f /verif/KNOWN_FINDINGS.jsonl ] && cp /verif/KNOWN_FINDINGS.jsonl "$S/vd/"
echo "== check with mutation $NAME ($TIER)"
# a generous internal deadline: the verdict must not depend on how busy the machine is (idle: quick = ~40 s)
VERIF_DIR="$S/vd" "$S/vevm" C16 -tier "$TIER" -budget "${C16_DEMO_BUDGET:-30m}" -evidence "$S/evidence.json" > "$S/check.out" 2>&1
RC=$?
grep -E "^VIOLATION|^  signature|^  what" "$S/check.out" | cut -c1-260 | head -12
tail -1 "$S/check.out"
echo "check exit code: $RC"

echo "== /repo's own tests with the same mutation"
(cd /repo && go test -vet=off -count=1 -overlay "$S/overlay-tests.json" ./vm/... ./action/olvm/... > "$S/tests.out" 2>&1)
grep -E "^(ok|FAIL|---|panic)" "$S/tests.out"
if [ "$RC" = 1 ] && grep -q "^VIOLATION property=C16" "$S/check.out" && ! grep -q "^FAIL\|^panic" "$S/tests.out" && grep -q "^ok" "$S/tests.out"; then
  echo "DEMO OK: mutation detected by the check, invisible to /repo's tests"
  exit 0
fi
echo "DEMO FAILED (check rc=$RC)"
exit 1
