#!/bin/bash
# Rebuilds bin/vcheck from the current working tree of the repository (default /repo) with the
# "verif" hooks on and the generated Prepare() prefix overlaid. Prints nothing on success.
set -e
cd "$(dirname "$0")"
export GOFLAGS=-mod=mod GOPROXY=off GOSUMDB=off GOTOOLCHAIN=local CGO_ENABLED=1
REPO="${VERIF_REPO:-/repo}"
TARGET="${1:-vcheck}"
OUT="${VERIF_BUILD:-/verif/build}/$TARGET"
mkdir -p "$OUT" bin
MODFILE=go.mod
if [ "$REPO" != "/repo" ]; then
  sed "s#=> /repo#=> $REPO#" go.mod > "$OUT/alt.mod"; cp go.sum "$OUT/alt.sum"; MODFILE="$OUT/alt.mod"
fi
PKG="$TARGET"
rm -f "$OUT/extra_overlay.json"
if [ "${TARGET%-seam}" != "$TARGET" ]; then
  # seam build (C01): map ranges, time.Now and uuid.NewUUID of the application are rewritten to go through
  # utils/verifseam; the rewritten files exist only in the overlay
  PKG="${TARGET%-seam}"
  (cd tools/genseam && go build -o "$OUT/genseam" .)
  "$OUT/genseam" "$REPO" "$OUT" x >"$OUT/genseam.log"
fi
go build -modfile="$MODFILE" -o "$OUT/genprep" ./cmd/genprep
"$OUT/genprep" "$REPO" "$OUT"
go build -modfile="$MODFILE" -tags verif -overlay "$OUT/overlay.json" -ldflags=-checklinkname=0 -o "${VERIF_BIN:-bin/$TARGET}" ./cmd/$PKG
