package explore

import (
	"bufio"
	"encoding/json"
	"fmt"
	"io"
	"os"
	"os/exec"
	"sync"
	"time"
)

// The application under test keeps process-wide globals (Tendermint's tx indexer, the ethereum-witness
// flag, env OLTEST) and may os.Exit from a handler, so parallelism is by *process*: the master hands
// jobs (JSON lines) to worker processes (the same binary re-executed with VERIF_WORKER=<command>) and
// reads one JSON line back per job. A worker that dies or exceeds the per-job timeout is restarted
// and the job is reported as died/timed out.

// JobResult is what the master sees for one job.
type JobResult struct {
	Index   int
	Out     json.RawMessage
	Died    bool // worker process exited while running this job
	Timeout bool
	Stderr  string
}

// IsWorker reports whether this process was started as a worker for command cmd.
func IsWorker(cmd string) bool { return os.Getenv("VERIF_WORKER") == cmd }

// ServeWorker runs the worker loop: one job per input line, one result per output line.
func ServeWorker(out *os.File, fn func(job json.RawMessage) interface{}) int {
	in := bufio.NewReaderSize(os.Stdin, 1<<20)
	w := bufio.NewWriter(out)
	for {
		line, err := in.ReadBytes('\n')
		if len(line) > 0 {
			res := fn(json.RawMessage(line))
			b, merr := json.Marshal(res)
			if merr != nil {
				b, _ = json.Marshal(map[string]string{"worker_error": merr.Error()})
			}
			w.Write(b)
			w.WriteByte('\n')
			w.Flush()
		}
		if err != nil {
			return 0
		}
	}
}

type worker struct {
	cmd    *exec.Cmd
	in     io.WriteCloser
	out    *bufio.Reader
	lines  chan []byte
	stderr *tailBuf
}

type tailBuf struct {
	mu sync.Mutex
	b  []byte
}

func (t *tailBuf) Write(p []byte) (int, error) {
	t.mu.Lock()
	t.b = append(t.b, p...)
	if len(t.b) > 16384 {
		t.b = t.b[len(t.b)-16384:]
	}
	t.mu.Unlock()
	return len(p), nil
}
func (t *tailBuf) String() string { t.mu.Lock(); defer t.mu.Unlock(); return string(t.b) }

func startWorker(command string, id int, extraEnv []string) (*worker, error) {
	self, err := os.Executable()
	if err != nil {
		return nil, err
	}
	c := exec.Command(self, command)
	c.Env = append(os.Environ(), "VERIF_WORKER="+command, fmt.Sprintf("VERIF_WORKER_ID=%d", id), "VERIF_KEEP_STDERR=1", "GOMAXPROCS=2")
	c.Env = append(c.Env, extraEnv...)
	in, err := c.StdinPipe()
	if err != nil {
		return nil, err
	}
	out, err := c.StdoutPipe()
	if err != nil {
		return nil, err
	}
	tb := &tailBuf{}
	c.Stderr = tb
	if err := c.Start(); err != nil {
		return nil, err
	}
	w := &worker{cmd: c, in: in, out: bufio.NewReaderSize(out, 1<<20), lines: make(chan []byte, 1), stderr: tb}
	go func() {
		for {
			line, err := w.out.ReadBytes('\n')
			if len(line) > 0 && line[len(line)-1] == '\n' {
				w.lines <- line
			}
			if err != nil {
				close(w.lines)
				return
			}
		}
	}()
	return w, nil
}

func (w *worker) kill() {
	w.in.Close()
	w.cmd.Process.Kill()
	w.cmd.Wait()
}

// RunJobs executes jobs on n worker processes of `command`; handle is called (serialised) per result.
// deadline (zero = none) stops handing out new jobs; the number of jobs not run is returned.
func RunJobs(command string, n int, jobs []interface{}, perJob time.Duration, deadline time.Time, extraEnv []string, handle func(JobResult)) (skipped int) {
	if n > len(jobs) {
		n = len(jobs)
	}
	if n < 1 {
		return 0
	}
	type item struct {
		idx int
		job interface{}
	}
	ch := make(chan item)
	var mu sync.Mutex
	var wg sync.WaitGroup
	var skipMu sync.Mutex
	for i := 0; i < n; i++ {
		wg.Add(1)
		go func(id int) {
			defer wg.Done()
			var w *worker
			defer func() {
				if w != nil {
					w.kill()
				}
			}()
			for it := range ch {
				b, _ := json.Marshal(it.job)
				b = append(b, '\n')
				var res JobResult
				// a job whose worker dies or hangs is retried once in a fresh worker: only a death that
				// reproduces is reported (a one-off death is an infrastructure hiccup, not a verdict)
				for attempt := 0; attempt < 2; attempt++ {
					if w == nil {
						var err error
						w, err = startWorker(command, id, extraEnv)
						if err != nil {
							res = JobResult{Index: it.idx, Died: true, Stderr: "cannot start worker: " + err.Error()}
							break
						}
					}
					res = JobResult{Index: it.idx}
					if _, err := w.in.Write(b); err != nil {
						res.Died = true
					} else {
						timer := time.NewTimer(perJob)
						select {
						case line, ok := <-w.lines:
							if !ok {
								res.Died = true
							} else {
								res.Out = json.RawMessage(line)
							}
						case <-timer.C:
							res.Timeout = true
						}
						timer.Stop()
					}
					if res.Died || res.Timeout {
						// give the process a moment to flush stderr
						time.Sleep(20 * time.Millisecond)
						res.Stderr = w.stderr.String()
						w.kill()
						w = nil
						continue
					}
					break
				}
				mu.Lock()
				handle(res)
				mu.Unlock()
			}
		}(i)
	}
	for i, j := range jobs {
		if !deadline.IsZero() && time.Now().After(deadline) {
			skipMu.Lock()
			skipped = len(jobs) - i
			skipMu.Unlock()
			break
		}
		ch <- item{i, j}
	}
	close(ch)
	wg.Wait()
	return skipped
}
