package explore

import (
	"encoding/json"
	"fmt"
	"sort"
	"time"
)

// Explicit-state breadth-first search over event sequences, executed on the real implementation.
// A state is reached by replaying its (shortest) history from genesis on a fresh replica in a worker
// process; the successor for event e is history+[e]. States are identified by a key the worker
// computes (canonical digest of the committed state, see each check for what it contains and why
// merging on it is sound); every execution runs the check's oracle on every step.

// BFSJob is sent to workers.
type BFSJob struct {
	Hist []int  `json:"h"`
	Tier string `json:"tier,omitempty"`
}

// BFSViol is a violation found on one path.
type BFSViol struct {
	Sig  string `json:"sig"`
	What string `json:"what"`
}

// BFSOut is a worker's answer.
type BFSOut struct {
	Key      string           `json:"key"`             // state identity after the history
	NoExpand bool             `json:"noexp,omitempty"` // do not expand this state (dead end, halted chain)
	Viol     []BFSViol        `json:"viol,omitempty"`
	Info     map[string]int64 `json:"info,omitempty"` // counters, summed by the master
	Tags     []string         `json:"tags,omitempty"` // distinct tags are counted by the master (outcome diversity)
	Err      string           `json:"err,omitempty"`  // harness error: no verdict for this execution
}

// BFSConfig configures a search.
type BFSConfig struct {
	Command  string
	Workers  int
	MaxDepth int
	// NumEvents returns the number of alternative events at a given depth (0-based) for a state
	NumEvents func(depth int) int
	Deadline  time.Time
	PerJob    time.Duration
	Tier      string
	// EventName renders an event index for samples/replays.
	EventName func(i int) string
	// MaxFrontier caps the number of states expanded per level (0 = no cap). A hit cap is reported.
	MaxFrontier int
}

// BFSStats is the outcome of a search.
type BFSStats struct {
	States         int
	Transitions    int
	DepthCompleted int
	PerLevel       []map[string]int
	Info           map[string]int64
	Tags           map[string]int
	HarnessErrors  int
	ErrSamples     []string
	Died           int
	Capped         bool
	DeadlineHit    bool
	Exhaustive     bool
}

// RunBFS runs the search and feeds violations into rep.
func RunBFS(cfg BFSConfig, rep *Reporter) BFSStats {
	st := BFSStats{Info: map[string]int64{}, Tags: map[string]int{}}
	seen := map[string]bool{}
	frontier := [][]int{{}}
	st.States = 1 // the initial state
	names := func(h []int) []string {
		out := make([]string, len(h))
		for i, e := range h {
			if cfg.EventName != nil {
				out[i] = cfg.EventName(e)
			} else {
				out[i] = fmt.Sprint(e)
			}
		}
		return out
	}
	if cfg.PerJob == 0 {
		cfg.PerJob = 3 * time.Minute
	}
	st.Exhaustive = true
	for depth := 0; depth < cfg.MaxDepth && len(frontier) > 0; depth++ {
		if cfg.MaxFrontier > 0 && len(frontier) > cfg.MaxFrontier {
			frontier = frontier[:cfg.MaxFrontier]
			st.Capped = true
			st.Exhaustive = false
		}
		n := cfg.NumEvents(depth)
		var jobs []interface{}
		var hists [][]int
		for _, h := range frontier {
			for e := 0; e < n; e++ {
				nh := append(append(make([]int, 0, len(h)+1), h...), e)
				hists = append(hists, nh)
				jobs = append(jobs, BFSJob{Hist: nh, Tier: cfg.Tier})
			}
		}
		type cand struct {
			key  string
			hist []int
		}
		var next []cand
		level := map[string]int{"depth": depth + 1, "expanded_states": len(frontier), "executions": 0, "new_states": 0}
		skipped := RunJobs(cfg.Command, cfg.Workers, jobs, cfg.PerJob, cfg.Deadline, nil, func(jr JobResult) {
			h := hists[jr.Index]
			st.Transitions++
			level["executions"]++
			if jr.Died || jr.Timeout {
				st.Died++
				rep.Violation(fmt.Sprintf("%s|process-died|last-event=%s", rep.Prop, names(h)[len(h)-1]),
					"worker process died or hung while executing a history: "+tailStr(jr.Stderr, 300), map[string]interface{}{"history": names(h), "h": h})
				return
			}
			var out BFSOut
			if err := json.Unmarshal(jr.Out, &out); err != nil || out.Err != "" {
				st.HarnessErrors++
				if len(st.ErrSamples) < 5 {
					st.ErrSamples = append(st.ErrSamples, fmt.Sprintf("%v: %s %v", names(h), out.Err, err))
				}
				return
			}
			for k, v := range out.Info {
				st.Info[k] += v
			}
			for _, t := range out.Tags {
				st.Tags[t]++
			}
			for _, v := range out.Viol {
				rep.Violation(v.Sig, v.What, map[string]interface{}{"history": names(h), "h": h})
			}
			if depth < 2 || (jr.Index%97 == 0) {
				rep.Sample(map[string]interface{}{"history": names(h), "state": out.Key})
			}
			if out.Key != "" && !seen[out.Key] {
				seen[out.Key] = true
				st.States++
				level["new_states"]++
				if !out.NoExpand {
					next = append(next, cand{out.Key, h})
				}
			}
		})
		st.PerLevel = append(st.PerLevel, level)
		if skipped > 0 {
			st.DeadlineHit = true
			st.Exhaustive = false
			level["not_run_due_to_deadline"] = skipped
			break
		}
		st.DepthCompleted = depth + 1
		// deterministic frontier order (results arrive in any order)
		sort.Slice(next, func(i, j int) bool { return lessInts(next[i].hist, next[j].hist) })
		frontier = frontier[:0]
		for _, c := range next {
			frontier = append(frontier, c.hist)
		}
	}
	if st.HarnessErrors > 0 {
		st.Exhaustive = false
	}
	return st
}

// Fill writes the standard coverage keys of a search into the reporter.
func (st BFSStats) Fill(rep *Reporter) {
	rep.Set("states", st.States)
	rep.Set("transitions", st.Transitions)
	rep.Set("traces_validated_against_impl", st.Transitions)
	rep.Set("evaluations", st.Transitions)
	rep.Set("depth_completed", st.DepthCompleted)
	rep.Set("per_level", st.PerLevel)
	rep.Set("counters", st.Info)
	rep.Set("outcome_tags", st.Tags)
	rep.Set("distinct_outcome_tags", len(st.Tags))
	rep.Set("harness_errors", st.HarnessErrors)
	rep.Set("harness_error_samples", st.ErrSamples)
	rep.Set("frontier_capped", st.Capped)
	rep.Set("deadline_hit", st.DeadlineHit)
	rep.Set("exhaustive", st.Exhaustive)
}

func lessInts(a, b []int) bool {
	for i := 0; i < len(a) && i < len(b); i++ {
		if a[i] != b[i] {
			return a[i] < b[i]
		}
	}
	return len(a) < len(b)
}

func tailStr(s string, n int) string {
	if len(s) > n {
		return s[len(s)-n:]
	}
	return s
}
