// Package explore holds the machinery shared by all checks: evidence/violation reporting with the
// known-findings protocol, a process-sharded work pool and the explicit-state search core.
package explore

import (
	"bufio"
	"crypto/sha256"
	"encoding/hex"
	"encoding/json"
	"flag"
	"fmt"
	"os"
	"path/filepath"
	"sort"
	"strconv"
	"sync"
	"time"
)

// VerifDir is the root of the verification tree.
var VerifDir = func() string {
	if d := os.Getenv("VERIF_DIR"); d != "" {
		return d
	}
	return "/verif"
}()

// Finding is one line of KNOWN_FINDINGS.jsonl.
type Finding struct {
	Status    string `json:"status"` // "known" or "fixed"
	Property  string `json:"property"`
	Signature string `json:"signature"`
	What      string `json:"what"`
	Replay    string `json:"replay,omitempty"`
	Commit    string `json:"commit,omitempty"`
}

// Violation is a property violation found by a check.
type Violation struct {
	Signature string      `json:"signature"`
	What      string      `json:"what"`
	Replay    interface{} `json:"replay"`
	Count     int         `json:"count"`
}

// Reporter collects coverage and violations for one run of one check and implements the exit protocol:
// known findings print "KNOWN-FINDING: property=<id> ..." and do not fail; any other violation prints
// "VIOLATION property=<id> replay=<path>" and makes the exit code 1.
type Reporter struct {
	Prop  string
	Tier  string
	Seed  int64
	Level string

	mu          sync.Mutex
	start       time.Time
	known       map[string]Finding
	viol        map[string]*Violation
	order       []string
	Cov         map[string]interface{}
	Assumptions []string
	samples     []interface{}
	maxSamples  int
	evidence    string
	out         *os.File
	Quiet       bool
}

// Flags are the flags every check accepts.
type Flags struct {
	Tier     string
	Evidence string
	Workers  int
	Budget   time.Duration
	Replay   string
	Propose  bool
}

// ParseFlags parses the common flags (-tier, -evidence, -workers, -budget, -replay).
func ParseFlags(prop string, args []string, extra func(fs *flag.FlagSet)) Flags {
	fs := flag.NewFlagSet(prop, flag.ExitOnError)
	var f Flags
	fs.StringVar(&f.Tier, "tier", envOr("VERIF_TIER", "quick"), "quick|thorough")
	fs.StringVar(&f.Evidence, "evidence", filepath.Join(VerifDir, "evidence", prop+".json"), "evidence file")
	fs.IntVar(&f.Workers, "workers", 16, "worker processes")
	fs.DurationVar(&f.Budget, "budget", 0, "internal deadline (0 = tier default)")
	fs.StringVar(&f.Replay, "replay", "", "replay one recorded case instead of exploring")
	fs.BoolVar(&f.Propose, "propose-findings", false, "print KNOWN_FINDINGS lines for new violations")
	if extra != nil {
		extra(fs)
	}
	fs.Parse(args)
	if f.Tier != "quick" && f.Tier != "thorough" {
		fmt.Fprintf(os.Stderr, "bad tier %q\n", f.Tier)
		os.Exit(2)
	}
	return f
}

func envOr(k, d string) string {
	if v := os.Getenv(k); v != "" {
		return v
	}
	return d
}

// Seed returns VERIF_SEED (0 if unset). No check uses randomness for its verdict; the seed is recorded.
func Seed() int64 {
	n, _ := strconv.ParseInt(os.Getenv("VERIF_SEED"), 10, 64)
	return n
}

// NewReporter creates the reporter of a run. level is the MANIFEST level category.
func NewReporter(prop, level string, f Flags, out *os.File) *Reporter {
	r := &Reporter{Prop: prop, Tier: f.Tier, Seed: Seed(), Level: level, start: time.Now(),
		known: map[string]Finding{}, viol: map[string]*Violation{}, Cov: map[string]interface{}{},
		maxSamples: 6, evidence: f.Evidence, out: out}
	if out == nil {
		r.out = os.Stdout
	}
	for _, fd := range LoadFindings() {
		if fd.Property == prop && fd.Status == "known" {
			r.known[fd.Signature] = fd
		}
	}
	return r
}

// LoadFindings reads KNOWN_FINDINGS.jsonl (never written at run time).
func LoadFindings() []Finding {
	var out []Finding
	f, err := os.Open(filepath.Join(VerifDir, "KNOWN_FINDINGS.jsonl"))
	if err != nil {
		return nil
	}
	defer f.Close()
	sc := bufio.NewScanner(f)
	sc.Buffer(make([]byte, 1<<20), 1<<24)
	for sc.Scan() {
		line := sc.Bytes()
		if len(line) == 0 || line[0] == '#' {
			continue
		}
		var fd Finding
		if json.Unmarshal(line, &fd) == nil && fd.Signature != "" {
			out = append(out, fd)
		}
	}
	return out
}

// Violation records a violation; signature is the canonical identity (exact string, no wildcards).
func (r *Reporter) Violation(sig, what string, replay interface{}) {
	r.mu.Lock()
	defer r.mu.Unlock()
	if v, ok := r.viol[sig]; ok {
		v.Count++
		return
	}
	r.viol[sig] = &Violation{Signature: sig, What: what, Replay: replay, Count: 1}
	r.order = append(r.order, sig)
}

// Sample records an explored case for the evidence file (first few only).
func (r *Reporter) Sample(s interface{}) {
	r.mu.Lock()
	defer r.mu.Unlock()
	if len(r.samples) < r.maxSamples {
		r.samples = append(r.samples, s)
	}
}

// Set sets a coverage key.
func (r *Reporter) Set(k string, v interface{}) {
	r.mu.Lock()
	r.Cov[k] = v
	r.mu.Unlock()
}

// Add adds to an integer coverage key.
func (r *Reporter) Add(k string, n int64) {
	r.mu.Lock()
	cur, _ := r.Cov[k].(int64)
	r.Cov[k] = cur + n
	r.mu.Unlock()
}

// Assume records an assumption.
func (r *Reporter) Assume(s string) { r.Assumptions = append(r.Assumptions, s) }

// Elapsed returns the wall time since start.
func (r *Reporter) Elapsed() time.Duration { return time.Since(r.start) }

func sigHash(s string) string {
	h := sha256.Sum256([]byte(s))
	return hex.EncodeToString(h[:6])
}

// Finish writes the evidence file, prints the verdict lines and returns the exit code.
func (r *Reporter) Finish() int {
	r.mu.Lock()
	defer r.mu.Unlock()
	newV := 0
	knownHit := 0
	sort.Strings(r.order)
	var proposals []Finding
	for _, sig := range r.order {
		v := r.viol[sig]
		if fd, ok := r.known[sig]; ok {
			knownHit++
			fmt.Fprintf(r.out, "KNOWN-FINDING: property=%s %s [%s] (x%d)\n", r.Prop, fd.What, sig, v.Count)
			continue
		}
		newV++
		dir := filepath.Join(VerifDir, "replays", r.Prop)
		if d := os.Getenv("VERIF_REPLAYS"); d != "" { // runs against scratch worktrees keep /verif/replays clean
			dir = filepath.Join(d, r.Prop)
		}
		os.MkdirAll(dir, 0o755)
		path := filepath.Join(dir, sigHash(sig)+".json")
		b, _ := json.MarshalIndent(map[string]interface{}{"property": r.Prop, "signature": sig, "what": v.What, "case": v.Replay}, "", " ")
		os.WriteFile(path, b, 0o644)
		fmt.Fprintf(r.out, "VIOLATION property=%s replay=%s\n", r.Prop, path)
		fmt.Fprintf(r.out, "  signature: %s\n  what: %s (x%d)\n", sig, v.What, v.Count)
		proposals = append(proposals, Finding{Status: "known", Property: r.Prop, Signature: sig, What: v.What, Replay: "replays/" + r.Prop + "/" + sigHash(sig) + ".json"})
	}
	if len(proposals) > 0 && os.Getenv("VERIF_PROPOSE") != "" {
		f, err := os.Create(os.Getenv("VERIF_PROPOSE"))
		if err == nil {
			for _, p := range proposals {
				b, _ := json.Marshal(p)
				f.Write(append(b, '\n'))
			}
			f.Close()
		}
	}
	var stale []string
	for sig := range r.known {
		if _, ok := r.viol[sig]; !ok {
			stale = append(stale, sig)
		}
	}
	sort.Strings(stale)
	cov := r.Cov
	if _, ok := cov["samples"]; !ok {
		cov["samples"] = r.samples
	}
	cov["known_findings_reproduced"] = knownHit
	if len(stale) > 0 {
		cov["known_findings_not_reproduced_in_this_tier"] = stale
	}
	if r.Assumptions == nil {
		r.Assumptions = []string{}
	}
	if r.samples == nil {
		r.samples = []interface{}{}
	}
	ev := map[string]interface{}{
		"property_id": r.Prop,
		"tier":        r.Tier,
		"seed":        r.Seed,
		"level":       r.Level,
		"coverage":    cov,
		"assumptions": r.Assumptions,
		"wall_s":      time.Since(r.start).Seconds(),
		"violations":  newV,
	}
	b, _ := json.MarshalIndent(ev, "", " ")
	os.MkdirAll(filepath.Dir(r.evidence), 0o755)
	if err := os.WriteFile(r.evidence, b, 0o644); err != nil {
		fmt.Fprintf(r.out, "cannot write evidence: %v\n", err)
		return 2
	}
	if !r.Quiet {
		fmt.Fprintf(r.out, "%s %s: %d new violation(s), %d known finding(s) reproduced, %.1fs, evidence %s\n",
			r.Prop, r.Tier, newV, knownHit, time.Since(r.start).Seconds(), r.evidence)
	}
	if newV > 0 {
		return 1
	}
	return 0
}
