#!/bin/bash
# Offline set-up after a fresh restore: warm the Go build cache by building the checker once.
set -e
cd "$(dirname "$0")"
export GOFLAGS=-mod=mod GOPROXY=off GOSUMDB=off GOTOOLCHAIN=local
mkdir -p bin build evidence replays
./build.sh && ./build.sh vcheck-seam
for b in vstore vevm vc10 vc11 vc12 vc13 vc14 vc15 vc17 vc19 vc20; do ./build.sh $b; done
./bin/vcheck smoke >/dev/null
echo "setup ok"
