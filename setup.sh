#!/bin/bash
# Offline set-up after a fresh restore: warm the Go build cache by building the checker once.
set -e
cd "$(dirname "$0")"
export GOFLAGS=-mod=mod GOPROXY=off GOSUMDB=off GOTOOLCHAIN=local
mkdir -p bin build evidence replays
./build.sh && ./build.sh vcheck-seam
./bin/vcheck smoke >/dev/null
echo "setup ok"
