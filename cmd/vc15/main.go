// vc15 is the explorer of property C15 (cross-chain lock/redeem). Invoked as `vc15 C15 [flags]`;
// worker processes are re-executed as `vc15 C15` with VERIF_WORKER=C15.
package main

import (
	"os"

	"verif/checks/c15"
)

func main() {
	var args []string
	if len(os.Args) > 2 {
		args = os.Args[2:]
	}
	os.Exit(c15.Main(args))
}
