// vc11 is the binary of check C11 (invoked as `vc11 C11 -tier quick ...`; worker processes are
// re-executed as `vc11 C11` with VERIF_WORKER=C11).
package main

import (
	"os"

	"verif/checks/c11"
)

func main() {
	var args []string
	if len(os.Args) > 2 {
		args = os.Args[2:]
	}
	os.Exit(c11.Main(args))
}
