// vc14 runs check C14 (governance proposal lifecycle and funds accounting).
// Invoked as `vc14 C14 -tier quick ...`; worker processes are re-executed as `vc14 C14`.
package main

import (
	"os"

	"verif/checks/c14"
)

func main() {
	args := os.Args[1:]
	if len(args) > 0 { // skip the command word
		args = args[1:]
	}
	os.Exit(c14.Main(args))
}
