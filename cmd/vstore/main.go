// vstore is the check of property C09 (Engine S): the layered state store of /repo/storage against a
// map reference model, by exhaustive bounded enumeration, a state-merging breadth-first search and long
// seeded random sequences.
//
//	vstore C09 -tier quick|thorough [-budget 5m] [-workers 16] [-evidence file]
//	vstore C09 -replay replays/C09/<file>.json
package main

import (
	"encoding/json"
	"flag"
	"fmt"
	"os"
	"path/filepath"
	"runtime"
	"runtime/debug"
	"runtime/pprof"
	"strings"
	"syscall"
	"time"

	"verif/engines/store"
	"verif/explore"
)

// The storage package logs to fd 1 through a package-level logger ("Reinitialized From Database" on
// every NewChainState, an error line for every delete of a key that is not in the tree). Redirect fd 1
// and keep the original stdout for the verdict.
func silenceStdout() *os.File {
	fd, err := syscall.Dup(1)
	if err != nil {
		panic(err)
	}
	real := os.NewFile(uintptr(fd), "real-stdout")
	target := os.Getenv("VERIF_APPLOG")
	if target == "" {
		target = os.DevNull
	}
	f, err := os.OpenFile(target, os.O_WRONLY|os.O_CREATE|os.O_TRUNC, 0o644)
	if err != nil {
		panic(err)
	}
	if err := syscall.Dup2(int(f.Fd()), 1); err != nil {
		panic(err)
	}
	return real
}

func main() {
	if len(os.Args) < 2 || os.Args[1] != "C09" {
		fmt.Fprintln(os.Stderr, "usage: vstore C09 [-tier quick|thorough] [-budget d] [-workers n] [-replay file]")
		os.Exit(2)
	}
	var only string
	var lenOverride, bfsOverride int
	flags := explore.ParseFlags("C09", os.Args[2:], func(fs *flag.FlagSet) {
		fs.StringVar(&only, "only", "", "comma list of phases to run (enum,order,bfs,random); default all")
		fs.IntVar(&lenOverride, "len", 0, "override the exhaustive length bound of the main alphabet")
		fs.IntVar(&bfsOverride, "depth", 0, "override the search depth")
	})
	out := silenceStdout()
	store.QuietStorageLog()
	debug.SetGCPercent(800)
	if p := os.Getenv("VERIF_CPUPROFILE"); p != "" {
		f, _ := os.Create(p)
		pprof.StartCPUProfile(f)
		defer pprof.StopCPUProfile()
	}
	if flags.Replay != "" {
		os.Exit(replay(flags.Replay, out))
	}
	if flags.Workers < 1 {
		flags.Workers = 1
	}
	if flags.Workers > runtime.NumCPU() {
		flags.Workers = runtime.NumCPU()
	}
	code := check(flags, out, only, lenOverride, bfsOverride)
	pprof.StopCPUProfile()
	os.Exit(code)
}

func phaseOn(only, p string) bool {
	if only == "" {
		return true
	}
	for _, x := range strings.Split(only, ",") {
		if x == p {
			return true
		}
	}
	return false
}

func allConfigs() []store.Config {
	var out []store.Config
	for _, reuse := range []bool{false, true} {
		for _, recent := range []int64{0, 2} {
			for _, gas := range []bool{false, true} {
				out = append(out, store.Config{Gas: gas, Recent: recent, Reuse: reuse})
			}
		}
	}
	return out
}

// phase deadlines: each phase gets its share of what is left, unused time flows to later phases.
type budgeter struct {
	end     time.Time
	weights []int
	i       int
}

func (b *budgeter) next() time.Time {
	sum := 0
	for _, w := range b.weights[b.i:] {
		sum += w
	}
	left := time.Until(b.end)
	if left < 0 {
		left = 0
	}
	d := time.Now().Add(time.Duration(float64(left) * float64(b.weights[b.i]) / float64(sum)))
	b.i++
	return d
}

func check(flags explore.Flags, out *os.File, only string, lenOverride, depthOverride int) int {
	if only != "" && flags.Evidence == filepath.Join(explore.VerifDir, "evidence", "C09.json") {
		// a partial run (-only) must not replace the evidence of a full one
		flags.Evidence = filepath.Join(explore.VerifDir, "build", "C09.partial.json")
	}
	rep := explore.NewReporter("C09", "model_checking", flags, out)
	budget := flags.Budget
	L, orderL, depth, nRandom, randomLen, maxStates := 5, 7, 8, 1500, 300, 400000
	if flags.Tier == "thorough" {
		L, orderL, depth, nRandom, randomLen, maxStates = 6, 8, 12, 10000, 400, 6000000
		if budget == 0 {
			budget = 13 * time.Minute
		}
	} else if budget == 0 {
		budget = 50 * time.Second
	}
	if lenOverride > 0 {
		L = lenOverride
	}
	if depthOverride > 0 {
		depth = depthOverride
	}
	logf := func(format string, a ...interface{}) {
		if os.Getenv("VERIF_VERBOSE") != "" {
			fmt.Fprintf(os.Stderr, format+"\n", a...)
		}
	}
	bud := &budgeter{end: time.Now().Add(budget), weights: []int{35, 10, 25, 25, 5}}

	var all []store.Found
	capsHit := []string{}
	exhaustive := true
	bounds := map[string]interface{}{}
	var evaluations, traces, nontrivial, states, transitions int64
	hashes := 0
	var samples []interface{}
	pair := []store.Config{{Gas: false, Recent: 0}, {Gas: true, Recent: 2}}
	main := store.MainAlphabet()

	// 1. every legal sequence of the main alphabet up to length L under two configurations that together
	//    contain every value of every configuration factor
	dl := bud.next()
	if phaseOn(only, "enum") {
		e := &store.Enumerator{A: main, Cfgs: pair, Workers: flags.Workers, Deadline: dl, Log: logf}
		done := e.Run(L)
		all = append(all, e.Results()...)
		evaluations += e.Stats.Executions
		traces += e.Stats.DistinctSeqs
		nontrivial += e.Stats.Nontrivial
		hashes += len(e.Stats.Hashes)
		rep.Set("enum_main", enumCoverage(main, e, L))
		if !done {
			exhaustive = false
			capsHit = append(capsHit, fmt.Sprintf("deadline during the exhaustive enumeration of alphabet %s at length %d: complete to length %d", main.Name, L, e.Stats.CompletedLength))
		}
		bounds["main_alphabet"] = map[string]interface{}{"keys": main.Keys, "values": main.Vals, "ops": main.Strings(allOps(main)), "length": L, "configs": cfgNames(e.Cfgs)}
		samples = append(samples, sampleTraces(main, pair[0], L)...)
	}
	// 2. ... and up to length L-1 under all eight configurations
	dl = bud.next()
	if phaseOn(only, "enum") {
		e := &store.Enumerator{A: main, Cfgs: allConfigs(), Workers: flags.Workers, Deadline: dl, Log: logf}
		done := e.Run(L - 1)
		all = append(all, e.Results()...)
		evaluations += e.Stats.Executions
		rep.Set("enum_main_all_configs", enumCoverage(main, e, L-1))
		if !done {
			exhaustive = false
			capsHit = append(capsHit, fmt.Sprintf("deadline during the all-configuration enumeration at length %d: complete to length %d", L-1, e.Stats.CompletedLength))
		}
		bounds["main_alphabet_all_configs"] = map[string]interface{}{"length": L - 1, "configs": cfgNames(e.Cfgs)}
	}
	// 3. the three-key alphabet, where the order of a block's writes shows in the root hash
	dl = bud.next()
	if phaseOn(only, "order") {
		a := store.OrderAlphabet()
		e := &store.Enumerator{A: a, Cfgs: pair, Workers: flags.Workers, Deadline: dl, Log: logf}
		done := e.Run(orderL)
		all = append(all, e.Results()...)
		evaluations += e.Stats.Executions
		traces += e.Stats.DistinctSeqs
		nontrivial += e.Stats.Nontrivial
		hashes += len(e.Stats.Hashes)
		rep.Set("enum_order", enumCoverage(a, e, orderL))
		if !done {
			exhaustive = false
			capsHit = append(capsHit, fmt.Sprintf("deadline during the exhaustive enumeration of alphabet %s at length %d: complete to length %d", a.Name, orderL, e.Stats.CompletedLength))
		}
		bounds["order_alphabet"] = map[string]interface{}{"keys": a.Keys, "values": a.Vals, "ops": a.Strings(allOps(a)), "length": orderL, "configs": cfgNames(e.Cfgs)}
		samples = append(samples, sampleTraces(a, pair[1], orderL)[:1]...)
	}
	// 4. breadth-first search with state merging
	dl = bud.next()
	if phaseOn(only, "bfs") {
		var searches []interface{}
		for i, cfg := range pair {
			sdl := dl
			if i == 0 {
				sdl = time.Now().Add(time.Until(dl) / 2)
			}
			s := &store.Search{A: main, Cfg: cfg, Workers: flags.Workers, Deadline: sdl, MaxStates: maxStates, Log: logf}
			done := s.Run(depth)
			all = append(all, s.Results()...)
			evaluations += s.Executions
			traces += s.Transitions
			states += s.States
			transitions += s.Transitions
			if !done {
				exhaustive = false
				capsHit = append(capsHit, fmt.Sprintf("search %s: %s; every state within depth %d was expanded", cfg, s.StoppedBy, s.DepthDone-1))
			}
			searches = append(searches, map[string]interface{}{
				"config": cfg.String(), "depth_bound": depth, "depth_completed": s.DepthDone, "states": s.States, "transitions": s.Transitions,
				"new_states_per_depth": s.PerDepth, "transitions_into_known_states": s.MergedInto, "executions": s.Executions,
				"ops_executed": s.OpsExecuted, "read_transitions_checked_to_be_self_loops": s.ReadLoops,
				"session_dropping_transitions_compared_with_session_free_path": s.DropChecks,
				"state_differences_examined":                                   s.Suspects, "state_differences_without_hash_effect": s.Unconfirmed,
				"state_differences_without_hash_effect_examples": s.UnconfirmedEx,
				"distinct_root_hashes":                           s.DistinctHashes, "stopped_by": s.StoppedBy, "sample_paths": s.Sample,
			})
		}
		rep.Set("search", searches)
		bounds["search"] = map[string]interface{}{"alphabet": main.Name, "depth": depth, "state_cap": maxStates, "configs": cfgNames(pair)}
	}
	// 5. long seeded random sequences
	dl = bud.next()
	if phaseOn(only, "random") {
		a := store.RandomAlphabet()
		g := &store.Random{A: a, Cfgs: allConfigs(), N: nRandom, Len: randomLen, Seed: explore.Seed(), Workers: flags.Workers, Deadline: dl}
		done := g.Run()
		all = append(all, g.Results()...)
		evaluations += g.Executions
		traces += g.Sequences
		vac := map[string]int64{}
		for i, n := range store.VacNames {
			vac[n] = g.Vac[i]
		}
		rep.Set("random", map[string]interface{}{
			"alphabet": a.Name, "keys": a.Keys, "values": a.Vals, "sequences": g.Sequences, "length": randomLen, "executions": g.Executions,
			"ops_executed": g.OpsExecuted, "block_commits": g.Commits, "max_version": g.MaxVersion, "twins_executed": g.TwinsRun,
			"distinct_root_hashes": g.Hashes, "complete": g.Complete, "sequences_exercising": vac, "first_sequence_head": g.Sample,
		})
		if !done {
			capsHit = append(capsHit, fmt.Sprintf("deadline during the random sequences: %d of %d run", g.Sequences, nRandom))
		}
		bounds["random"] = map[string]interface{}{"sequences": nRandom, "length": randomLen, "seed": explore.Seed()}
	}

	// one class may be found by several phases: keep the shortest witness
	occ := map[string]int64{}
	best := map[string]store.Found{}
	for _, f := range all {
		occ[f.Sig] += f.Count
		if b, ok := best[f.Sig]; !ok || len(f.Case.Ops) < len(b.Case.Ops) {
			best[f.Sig] = f
		}
	}
	for _, f := range best {
		rep.Violation(f.Sig, f.What, f.Case)
	}
	rep.Set("violation_class_occurrences", occ)
	rep.Set("evaluations", evaluations)
	rep.Set("traces_validated_against_impl", traces)
	if states > 0 { // absent when the search phase was switched off with -only
		rep.Set("states", states)
		rep.Set("transitions", transitions)
	}
	rep.Set("distinct_nontrivial", nontrivial)
	rep.Set("distinct_root_hashes_seen_in_enumerations", hashes)
	rep.Set("rule", "cases are operation sequences, enumerated without repetition (every legal sequence over the alphabet up to the length bound; "+
		"legal = no CommitTxSession without an open session). Each is executed on a fresh real store and on the reference model and every Get/Exists/"+
		"GetVersioned/Commit/Reopen result is compared. distinct_nontrivial counts the maximal-length sequences (counted once, under the first configuration; "+
		"main and three-key alphabets) in which at least one compared read was decided by an earlier write or delete of the same sequence, or a block commit "+
		"returned a non-empty root hash. states/transitions are those of the state-merging search (state = model state + implementation digest); "+
		"traces_validated_against_impl = distinct enumerated sequences + search transitions + random sequences; evaluations = executions on the real store "+
		"including twins, other configurations and the 3 confirmation runs per violation class.")
	rep.Set("samples", samples)
	rep.Set("exhaustive", exhaustive)
	rep.Set("caps_hit", capsHit)
	rep.Set("bounds", bounds)
	rep.Set("workers", flags.Workers)
	for _, a := range []string{
		"the database is tm-db's MemDB; Reopen is a new ChainState (+SetupRotation) and a new State over the same MemDB: a clean process restart, no torn or partial writes",
		"legal alphabet: everything except CommitTxSession without an open session (panics by design: \"no tx session in state\"). BeginTxSession while a session is open, DiscardTxSession without one, and Commit/Reopen with an open session are used by the application (app/internalTX.go, app/controller.go) and are legal; the open session is dropped",
		"after Commit the next block uses a new State (NewState(cs)[.WithGas(gc)]) as app.blockBeginner does (configs .../fresh) or keeps the same State as app/internalTX.go does (configs .../reuse)",
		"values are never the tombstone bytes (U+26FC); the gas limit (2^55) is never reached; one State per ChainState (no concurrent check/deliver states)",
		"a version released by the configured rotation (recent=0: every version but the last; recent=2: older than last-2) may read as absent, never as a different value",
		"the hash clauses are decided by equality of commit hashes between executions (twins, repeated prefixes, configurations); no reference hash function is assumed",
		"state merging assumes that the model state plus the implementation digest (root hash, version, Get/Exists/GetVersioned of every key, pending block overlay in replay order) determine all future observations",
		"storage's package-level logger is set to level Fatal and fd 1 is redirected (logging only)",
	} {
		rep.Assume(a)
	}
	return rep.Finish()
}

// sampleTraces executes three sequences of the enumerated space and returns their transcripts.
func sampleTraces(a *store.Alphabet, cfg store.Config, L int) []interface{} {
	var out []interface{}
	n := len(a.Ops)
	for _, frac := range []float64{0.37, 0.61, 0.83} {
		seq := make([]uint8, L)
		x := frac
		for i := range seq {
			x *= float64(n)
			d := int(x)
			x -= float64(d)
			seq[i] = uint8(d)
		}
		for i := range seq { // replace an illegal CommitTxSession by the next op of the alphabet
			for !a.Legal(seq[:i+1]) {
				seq[i] = (seq[i] + 1) % uint8(n)
			}
		}
		r := store.NewRunner(a, cfg)
		r.KeepTrace = true
		r.Run(seq)
		out = append(out, map[string]interface{}{"alphabet": a.Name, "config": cfg.String(), "ops": a.Strings(seq), "trace": r.Trace})
	}
	return out
}

func allOps(a *store.Alphabet) []uint8 {
	out := make([]uint8, len(a.Ops))
	for i := range out {
		out[i] = uint8(i)
	}
	return out
}

func cfgNames(cs []store.Config) []string {
	var out []string
	for _, c := range cs {
		out = append(out, c.String())
	}
	return out
}

func enumCoverage(a *store.Alphabet, e *store.Enumerator, L int) map[string]interface{} {
	vac := map[string]interface{}{}
	for ci, v := range e.Stats.Vac {
		m := map[string]int64{}
		for i, n := range store.VacNames {
			m[n] = v[i]
		}
		vac[e.Cfgs[ci].String()] = m
	}
	return map[string]interface{}{
		"alphabet":                        a.Name,
		"length_bound":                    L,
		"completed_length":                e.Stats.CompletedLength,
		"complete":                        e.Stats.Complete,
		"configs":                         len(e.Cfgs),
		"executions":                      e.Stats.Executions,
		"ops_executed":                    e.Stats.OpsExecuted,
		"distinct_legal_sequences":        e.Stats.DistinctSeqs,
		"legal_sequences_of_max_length":   e.Stats.MaxLenSeqs,
		"reread_twins_executed":           e.Stats.RereadTwins,
		"twin_comparisons_from_table":     e.Stats.MemoTwinChecks,
		"prefix_hash_lists_recomputed":    e.Stats.PrefixRechecks,
		"cross_config_hash_comparisons":   e.Stats.CrossCfgChecks,
		"distinct_root_hashes":            len(e.Stats.Hashes),
		"nontrivial_sequences":            e.Stats.Nontrivial,
		"max_length_sequences_exercising": vac,
	}
}

func replay(path string, out *os.File) int {
	b, err := os.ReadFile(path)
	if err != nil {
		fmt.Fprintln(out, "cannot read replay:", err)
		return 2
	}
	var wrap struct {
		Signature string          `json:"signature"`
		Case      json.RawMessage `json:"case"`
	}
	var c store.Case
	if json.Unmarshal(b, &wrap) == nil && len(wrap.Case) > 0 {
		err = json.Unmarshal(wrap.Case, &c)
	} else {
		err = json.Unmarshal(b, &c)
	}
	if err != nil || len(c.Ops) == 0 {
		fmt.Fprintln(out, "not a C09 replay file:", err)
		return 2
	}
	a, seqs, err := store.ParseOps(c.Ops, c.TwinOps)
	if err != nil {
		fmt.Fprintln(out, "bad replay:", err)
		return 2
	}
	sigs, transcript := store.ReplayCase(a, &c, seqs[0], seqs[1])
	for _, l := range transcript {
		fmt.Fprintln(out, l)
	}
	if wrap.Signature != "" {
		fmt.Fprintln(out, "recorded signature:", wrap.Signature)
	}
	if len(sigs) == 0 {
		fmt.Fprintln(out, "replay: no violation observed")
		return 0
	}
	seen := map[string]bool{}
	for _, s := range sigs {
		if !seen[s] {
			fmt.Fprintln(out, "replay: VIOLATION", s)
			seen[s] = true
		}
	}
	return 1
}
