// vc17 is the explorer of property C17 (OLVM: one ledger, exact gas accounting). Invoked as
// `vc17 C17 [flags]`; worker processes are re-executed as `vc17 C17` with VERIF_WORKER=C17.
package main

import (
	"os"

	"verif/checks/c17"
)

func main() {
	var args []string
	if len(os.Args) > 2 {
		args = os.Args[2:]
	}
	os.Exit(c17.Main(args))
}
