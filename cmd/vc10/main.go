// vc10 is the binary of check C10 (invoked as `vc10 C10 -tier quick ...`; worker processes are
// re-executed as `vc10 C10` with VERIF_WORKER=C10).
package main

import (
	"os"

	"verif/checks/c10"
)

func main() {
	var args []string
	if len(os.Args) > 2 {
		args = os.Args[2:]
	}
	os.Exit(c10.Main(args))
}
