// vc19 is the explorer binary of property C19 (allegations: verdicts follow votes, frozen stays
// frozen, penalties bounded). Invoked as `vc19 C19 -tier quick ...`; worker processes are re-executed
// as `vc19 C19` with VERIF_WORKER=C19.
package main

import (
	"os"

	"verif/checks/c19"
)

func main() {
	var args []string
	if len(os.Args) > 2 {
		args = os.Args[2:]
	}
	os.Exit(c19.Main(args))
}
