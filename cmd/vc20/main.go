// vc20 runs check C20 (domain names: ownership, owner-only changes, paid transfers, expiry arithmetic).
// Invoked as `vc20 C20 -tier quick ...`; worker processes are re-executed as `vc20 C20`.
package main

import (
	"os"

	"verif/checks/c20"
)

func main() {
	args := os.Args[1:]
	if len(args) > 0 { // skip the command word
		args = args[1:]
	}
	os.Exit(c20.Main(args))
}
