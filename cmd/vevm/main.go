// vevm is the checker of property C16 (Engine E): exhaustive, bounded differential model checking of the
// chain's EVM state adapter (vm.CommitStateDB) against go-ethereum's core/state.StateDB.
//
//	vevm C16 -tier quick|thorough [-budget 60s] [-workers 16]
//	vevm C16 -replay replays/C16/<file>.json
package main

import (
	"fmt"
	"os"

	"verif/engines/evm"
)

func main() {
	if len(os.Args) < 2 || os.Args[1] != "C16" {
		fmt.Fprintln(os.Stderr, "usage: vevm C16 [-tier quick|thorough] [-replay file] [-budget d] [-workers n]")
		os.Exit(2)
	}
	os.Exit(evm.Main(os.Args[2:]))
}
