// vc12 is the explorer binary of property C12 (delegation pool consistency and undelegation
// maturity). Invoked as `vc12 C12 -tier quick ...`; worker processes are re-executed as `vc12 C12`
// with VERIF_WORKER=C12.
package main

import (
	"os"

	"verif/checks/c12"
)

func main() {
	var args []string
	if len(os.Args) > 2 {
		args = os.Args[2:]
	}
	os.Exit(c12.Main(args))
}
