// vc13 is the explorer of property C13 (block rewards stay within the pulled amount and the yearly
// schedule). Invoked as `vc13 C13 [flags]`; worker processes are re-executed as `vc13 C13` with
// VERIF_WORKER=C13.
package main

import (
	"os"

	"verif/checks/c13"
)

func main() {
	var args []string
	if len(os.Args) > 2 {
		args = os.Args[2:]
	}
	os.Exit(c13.Main(args))
}
