package main

import (
	"encoding/json"
	"fmt"
	"os"
	"reflect"
	"sort"
	"strings"
	"time"

	"github.com/Oneledger/protocol/data/chain"
	"github.com/Oneledger/protocol/data/jobs"
	"github.com/Oneledger/protocol/utils/verifseam"

	"verif/catalogue"
	"verif/explore"
	"verif/harness"
)

// C01 — replica determinism. For every catalogue history a lead replica (validator 1, the witness
// flag as its own start-up code computes it) executes the blocks; a second replica is fed exactly the
// same requests under one deviation and must return the same app hash, validator updates and
// tx code/data/gas for every block:
//
//	configurations: a non-validator non-witness node with other keys, wallet and OLTEST=1; a witness
//	  that was restarted earlier (flag forced on); a witness whose job store is wiped after block k
//	  (every k); a node that was stopped and restarted after block k (every k); a node whose tx index lags one block (on the history extended by a re-delivery of the
//	  target); the clock +400 days and another UUID node on every follower;
//	map orders: this binary is built with the seam rewriter, so every `for range` over a Go map in the
//	  application goes through verifseam.Order: the lead logs every dynamic occurrence with >= 2 keys
//	  (a choice point); for each choice point and each alternative order (all n! for n <= 4) the
//	  follower runs with that one order changed (thorough: two).
//
// Go leaves map iteration order unspecified, so every order is a legitimate run.

func init() { commands["C01"] = c01 }

const c01Extra = 3

type c01Job struct {
	Scn     string
	Variant string      // "outsider" | "witness-on" | "wipe-jobs" | "jobs-done" | "jobs-failed" | "restart" | "index-lag" | "mempool" | "seam" | "probe"
	K       int         // wipe-jobs: after this block index
	Plan    map[int]int // seam: occurrence -> alternative
}

type c01Res struct {
	Err    string
	Diff   string
	Field  string
	Block  int
	Points []verifseam.Point // probe: the lead's choice points
	Site   string            // seam: site of the deviating occurrence
	Blocks int
	Jobs   int // wipe-jobs: jobs removed
}

func wipeJobs(r *harness.Replica) int {
	js := r.App.VerifJobStore()
	n := 0
	for _, ct := range []chain.Type{chain.ETHEREUM, chain.BITCOIN} {
		var all []jobs.Job
		js.WithChain(ct).Iterate(func(j jobs.Job) { all = append(all, j) })
		for _, j := range all {
			if js.WithChain(ct).DeleteJob(j) == nil {
				n++
			}
		}
	}
	return n
}

// finishJobs marks every job of the node's job store as completed (or failed): what the node's own job bus does
// between two blocks, at its own pace, on a witness - and on no other node.
func finishJobs(r *harness.Replica, st jobs.Status) int {
	js := r.App.VerifJobStore()
	n := 0
	for _, ct := range []chain.Type{chain.ETHEREUM, chain.BITCOIN} {
		var all []jobs.Job
		js.WithChain(ct).Iterate(func(j jobs.Job) { all = append(all, j) })
		for _, j := range all {
			v := reflect.ValueOf(j)
			if v.Kind() != reflect.Ptr || v.Elem().Kind() != reflect.Struct {
				continue
			}
			f := v.Elem().FieldByName("Status")
			if !f.IsValid() || !f.CanSet() || f.Kind() != reflect.Int {
				continue
			}
			f.SetInt(int64(st))
			if js.WithChain(ct).SaveJob(j) == nil {
				n++
			}
		}
	}
	return n
}

func c01Exec(j c01Job) c01Res {
	h, err := buildHist(j.Scn, c01Extra)
	if err != nil {
		return c01Res{Err: err.Error()}
	}
	blocks := h.Blocks
	if j.Variant == "index-lag" {
		// the target is delivered again, byte-identical, in the block after its own
		t := h.Blocks[h.Target].Txs[0]
		nb := append([]harness.BlockSpec(nil), blocks[:h.Target+1]...)
		nb = append(nb, harness.BlockSpec{Raw: [][]byte{t.Bytes()}, NoCheck: true})
		nb = append(nb, blocks[h.Target+1:]...)
		blocks = nb
	}
	c := harness.NewChain(h.W)
	lead, err := harness.NewReplica(c, harness.NaturalIdentityOf(h.W.Vals[0]))
	if err != nil {
		return c01Res{Err: err.Error()}
	}
	defer lead.Close()
	lead.Seam = &verifseam.Ctx{KeepLog: true}
	fid := harness.NaturalIdentityOf(h.W.Vals[0])
	switch j.Variant {
	case "outsider":
		fid = harness.OutsiderIdentity()
	case "restart":
		fid = harness.NaturalIdentityOf(h.W.Vals[0])
	case "witness-on", "wipe-jobs", "jobs-done", "jobs-failed":
		fid = harness.IdentityOf(h.W.Vals[0])
		fid.IsWitness = true
	}
	fol, err := harness.NewReplica(c, fid)
	if err != nil {
		return c01Res{Err: err.Error()}
	}
	defer fol.Close()
	fol.Seam = &verifseam.Ctx{Plan: j.Plan, KeepLog: true, TimeOffset: 400 * 24 * time.Hour, Node: 7, KeepWrites: true}
	lead.Seam.KeepWrites = true
	if j.Variant == "index-lag" {
		fol.IndexLag = 1
	}
	x := &harness.Run{W: h.W, C: c, R: lead}
	ir := lead.InitChain()
	if lead.Dead || (len(ir.Validators) == 0 && len(c.Doc.Validators) > 0) {
		return c01Res{Err: "InitChain failed on the lead"}
	}
	if err := c.AfterInit(ir); err != nil {
		return c01Res{Err: err.Error()}
	}
	fir := fol.InitChain()
	out := c01Res{}
	if len(fir.Validators) != len(ir.Validators) {
		out.Diff, out.Field, out.Block = fmt.Sprintf("InitChain returned %d validators vs %d", len(fir.Validators), len(ir.Validators)), "initchain", -1
		return out
	}
	for i, b := range blocks {
		b.NoCheck = true // both replicas see exactly the same call sequence (same occurrence numbering)
		req := x.Prepare(b)
		res := lead.ExecBlock(req, false, nil)
		if lead.Dead {
			return c01Res{Err: fmt.Sprintf("lead panicked in block %d", i+1)}
		}
		if j.Variant == "mempool" {
			// the second replica is a node whose mempool saw the block's transactions before the block arrived
			// (gossip); the first one replays blocks without any mempool traffic (a syncing node)
			for _, tx := range req.Txs {
				fol.CheckTx(tx)
			}
		}
		fres := fol.ExecBlock(req, false, nil)
		out.Blocks++
		if fol.Dead {
			out.Diff, out.Field, out.Block = fmt.Sprintf("the second replica panicked in block %d, the lead did not", i+1), "panic", i
			break
		}
		if d := fres.Diff(res); d != "" {
			out.Diff, out.Field, out.Block = d, diffField(d), i
			break
		}
		// same results - but did both replicas insert new keys into / delete keys from the state tree in
		// the same ORDER? The tree's shape, and with it the root hash, depends on that order (for some key
		// values only: equal hashes on this history do not make a run-dependent order harmless)
		lw, fw := shapeWrites(lead.Seam.Writes), shapeWrites(fol.Seam.Writes)
		lead.Seam.Writes, fol.Seam.Writes = nil, nil
		if d := firstOrderDiff(lw, fw); d != "" && j.Variant != "index-lag" {
			out.Diff, out.Field, out.Block = fmt.Sprintf("h=%d: same app hash, but the order of insertions/deletions in the state tree differs: %s", req.Height, d), "write-order", i
			break
		}
		if err := x.Finish(res); err != nil {
			return c01Res{Err: "chain halted: " + err.Error()}
		}
		if j.Variant == "wipe-jobs" && i == j.K {
			out.Jobs = wipeJobs(fol)
		}
		if j.Variant == "jobs-done" && i == j.K {
			out.Jobs = finishJobs(fol, jobs.Completed)
		}
		if j.Variant == "jobs-failed" && i == j.K {
			out.Jobs = finishJobs(fol, jobs.Failed)
		}
		if j.Variant == "restart" && i == j.K {
			// the second replica is a node that was stopped and started again after this block
			if err := fol.CrashRestart(); err != nil {
				return c01Res{Err: "restart: " + err.Error()}
			}
		}
	}
	if j.Variant == "probe" {
		out.Points = lead.Seam.Log
	}
	if fol.Seam.Mismatch > 0 {
		return c01Res{Err: fmt.Sprintf("seam plan did not fit %d occurrence(s)", fol.Seam.Mismatch)}
	}
	if j.Variant == "seam" {
		for occ := range j.Plan {
			for _, p := range fol.Seam.Log {
				if p.Occ == occ {
					out.Site = p.Site
				}
			}
		}
	}
	return out
}

// shapeWrites keeps the writes that change the shape of the tree: insertions of new keys and deletions.
func shapeWrites(w []string) []string {
	var out []string
	for _, x := range w {
		if strings.HasPrefix(x, "I:") || strings.HasPrefix(x, "D:") {
			out = append(out, x)
		}
	}
	return out
}

// firstOrderDiff describes the first position at which two write sequences differ ("" = identical).
func firstOrderDiff(a, b []string) string {
	for i := 0; i < len(a) && i < len(b); i++ {
		if a[i] != b[i] {
			return fmt.Sprintf("position %d of %d: first replica %q, second replica %q", i+1, len(a), a[i], b[i])
		}
	}
	if len(a) != len(b) {
		return fmt.Sprintf("%d vs %d shape-changing writes", len(a), len(b))
	}
	return ""
}

func c01(args []string) int {
	if explore.IsWorker("C01") {
		return workerMain(func(raw json.RawMessage) interface{} {
			var j c01Job
			if err := json.Unmarshal(raw, &j); err != nil {
				return c01Res{Err: err.Error()}
			}
			r, ok := confirm(func() c01Res { return c01Exec(j) }, func(r c01Res) bool { return r.Diff != "" })
			if !ok {
				return c01Res{Err: unstableMsg}
			}
			return r
		})
	}
	f := explore.ParseFlags("C01", args, nil)
	if f.Replay != "" {
		var doc struct {
			Case c01Job `json:"case"`
		}
		if err := readJSON(f.Replay, &doc); err != nil {
			fmt.Println(err)
			return 2
		}
		harness.SilenceStdout()
		defer harness.RemoveScratch()
		r := c01Exec(doc.Case)
		if os.Getenv("VERIF_C01_POINTS") == "" {
			r.Points = nil
		}
		b, _ := json.MarshalIndent(r, "", " ")
		harness.Outf("%s\n", b)
		if r.Diff != "" {
			return 1
		}
		return 0
	}
	harness.SilenceStdout()
	rep := explore.NewReporter("C01", "model_checking", f, harness.Out())
	deadline := tierBudget(f, 12*time.Minute, 50*time.Minute)
	keep := scenarioFilter()
	var scns []string
	for _, sc := range catalogue.All() {
		if keep(sc.ID()) {
			scns = append(scns, sc.ID())
		}
	}
	// phase 1: probe runs (lead + unmodified twin) collect the choice points of every history
	var probes []c01Job
	for _, id := range scns {
		probes = append(probes, c01Job{Scn: id, Variant: "probe"})
	}
	points := map[string][]verifseam.Point{}
	var done, harnessErr int
	var errSamples []string
	siteOcc := map[string]int{}
	report := func(j c01Job, r c01Res) {
		kind := catalogue.Get(j.Scn).Kind
		what := j.Variant
		if j.Variant == "seam" {
			what = "map-order@" + r.Site
		}
		// index-lag: one root cause per kind; whether it shows first in a tx result or in the app hash
		// depends on the history and is not part of the identity
		sig := fmt.Sprintf("C01|diverge|config=%s|kind=%s", what, kind)
		if j.Variant != "index-lag" {
			sig = fmt.Sprintf("C01|diverge|config=%s|scn=%s|field=%s", what, j.Scn, r.Field)
		}
		rep.Violation(sig, fmt.Sprintf("%s, second replica %s: %s", j.Scn, what, r.Diff), j)
	}
	handle := func(list []c01Job) func(jr explore.JobResult) {
		return func(jr explore.JobResult) {
			j := list[jr.Index]
			done++
			if jr.Died || jr.Timeout {
				rep.Violation(fmt.Sprintf("C01|process-died|config=%s|scn=%s", j.Variant, j.Scn), "worker process died or hung: "+tail(jr.Stderr, 200), j)
				return
			}
			var r c01Res
			if err := json.Unmarshal(jr.Out, &r); err != nil || r.Err != "" {
				harnessErr++
				if len(errSamples) < 5 {
					errSamples = append(errSamples, fmt.Sprintf("%+v: %s %v", j, r.Err, err))
				}
				return
			}
			if j.Variant == "probe" {
				points[j.Scn] = r.Points
				for _, p := range r.Points {
					siteOcc[p.Site]++
				}
			}
			if done%41 == 0 {
				rep.Sample(map[string]interface{}{"scenario": j.Scn, "variant": j.Variant, "k": j.K, "plan": j.Plan, "blocks": r.Blocks, "site": r.Site})
			}
			if r.Diff != "" {
				report(j, r)
			}
		}
	}
	jobsOf := func(l []c01Job) []interface{} {
		o := make([]interface{}, len(l))
		for i := range l {
			o[i] = l[i]
		}
		return o
	}
	skipped := explore.RunJobs("C01", f.Workers, jobsOf(probes), 3*time.Minute, deadline, nil, handle(probes))
	totalPoints := 0
	for _, ps := range points {
		totalPoints += len(ps)
	}
	if totalPoints == 0 && os.Getenv("VERIF_ALLOW_NOSEAM") == "" {
		fmt.Fprintf(harness.Out(), "C01: no map-iteration choice point was logged: this binary was not built with the seam rewriter (use ./check C01 or ./build.sh vcheck-seam); no verdict\n")
		return 2
	}
	// phase 2: configuration variants and map-order deviations
	var list []c01Job
	cfgRuns, seamRuns := 0, 0
	for _, id := range scns {
		h, err := buildHist(id, c01Extra)
		if err != nil {
			continue
		}
		list = append(list, c01Job{Scn: id, Variant: "outsider"}, c01Job{Scn: id, Variant: "witness-on"}, c01Job{Scn: id, Variant: "index-lag"}, c01Job{Scn: id, Variant: "mempool"})
		cfgRuns += 4
		for k := 0; k < len(h.Blocks)-c01Extra; k++ {
			list = append(list, c01Job{Scn: id, Variant: "wipe-jobs", K: k}, c01Job{Scn: id, Variant: "restart", K: k})
			cfgRuns += 2
			if kindModule(catalogue.Get(id).Kind) == "cross-chain" {
				// a witness whose job bus has finished (or given up on) every job it had after block k
				list = append(list, c01Job{Scn: id, Variant: "jobs-done", K: k}, c01Job{Scn: id, Variant: "jobs-failed", K: k})
				cfgRuns += 2
			}
		}
		ps := points[id]
		for _, p := range ps {
			for alt := 1; alt < verifseam.Alternatives(p.N); alt++ {
				if f.Tier == "quick" && p.N == 4 && alt != 1 && alt != 5 && alt != 9 && alt != 14 && alt != 18 && alt != 23 {
					continue // quick: 6 of the 23 non-canonical orders of 4 keys (all of them in thorough)
				}
				list = append(list, c01Job{Scn: id, Variant: "seam", Plan: map[int]int{p.Occ: alt}})
				seamRuns++
			}
		}
		if f.Tier == "thorough" {
			// two deviating occurrences (the second one at a later occurrence; numbering is that of the lead,
			// which is exact as long as the first deviation does not change the control flow - and if it
			// does, the single-deviation run already reports the divergence)
			for a := 0; a < len(ps); a++ {
				for b := a + 1; b < len(ps) && b < a+6; b++ {
					for _, alt1 := range []int{1, verifseam.Alternatives(ps[a].N) - 1} {
						for _, alt2 := range []int{1, verifseam.Alternatives(ps[b].N) - 1} {
							list = append(list, c01Job{Scn: id, Variant: "seam", Plan: map[int]int{ps[a].Occ: alt1, ps[b].Occ: alt2}})
							seamRuns++
						}
					}
				}
			}
		}
	}
	if skipped == 0 {
		skipped = explore.RunJobs("C01", f.Workers, jobsOf(list), 3*time.Minute, deadline, nil, handle(list))
	}
	var sites []string
	for s := range siteOcc {
		sites = append(sites, fmt.Sprintf("%s x%d", s, siteOcc[s]))
	}
	sort.Strings(sites)
	var staticSites interface{}
	if b, err := os.ReadFile("/verif/build/vcheck-seam/seam_sites.json"); err == nil {
		var ss []map[string]interface{}
		if json.Unmarshal(b, &ss) == nil {
			cnt := map[string]int{}
			for _, s := range ss {
				cnt[fmt.Sprint(s["kind"])]++
			}
			staticSites = cnt
		}
	}
	rep.Set("states", totalPoints+len(scns))
	rep.Set("transitions", done)
	rep.Set("traces_validated_against_impl", done)
	rep.Set("evaluations", done)
	rep.Set("distinct_nontrivial", cfgRuns+seamRuns)
	rep.Set("rule", "state = a catalogue history plus one choice point (a dynamic occurrence of a map iteration with >= 2 keys in the application, logged by the lead run) or one configuration deviation; transition = one execution of the whole history on two real application instances in one process, the second one under that single deviation (always with the clock +400 days and another UUID node), block-by-block comparison of app hash, validator updates and tx code/data/gas; every (history, deviation) pair is distinct and non-trivial (the probe runs without deviation are counted in evaluations only)")
	rep.Set("scenarios", len(scns))
	rep.Set("choice_points", totalPoints)
	rep.Set("dynamic_map_range_sites", sites)
	rep.Set("rewritten_sites_static", staticSites)
	rep.Set("configuration_executions", cfgRuns)
	rep.Set("map_order_executions", seamRuns)
	rep.Set("harness_errors", harnessErr)
	rep.Set("harness_error_samples", errSamples)
	rep.Set("not_run_due_to_deadline", skipped)
	rep.Set("exhaustive", skipped == 0 && harnessErr == 0)
	rep.Set("bounds", map[string]interface{}{"deviating_map_iterations_per_execution": map[string]int{"quick": 1, "thorough": 2}[f.Tier], "orders_per_choice_point": map[string]string{"quick": "all n! for n<=3, 6 of 23 for n=4, n rotations + reversal for n>4", "thorough": "all n! for n<=4, else n rotations + reversal"}[f.Tier]})
	rep.Assume("map ranges, time.Now and uuid.NewUUID outside the repository's own module (Tendermint, IAVL, go-ethereum, goleveldb) are assumed deterministic; the logger package is not rewritten (its timestamps never reach the state)")
	rep.Assume("both replicas run in one process; process-wide state of the application (tx indexer, witness flag, seam context) is switched before every call")
	if harnessErr > 0 {
		fmt.Fprintf(harness.Out(), "C01: %d harness errors: %v\n", harnessErr, errSamples)
	}
	return rep.Finish()
}
