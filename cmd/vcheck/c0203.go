package main

import (
	"bytes"
	"encoding/json"
	"fmt"
	"math/big"
	"sort"
	"strings"
	"time"

	"github.com/Oneledger/protocol/action"
	"github.com/Oneledger/protocol/data/keys"

	"verif/catalogue"
	"verif/explore"
	"verif/harness"
)

// C02 (no value creation, no negative amounts) and C03 (no unauthorised debit) share one explorer:
// every catalogue history is a set of reachable chain states; in the state where the scenario's
// target is valid, an attack transaction replaces the target - the target with one amount-bearing
// leaf set to an adversarial (amount, currency) pair (C02), or with one address leaf pointing at
// another account and signed by each candidate signer set (C03) - on both admission paths, followed
// by enough empty blocks to pass every maturity. After EVERY block of every execution (attack runs
// and the unmodified histories) the committed key/value state is decoded into a ledger and the two
// oracles are evaluated on the block's delta.

func init() {
	commands["C02"] = func(a []string) int { return c0203("C02", a) }
	commands["C03"] = func(a []string) int { return c0203("C03", a) }
}

const ledgerAfter = 8

type ledJob struct {
	Prop string
	Scn  string
	Op   int // -1 = unmodified history
	Name string
	Path string // "check" (CheckTx first, delivered only if admitted) | "deliver" | "benign"
	// Place: "" = the attack REPLACES the scenario's valid target; "with" = it follows the valid target in the
	// same block; "after" = it comes alone in an extra block right after the target's block (thorough tier:
	// the attack meets the state the valid operation has just produced - second withdrawal, second decision,
	// second redeem ... with hostile values)
	Place string `json:",omitempty"`
}

type ledViol struct {
	Clause string
	Detail string
	Key    string // currency / key family / owner class
	Block  int
}

type ledRes struct {
	Err      string
	Viol     []ledViol
	Admitted bool // attack passed CheckTx (check path) / DeliverTx code 0
	Code     uint32
	Log      string
	Blocks   int
	Unknown  map[string]int
	Moved    bool // the attack changed some ledger quantity compared with an empty block (non-trivial)
}

type attack struct {
	name  string
	field string
	class string
	spec  *harness.TxSpec
}

func leafPaths(data []byte) (v interface{}, leaves [][]interface{}) {
	dec := json.NewDecoder(bytes.NewReader(data))
	dec.UseNumber()
	if dec.Decode(&v) != nil {
		return nil, nil
	}
	var walk func(x interface{}, p []interface{})
	walk = func(x interface{}, p []interface{}) {
		switch t := x.(type) {
		case map[string]interface{}:
			ks := make([]string, 0, len(t))
			for k := range t {
				ks = append(ks, k)
			}
			sort.Strings(ks)
			for _, k := range ks {
				walk(t[k], append(append([]interface{}{}, p...), k))
			}
		case []interface{}:
			for i := range t {
				walk(t[i], append(append([]interface{}{}, p...), i))
			}
		default:
			leaves = append(leaves, p)
		}
	}
	walk(v, nil)
	return
}

func getAt(root interface{}, p []interface{}) interface{} {
	for _, e := range p {
		switch t := root.(type) {
		case map[string]interface{}:
			root = t[e.(string)]
		case []interface{}:
			root = t[e.(int)]
		}
	}
	return root
}

func setLeaves(data []byte, sets map[string]interface{}) []byte {
	var c interface{}
	d := json.NewDecoder(bytes.NewReader(data))
	d.UseNumber()
	d.Decode(&c)
	var set func(x interface{}, p []interface{}, val interface{}) interface{}
	set = func(x interface{}, p []interface{}, val interface{}) interface{} {
		if len(p) == 0 {
			return val
		}
		switch t := x.(type) {
		case map[string]interface{}:
			t[p[0].(string)] = set(t[p[0].(string)], p[1:], val)
			return t
		case []interface{}:
			t[p[0].(int)] = set(t[p[0].(int)], p[1:], val)
			return t
		}
		return x
	}
	keys := make([]string, 0, len(sets))
	for k := range sets {
		keys = append(keys, k)
	}
	sort.Strings(keys)
	for _, k := range keys {
		var p []interface{}
		json.Unmarshal([]byte(k), &p)
		for i := range p {
			if f, ok := p[i].(float64); ok {
				p[i] = int(f)
			}
		}
		c = set(c, p, sets[k])
	}
	// keys in the original order (OLVM insists on the canonical serialisation of its payload)
	return orderedMarshal(c, data)
}

func pathKey(p []interface{}) string { b, _ := json.Marshal(p); return string(b) }
func pathName(p []interface{}) string {
	s := "data"
	for _, e := range p {
		s += fmt.Sprintf(".%v", e)
	}
	return s
}

func isDecimal(s string) bool {
	if s == "" {
		return false
	}
	for i, c := range s {
		if c == '-' && i == 0 && len(s) > 1 {
			continue
		}
		if c < '0' || c > '9' {
			return false
		}
	}
	return true
}

func isAddrText(s string) bool {
	if !strings.HasPrefix(s, "0lt") || len(s) != 43 {
		return false
	}
	for _, c := range s[3:] {
		if !strings.ContainsRune("0123456789abcdefABCDEF", c) {
			return false
		}
	}
	return true
}

// amountAttacks: every decimal-string leaf x adversarial amounts x (sibling currency leaf x currencies).
func amountAttacks(t *harness.TxSpec) []attack {
	v, leaves := leafPaths(t.Data)
	var out []attack
	for _, p := range leaves {
		cur, ok := getAt(v, p).(string)
		if !ok || !isDecimal(cur) {
			continue
		}
		n, _ := new(big.Int).SetString(cur, 10)
		vals := []struct{ class, v string }{
			{"minus-one", "-1"},
			{"minus-same", new(big.Int).Neg(n).String()},
			{"minus-huge", "-1000000000000000000000000000000"},
			{"zero", "0"},
			{"one", "1"},
			{"plus-one", new(big.Int).Add(n, big.NewInt(1)).String()},
			{"2^63", "9223372036854775808"},
			{"2^64+1", "18446744073709551617"},
			{"2^64+small", new(big.Int).Add(new(big.Int).Lsh(big.NewInt(1), 64), new(big.Int).Abs(n)).String()},
			{"1e40", "10000000000000000000000000000000000000000"},
		}
		// sibling currency leaf (…currency next to …value)
		var curPath []interface{}
		if len(p) > 0 {
			parent := p[:len(p)-1]
			if m, ok := getAt(v, parent).(map[string]interface{}); ok {
				if _, has := m["currency"]; has {
					curPath = append(append([]interface{}{}, parent...), "currency")
				}
			}
		}
		currencies := []string{""}
		if curPath != nil {
			currencies = []string{"", "ETH", "XXX", "VT"}
		}
		for _, val := range vals {
			for _, c := range currencies {
				if val.v == cur && c == "" {
					continue
				}
				sets := map[string]interface{}{pathKey(p): val.v}
				cls := val.class
				if c != "" {
					sets[pathKey(curPath)] = c
					cls += "+cur=" + c
				}
				s := *t
				s.Data = setLeaves(t.Data, sets)
				s.Memo = t.Memo + "~atk"
				out = append(out, attack{name: pathName(p) + "=" + cls, field: pathName(p), class: cls, spec: &s})
			}
		}
	}
	// whole-number leaves (JSON numbers) are indexes/heights/flags, not amounts: C18's subject
	return out
}

func worldAccounts(w *harness.World) (eoa map[string]*harness.Account) {
	eoa = map[string]*harness.Account{}
	for _, u := range w.Users {
		eoa[strings.ToLower(u.Addr.String())] = u
	}
	for _, u := range w.EthUsers {
		eoa[strings.ToLower(u.Addr.String())] = u
	}
	for _, v := range w.Vals {
		eoa[strings.ToLower(v.Stake.Addr.String())] = v.Stake
		eoa[strings.ToLower(v.Val.Addr.String())] = v.Val
	}
	return
}

// addressAttacks: every address leaf x {attacker, a user victim, a stake-account victim, a validator}
// x signer sets {as required by the original, attacker alone, attacker substituted at each position}.
func addressAttacks(t *harness.TxSpec, w *harness.World, thorough bool) []attack {
	v, leaves := leafPaths(t.Data)
	signerSet := map[string]bool{}
	for _, s := range t.Signers {
		signerSet[strings.ToLower(s.Addr.String())] = true
	}
	// the attacker is a funded user who is not an original signer
	var attacker *harness.Account
	for i := len(w.Users) - 1; i >= 0; i-- {
		if !signerSet[strings.ToLower(w.Users[i].Addr.String())] {
			attacker = w.Users[i]
			break
		}
	}
	if attacker == nil {
		attacker = w.Vals[len(w.Vals)-1].Stake
	}
	var alts []struct {
		class string
		acct  *harness.Account
	}
	alts = append(alts, struct {
		class string
		acct  *harness.Account
	}{"attacker", attacker})
	for i, u := range w.Users {
		if u != attacker && (thorough || len(alts) < 2) {
			alts = append(alts, struct {
				class string
				acct  *harness.Account
			}{fmt.Sprintf("user%d", i), u})
		}
	}
	for i, vs := range w.Vals {
		if thorough || i == 0 {
			alts = append(alts, struct {
				class string
				acct  *harness.Account
			}{fmt.Sprintf("stake%d", i+1), vs.Stake})
			alts = append(alts, struct {
				class string
				acct  *harness.Account
			}{fmt.Sprintf("validator%d", i+1), vs.Val})
		}
	}
	var out []attack
	for _, p := range leaves {
		cur, ok := getAt(v, p).(string)
		if !ok || !isAddrText(cur) {
			continue
		}
		for _, a := range alts {
			na := a.acct.Addr.String()
			if strings.EqualFold(na, cur) {
				continue
			}
			data := setLeaves(t.Data, map[string]interface{}{pathKey(p): na})
			var sets []struct {
				class   string
				signers []*harness.Account
			}
			sets = append(sets, struct {
				class   string
				signers []*harness.Account
			}{"orig-signers", t.Signers})
			sets = append(sets, struct {
				class   string
				signers []*harness.Account
			}{"attacker-alone", []*harness.Account{attacker}})
			for i := range t.Signers {
				if len(t.Signers) == 1 {
					break
				}
				ss := append([]*harness.Account(nil), t.Signers...)
				ss[i] = attacker
				sets = append(sets, struct {
					class   string
					signers []*harness.Account
				}{fmt.Sprintf("attacker-at-%d", i), ss})
			}
			if t.SignFn != nil {
				sets = sets[:1] // sender-recovery signature: the signer is whoever holds the key
			}
			for _, ss := range sets {
				s := *t
				s.Data = data
				s.Signers = ss.signers
				s.Memo = t.Memo + "~atk"
				cls := a.class + "/" + ss.class
				out = append(out, attack{name: pathName(p) + "=" + cls, field: pathName(p), class: cls, spec: &s})
			}
		}
	}
	return out
}

func attacksFor(prop string, t *harness.TxSpec, w *harness.World, thorough bool) []attack {
	if prop == "C02" {
		return amountAttacks(t)
	}
	// C03: every address field pointed elsewhere - and every amount made NEGATIVE (a negative amount turns the
	// direction of a transfer round: the counterparty, who signed nothing, pays). (Added after a seeded change - a
	// DOMAIN_SEND of a negative amount debiting the name's beneficiary - was reported by the no-value-creation
	// check only because the victim's balance also went below zero.)
	out := addressAttacks(t, w, thorough)
	// kinds with several signers: one slot of the signature list carries the public key of a funded account that
	// has nothing to do with the transaction, with junk for a signature; the other slots are genuine (the fee step
	// charges the owner of the key in slot 0). (Added after a seeded change - required signers looked up among the
	// signatures in any order, so that one genuine signature served two roles of one address and the other slot
	// was never looked at - was reported by the signature check C04 only.)
	if by := bystander(t, w); by != nil && t.SignFn == nil && len(t.Signers) >= 2 {
		for i := range t.Signers {
			i := i
			sp := *t
			sp.Memo = t.Memo + "~slotkey"
			signers := t.Signers
			sp.SignFn = func(raw action.RawTx) []action.Signature {
				msg := raw.RawBytes()
				var sigs []action.Signature
				for k, a := range signers {
					if k == i {
						sigs = append(sigs, action.Signature{Signer: by.Pub, Signed: make([]byte, 64)})
					} else {
						sigs = append(sigs, action.Signature{Signer: a.Pub, Signed: a.Sign(msg)})
					}
				}
				return sigs
			}
			out = append(out, attack{name: fmt.Sprintf("signatures[%d]=key-of-a-funded-bystander+junk", i), field: "signatures", class: fmt.Sprintf("bystander-key-in-slot-%d", i), spec: &sp})
		}
	}
	for _, a := range amountAttacks(t) {
		if strings.HasPrefix(a.class, "minus-") {
			out = append(out, a)
		}
	}
	return out
}

// kindFamily groups the transaction kinds that act on the same records.
func kindFamily(kind string) string {
	switch {
	case strings.HasPrefix(kind, "BID_"):
		return "bid"
	case strings.HasPrefix(kind, "DOMAIN_"):
		return "ons"
	case strings.HasPrefix(kind, "PROPOSAL_") || kind == "EXPIRE_VOTES":
		return "gov"
	case strings.HasPrefix(kind, "ETH_") || strings.HasPrefix(kind, "ERC20_"):
		return "eth"
	case kind == "STAKE" || kind == "UNSTAKE" || kind == "WITHDRAW" || strings.HasPrefix(kind, "ALLEGATION") || kind == "RELEASE":
		return "stake"
	case strings.Contains(kind, "NETWORK_DELEG") || strings.HasPrefix(kind, "REWARDS_") || strings.Contains(kind, "NETWORK_UNDELEG"):
		return "deleg"
	}
	return kind
}

// foreignAttacks: the "wrong-state" family. In the state in which this scenario's target is valid, the
// valid target of every OTHER scenario of the same family is sent instead (all scenarios of a family act on
// the same accounts, names, proposal / conversation / tracker ids): an operation whose preconditions do not
// hold here. The unchanged tree refuses most of them; whatever a tree admits goes through the ledger oracle
// like everything else. (Added after a seeded change - an owner decision accepted while the owner's own
// counter offer is the active one - escaped the amount family: no field value is hostile there, the STATE is.)
func foreignAttacks(scn string) []attack {
	me := catalogue.Get(scn)
	if me == nil {
		return nil
	}
	var out []attack
	seen := map[string]bool{}
	for _, sc := range catalogue.All() {
		if sc.ID() == scn || kindFamily(sc.Kind) != kindFamily(me.Kind) {
			continue
		}
		h, err := buildHist(sc.ID(), 0)
		if err != nil || h.Target >= len(h.Blocks) || len(h.Blocks[h.Target].Txs) == 0 {
			continue
		}
		t := h.Blocks[h.Target].Txs[0].Fresh("frn")
		k := string(t.Bytes())
		if seen[k] {
			continue
		}
		seen[k] = true
		out = append(out, attack{name: "foreign:" + sc.ID() + "=valid-in-another-state", field: "foreign:" + sc.Kind, class: "valid-in-another-state", spec: t})
	}
	return out
}

func signersOf(wire []byte) []string {
	var st action.SignedTx
	if json.Unmarshal(wire, &st) != nil {
		return nil
	}
	var out []string
	// an account has SIGNED a transaction if the list carries a signature that verifies under its key over the
	// transaction's signed bytes - a public key in a signature slot is not a signature
	msg := st.RawBytes()
	for _, s := range st.Signatures {
		if h, err := s.Signer.GetHandler(); err == nil && h.Address() != nil && verifies(h, msg, s.Signed) {
			out = append(out, strings.ToLower(h.Address().String()))
		}
	}
	// OLVM: the authority is the recovered sender, named in the payload
	if st.Type == action.OLVM {
		var p struct {
			From string `json:"from"`
		}
		if json.Unmarshal(st.Data, &p) == nil && p.From != "" {
			out = append(out, strings.ToLower(p.From))
		}
	}
	return out
}

// verifies runs the key handler's own verification, shielding the oracle from a handler that panics on junk.
func verifies(h keys.PublicKeyHandler, msg, sig []byte) (ok bool) {
	defer func() {
		if recover() != nil {
			ok = false
		}
	}()
	return h.VerifyBytes(msg, sig)
}

// validatorsOf extracts validator address -> stake address, and validators found guilty at height h.
func validatorsOf(dump []harness.KV, h int64) (stakeOf map[string]string, guilty map[string]bool) {
	stakeOf, guilty = map[string]string{}, map[string]bool{}
	for _, kv := range dump {
		k := string(kv.K)
		switch {
		case strings.HasPrefix(k, "v_"):
			var v struct {
				Address      string `json:"address"`
				StakeAddress string `json:"stakeAddress"`
			}
			if json.Unmarshal(kv.V, &v) == nil {
				stakeOf[strings.ToLower(v.Address)] = strings.ToLower(v.StakeAddress)
			}
		case strings.HasPrefix(k, "es__ssvk_"):
			var f struct {
				Address      string
				Status       int
				FrozenHeight int64
			}
			if json.Unmarshal(kv.V, &f) == nil && f.Status == 2 && f.FrozenHeight == h {
				guilty[strings.ToLower(f.Address)] = true
			}
		}
	}
	return
}

// trackerAllowance returns, per wrapped currency, how much may appear in this block because locks or
// failed redeems reached witness finality in it (tracker records that left the ongoing store).
func trackerAllowance(prev, cur []harness.KV) map[string]*big.Int {
	type tr struct {
		Type        int    `json:"type"`
		State       int    `json:"state"`
		SignedETHTx []byte `json:"signedEthTx"`
	}
	get := func(d []harness.KV) map[string]tr {
		m := map[string]tr{}
		for _, kv := range d {
			k := string(kv.K)
			if strings.HasPrefix(k, "etht_") || strings.HasPrefix(k, "ethsuccess_") || strings.HasPrefix(k, "ethfailed_") {
				var t tr
				json.Unmarshal(kv.V, &t)
				m[k] = t
			}
		}
		return m
	}
	p, c := get(prev), get(cur)
	out := map[string]*big.Int{}
	for k, t := range c {
		if _, had := p[k]; had && p[k].State == t.State {
			continue
		}
		// a tracker record that is new in a final store, or whose state changed to final, in this block
		final := strings.HasPrefix(k, "ethsuccess_") || strings.HasPrefix(k, "ethfailed_") || t.State >= 5
		if !final {
			continue
		}
		// any wrapped currency may grow by at most the supply cap per finalised tracker; the exact
		// amount/beneficiary rule is C15's subject, here only "no growth without a finalised tracker"
		for _, curName := range []string{"ETH", "TTC", "BTC"} {
			if out[curName] == nil {
				out[curName] = new(big.Int)
			}
			cap, _ := new(big.Int).SetString("2000000000000000000000", 10)
			out[curName].Add(out[curName], cap)
		}
	}
	return out
}

func ledExec(j ledJob) ledRes {
	h, err := buildHist(j.Scn, ledgerAfter)
	if err != nil {
		return ledRes{Err: err.Error()}
	}
	thorough := strings.HasSuffix(j.Path, "+t")
	path := strings.TrimSuffix(j.Path, "+t")
	var atk *attack
	if j.Op >= 0 {
		as := append(attacksFor(j.Prop, h.Blocks[h.Target].Txs[0], h.W, thorough), foreignAttacks(j.Scn)...)
		if j.Op >= len(as) {
			return ledRes{Err: "attack index out of range"}
		}
		atk = &as[j.Op]
	}
	x, err := harness.StartRun(h.W)
	if err != nil {
		return ledRes{Err: err.Error()}
	}
	defer x.Close()
	eoa := worldAccounts(h.W)
	out := ledRes{Unknown: map[string]int{}}
	prevDump := x.R.Dump()
	prev := harness.DecodeLedger(prevDump)
	check := func(blockIdx int, wires [][]byte) {
		dump := x.R.Dump()
		cur := harness.DecodeLedger(dump)
		height := int64(blockIdx + 1)
		for k, n := range cur.Unknown {
			out.Unknown[k] += n
		}
		// ---- C02 ----
		allowOLT := new(big.Int).Sub(cur.DelegRewardsTotal, prev.DelegRewardsTotal)
		if allowOLT.Sign() < 0 {
			allowOLT = new(big.Int)
		}
		wrapped := trackerAllowance(prevDump, dump)
		curNames := map[string]bool{}
		for c := range cur.Total {
			curNames[c] = true
		}
		for c := range prev.Total {
			curNames[c] = true
		}
		for c := range curNames {
			delta := new(big.Int).Sub(cur.TotalOf(c), prev.TotalOf(c))
			allow := new(big.Int)
			if c == "OLT" {
				allow = allowOLT
			} else if wrapped[c] != nil {
				allow = wrapped[c]
			}
			if delta.Cmp(allow) > 0 {
				out.Viol = append(out.Viol, ledViol{Clause: "total-increased", Key: c, Block: blockIdx,
					Detail: fmt.Sprintf("block %d: total %s grew by %s (allowed %s: accrued delegation rewards / finalised trackers); parts now %v", height, c, delta, allow, partsOf(cur, c))})
			}
		}
		for k, v := range cur.Negative {
			if _, was := prev.Negative[k]; !was {
				fam := keyFamily(k)
				out.Viol = append(out.Viol, ledViol{Clause: "negative-stored", Key: fam, Block: blockIdx, Detail: fmt.Sprintf("block %d: %s = %s", height, k, v)})
			}
		}
		// ---- C03 ----
		signed := map[string]bool{}
		for _, wtx := range wires {
			for _, a := range signersOf(wtx) {
				signed[a] = true
			}
		}
		stakeOf, guilty := validatorsOf(dump, height)
		prevStakeOf, _ := validatorsOf(prevDump, height)
		for val, st := range prevStakeOf {
			if _, ok := stakeOf[val]; !ok {
				stakeOf[val] = st
			}
		}
		authorised := func(owner string) bool {
			if signed[owner] {
				return true
			}
			for val, st := range stakeOf {
				if st == owner && (signed[val] || guilty[val]) {
					return true
				}
			}
			return false
		}
		for owner := range eoa {
			for c := range curNames {
				a, b := prev.HoldingOf(owner, c), cur.HoldingOf(owner, c)
				if b.Cmp(a) < 0 && !authorised(owner) {
					out.Viol = append(out.Viol, ledViol{Clause: "unauthorised-debit", Key: c, Block: blockIdx,
						Detail: fmt.Sprintf("block %d: holdings of %s (%s) in %s fell from %s to %s although it signed nothing in this block (signers: %v)", height, eoa[owner].Name, owner, c, a, b, keysOf(signed))})
				}
			}
		}
		prev, prevDump = cur, dump
	}
	runBlock := func(i int, b harness.BlockSpec, atkLast bool) bool {
		var wires [][]byte
		for _, t := range b.Txs {
			wires = append(wires, t.Bytes())
		}
		wires = append(wires, b.Raw...)
		res, err := x.BlockAt(b, false, nil)
		if x.R.Dead {
			out.Viol = append(out.Viol, ledViol{Clause: "panic", Block: i, Detail: "application panicked"})
			return false
		}
		if err != nil {
			out.Viol = append(out.Viol, ledViol{Clause: "halt", Block: i, Detail: err.Error()})
			return false
		}
		if atkLast && path == "deliver" && len(res.Txs) > 0 {
			last := res.Txs[len(res.Txs)-1]
			out.Code, out.Log = last.Code, tail(last.Log, 120)
			out.Admitted = last.Code == 0
		}
		check(i, wires)
		out.Blocks++
		return true
	}
	// admit sends the attack through CheckTx on the check path and says whether it is to be delivered
	admit := func(wire []byte) bool {
		if path != "check" {
			return true
		}
		chk := x.R.CheckTx(wire)
		out.Code, out.Log = chk.Code, tail(chk.Log, 120)
		out.Admitted = chk.Code == 0
		return out.Admitted
	}
	n := 0
	for i, b := range h.Blocks {
		b.NoCheck = true
		atkLast := false
		if atk != nil && i == h.Target && j.Place != "after" {
			wire := atk.spec.Bytes()
			deliver := admit(wire)
			if j.Place == "" {
				b = harness.BlockSpec{NoCheck: true}
			}
			if deliver {
				b.Raw = append(append([][]byte{}, b.Raw...), wire)
				atkLast = true
			}
		}
		if !runBlock(n, b, atkLast) {
			return out
		}
		n++
		if atk != nil && i == h.Target && j.Place == "after" {
			wire := atk.spec.Bytes()
			eb := harness.BlockSpec{NoCheck: true}
			if admit(wire) {
				eb.Raw = [][]byte{wire}
			}
			if !runBlock(n, eb, len(eb.Raw) > 0) {
				return out
			}
			n++
		}
	}
	out.Moved = out.Admitted
	return out
}

func partsOf(l *harness.Ledger, cur string) map[string]string {
	m := map[string]string{}
	for k, v := range l.Parts {
		if strings.HasSuffix(k, ":"+cur) {
			m[strings.TrimSuffix(k, ":"+cur)] = v.String()
		}
	}
	return m
}

func keysOf(m map[string]bool) []string {
	var out []string
	for k := range m {
		out = append(out, k)
	}
	sort.Strings(out)
	return out
}

func c0203(prop string, args []string) int {
	if explore.IsWorker(prop) {
		return workerMain(func(raw json.RawMessage) interface{} {
			var j ledJob
			if err := json.Unmarshal(raw, &j); err != nil {
				return ledRes{Err: err.Error()}
			}
			r, ok := confirm(func() ledRes { return ledExec(j) }, func(r ledRes) bool { return len(r.Viol) > 0 })
			if !ok {
				return ledRes{Err: unstableMsg}
			}
			return r
		})
	}
	f := explore.ParseFlags(prop, args, nil)
	if f.Replay != "" {
		var doc struct {
			Case ledJob `json:"case"`
		}
		if err := readJSON(f.Replay, &doc); err != nil {
			fmt.Println(err)
			return 2
		}
		harness.SilenceStdout()
		defer harness.RemoveScratch()
		r := ledExec(doc.Case)
		b, _ := json.MarshalIndent(r, "", " ")
		harness.Outf("%s\n", b)
		for _, v := range r.Viol {
			if relevant(prop, v.Clause) {
				return 1
			}
		}
		return 0
	}
	harness.SilenceStdout()
	rep := explore.NewReporter(prop, "model_checking", f, harness.Out())
	deadline := tierBudget(f, 10*time.Minute, 45*time.Minute)
	keep := scenarioFilter()
	thorough := f.Tier == "thorough"
	var jobList []ledJob
	scn := 0
	kinds := map[string]bool{}
	for _, sc := range catalogue.All() {
		if !keep(sc.ID()) {
			continue
		}
		h, err := buildHist(sc.ID(), 0)
		if err != nil {
			continue
		}
		scn++
		kinds[sc.Kind] = true
		jobList = append(jobList, ledJob{Prop: prop, Scn: sc.ID(), Op: -1, Name: "benign", Path: "benign"})
		as := append(attacksFor(prop, h.Blocks[h.Target].Txs[0], h.W, thorough), foreignAttacks(sc.ID())...)
		for op, a := range as {
			for _, p := range []string{"check", "deliver"} {
				if thorough {
					p += "+t"
				}
				jobList = append(jobList, ledJob{Prop: prop, Scn: sc.ID(), Op: op, Name: a.name, Path: p})
				if thorough {
					jobList = append(jobList, ledJob{Prop: prop, Scn: sc.ID(), Op: op, Name: a.name, Path: p, Place: "with"})
					jobList = append(jobList, ledJob{Prop: prop, Scn: sc.ID(), Op: op, Name: a.name, Path: p, Place: "after"})
				}
			}
		}
	}
	jobs := make([]interface{}, len(jobList))
	for i := range jobList {
		jobs[i] = jobList[i]
	}
	var done, harnessErr, admitted, rejectedN, blocks int
	var errSamples []string
	unknown := map[string]int{}
	states := map[string]bool{}
	distinct := map[string]bool{}
	skipped := explore.RunJobs(prop, f.Workers, jobs, 3*time.Minute, deadline, nil, func(jr explore.JobResult) {
		j := jobList[jr.Index]
		done++
		kind := catalogue.Get(j.Scn).Kind
		path := strings.TrimSuffix(j.Path, "+t")
		field, class := "none", "benign"
		if j.Op >= 0 {
			if i := strings.LastIndexByte(j.Name, '='); i > 0 {
				field, class = j.Name[:i], j.Name[i+1:]
			}
		}
		if jr.Died || jr.Timeout {
			rep.Violation(fmt.Sprintf("%s|process-died|kind=%s|field=%s|value=%s|path=%s", prop, kind, field, class, path), "worker process died or hung: "+tail(jr.Stderr, 200), j)
			return
		}
		var r ledRes
		if err := json.Unmarshal(jr.Out, &r); err != nil || r.Err != "" {
			harnessErr++
			if len(errSamples) < 5 {
				errSamples = append(errSamples, fmt.Sprintf("%+v: %s %v", j, r.Err, err))
			}
			return
		}
		blocks += r.Blocks
		for k, n := range r.Unknown {
			unknown[k] += n
		}
		states[j.Scn] = true
		if j.Op >= 0 {
			if r.Admitted {
				admitted++
				distinct[j.Scn+"|"+j.Name+"|"+path+"|"+j.Place] = true
			} else {
				rejectedN++
			}
		} else {
			distinct[j.Scn+"|benign"] = true
		}
		if done%149 == 0 || (j.Op >= 0 && r.Admitted && admitted%37 == 1) {
			rep.Sample(map[string]interface{}{"scenario": j.Scn, "attack": j.Name, "path": path, "admitted": r.Admitted, "code": r.Code, "log": r.Log, "blocks_checked": r.Blocks})
		}
		seen := map[string]bool{}
		for _, v := range r.Viol {
			if !relevant(prop, v.Clause) {
				continue
			}
			sig := fmt.Sprintf("%s|%s|what=%s|kind=%s|field=%s|value=%s|path=%s", prop, v.Clause, v.Key, kind, field, class, path)
			if j.Place != "" {
				sig += "|place=" + j.Place
			}
			if j.Op < 0 {
				// unmodified history: the history is the identity of the case
				sig = fmt.Sprintf("%s|%s|what=%s|history=%s", prop, v.Clause, v.Key, j.Scn)
			}
			if seen[sig] {
				continue
			}
			seen[sig] = true
			rep.Violation(sig, fmt.Sprintf("%s [%s %s]: %s", j.Scn, j.Name, path, v.Detail), j)
		}
	})
	var kl []string
	for k := range kinds {
		kl = append(kl, k)
	}
	sort.Strings(kl)
	rep.Set("states", scn)
	rep.Set("transitions", done)
	rep.Set("traces_validated_against_impl", done)
	rep.Set("evaluations", done)
	rep.Set("distinct_nontrivial", len(distinct))
	rep.Set("rule", "state = the chain state in which a catalogue scenario's target is valid (plus every block boundary of the unmodified history); transition = one execution on the real application of the history with the target replaced by one attack transaction (finite menu, enumerated completely), followed by "+fmt.Sprint(ledgerAfter)+" empty blocks, the ledger oracle evaluated after every block; non-trivial = the attack transaction was ADMITTED (CheckTx code 0 on the check path / DeliverTx code 0 on the direct path), or the unmodified history")
	rep.Set("kinds", kl)
	if thorough {
		rep.Set("placements", []string{"attack replaces the valid target", "attack follows the valid target in the same block", "attack alone in an extra block right after the target's block"})
	}
	rep.Set("attacks_admitted", admitted)
	rep.Set("attacks_rejected", rejectedN)
	rep.Set("blocks_checked", blocks)
	rep.Set("unknown_key_families", unknown)
	rep.Set("harness_errors", harnessErr)
	rep.Set("harness_error_samples", errSamples)
	rep.Set("not_run_due_to_deadline", skipped)
	rep.Set("exhaustive", skipped == 0 && harnessErr == 0)
	if prop == "C02" {
		rep.Assume("value = balances (all currencies, except the wrapped-supply counter address), fee pool and shares, locked/unlocking/withdrawable stake, undelegating amounts, delegation reward claims, proposal fund totals, locked bid offers; validator reward claims are claims on the rewards pool balance and are not counted twice")
		rep.Assume("wrapped currencies may grow only in a block in which a tracker record became final; the exact amount and beneficiary are C15's subject")
	} else {
		rep.Assume("externally owned accounts = all accounts whose keys the world knows (users, eth users, stake accounts, validator keys); pools and contracts are not subjects of C03")
	}
	if harnessErr > 0 {
		fmt.Fprintf(harness.Out(), "%s: %d harness errors: %v\n", prop, harnessErr, errSamples)
	}
	return rep.Finish()
}

func relevant(prop, clause string) bool {
	switch clause {
	case "unauthorised-debit":
		return prop == "C03"
	case "total-increased", "negative-stored":
		return prop == "C02"
	}
	return true // panic / halt are reported by both
}

// keyFamily strips addresses, ids and heights from a key: the leading alphabetic segments.
func keyFamily(k string) string {
	if i := strings.Index(k, "0lt"); i > 0 {
		k = k[:i]
	}
	parts := strings.Split(k, "_")
	var keep []string
	for _, p := range parts {
		if p == "" {
			keep = append(keep, p)
			continue
		}
		alpha := len(p) <= 16
		for _, c := range p {
			if !((c >= 'a' && c <= 'z') || (c >= 'A' && c <= 'Z')) {
				alpha = false
			}
		}
		if !alpha {
			break
		}
		keep = append(keep, p)
	}
	f := strings.TrimRight(strings.Join(keep, "_"), "_")
	if f == "" {
		f = "?"
	}
	return f
}
