package main

import (
	"bytes"
	"encoding/base64"
	"encoding/json"
	"fmt"
	"sort"
	"strings"
	"time"

	"github.com/Oneledger/protocol/action"

	"verif/catalogue"
	"verif/explore"
	"verif/harness"
)

// C18 — no transaction input can crash or halt the node. A finite menu of hostile inputs is
// enumerated completely: structural garbage, type/payload mismatches for every pair of kinds, and
// for every kind every payload leaf replaced by every hostile value of its class (correctly re-signed
// by the original signers, so the input gets past the signature check whenever the signer list is
// unchanged). Each input goes to CheckTx and, in another run, straight into a block. Afterwards the
// worker must be alive, the application must not have closed itself (recovered panic), and a probe
// SEND must check and deliver as usual.

func init() { commands["C18"] = c18 }

type c18Job struct {
	Scn  string
	Op   int
	Name string
	Path string // "check" | "deliver"
	Deep bool   `json:",omitempty"` // thorough tier: the menu also holds every PAIR of hostile leaves (reduced value sets)
	Gov  string `json:",omitempty"` // phase "governance options": "key:value" installed before the target block ("?" = list the keys)
	// phase "governance options": run the history in the variant of its world whose staking, evidence and proposal
	// options lie inside the ranges the governance rules demand (the rules validate the whole option set, so in
	// the scaled-down worlds no member of those sets can be changed at all)
	Legal bool `json:",omitempty"`
}

type c18Res struct {
	Err     string
	Code    uint32
	Log     string
	Dead    bool   // application closed itself
	ProbeOK bool   // probe SEND behaved as usual afterwards
	Probe   string // what went wrong with the probe
	Halt    string // Tendermint would halt (invalid validator updates)
	// phase "governance options"
	GovApplied bool   `json:",omitempty"` // the application's update function accepted the value and wrote it
	GovRefused string `json:",omitempty"`
}

type hostile struct {
	name string
	wire []byte
}

func hostileStrings(cur string) []interface{} {
	isHex := func(s string) bool {
		s = strings.TrimPrefix(strings.TrimPrefix(s, "0lt"), "0x")
		if len(s) == 0 {
			return false
		}
		for _, c := range s {
			if !strings.ContainsRune("0123456789abcdefABCDEF", c) {
				return false
			}
		}
		return true
	}
	isDec := func(s string) bool {
		if len(s) == 0 {
			return false
		}
		for _, c := range s {
			if c < '0' || c > '9' {
				return false
			}
		}
		return true
	}
	switch {
	case isDec(cur): // amounts are decimal strings
		return []interface{}{"-1", "0", "-" + cur, "10000000000000000000000000000000000000000", "9223372036854775808", "18446744073709551617", "abc", "", nil}
	case strings.HasPrefix(cur, "0lt") && isHex(cur): // addresses
		h := strings.TrimPrefix(cur, "0lt")
		return []interface{}{"", "0lt", "0lt" + h[:len(h)-2], "0lt" + h + "00", "0ltzz", "0lt0000000000000000000000000000000000000000", nil}
	case len(cur) <= 5 && strings.ToUpper(cur) == cur && len(cur) >= 2: // currency names
		return []interface{}{"XXX", "", "ETH", "VT", nil}
	default:
		// base64 blobs (embedded transactions, byte fields) and free strings
		out := []interface{}{"", "x", nil, strings.Repeat("a.", 500) + "ol"}
		if raw, err := base64.StdEncoding.DecodeString(cur); err == nil && len(raw) > 0 {
			out = append(out,
				base64.StdEncoding.EncodeToString(raw[:len(raw)/2]),
				base64.StdEncoding.EncodeToString(raw[:1]),
				base64.StdEncoding.EncodeToString(raw[:4]),
				base64.StdEncoding.EncodeToString(append(append([]byte(nil), raw...), 0)),
				base64.StdEncoding.EncodeToString(bytes.Repeat([]byte{0xff}, len(raw))),
			)
			if len(raw) > 36 {
				out = append(out, base64.StdEncoding.EncodeToString(raw[:36]), base64.StdEncoding.EncodeToString(raw[len(raw)-36:]))
			}
		}
		return out
	}
}

// hostiles enumerates the hostile variants of one valid transaction (deterministic order).
func hostiles(t *harness.TxSpec, w *harness.World, deep bool) []hostile {
	var out []hostile
	// the valid transaction itself: what it stores may be what a LATER block hook trips over (every accepted
	// input is followed by the scenario's remaining blocks, see c18Exec)
	out = append(out, hostile{"valid-target", t.Bytes()})
	sign := func(name string, data []byte, typ action.Type) {
		c := *t
		c.Data = data
		c.Type = typ
		var wire []byte
		func() {
			defer func() {
				if r := recover(); r != nil {
					wire = nil // a SignFn that cannot handle the mutated payload: unsigned variant below
				}
			}()
			wire = c.Bytes()
		}()
		if wire == nil {
			c.SignFn = nil
			c.Signers = []*harness.Account{harness.NewAccount("attacker")}
			wire = c.Bytes()
		}
		out = append(out, hostile{name, wire})
	}
	var v interface{}
	dec := json.NewDecoder(bytes.NewReader(t.Data))
	dec.UseNumber()
	if err := dec.Decode(&v); err == nil {
		type path []interface{}
		var leaves []path
		var nodes []path // objects and arrays
		var walk func(x interface{}, p path)
		walk = func(x interface{}, p path) {
			switch tt := x.(type) {
			case map[string]interface{}:
				if len(p) > 0 {
					nodes = append(nodes, p)
				}
				ks := make([]string, 0, len(tt))
				for k := range tt {
					ks = append(ks, k)
				}
				sort.Strings(ks)
				for _, k := range ks {
					walk(tt[k], append(append(path{}, p...), k))
				}
			case []interface{}:
				nodes = append(nodes, p)
				for i := range tt {
					walk(tt[i], append(append(path{}, p...), i))
				}
			default:
				leaves = append(leaves, p)
			}
		}
		walk(v, nil)
		get := func(root interface{}, p path) interface{} {
			for _, e := range p {
				switch tt := root.(type) {
				case map[string]interface{}:
					root = tt[e.(string)]
				case []interface{}:
					root = tt[e.(int)]
				}
			}
			return root
		}
		setAt := func(p path, val interface{}) []byte {
			var c interface{}
			d2 := json.NewDecoder(bytes.NewReader(t.Data))
			d2.UseNumber()
			d2.Decode(&c)
			var set func(x interface{}, p path) interface{}
			set = func(x interface{}, p path) interface{} {
				if len(p) == 0 {
					return val
				}
				switch tt := x.(type) {
				case map[string]interface{}:
					tt[p[0].(string)] = set(tt[p[0].(string)], p[1:])
					return tt
				case []interface{}:
					tt[p[0].(int)] = set(tt[p[0].(int)], p[1:])
					return tt
				}
				return x
			}
			c = set(c, p)
			// keys in the original order: a kind that insists on the canonical serialisation of its payload
			// (OLVM) would otherwise refuse every variant for its key order alone
			return orderedMarshal(c, t.Data)
		}
		pname := func(p path) string {
			s := "data"
			for _, e := range p {
				s += fmt.Sprintf(".%v", e)
			}
			return s
		}
		for _, p := range leaves {
			cur := get(v, p)
			var alts []interface{}
			switch tt := cur.(type) {
			case string:
				alts = hostileStrings(tt)
			case json.Number:
				alts = []interface{}{json.Number("-1"), json.Number("0"), json.Number("7"), json.Number("9223372036854775807"), json.Number("-9223372036854775808"), json.Number("9223372036854775808"), json.Number("1e40"), json.Number("1.5"), "1", nil}
				// every small natural (an integer field may index a small collection whose size depends on
				// the chain state: witnesses, validators, votes) and the neighbours of the valid value
				for n := int64(1); n <= 9; n++ {
					alts = append(alts, json.Number(fmt.Sprint(n)))
				}
				if c, err := tt.Int64(); err == nil && c > 0 && c < 1<<62 {
					alts = append(alts, json.Number(fmt.Sprint(c+1)), json.Number(fmt.Sprint(c-1)), json.Number(fmt.Sprint(2*c)))
				}
			case bool:
				alts = []interface{}{!tt, nil, "true", json.Number("1")}
			case nil:
				alts = []interface{}{"x", json.Number("1"), []interface{}{}, map[string]interface{}{}, true}
			}
			for i, a := range alts {
				b := setAt(p, a)
				if bytes.Equal(b, t.Data) {
					continue
				}
				as, _ := json.Marshal(a)
				if len(as) > 24 {
					as = append(as[:24], '~')
				}
				sign(fmt.Sprintf("%s#%d=%s", pname(p), i, as), b, t.Type)
			}
		}
		// ANOTHER PARTY IN A SIGNER'S ROLE, correctly signed by that party: every address leaf that names one of
		// the signers is pointed at another account whose key the world knows (a funded user, a validator, a stake
		// account, an unfunded outsider) and that account signs in its place - a well-formed, authentic
		// transaction of somebody who has no business sending it. (Added after a seeded change - the report of a
		// non-witness indexing a vote list with -1 - escaped the menu: malformed addresses and unsigned roles only.)
		if t.SignFn == nil && w != nil && len(w.Users) > 0 && len(w.Vals) > 0 {
			others := []struct {
				class string
				a     *harness.Account
			}{{"user", w.Users[len(w.Users)-1]}, {"validator", w.Vals[len(w.Vals)-1].Val}, {"stake-account", w.Vals[len(w.Vals)-1].Stake}, {"outsider", harness.NewAccount("c18-outsider")}}
			for _, p := range leaves {
				cur, ok := get(v, p).(string)
				if !ok {
					continue
				}
				for si, sg := range t.Signers {
					if !strings.EqualFold(cur, sg.Addr.String()) {
						continue
					}
					for _, o := range others {
						if strings.EqualFold(o.a.Addr.String(), cur) {
							continue
						}
						c := *t
						c.Data = setAt(p, o.a.Addr.String())
						c.Signers = append([]*harness.Account(nil), t.Signers...)
						c.Signers[si] = o.a
						out = append(out, hostile{fmt.Sprintf("%s=another-party-signing-itself:%s", pname(p), o.class), c.Bytes()})
					}
				}
			}
		}
		// thorough tier: every PAIR of leaves hostile at once (a guard on one field may be what protects the
		// dereference of another), with a reduced value set per leaf
		if deep {
			reduced := func(cur interface{}) []interface{} {
				switch tt := cur.(type) {
				case string:
					hs := hostileStrings(tt)
					out := []interface{}{nil, ""}
					if len(hs) > 0 {
						out = append(out, hs[0])
					}
					if len(hs) > 3 {
						out = append(out, hs[3])
					}
					return out
				case json.Number:
					return []interface{}{json.Number("-1"), json.Number("0"), json.Number("9223372036854775807"), nil}
				case bool:
					return []interface{}{!tt, nil}
				}
				return []interface{}{"x", json.Number("1")}
			}
			setOn := func(base []byte, p path, val interface{}) []byte {
				var c interface{}
				d2 := json.NewDecoder(bytes.NewReader(base))
				d2.UseNumber()
				if d2.Decode(&c) != nil {
					return nil
				}
				var set func(x interface{}, p path) interface{}
				set = func(x interface{}, p path) interface{} {
					if len(p) == 0 {
						return val
					}
					switch tt := x.(type) {
					case map[string]interface{}:
						tt[p[0].(string)] = set(tt[p[0].(string)], p[1:])
						return tt
					case []interface{}:
						tt[p[0].(int)] = set(tt[p[0].(int)], p[1:])
						return tt
					}
					return x
				}
				return orderedMarshal(set(c, p), base)
			}
			for i := 0; i < len(leaves); i++ {
				for k := i + 1; k < len(leaves); k++ {
					for ai, a := range reduced(get(v, leaves[i])) {
						for bi, b := range reduced(get(v, leaves[k])) {
							d := setOn(setOn(t.Data, leaves[i], a), leaves[k], b)
							if d == nil || bytes.Equal(d, t.Data) {
								continue
							}
							sign(fmt.Sprintf("pair:%s#%d+%s#%d", pname(leaves[i]), ai, pname(leaves[k]), bi), d, t.Type)
						}
					}
				}
			}
		}
		for _, p := range nodes {
			for i, a := range []interface{}{nil, []interface{}{}, map[string]interface{}{}, "x", json.Number("1")} {
				sign(fmt.Sprintf("%s#node%d", pname(p), i), setAt(p, a), t.Type)
			}
		}
	}
	// whole payload replaced
	for i, d := range [][]byte{nil, []byte("{}"), []byte("null"), []byte("[]"), []byte(`"x"`), []byte("1"), []byte("{"), bytes.Repeat([]byte("["), 2000)} {
		sign(fmt.Sprintf("data=whole%d", i), d, t.Type)
	}
	// the payload of this kind under every other type (type/payload mismatch, correctly signed)
	for _, ty := range c04Types {
		if ty != t.Type {
			sign(fmt.Sprintf("type=%#x-with-this-payload", int(ty)), t.Data, ty)
		}
	}
	// structural garbage on the wire
	orig := t.Bytes()
	for i, w := range [][]byte{nil, []byte(" "), []byte("{}"), []byte("null"), []byte("[]"), []byte("1"), []byte(`"tx"`), []byte("{\"type\":\"x\"}"),
		[]byte(`{"type":1,"data":"AAAA","fee":null,"memo":1,"signatures":{}}`), []byte(`{"type":-1}`), []byte(`{"type":257,"data":null,"fee":{"price":null,"gas":-1},"memo":"","signatures":[null]}`),
		orig[:len(orig)/2], append(append([]byte(nil), orig...), orig...), bytes.Repeat([]byte{0}, 64), bytes.Repeat([]byte("{\"a\":"), 5000)} {
		out = append(out, hostile{fmt.Sprintf("wire#%d", i), w})
	}
	// signature list shapes on the otherwise valid transaction
	st := t.Signed()
	shapes := []func(c *action.SignedTx){
		func(c *action.SignedTx) { c.Signatures = nil },
		func(c *action.SignedTx) { c.Signatures = []action.Signature{} },
		func(c *action.SignedTx) { c.Signatures = append(c.Signatures, c.Signatures...) },
		func(c *action.SignedTx) {
			for i := range c.Signatures {
				c.Signatures[i].Signer.Data = nil
			}
		},
		func(c *action.SignedTx) {
			for i := range c.Signatures {
				c.Signatures[i].Signed = nil
			}
		},
		func(c *action.SignedTx) {
			for i := range c.Signatures {
				c.Signatures[i].Signer.KeyType = 99
			}
		},
		func(c *action.SignedTx) { c.Fee.Gas = -1 },
		func(c *action.SignedTx) { c.Fee.Gas = 9223372036854775807 },
		func(c *action.SignedTx) { c.Fee.Price.Currency = "XXX" },
		func(c *action.SignedTx) { c.Fee.Price.Currency = "" },
	}
	for i, f := range shapes {
		c := st
		c.Signatures = append([]action.Signature(nil), st.Signatures...)
		f(&c)
		out = append(out, hostile{fmt.Sprintf("shape#%d", i), c.SignedBytes()})
	}
	// hostile fee values, correctly signed
	for i, f := range []func(c *harness.TxSpec){
		func(c *harness.TxSpec) { c.Fee.Gas = -1 },
		func(c *harness.TxSpec) { c.Fee.Gas = 0 },
		func(c *harness.TxSpec) { c.Fee.Gas = 9223372036854775807 },
		func(c *harness.TxSpec) { c.Fee.Price.Currency = "XXX" },
		func(c *harness.TxSpec) { c.Fee.Price.Currency = "ETH" },
		func(c *harness.TxSpec) { c.Fee.Price.Value = harness.Amt("-1000000000") },
		func(c *harness.TxSpec) {
			c.Fee.Price.Value = harness.Amt("100000000000000000000000000000000000000000000000000")
		},
		func(c *harness.TxSpec) { c.Memo = strings.Repeat("m", 100000) },
	} {
		c := *t
		f(&c)
		var wire []byte
		func() {
			defer func() { recover() }()
			wire = c.Bytes()
		}()
		if wire != nil {
			out = append(out, hostile{fmt.Sprintf("fee#%d", i), wire})
		}
	}
	return out
}

func c18Exec(j c18Job) c18Res {
	if j.Gov != "" {
		return c18GovExec(j)
	}
	h, err := buildHist(j.Scn, 0)
	if err != nil {
		return c18Res{Err: err.Error()}
	}
	hs := hostiles(h.Blocks[h.Target].Txs[0], h.W, j.Deep)
	if j.Op >= len(hs) {
		return c18Res{Err: "operator out of range"}
	}
	wire := hs[j.Op].wire
	x, err := harness.StartRun(h.W)
	if err != nil {
		return c18Res{Err: err.Error()}
	}
	defer x.Close()
	for i, b := range noCheck(h.Blocks[:h.Target]) {
		if _, err := x.Block(b); err != nil {
			return c18Res{Err: fmt.Sprintf("prefix block %d: %v", i+1, err)}
		}
	}
	out := c18Res{}
	if j.Path == "check" {
		r := x.R.CheckTx(wire)
		out.Code, out.Log = r.Code, tail(r.Log, 160)
	} else {
		res, err := x.Block(harness.BlockSpec{Raw: [][]byte{wire}, NoCheck: true})
		if err != nil {
			out.Halt = err.Error()
		}
		if res != nil && len(res.Txs) == 1 {
			out.Code, out.Log = res.Txs[0].Code, tail(res.Txs[0].Log, 160)
		}
	}
	out.Dead = x.R.Dead
	if out.Dead || out.Halt != "" {
		return out
	}
	// probe: the node keeps serving with unchanged behaviour
	probe := harness.Send(h.W.Users[2], h.W.Users[0].Addr, harness.Coin("OLT", harness.Amt("1")), "c18-probe")
	// (the probe pays 1000 times the genesis minimum price: a history may have RAISED the minimum fee through
	// governance - then a probe at the old minimum is refused by the unchanged tree too, whatever the input was)
	probe.Fee.Price.Value = harness.Amt("1000000000000")
	res, err := x.Block(harness.BlockSpec{Txs: []*harness.TxSpec{probe}})
	switch {
	case err != nil:
		out.Halt = "after the input: " + err.Error()
	case x.R.Dead:
		out.Dead = true
	case x.Checks[len(x.Checks)-1][0].Code != 0:
		out.Probe = "probe SEND rejected by CheckTx: " + x.Checks[len(x.Checks)-1][0].Log
	case res.Txs[0].Code != 0:
		out.Probe = "probe SEND failed in DeliverTx: " + res.Txs[0].Log
	default:
		out.ProbeOK = true
		if _, err := x.Block(harness.BlockSpec{}); err != nil {
			out.Halt = "two blocks after the input: " + err.Error()
		} else if x.R.Dead {
			out.Dead = true
		}
		// an input that was ACCEPTED in a block has stored something: run the blocks the scenario runs after
		// its target (maturities, deadlines, verdicts, expiry and finalisation hooks fire there) plus two more,
		// the node must survive every one of them
		if j.Path != "check" && out.Code == 0 && !out.Dead && out.Halt == "" {
			rest := len(h.Blocks) - h.Target - 1 + 2
			for k := 0; k < rest; k++ {
				if _, err := x.Block(harness.BlockSpec{}); err != nil {
					out.Halt = fmt.Sprintf("%d blocks after the accepted input: %v", k+3, err)
					break
				}
				if x.R.Dead {
					out.Dead = true
					out.Log = fmt.Sprintf("the application died %d blocks after the accepted input (a block hook tripped over what it stored)", k+3)
					break
				}
			}
		}
	}
	return out
}

// opClassC18 strips the concrete alternative index from an operator name (for signatures the class
// "field + value" is kept, which is already canonical).
func c18(args []string) int {
	if explore.IsWorker("C18") {
		return workerMain(func(raw json.RawMessage) interface{} {
			var j c18Job
			if err := json.Unmarshal(raw, &j); err != nil {
				return c18Res{Err: err.Error()}
			}
			r, ok := confirm(func() c18Res { return c18Exec(j) }, func(r c18Res) bool { return r.Dead || r.Halt != "" || r.Probe != "" })
			if !ok {
				return c18Res{Err: unstableMsg}
			}
			return r
		})
	}
	f := explore.ParseFlags("C18", args, nil)
	if f.Replay != "" {
		var doc struct {
			Case c18Job `json:"case"`
		}
		if err := readJSON(f.Replay, &doc); err != nil {
			fmt.Println(err)
			return 2
		}
		harness.SilenceStdout()
		defer harness.RemoveScratch()
		r := c18Exec(doc.Case)
		b, _ := json.MarshalIndent(r, "", " ")
		harness.Outf("%s\n", b)
		if r.Dead || r.Halt != "" || r.Probe != "" {
			return 1
		}
		return 0
	}
	harness.SilenceStdout()
	rep := explore.NewReporter("C18", "exploration", f, harness.Out())
	deadline := tierBudget(f, 10*time.Minute, 45*time.Minute)
	keep := scenarioFilter()
	var jobList []c18Job
	kinds := map[string]bool{}
	perKind := map[string]int{}
	for _, sc := range catalogue.All() {
		if !keep(sc.ID()) {
			continue
		}
		// both tiers use every scenario as a base state (the same kind behaves differently in different states)
		h, err := buildHist(sc.ID(), 0)
		if err != nil {
			continue
		}
		kinds[sc.Kind] = true
		deep := f.Tier == "thorough"
		hs := hostiles(h.Blocks[h.Target].Txs[0], h.W, deep)
		perKind[sc.Kind] = len(hs)
		for op, hv := range hs {
			jobList = append(jobList, c18Job{Scn: sc.ID(), Op: op, Name: hv.name, Path: "check", Deep: deep}, c18Job{Scn: sc.ID(), Op: op, Name: hv.name, Path: "deliver", Deep: deep})
		}
	}
	jobs := make([]interface{}, len(jobList))
	for i := range jobList {
		jobs[i] = jobList[i]
	}
	var done, harnessErr, accepted, rejected int
	var errSamples []string
	distinct := map[string]bool{}
	skipped := explore.RunJobs("C18", f.Workers, jobs, 2*time.Minute, deadline, nil, func(jr explore.JobResult) {
		j := jobList[jr.Index]
		done++
		kind := catalogue.Get(j.Scn).Kind
		if jr.Died || jr.Timeout {
			what := "node process exited (os.Exit / fatal error) while handling the input"
			if jr.Timeout {
				what = "node hung while handling the input"
			}
			rep.Violation(fmt.Sprintf("C18|process-exit|kind=%s|input=%s|path=%s", kind, j.Name, j.Path), what+": "+tail(jr.Stderr, 200), j)
			return
		}
		var r c18Res
		if err := json.Unmarshal(jr.Out, &r); err != nil || r.Err != "" {
			harnessErr++
			if len(errSamples) < 5 {
				errSamples = append(errSamples, fmt.Sprintf("%+v: %s %v", j, r.Err, err))
			}
			return
		}
		distinct[kind+"|"+j.Name+"|"+j.Path] = true
		if r.Code == 0 {
			accepted++
		} else {
			rejected++
		}
		if done%211 == 0 {
			rep.Sample(map[string]interface{}{"kind": kind, "input": j.Name, "path": j.Path, "code": r.Code, "log": r.Log})
		}
		switch {
		case r.Dead:
			rep.Violation(fmt.Sprintf("C18|panic-app-closed|kind=%s|input=%s|path=%s", kind, j.Name, j.Path), fmt.Sprintf("hostile %s input %q (%s): the application panicked and closed itself", kind, j.Name, j.Path), j)
		case r.Halt != "":
			rep.Violation(fmt.Sprintf("C18|consensus-halt|kind=%s|input=%s|path=%s", kind, j.Name, j.Path), fmt.Sprintf("hostile %s input %q (%s): %s", kind, j.Name, j.Path, r.Halt), j)
		case r.Probe != "":
			rep.Violation(fmt.Sprintf("C18|behaviour-changed|kind=%s|input=%s|path=%s", kind, j.Name, j.Path), fmt.Sprintf("hostile %s input %q (%s): %s", kind, j.Name, j.Path, r.Probe), j)
		}
	})
	govStats := c18GovPhase(f, rep, deadline, keep, &done, &harnessErr, &errSamples, distinct)
	skipped += govStats.skipped
	var kl []string
	for k := range kinds {
		kl = append(kl, k)
	}
	sort.Strings(kl)
	rep.Set("governance_option_phase", govStats.report)
	rep.Set("evaluations", done)
	rep.Set("distinct_nontrivial", len(distinct))
	rep.Set("rule", "one evaluation = one hostile input (finite menu, enumerated completely per kind: every payload leaf x every hostile value of its class, every object/array node replaced, whole payload replaced, this payload under every other type, structural garbage, signature-list shapes, hostile fee values; payload variants are correctly re-signed) sent to CheckTx or delivered in a block of the real application in the state where the original is valid, followed by a probe SEND and two more blocks; all are distinct and non-trivial (each differs from the valid original)")
	rep.Set("kinds", kl)
	rep.Set("inputs_per_kind", perKind)
	rep.Set("inputs_answered_code0", accepted)
	rep.Set("inputs_answered_nonzero", rejected)
	rep.Set("harness_errors", harnessErr)
	rep.Set("harness_error_samples", errSamples)
	rep.Set("not_run_due_to_deadline", skipped)
	rep.Set("exhaustive", skipped == 0 && harnessErr == 0)
	rep.Assume("'whatever bytes' is covered by a finite structured menu, not by arbitrary byte strings (those would be random sampling, another family)")
	if harnessErr > 0 {
		fmt.Fprintf(harness.Out(), "C18: %d harness errors: %v\n", harnessErr, errSamples)
	}
	return rep.Finish()
}
