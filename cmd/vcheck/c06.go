package main

import (
	"encoding/json"
	"fmt"
	"math/big"
	"time"

	"github.com/Oneledger/protocol/data/balance"

	"verif/catalogue"
	"verif/explore"
	"verif/harness"
)

// C06 — failed transactions are atomic no-ops. Into every position of every block of every catalogue
// history one (quick) transaction that FAILS when delivered is inserted; the run must give the same
// app hashes, validator updates and results for all other transactions as the twin run without it.
// Failure causes enumerated per inserted transaction:
//   own/gas-1      a fresh copy of a transaction of the history whose gas limit is one below what it
//                  uses at that position (handler succeeds, fee step fails with gas overflow)
//   own/price-huge fresh copy with an unpayable fee price (handler succeeds, fee debit fails)
//   own/gas-tiny   fresh copy with gas limit 1
//   own/gas-over-block fresh copy asking for more gas than a whole block has (block gas limit path)
//   own/dup        fresh copy inserted AFTER the original (fails in the handler for kinds that are not repeatable)
//   foreign        the valid target of another scenario, inserted where its preconditions do not hold
//   instead/gas-1, instead/price-huge
//                  the history WITHOUT one of its transactions is the twin; the run has a late-failing fresh
//                  copy of that transaction in its place (handler succeeds, fee step fails). Differs from own/*
//                  in that no successful execution of the same transaction follows the failed one: whatever
//                  the failed handler left behind in memory (a cursor, a cached record, a flag) is what the
//                  next block hook or the next transaction of ANOTHER kind meets
//   then/<kind>    instead/gas-1 of the history's target, FOLLOWED IN THE SAME BLOCK by the valid target of another
//                  scenario (a companion); the twin has the companion alone in that place. Whatever the companion
//                  does - succeed, fail - it must do the same after a transaction that failed
// Only insertions whose DeliverTx code is non-zero count (the others are not failures and are skipped).

func init() { commands["C06"] = c06 }

const c06Extra = 3

type c06Job struct {
	Scn   string
	Block int
	At    int    // insert before this index of the block's transaction list (len = append)
	Src   string // "" = own
	Tx    int    // own: flat index into the history's transactions; foreign: flat index in Src
	Mode  string
	Drop  bool `json:",omitempty"` // modes instead/*: transaction Tx is removed from the history (twin and run)
	// mode then: the companion (flat index CompTx of scenario Comp) delivered right after the failing copy
	Comp   string `json:",omitempty"`
	CompTx int    `json:",omitempty"`
}

type c06Res struct {
	Err     string
	Failed  bool // the inserted transaction failed in DeliverTx (else: not a C06 case)
	Code    uint32
	Log     string
	Diff    string
	Field   string
	GasUsed int64
}

var c06Base = map[string][]*harness.BlockResult{}

func c06Insert(h *hist, j c06Job, gas int64) (*harness.TxSpec, error) {
	src := h
	if j.Src != "" {
		var err error
		src, err = buildHist(j.Src, 0)
		if err != nil {
			return nil, err
		}
	}
	txs := flatTxs(src)
	if j.Tx >= len(txs) {
		return nil, fmt.Errorf("tx index out of range")
	}
	t := txs[j.Tx].Fresh("c06" + j.Mode)
	switch j.Mode {
	case "gas-1", "instead-gas-1", "then":
		t.Fee.Gas = gas
	case "price-huge", "instead-price-huge":
		p, _ := new(big.Int).SetString("10000000000000000000000000000000000000000", 10)
		t.Fee.Price.Value = *balance.NewAmountFromBigInt(p)
	case "gas-tiny":
		t.Fee.Gas = 1
	case "gas-over-block":
		// more gas than a whole block has: fails when the block gas limit is checked
		t.Fee.Gas = src.W.MaxGas + 1
		if src.W.MaxGas <= 0 {
			t.Fee.Gas = 1 << 62
		}
	}
	return t, nil
}

func c06Run(h *hist, ins *harness.TxSpec, block, at int) ([]*harness.BlockResult, bool, error) {
	x, err := harness.StartRun(h.W)
	if err != nil {
		return nil, false, err
	}
	defer x.Close()
	for i, b := range h.Blocks {
		b.NoCheck = true
		if ins != nil && i == block {
			txs := append([]*harness.TxSpec(nil), b.Txs[:at]...)
			txs = append(txs, ins)
			txs = append(txs, b.Txs[at:]...)
			b.Txs = txs
		}
		if _, err := x.BlockAt(b, false, nil); err != nil {
			return x.Results, x.R.Dead, nil
		}
		if x.R.Dead {
			return x.Results, true, nil
		}
	}
	return x.Results, false, nil
}

// c06Hist builds the history of a job; for the instead/* modes the transaction the failing copy replaces is
// taken out of its block (the copy itself is made from the complete history).
func c06Hist(j c06Job) (*hist, *hist, error) {
	full, err := buildHist(j.Scn, c06Extra)
	if err != nil {
		return nil, nil, err
	}
	if !j.Drop {
		return full, full, nil
	}
	h, _ := buildHist(j.Scn, c06Extra)
	b := &h.Blocks[j.Block]
	if j.At >= len(b.Txs) {
		return nil, nil, fmt.Errorf("instead: position out of range")
	}
	b.Txs = append(append([]*harness.TxSpec(nil), b.Txs[:j.At]...), b.Txs[j.At+1:]...)
	if j.Comp != "" {
		src, err := buildHist(j.Comp, 0)
		if err != nil {
			return nil, nil, err
		}
		txs := flatTxs(src)
		if j.CompTx >= len(txs) {
			return nil, nil, fmt.Errorf("then: companion index out of range")
		}
		c := txs[j.CompTx].Fresh("c06companion")
		b.Txs = append(append(append([]*harness.TxSpec(nil), b.Txs[:j.At]...), c), b.Txs[j.At:]...)
	}
	return h, full, nil
}

func c06Exec(j c06Job) c06Res {
	h, full, err := c06Hist(j)
	if err != nil {
		return c06Res{Err: err.Error()}
	}
	baseKey := h.ID
	if j.Drop {
		baseKey = fmt.Sprintf("%s|without %d/%d|%s/%d", h.ID, j.Block, j.At, j.Comp, j.CompTx)
	}
	base, ok := c06Base[baseKey]
	if !ok {
		base, err = runPlain(h.W, noCheck(h.Blocks), false)
		if err != nil && !j.Drop {
			return c06Res{Err: "baseline: " + err.Error()}
		}
		// (a history that lost one of its transactions may halt where the complete one does not - e.g. an
		// election left without candidates: then the run with the failed copy must halt at the same place)
		c06Base[baseKey] = base
	}
	gas := int64(0)
	if j.Mode == "gas-1" || j.Mode == "instead-gas-1" || j.Mode == "then" {
		// measure the gas the fresh copy uses at this very position
		h, full, _ = c06Hist(j)
		probe, err := c06Insert(full, j, harness.DefaultGas*10)
		if err != nil {
			return c06Res{Err: err.Error()}
		}
		res, _, err := c06Run(h, probe, j.Block, j.At)
		if err != nil {
			return c06Res{Err: err.Error()}
		}
		if j.Block >= len(res) || j.At >= len(res[j.Block].Txs) {
			return c06Res{Err: "probe run too short"}
		}
		pr := res[j.Block].Txs[j.At]
		if pr.Code != 0 || pr.GasUsed < 2 {
			return c06Res{Failed: false} // the copy does not succeed here: covered by own/dup
		}
		gas = pr.GasUsed - 1
		// the gas a transaction uses depends on its own size, and the gas limit is part of it (a decimal number:
		// 4000000 is two bytes longer than 13220): measure again with the limit the copy will really carry until
		// the figure is stable, otherwise "one below its use" is above the use of the shorter document
		for round := 0; round < 4; round++ {
			h, full, _ = c06Hist(j)
			probe, err := c06Insert(full, j, gas+1)
			if err != nil {
				return c06Res{Err: err.Error()}
			}
			res, _, err := c06Run(h, probe, j.Block, j.At)
			if err != nil || j.Block >= len(res) || j.At >= len(res[j.Block].Txs) {
				break
			}
			pr := res[j.Block].Txs[j.At]
			if pr.Code != 0 || pr.GasUsed < 2 || pr.GasUsed-1 == gas {
				break
			}
			gas = pr.GasUsed - 1
		}
	}
	h, full, _ = c06Hist(j)
	ins, err := c06Insert(full, j, gas)
	if err != nil {
		return c06Res{Err: err.Error()}
	}
	got, dead, err := c06Run(h, ins, j.Block, j.At)
	if err != nil {
		return c06Res{Err: err.Error()}
	}
	out := c06Res{}
	if dead {
		out.Failed, out.Diff, out.Field = true, "application panicked in the run with the inserted transaction", "panic"
		return out
	}
	if j.Block >= len(got) || j.At >= len(got[j.Block].Txs) {
		out.Failed, out.Diff, out.Field = true, "chain halted in the run with the inserted transaction", "halt"
		return out
	}
	ir := got[j.Block].Txs[j.At]
	out.Code, out.Log, out.GasUsed = ir.Code, tail(ir.Log, 160), ir.GasUsed
	if ir.Code == 0 {
		return out // succeeded: not a failed transaction
	}
	out.Failed = true
	for i := range base {
		if i >= len(got) {
			out.Diff, out.Field = "run with the failed transaction stopped early", "halt"
			break
		}
		g := *got[i]
		if i == j.Block {
			g.Txs = append(append([]harness.TxRes(nil), g.Txs[:j.At]...), g.Txs[j.At+1:]...)
		}
		if d := g.Diff(base[i]); d != "" {
			out.Diff, out.Field = d, diffField(d)
			break
		}
	}
	return out
}

func c06(args []string) int {
	if explore.IsWorker("C06") {
		return workerMain(func(raw json.RawMessage) interface{} {
			var j c06Job
			if err := json.Unmarshal(raw, &j); err != nil {
				return c06Res{Err: err.Error()}
			}
			r, ok := confirm(func() c06Res { return c06Exec(j) }, func(r c06Res) bool { return r.Diff != "" })
			if !ok {
				return c06Res{Err: unstableMsg}
			}
			return r
		})
	}
	f := explore.ParseFlags("C06", args, nil)
	if f.Replay != "" {
		var doc struct {
			Case c06Job `json:"case"`
		}
		if err := readJSON(f.Replay, &doc); err != nil {
			fmt.Println(err)
			return 2
		}
		harness.SilenceStdout()
		defer harness.RemoveScratch()
		r := c06Exec(doc.Case)
		b, _ := json.MarshalIndent(r, "", " ")
		harness.Outf("%s\n", b)
		if r.Diff != "" {
			return 1
		}
		return 0
	}
	harness.SilenceStdout()
	rep := explore.NewReporter("C06", "fault_enumeration", f, harness.Out())
	deadline := tierBudget(f, 10*time.Minute, 45*time.Minute)
	keep := scenarioFilter()
	all := catalogue.All()
	type foreign struct {
		scn  string
		tx   int
		kind string
	}
	var foreignMenu []foreign
	for _, sc := range all {
		h, err := buildHist(sc.ID(), 0)
		if err != nil {
			continue
		}
		n := 0
		for i := 0; i < h.Target; i++ {
			n += len(h.Blocks[i].Txs)
		}
		foreignMenu = append(foreignMenu, foreign{sc.ID(), n, sc.Kind})
	}
	var jobList []c06Job
	scn := 0
	for si, sc := range all {
		if !keep(sc.ID()) {
			continue
		}
		h, err := buildHist(sc.ID(), c06Extra)
		if err != nil {
			continue
		}
		scn++
		flat := 0
		for bi := 0; bi < len(h.Blocks)-c06Extra+1 && bi < len(h.Blocks); bi++ {
			n := len(h.Blocks[bi].Txs)
			for k := 0; k < n; k++ {
				for _, m := range []string{"gas-1", "price-huge", "gas-tiny", "gas-over-block"} {
					// a failing fresh copy of transaction k at every position up to its own
					for at := 0; at <= k; at++ {
						if m == "gas-1" && at != k {
							continue // the gas measured at another position would not be "one below its own use"
						}
						jobList = append(jobList, c06Job{Scn: sc.ID(), Block: bi, At: at, Tx: flat + k, Mode: m})
					}
				}
				jobList = append(jobList, c06Job{Scn: sc.ID(), Block: bi, At: k + 1, Tx: flat + k, Mode: "dup"})
				jobList = append(jobList, c06Job{Scn: sc.ID(), Block: bi, At: k, Tx: flat + k, Mode: "instead-gas-1", Drop: true},
					c06Job{Scn: sc.ID(), Block: bi, At: k, Tx: flat + k, Mode: "instead-price-huge", Drop: true})
			}
			// foreign failing transactions at every position of this block
			seenKind := map[string]bool{}
			for fi, fm := range foreignMenu {
				if fm.scn == sc.ID() {
					continue
				}
				if f.Tier == "quick" {
					// quick: one scenario per foreign kind, a fifth of the kinds per (history, block), rotating
					if seenKind[fm.kind] || (fi+si+bi)%5 != 0 {
						continue
					}
					seenKind[fm.kind] = true
				}
				for at := 0; at <= n; at++ {
					if f.Tier == "quick" && at != 0 && at != n {
						continue // quick: first and last position of the block; thorough: every position
					}
					jobList = append(jobList, c06Job{Scn: sc.ID(), Block: bi, At: at, Src: fm.scn, Tx: fm.tx, Mode: "foreign"})
				}
			}
			flat += n
		}
	}
	// mode then: the target replaced by a late-failing copy that is followed by a companion in the same block
	for si, sc := range all {
		if !keep(sc.ID()) {
			continue
		}
		h, err := buildHist(sc.ID(), c06Extra)
		if err != nil {
			continue
		}
		flat := 0
		for i := 0; i < h.Target; i++ {
			flat += len(h.Blocks[i].Txs)
		}
		seenKind := map[string]bool{}
		for fi, fm := range foreignMenu {
			if fm.scn == sc.ID() {
				continue
			}
			// every scenario of the history's own module is a companion (its handlers share store objects, cursors
			// and flags with the failed transaction's); of the other kinds one scenario each - quick: a rotating
			// quarter of them, thorough: all
			if kindModule(fm.kind) != kindModule(sc.Kind) {
				if seenKind[fm.kind] || (f.Tier == "quick" && (fi+si)%4 != 0) {
					continue
				}
				seenKind[fm.kind] = true
			}
			jobList = append(jobList, c06Job{Scn: sc.ID(), Block: h.Target, At: 0, Tx: flat, Mode: "then", Drop: true, Comp: fm.scn, CompTx: fm.tx})
		}
	}
	jobs := make([]interface{}, len(jobList))
	for i := range jobList {
		jobs[i] = jobList[i]
	}
	var done, failedIns, okIns, harnessErr int
	var errSamples []string
	modes := map[string]int{}
	distinct := map[string]bool{}
	logs := map[string]int{}
	skipped := explore.RunJobs("C06", f.Workers, jobs, 3*time.Minute, deadline, nil, func(jr explore.JobResult) {
		j := jobList[jr.Index]
		done++
		kind := catalogue.Get(j.Scn).Kind
		srcKind := kind
		if j.Src != "" {
			srcKind = catalogue.Get(j.Src).Kind
		}
		mode := j.Mode
		if j.Comp != "" {
			mode = "then/" + catalogue.Get(j.Comp).Kind
		}
		if jr.Died || jr.Timeout {
			rep.Violation(fmt.Sprintf("C06|process-died|inserted=%s|mode=%s", srcKind, j.Mode), "worker process died or hung: "+tail(jr.Stderr, 300), j)
			return
		}
		var r c06Res
		if err := json.Unmarshal(jr.Out, &r); err != nil || r.Err != "" {
			harnessErr++
			if len(errSamples) < 5 {
				errSamples = append(errSamples, fmt.Sprintf("%+v: %s %v", j, r.Err, err))
			}
			return
		}
		if !r.Failed {
			okIns++
			return
		}
		failedIns++
		modes[j.Mode]++
		distinct[fmt.Sprintf("%s|%d|%d|%s|%d|%s|%s|%d", j.Scn, j.Block, j.At, j.Src, j.Tx, j.Mode, j.Comp, j.CompTx)] = true
		if len(r.Log) > 60 {
			logs[r.Log[:60]]++
		} else {
			logs[r.Log]++
		}
		if failedIns%53 == 1 {
			rep.Sample(map[string]interface{}{"history": j.Scn, "block": j.Block + 1, "insert_at": j.At, "inserted": srcKind, "mode": j.Mode, "deliver_code": r.Code, "log": r.Log})
		}
		if r.Diff != "" {
			sig := fmt.Sprintf("C06|failed-tx-has-effect|history=%s|inserted=%s|mode=%s|field=%s", j.Scn, srcKind, mode, r.Field)
			rep.Violation(sig, fmt.Sprintf("inserted failing %s (%s, code %d: %s): %s", srcKind, mode, r.Code, r.Log, r.Diff), j)
		}
	})
	rep.Set("evaluations", done)
	rep.Set("distinct_nontrivial", len(distinct))
	rep.Set("rule", "one evaluation = one catalogue history executed on the real application with one extra transaction inserted at one position, compared block by block (app hash, validator updates, results of all other transactions, incl. 3 trailing blocks) with the twin without it; non-trivial = the inserted transaction actually FAILED in DeliverTx (non-zero code); counted per distinct (history, position, inserted transaction, failure mode)")
	rep.Set("scenarios", scn)
	rep.Set("inserted_failed", failedIns)
	rep.Set("inserted_succeeded_skipped", okIns)
	rep.Set("failed_by_mode", modes)
	rep.Set("distinct_failure_logs", len(logs))
	rep.Set("harness_errors", harnessErr)
	rep.Set("harness_error_samples", errSamples)
	rep.Set("not_run_due_to_deadline", skipped)
	rep.Set("exhaustive", skipped == 0 && harnessErr == 0)
	rep.Set("bounds", map[string]interface{}{"failed_transactions_per_execution": 1, "trailing_blocks": c06Extra, "companions_in_mode_then": map[string]string{"quick": "every scenario of the history's own module + one scenario of a rotating quarter of the other kinds", "thorough": "every scenario of the own module + one scenario of every other kind"}[f.Tier]})
	if harnessErr > 0 {
		fmt.Fprintf(harness.Out(), "C06: %d harness errors: %v\n", harnessErr, errSamples)
	}
	// vacuity guard: every own transaction that can be made to fail by an unpayable price can also be made to fail by
	// a gas limit one below its use - if the late-failing mode fails much less often than that, its measurement is
	// broken (it once was: 3 of 418) and a silent run says nothing about the fee step
	if modes["price-huge"] >= 10 && modes["gas-1"]*2 < modes["price-huge"] {
		fmt.Fprintf(harness.Out(), "C06: mode gas-1 produced %d failed transactions against %d of mode price-huge: the late-failing copies do not fail, no verdict\n", modes["gas-1"], modes["price-huge"])
		rep.Set("exhaustive", false)
		rep.Finish()
		return 2
	}
	return rep.Finish()
}
