package main

import (
	"bytes"
	"crypto/sha256"
	"encoding/base64"
	"encoding/json"
	"fmt"
	"sort"
	"strings"
	"time"

	"github.com/Oneledger/protocol/action"
	"github.com/Oneledger/protocol/data/keys"
	"github.com/btcsuite/btcd/btcec"

	"verif/catalogue"
	"verif/explore"
	"verif/harness"
)

// C05 — at-most-once. For every catalogue scenario the target transaction T is executed in a block;
// then T itself (byte-identical) and every re-encoding T' of a finite operator list (different bytes,
// same signed content, still admitted on a fresh state) is resubmitted 1 and 3 blocks later, through
// CheckTx and delivered directly, with the node's tx index up to date and lagging one block. CheckTx
// must reject it and the block that contains it must leave the state as in the twin run without it.

func init() { commands["C05"] = c05 }

type c05Job struct {
	Scn   string
	Op    int
	Name  string
	Delay int    // blocks between T's block and the resubmission (1 or 3)
	Path  string // "check" | "deliver"
	Lag   int    // tx index lag in blocks
	Sig   string // "" / "plain" | "prehash": how the original was signed
	// Early > 0: phase "first execution failed" - the byte-identical target is delivered in an extra block after
	// Early-1 blocks of the history's prefix, where its preconditions do not hold yet (it must return a non-zero
	// code there, else the case is skipped); the rest of the prefix follows, then the same bytes are submitted
	// again in the state in which they would succeed
	Early int `json:",omitempty"`
	// Mid: phase "checked again inside its own block" - the original goes through CheckTx and is delivered as
	// usual; between its DeliverTx and the EndBlock of that block the same bytes reach CheckTx once more (a peer
	// gossiping it; the index cannot know the execution yet); two blocks later they are delivered again
	Mid bool `json:",omitempty"`
}

type c05Res struct {
	Err        string
	Skip       string // re-encoding not applicable / not admitted on a fresh state
	Replayed   bool
	Detail     string
	Code       uint32
	Log        string
	FirstCode  uint32
	Repeatable bool
	// First: "" = the canonical original was executed first and the re-encoding resubmitted; otherwise the
	// RE-ENCODING was executed first and then resubmitted "reencoded-then-same-bytes" / "reencoded-then-canonical"
	First string
}

type reenc struct {
	name  string
	class string
	wire  []byte
}

// swapB64Tail returns a base64 string that decodes to the same bytes but differs in its unused
// trailing bits ("" if the string has no padding).
func swapB64Tail(s string) string {
	const alpha = "ABCDEFGHIJKLMNOPQRSTUVWXYZabcdefghijklmnopqrstuvwxyz0123456789+/"
	if !strings.HasSuffix(s, "=") {
		return ""
	}
	i := strings.IndexByte(s, '=') - 1
	if i < 0 {
		return ""
	}
	idx := strings.IndexByte(alpha, s[i])
	if idx < 0 {
		return ""
	}
	alt := s[:i] + string(alpha[idx^1]) + s[i+1:]
	a, err1 := base64.StdEncoding.DecodeString(s)
	b, err2 := base64.StdEncoding.DecodeString(alt)
	if err1 != nil || err2 != nil || !bytes.Equal(a, b) {
		return ""
	}
	return alt
}

func reencodings(t *harness.TxSpec) []reenc {
	orig := t.Bytes()
	var out []reenc
	add := func(name, class string, w []byte) {
		if w != nil && !bytes.Equal(w, orig) {
			out = append(out, reenc{name, class, w})
		}
	}
	out = append(out, reenc{"identical", "identical", orig})
	add("trailing-space", "whitespace", append(append([]byte(nil), orig...), ' '))
	add("trailing-newline", "whitespace", append(append([]byte(nil), orig...), '\n'))
	add("leading-space", "whitespace", append([]byte(" "), orig...))
	if i := bytes.IndexByte(orig, '{'); i >= 0 {
		add("inner-space", "whitespace", append(append(append([]byte(nil), orig[:i+1]...), ' ', '\t'), orig[i+1:]...))
	}
	if i := bytes.LastIndexByte(orig, '}'); i >= 0 {
		add("space-before-close", "whitespace", append(append(append([]byte(nil), orig[:i]...), ' '), orig[i:]...))
		add("extra-unknown-field", "extra-field", append(append(append([]byte(nil), orig[:i]...), []byte(`,"zzz":1`)...), orig[i:]...))
		memo, _ := json.Marshal(t.Memo)
		add("duplicate-memo-key", "duplicate-key", append(append(append([]byte(nil), orig[:i]...), []byte(`,"memo":`+string(memo))...), orig[i:]...))
	}
	// key order / key case via generic map round trip
	var top map[string]json.RawMessage
	if json.Unmarshal(orig, &top) == nil && len(top) > 1 {
		ks := make([]string, 0, len(top))
		for k := range top {
			ks = append(ks, k)
		}
		sort.Sort(sort.Reverse(sort.StringSlice(ks)))
		build := func(rename func(string) string) []byte {
			var b bytes.Buffer
			b.WriteByte('{')
			for i, k := range ks {
				if i > 0 {
					b.WriteByte(',')
				}
				kk, _ := json.Marshal(rename(k))
				b.Write(kk)
				b.WriteByte(':')
				b.Write(top[k])
			}
			b.WriteByte('}')
			return b.Bytes()
		}
		add("keys-reverse-order", "key-order", build(func(k string) string { return k }))
		add("keys-upper-case", "key-case", build(strings.ToUpper))
		if t.Memo != "" {
			esc := fmt.Sprintf(`"\u%04x%s`, t.Memo[0], strings.TrimPrefix(string(mustJSON(t.Memo)), `"`+string(t.Memo[0])))
			if t.Memo[0] < 0x80 && t.Memo[0] != '"' && t.Memo[0] != '\\' {
				cp := map[string]json.RawMessage{}
				for k, v := range top {
					cp[k] = v
				}
				cp["memo"] = json.RawMessage(esc)
				save := top
				top = cp
				add("memo-unicode-escape", "string-escape", build(func(k string) string { return k }))
				top = save
			}
		}
		if d, ok := top["data"]; ok {
			var s string
			if json.Unmarshal(d, &s) == nil {
				if alt := swapB64Tail(s); alt != "" {
					cp := map[string]json.RawMessage{}
					for k, v := range top {
						cp[k] = v
					}
					cp["data"] = mustJSON(alt)
					save := top
					top = cp
					add("data-base64-trailing-bits", "base64", build(func(k string) string { return k }))
					top = save
				}
			}
		}
	}
	// documents on which the JSON decoder REPORTS AN ERROR BUT STILL FILLS THE STRUCT: encoding/json skips a
	// value of the wrong type (UnmarshalTypeError), goes on decoding, and a second, well-typed occurrence of
	// the same key (before or after) sets the field. A node that only logs the error executes such bytes
	// like the canonical ones, under another hash.
	{
		wrong := func(v json.RawMessage) string {
			if len(v) > 0 && v[0] == '"' {
				return "5"
			}
			return `"x"`
		}
		var keysInOrder []string
		dec := json.NewDecoder(bytes.NewReader(orig))
		if tok, err := dec.Token(); err == nil && tok == json.Delim('{') {
			for dec.More() {
				kt, err := dec.Token()
				if err != nil {
					break
				}
				k, _ := kt.(string)
				keysInOrder = append(keysInOrder, k)
				var skip json.RawMessage
				if dec.Decode(&skip) != nil {
					break
				}
			}
		}
		last := bytes.LastIndexByte(orig, '}')
		for _, k := range keysInOrder {
			if len(orig) < 2 || last < 0 {
				break
			}
			kk := string(mustJSON(k))
			add("wrong-typed-duplicate-of-"+k+"-first", "decoder-error-tolerated", append([]byte("{"+kk+":"+wrong(top[k])+","), orig[1:]...))
			add("wrong-typed-duplicate-of-"+k+"-last", "decoder-error-tolerated", append(append(append([]byte(nil), orig[:last]...), []byte(","+kk+":"+wrong(top[k]))...), orig[last:]...))
		}
		// one level down: inside the fee object
		if fee, ok := top["fee"]; ok && len(fee) > 2 && fee[0] == '{' {
			cp := map[string]json.RawMessage{}
			for k, v := range top {
				cp[k] = v
			}
			cp["fee"] = json.RawMessage(`{"gas":"x",` + string(fee[1:]))
			add("wrong-typed-duplicate-of-fee.gas-first", "decoder-error-tolerated", rebuildInOrder(orig, cp))
		}
	}
	// the signature bytes themselves are not covered by any signature: trailing bytes
	{
		stx := t.Signed()
		for i := range stx.Signatures {
			for _, extra := range [][]byte{{0x00}, {0x01, 0x02}} {
				c := stx
				c.Signatures = append([]action.Signature(nil), stx.Signatures...)
				c.Signatures[i].Signed = append(append([]byte(nil), stx.Signatures[i].Signed...), extra...)
				add(fmt.Sprintf("sig[%d]-trailing-%d-bytes", i, len(extra)), "signature-trailing-bytes", c.SignedBytes())
			}
		}
	}
	// the signer KEY bytes are covered by no signature either: another spelling of the same key (a point of the
	// secp256k1 curve has a compressed, an uncompressed and a hybrid encoding; any key can be padded) is another
	// document with another hash and the same authorisation - if the key handler accepts it
	{
		stx := t.Signed()
		for i := range stx.Signatures {
			key := stx.Signatures[i].Signer
			var alts []struct {
				name string
				data []byte
			}
			if pt, err := btcec.ParsePubKey(key.Data, btcec.S256()); err == nil && key.KeyType != keys.ED25519 {
				alts = append(alts, struct {
					name string
					data []byte
				}{"compressed", pt.SerializeCompressed()}, struct {
					name string
					data []byte
				}{"uncompressed", pt.SerializeUncompressed()}, struct {
					name string
					data []byte
				}{"hybrid", pt.SerializeHybrid()})
			}
			alts = append(alts, struct {
				name string
				data []byte
			}{"zero-byte-appended", append(append([]byte(nil), key.Data...), 0)}, struct {
				name string
				data []byte
			}{"zero-byte-prepended", append([]byte{0}, key.Data...)})
			for _, a := range alts {
				if bytes.Equal(a.data, key.Data) {
					continue
				}
				c := stx
				c.Signatures = append([]action.Signature(nil), stx.Signatures...)
				c.Signatures[i].Signer = keys.PublicKey{KeyType: key.KeyType, Data: a.data}
				add(fmt.Sprintf("sig[%d]-signer-key-%s", i, a.name), "unsigned-field", c.SignedBytes())
			}
		}
	}
	// unsigned parts of the signature list
	st := t.Signed()
	if len(st.Signatures) > 0 {
		type sigJ struct {
			Signer json.RawMessage
			Signed string
			Extra  int `json:"extra"`
		}
		var sigs []sigJ
		for _, s := range st.Signatures {
			kb, _ := json.Marshal(s.Signer)
			sigs = append(sigs, sigJ{Signer: kb, Signed: base64.StdEncoding.EncodeToString(s.Signed), Extra: 1})
		}
		sb, _ := json.Marshal(sigs)
		var top2 map[string]json.RawMessage
		if json.Unmarshal(orig, &top2) == nil {
			top2["signatures"] = sb
			// keep canonical key order of the original as far as possible
			b := rebuildInOrder(orig, top2)
			add("signature-object-extra-field", "extra-field", b)
		}
		if t.Type == action.OLVM {
			// sender-recovery signature: the Signer key is not used for authentication
			c := st
			c.Signatures = append([]action.Signature(nil), st.Signatures...)
			c.Signatures[0].Signer = harness.NewAccount("attacker").Pub
			add("unused-signer-key-replaced", "unsigned-field", c.SignedBytes())
			// the memo of an OLVM transaction must equal the nonce and is covered by the signature only through
			// that comparison: another spelling of the same number
			for _, m := range []string{"0" + t.Memo, "+" + t.Memo, " " + t.Memo} {
				c2 := *t
				c2.Memo = m
				c2.SignFn = func(action.RawTx) []action.Signature { return st.Signatures }
				add("memo-number-respelled:"+strings.TrimSuffix(m, t.Memo)+"n", "unsigned-field", c2.Bytes())
			}
			// the payload document itself is covered by the signature only through the fields extracted from
			// it: spellings of an EMPTY value that survive a decode/encode round trip of the payload struct
			// (nil vs. empty slice / pointer: null, "", [], {}), for every key of the payload
			var pl map[string]json.RawMessage
			if json.Unmarshal(t.Data, &pl) == nil {
				empties := []string{`null`, `""`, `[]`, `{}`}
				var pks []string
				for k := range pl {
					pks = append(pks, k)
				}
				sort.Strings(pks)
				for _, k := range pks {
					cur := strings.TrimSpace(string(pl[k]))
					isEmpty := false
					for _, e := range empties {
						isEmpty = isEmpty || cur == e
					}
					if !isEmpty {
						continue
					}
					for _, e := range empties {
						if e == cur {
							continue
						}
						cp := map[string]json.RawMessage{}
						for kk, vv := range pl {
							cp[kk] = vv
						}
						cp[k] = json.RawMessage(e)
						c3 := *t
						c3.Data = rebuildInOrder(t.Data, cp)
						c3.SignFn = func(action.RawTx) []action.Signature { return st.Signatures }
						add("payload-empty-value-respelled:"+k+"="+e, "unsigned-field", c3.Bytes())
					}
				}
			}
		}
	}
	return out
}

// withSigMode returns the spec signed in the given mode: "plain", or "prehash" = the hardware-wallet
// form the key handlers accept for ED25519 keys (hash tag + signature over the digest of the message).
func withSigMode(t *harness.TxSpec, mode string) *harness.TxSpec {
	if mode != "prehash" || t.SignFn != nil {
		return t
	}
	c := *t
	signers := t.Signers
	c.SignFn = func(raw action.RawTx) []action.Signature {
		msg := raw.RawBytes()
		var out []action.Signature
		for _, a := range signers {
			if a.Pub.KeyType == keys.ED25519 {
				d := sha256.Sum256(msg)
				out = append(out, action.Signature{Signer: a.Pub, Signed: append([]byte("SHA256"), a.Sign(d[:])...)})
			} else {
				out = append(out, action.Signature{Signer: a.Pub, Signed: a.Sign(msg)})
			}
		}
		return out
	}
	return &c
}

func mustJSON(v interface{}) json.RawMessage {
	b, _ := json.Marshal(v)
	return b
}

// rebuildInOrder serialises m with the key order of the original document.
func rebuildInOrder(orig []byte, m map[string]json.RawMessage) []byte {
	dec := json.NewDecoder(bytes.NewReader(orig))
	var order []string
	if tok, err := dec.Token(); err == nil && tok == json.Delim('{') {
		for dec.More() {
			kt, err := dec.Token()
			if err != nil {
				break
			}
			k, _ := kt.(string)
			order = append(order, k)
			var skip json.RawMessage
			if dec.Decode(&skip) != nil {
				break
			}
		}
	}
	var b bytes.Buffer
	b.WriteByte('{')
	for i, k := range order {
		if i > 0 {
			b.WriteByte(',')
		}
		b.Write(mustJSON(k))
		b.WriteByte(':')
		b.Write(m[k])
	}
	b.WriteByte('}')
	return b.Bytes()
}

func c05Exec(j c05Job) c05Res {
	h, err := buildHist(j.Scn, 0)
	if err != nil {
		return c05Res{Err: err.Error()}
	}
	t := withSigMode(h.Blocks[h.Target].Txs[0], j.Sig)
	res := reencodings(t)
	if j.Op >= len(res) {
		return c05Res{Err: "operator out of range"}
	}
	wire := res[j.Op].wire
	orig := t.Bytes()
	// (1) the re-encoding must carry the same signed content and be admitted on a fresh state
	if j.Op > 0 && res[j.Op].class != "signature-trailing-bytes" && res[j.Op].class != "unsigned-field" && res[j.Op].class != "decoder-error-tolerated" {
		// pure re-encodings must parse to the same content; variants of parts that no signature covers
		// (signature bytes, unused signer key) differ by construction and only have to be admitted; documents
		// on which the decoder reports an error have no well-defined parse and only have to be admitted as well
		if !sameParsed(wire, orig) {
			return c05Res{Skip: "parsed content differs"}
		}
	}
	start := func() (*harness.Run, error) {
		hh, _ := buildHist(j.Scn, 0)
		x, err := harness.StartRun(hh.W)
		if err != nil {
			return nil, err
		}
		x.R.IndexLag = j.Lag
		for i, b := range noCheck(hh.Blocks[:hh.Target]) {
			if _, err := x.Block(b); err != nil {
				x.Close()
				return nil, fmt.Errorf("prefix block %d: %v", i+1, err)
			}
		}
		return x, nil
	}
	if j.Op > 0 {
		x, err := start()
		if err != nil {
			return c05Res{Err: err.Error()}
		}
		chk := x.R.CheckTx(wire)
		x.Close()
		if chk.Code != 0 {
			return c05Res{Skip: "re-encoding is not admitted even before the original was executed: " + tail(chk.Log, 100)}
		}
	}
	if j.Early > 0 {
		return c05EarlyFailed(j, orig)
	}
	if j.Mid {
		return c05MidBlockCheck(j, orig)
	}
	// (2) execute T, wait, resubmit
	first, second := orig, wire
	run := func(resubmit bool) (digests []string, out c05Res, err error) {
		x, err := start()
		if err != nil {
			return nil, out, err
		}
		defer x.Close()
		fb, err := x.Block(harness.BlockSpec{Raw: [][]byte{first}, NoCheck: true})
		if err != nil || fb == nil || len(fb.Txs) != 1 {
			return nil, out, fmt.Errorf("executing the original: %v", err)
		}
		out.FirstCode = fb.Txs[0].Code
		for k := 1; k < j.Delay; k++ {
			if _, err := x.Block(harness.BlockSpec{}); err != nil {
				return nil, out, err
			}
		}
		if !resubmit {
			r, err := x.BlockAt(harness.BlockSpec{}, true, nil)
			if err != nil {
				return nil, out, err
			}
			digests = append(digests, r.Digest)
		} else if j.Path == "check" {
			chk := x.R.CheckTx(second)
			out.Code, out.Log = chk.Code, tail(chk.Log, 120)
			return nil, out, nil
		} else {
			r, err := x.BlockAt(harness.BlockSpec{Raw: [][]byte{second}, NoCheck: true}, true, nil)
			if err != nil || r == nil {
				return nil, out, fmt.Errorf("block with the resubmission: %v", err)
			}
			if len(r.Txs) == 1 {
				out.Code, out.Log = r.Txs[0].Code, tail(r.Txs[0].Log, 120)
			}
			digests = append(digests, r.Digest)
		}
		for k := 0; k < 2; k++ {
			r, err := x.BlockAt(harness.BlockSpec{}, true, nil)
			if err != nil {
				return digests, out, nil
			}
			digests = append(digests, r.Digest)
		}
		return digests, out, nil
	}
	judge := func() c05Res {
		got, out, err := run(true)
		if err != nil {
			return c05Res{Err: err.Error()}
		}
		if out.FirstCode != 0 {
			return c05Res{Skip: "the original did not execute successfully in this run"}
		}
		if j.Path == "check" {
			if out.Code == 0 {
				out.Replayed = true
				out.Detail = "CheckTx accepted the resubmission"
			}
			return out
		}
		twin, _, err := run(false)
		if err != nil {
			return c05Res{Err: "twin: " + err.Error()}
		}
		for i := range twin {
			if i >= len(got) || got[i] != twin[i] {
				out.Replayed = true
				out.Detail = fmt.Sprintf("state after block +%d differs from the twin without the resubmission (DeliverTx code %d)", i, out.Code)
				break
			}
		}
		return out
	}
	out := judge()
	if out.Err != "" || out.Skip != "" || out.Replayed || j.Op == 0 {
		return out
	}
	// (3) the other way round: a re-encoding that is admitted on a fresh state (none on a tree that insists on
	// the canonical encoding) may be the form in which the transaction is executed FIRST; then the very same
	// bytes again, and the canonical form, must be refused as well (the replay lookup must know the
	// transaction under whatever bytes it was executed in)
	for _, alt := range []struct {
		name   string
		second []byte
	}{{"reencoded-then-same-bytes", wire}, {"reencoded-then-canonical", orig}} {
		first, second = wire, alt.second
		r := judge()
		if r.Err != "" {
			return r
		}
		if r.Skip == "" && r.Replayed {
			r.First = alt.name
			r.Detail = "executed first in the re-encoded form, then resubmitted (" + alt.name + "): " + r.Detail
			return r
		}
	}
	return out
}

// c05EarlyFailed: the transaction was executed in a block and FAILED there (a transaction that was admitted by
// a mempool check and met another state in its block); the same bytes come again when they would succeed.
// (Added after a seeded change - DeliverTx answering from the index only if the recorded result was a success -
// escaped the phases in which the first execution always succeeds.)
func c05EarlyFailed(j c05Job, orig []byte) c05Res {
	run := func(resubmit bool) (digests []string, out c05Res, err error) {
		hh, _ := buildHist(j.Scn, 0)
		x, err := harness.StartRun(hh.W)
		if err != nil {
			return nil, out, err
		}
		defer x.Close()
		prefix := noCheck(hh.Blocks[:hh.Target])
		k := j.Early - 1
		if k > len(prefix) {
			out.Skip = "no such prefix position"
			return nil, out, nil
		}
		for _, b := range prefix[:k] {
			if _, err := x.Block(b); err != nil {
				return nil, out, err
			}
		}
		fb, err := x.Block(harness.BlockSpec{Raw: [][]byte{orig}, NoCheck: true})
		if err != nil || fb == nil || len(fb.Txs) != 1 {
			return nil, out, fmt.Errorf("early delivery: %v", err)
		}
		out.FirstCode = fb.Txs[0].Code
		if out.FirstCode == 0 {
			out.Skip = "the early delivery succeeded (nothing failed first)"
			return nil, out, nil
		}
		for _, b := range prefix[k:] {
			if _, err := x.Block(b); err != nil {
				out.Skip = "the rest of the prefix does not run after the extra block"
				return nil, out, nil
			}
		}
		switch {
		case !resubmit:
			r, err := x.BlockAt(harness.BlockSpec{}, true, nil)
			if err != nil {
				return nil, out, err
			}
			digests = append(digests, r.Digest)
		case j.Path == "check":
			chk := x.R.CheckTx(orig)
			out.Code, out.Log = chk.Code, tail(chk.Log, 120)
			return nil, out, nil
		default:
			r, err := x.BlockAt(harness.BlockSpec{Raw: [][]byte{orig}, NoCheck: true}, true, nil)
			if err != nil || r == nil {
				return nil, out, fmt.Errorf("block with the resubmission: %v", err)
			}
			if len(r.Txs) == 1 {
				out.Code, out.Log = r.Txs[0].Code, tail(r.Txs[0].Log, 120)
			}
			digests = append(digests, r.Digest)
		}
		for n := 0; n < 2; n++ {
			r, err := x.BlockAt(harness.BlockSpec{}, true, nil)
			if err != nil {
				return digests, out, nil
			}
			digests = append(digests, r.Digest)
		}
		return digests, out, nil
	}
	got, out, err := run(true)
	if err != nil {
		return c05Res{Err: err.Error()}
	}
	if out.Skip != "" {
		return out
	}
	out.First = "failed-early"
	if j.Path == "check" {
		if out.Code == 0 {
			out.Replayed = true
			out.Detail = fmt.Sprintf("delivered once with code %d, then CheckTx accepted the same bytes", out.FirstCode)
		}
		return out
	}
	twin, tout, err := run(false)
	if err != nil || tout.Skip != "" {
		return c05Res{Err: fmt.Sprintf("twin: %v %s", err, tout.Skip)}
	}
	for i := range twin {
		if i >= len(got) || got[i] != twin[i] {
			out.Replayed = true
			out.Detail = fmt.Sprintf("delivered once with code %d; delivered again later (code %d) the state after block +%d differs from the twin without the second delivery", out.FirstCode, out.Code, i)
			break
		}
	}
	return out
}

// c05MidBlockCheck: see c05Job.Mid. (Added after a seeded change - CheckTx remembering the hashes it found
// absent from the index so that DeliverTx need not look again - escaped the phases in which a transaction is
// either checked or delivered after its execution, never checked in the window and delivered later.)
func c05MidBlockCheck(j c05Job, orig []byte) c05Res {
	run := func(resubmit bool) (digests []string, out c05Res, err error) {
		hh, _ := buildHist(j.Scn, 0)
		x, err := harness.StartRun(hh.W)
		if err != nil {
			return nil, out, err
		}
		defer x.Close()
		for i, b := range noCheck(hh.Blocks[:hh.Target]) {
			if _, err := x.Block(b); err != nil {
				return nil, out, fmt.Errorf("prefix block %d: %v", i+1, err)
			}
		}
		var mid harness.TxRes
		fb, err := x.BlockAt(harness.BlockSpec{Raw: [][]byte{orig}}, false, func(g harness.Gap) bool {
			if g.Pos == 2 { // after the DeliverTx of the block's only transaction
				mid = x.R.CheckTx(orig)
			}
			return true
		})
		if err != nil || fb == nil || len(fb.Txs) != 1 {
			return nil, out, fmt.Errorf("executing the original: %v", err)
		}
		out.FirstCode = fb.Txs[0].Code
		_ = mid
		if _, err := x.Block(harness.BlockSpec{}); err != nil {
			return nil, out, err
		}
		spec := harness.BlockSpec{NoCheck: true}
		if resubmit {
			spec.Raw = [][]byte{orig}
		}
		r, err := x.BlockAt(spec, true, nil)
		if err != nil || r == nil {
			return nil, out, fmt.Errorf("block with the second delivery: %v", err)
		}
		if resubmit && len(r.Txs) == 1 {
			out.Code, out.Log = r.Txs[0].Code, tail(r.Txs[0].Log, 120)
		}
		digests = append(digests, r.Digest)
		for n := 0; n < 2; n++ {
			r, err := x.BlockAt(harness.BlockSpec{}, true, nil)
			if err != nil {
				return digests, out, nil
			}
			digests = append(digests, r.Digest)
		}
		return digests, out, nil
	}
	got, out, err := run(true)
	if err != nil {
		return c05Res{Err: err.Error()}
	}
	if out.FirstCode != 0 {
		return c05Res{Skip: "the original did not execute successfully in this run"}
	}
	out.First = "checked-again-inside-its-block"
	twin, _, err := run(false)
	if err != nil {
		return c05Res{Err: "twin: " + err.Error()}
	}
	for i := range twin {
		if i >= len(got) || got[i] != twin[i] {
			out.Replayed = true
			out.Detail = fmt.Sprintf("executed, checked again before the end of its block, delivered again two blocks later (code %d): the state after block +%d differs from the twin without the second delivery", out.Code, i)
			break
		}
	}
	return out
}

func c05(args []string) int {
	if explore.IsWorker("C05") {
		return workerMain(func(raw json.RawMessage) interface{} {
			var j c05Job
			if err := json.Unmarshal(raw, &j); err != nil {
				return c05Res{Err: err.Error()}
			}
			r, ok := confirm(func() c05Res { return c05Exec(j) }, func(r c05Res) bool { return r.Replayed })
			if !ok {
				return c05Res{Err: unstableMsg}
			}
			return r
		})
	}
	f := explore.ParseFlags("C05", args, nil)
	if f.Replay != "" {
		var doc struct {
			Case c05Job `json:"case"`
		}
		if err := readJSON(f.Replay, &doc); err != nil {
			fmt.Println(err)
			return 2
		}
		harness.SilenceStdout()
		defer harness.RemoveScratch()
		r := c05Exec(doc.Case)
		b, _ := json.MarshalIndent(r, "", " ")
		harness.Outf("%s\n", b)
		if r.Replayed {
			return 1
		}
		return 0
	}
	harness.SilenceStdout()
	rep := explore.NewReporter("C05", "exploration", f, harness.Out())
	deadline := tierBudget(f, 10*time.Minute, 45*time.Minute)
	keep := scenarioFilter()
	var jobList []c05Job
	kinds := map[string]bool{}
	classes := map[string]bool{}
	classOf := map[string]string{}
	for _, sc := range catalogue.All() {
		if !keep(sc.ID()) {
			continue
		}
		// both tiers use every scenario of the catalogue: the states differ in what they let through (the
		// nonce-gap history of OLVM was the only one on which an unsigned part of that kind could be replayed)
		_ = kinds[sc.Kind]
		h, err := buildHist(sc.ID(), 0)
		if err != nil {
			continue
		}
		kinds[sc.Kind] = true
		for k := 1; k <= h.Target; k++ {
			for _, path := range []string{"check", "deliver"} {
				jobList = append(jobList, c05Job{Scn: sc.ID(), Op: 0, Name: "identical", Delay: 0, Path: path, Early: k})
			}
		}
		jobList = append(jobList, c05Job{Scn: sc.ID(), Op: 0, Name: "identical", Delay: 2, Path: "deliver", Mid: true})
		for _, mode := range []string{"plain", "prehash"} {
			base := h.Blocks[h.Target].Txs[0]
			if mode == "prehash" && (base.SignFn != nil || len(base.Signers) == 0 || base.Signers[0].Pub.KeyType != keys.ED25519) {
				continue
			}
			res := reencodings(withSigMode(base, mode))
			for op, r := range res {
				classes[r.class] = true
				classOf[r.name] = r.class
				for _, delay := range []int{1, 3} {
					for _, path := range []string{"check", "deliver"} {
						for _, lag := range []int{0, 1} {
							if f.Tier == "quick" && delay == 3 && lag == 1 {
								continue
							}
							if mode == "prehash" && (lag == 1 || (f.Tier == "quick" && delay == 3)) {
								continue // the index-lag dimension is covered by the plain originals
							}
							jobList = append(jobList, c05Job{Scn: sc.ID(), Op: op, Name: r.name, Delay: delay, Path: path, Lag: lag, Sig: mode})
						}
					}
				}
			}
		}
	}
	jobs := make([]interface{}, len(jobList))
	for i := range jobList {
		jobs[i] = jobList[i]
	}
	var done, harnessErr, skippedOps, rejected, replayed, earlyFailed int
	var errSamples []string
	distinct := map[string]bool{}
	skipReasons := map[string]int{}
	skipped := explore.RunJobs("C05", f.Workers, jobs, 3*time.Minute, deadline, nil, func(jr explore.JobResult) {
		j := jobList[jr.Index]
		done++
		kind := catalogue.Get(j.Scn).Kind
		if jr.Died || jr.Timeout {
			rep.Violation(fmt.Sprintf("C05|process-died|kind=%s|reenc=%s|path=%s", kind, j.Name, j.Path), "worker process died or hung: "+tail(jr.Stderr, 200), j)
			return
		}
		var r c05Res
		if err := json.Unmarshal(jr.Out, &r); err != nil || r.Err != "" {
			harnessErr++
			if len(errSamples) < 5 {
				errSamples = append(errSamples, fmt.Sprintf("%+v: %s %v", j, r.Err, err))
			}
			return
		}
		if r.Skip != "" {
			skippedOps++
			k := r.Skip
			if len(k) > 50 {
				k = k[:50]
			}
			skipReasons[k]++
			return
		}
		distinct[fmt.Sprintf("%s|%s|%d|%s|%d|%s|%d|%v", j.Scn, j.Name, j.Delay, j.Path, j.Lag, j.Sig, j.Early, j.Mid)] = true
		if j.Early > 0 {
			earlyFailed++
		}
		if done%97 == 0 {
			rep.Sample(map[string]interface{}{"scenario": j.Scn, "reencoding": j.Name, "resubmitted_after_blocks": j.Delay, "path": j.Path, "index_lag": j.Lag, "code": r.Code, "log": r.Log, "took_effect_again": r.Replayed})
		}
		if r.Replayed {
			replayed++
			sig := fmt.Sprintf("C05|took-effect-twice|kind=%s|reenc=%s|path=%s|index-lag=%d", kind, classOf[j.Name], j.Path, j.Lag)
			if r.First != "" {
				sig += "|order=" + r.First
			}
			if j.Sig == "prehash" {
				sig += "|signed=prehash"
			}
			rep.Violation(sig, fmt.Sprintf("%s executed, then resubmitted as %q %d block(s) later via %s (index lag %d): %s", kind, j.Name, j.Delay, j.Path, j.Lag, r.Detail), j)
		} else {
			rejected++
		}
	})
	var kl, cl []string
	for k := range kinds {
		kl = append(kl, k)
	}
	for k := range classes {
		cl = append(cl, k)
	}
	sort.Strings(kl)
	sort.Strings(cl)
	rep.Set("evaluations", done)
	rep.Set("distinct_nontrivial", len(distinct))
	rep.Set("rule", "one evaluation = one (scenario, re-encoding, delay, admission path, index lag): the original is executed in a block, the re-encoding is resubmitted later via CheckTx or directly in a block, and the state is compared with the twin run without the resubmission; non-trivial = the re-encoding has different bytes but the same parsed content AND is admitted by CheckTx on a state where the original was not yet executed (others are skipped and counted), or is the byte-identical control")
	rep.Set("kinds", kl)
	rep.Set("reencoding_classes", cl)
	rep.Set("resubmissions_without_effect", rejected)
	rep.Set("resubmissions_that_took_effect", replayed)
	rep.Set("reencodings_skipped", skippedOps)
	rep.Set("first_execution_failed_cases", earlyFailed)
	rep.Set("skip_reasons", skipReasons)
	rep.Set("harness_errors", harnessErr)
	rep.Set("harness_error_samples", errSamples)
	rep.Set("not_run_due_to_deadline", skipped)
	rep.Set("exhaustive", skipped == 0 && harnessErr == 0)
	rep.Assume("'all re-encodings' is covered by the operator list, which contains every leniency of encoding/json and base64 that the decoder (serialize/json_strategy.go) has: insignificant whitespace, key order, duplicate keys, unknown fields, string escapes, case-insensitive key names, non-canonical base64 trailing bits, unused unsigned fields")
	if harnessErr > 0 {
		fmt.Fprintf(harness.Out(), "C05: %d harness errors: %v\n", harnessErr, errSamples)
	}
	return rep.Finish()
}
