package main

import (
	"encoding/json"
	"fmt"
	"os"
	"sort"
	"strings"
	"time"

	"github.com/Oneledger/protocol/action"

	"verif/catalogue"
	"verif/explore"
	"verif/harness"
)

// C07 — mempool checks are isolated from consensus execution. For every catalogue history the
// consensus transcript of the run WITHOUT any CheckTx is the baseline; then one (quick) or two
// (thorough) CheckTx calls are injected at every gap between two consensus calls, with every
// transaction of a menu, and the consensus transcript must not change.

func init() { commands["C07"] = c07 }

const c07Extra = 4

// inj is one injected CheckTx.
type inj struct {
	Block int    // index into the history
	Pos   int    // gap position inside that block
	Src   string // scenario the transaction is taken from ("" = this history)
	Tx    int    // flat index of the transaction inside the source history
	Mode  string // "fresh" (new memo, re-signed), "same" (byte-identical), "badsig" (signature broken), "cfg" (see Cfg)
	// mode cfg: the transaction is a configuration proposal of the history; its "key:value" update is replaced by
	// this one (re-signed) - mostly REJECTED proposals: a rejected mempool check must leave no trace either
	Cfg string `json:",omitempty"`
}

type c07Job struct {
	Scn  string
	Injs []inj
	All  bool // additionally CheckTx every transaction right before its own block (the normal mempool flow)
	Keys bool `json:",omitempty"` // not a case: report the option names of the application's governance registry
}

type c07Res struct {
	Err    string
	Diff   string
	Field  string
	Codes  []uint32 // CheckTx result codes of the injected calls
	Blocks int
}

var c07Base = map[string][]*harness.BlockResult{}

func flatTxs(h *hist) []*harness.TxSpec {
	var out []*harness.TxSpec
	for _, b := range h.Blocks {
		out = append(out, b.Txs...)
	}
	return out
}

func injBytes(h *hist, in inj) ([]byte, error) {
	src := h
	if in.Src != "" {
		var err error
		src, err = buildHist(in.Src, 0)
		if err != nil {
			return nil, err
		}
	}
	txs := flatTxs(src)
	if in.Tx >= len(txs) {
		return nil, fmt.Errorf("tx index %d out of range", in.Tx)
	}
	t := *txs[in.Tx]
	switch in.Mode {
	case "cfg":
		c := t.Fresh("cfg")
		c.Data = setLeaves(c.Data, map[string]interface{}{pathKey([]interface{}{"configUpdate"}): in.Cfg})
		return c.Bytes(), nil
	case "same":
		return t.Bytes(), nil
	case "badsig":
		st := t.Signed()
		if len(st.Signatures) > 0 {
			s := append([]byte(nil), st.Signatures[0].Signed...)
			if len(s) > 0 {
				s[0] ^= 1
			}
			st.Signatures[0].Signed = s
		}
		return st.SignedBytes(), nil
	default:
		return t.Fresh("chk").Bytes(), nil
	}
}

func c07Exec(j c07Job) c07Res {
	h, err := buildHist(j.Scn, c07Extra)
	if err != nil {
		return c07Res{Err: err.Error()}
	}
	if j.Keys {
		x, err := harness.StartRun(h.W)
		if err != nil {
			return c07Res{Err: err.Error()}
		}
		defer x.Close()
		keys := x.R.App.VerifGovUpdateKeys()
		sort.Strings(keys)
		return c07Res{Field: strings.Join(keys, ",")}
	}
	base, ok := c07Base[h.ID]
	if !ok {
		base, err = runPlain(h.W, noCheck(h.Blocks), false)
		if err != nil {
			return c07Res{Err: "baseline: " + err.Error()}
		}
		c07Base[h.ID] = base
		h, _ = buildHist(j.Scn, c07Extra)
	}
	var payload [][]byte
	for _, in := range j.Injs {
		b, err := injBytes(h, in)
		if err != nil {
			return c07Res{Err: err.Error()}
		}
		payload = append(payload, b)
	}
	x, err := harness.StartRun(h.W)
	if err != nil {
		return c07Res{Err: err.Error()}
	}
	defer x.Close()
	out := c07Res{Blocks: len(h.Blocks), Codes: make([]uint32, len(j.Injs))}
	for i, b := range h.Blocks {
		b.NoCheck = !j.All
		req := x.Prepare(b)
		res := x.R.ExecBlock(req, false, func(g harness.Gap) bool {
			for k, in := range j.Injs {
				if in.Block == i && in.Pos == g.Pos {
					out.Codes[k] = x.R.CheckTx(payload[k]).Code
				}
			}
			return true
		})
		if x.R.Dead {
			out.Diff = fmt.Sprintf("application panicked in block %d (the run without injected CheckTx did not)", i+1)
			out.Field = "panic"
			return out
		}
		if d := res.Diff(base[i]); d != "" {
			out.Diff, out.Field = d, diffField(d)
			return out
		}
		if err := x.Finish(res); err != nil {
			out.Err = "chain halted: " + err.Error()
			return out
		}
	}
	return out
}

func c07(args []string) int {
	if explore.IsWorker("C07") {
		return workerMain(func(raw json.RawMessage) interface{} {
			var j c07Job
			if err := json.Unmarshal(raw, &j); err != nil {
				return c07Res{Err: err.Error()}
			}
			if os.Getenv("VERIF_NOCONFIRM") != "" {
				return c07Exec(j) // the master is re-running an unstable case in a process of its own
			}
			r, ok := confirm(func() c07Res { return c07Exec(j) }, func(r c07Res) bool { return r.Diff != "" })
			if !ok {
				return c07Res{Err: unstableMsg}
			}
			return r
		})
	}
	f := explore.ParseFlags("C07", args, nil)
	if f.Replay != "" {
		var doc struct {
			Case c07Job `json:"case"`
		}
		if err := readJSON(f.Replay, &doc); err != nil {
			fmt.Println(err)
			return 2
		}
		harness.SilenceStdout()
		defer harness.RemoveScratch()
		r := c07Exec(doc.Case)
		b, _ := json.MarshalIndent(r, "", " ")
		harness.Outf("%s\n", b)
		if r.Diff != "" {
			return 1
		}
		return 0
	}
	harness.SilenceStdout()
	rep := explore.NewReporter("C07", "model_checking", f, harness.Out())
	deadline := tierBudget(f, 10*time.Minute, 45*time.Minute)
	keep := scenarioFilter()
	all := catalogue.All()
	// foreign menu: the target transaction of one scenario per kind
	type foreign struct {
		scn string
		tx  int
	}
	var foreignMenu []foreign
	seenKind := map[string]bool{}
	for _, sc := range all {
		if seenKind[sc.Kind] {
			continue
		}
		seenKind[sc.Kind] = true
		h, err := buildHist(sc.ID(), 0)
		if err != nil {
			continue
		}
		n := 0
		for i := 0; i < h.Target; i++ {
			n += len(h.Blocks[i].Txs)
		}
		foreignMenu = append(foreignMenu, foreign{sc.ID(), n})
	}
	// the option names of the governance registry (for the configuration-value variants below)
	var govKeys []string
	if len(all) > 0 {
		explore.RunJobs("C07", 1, []interface{}{c07Job{Scn: all[0].ID(), Keys: true}}, 2*time.Minute, time.Time{}, nil, func(jr explore.JobResult) {
			var r c07Res
			if json.Unmarshal(jr.Out, &r) == nil && r.Field != "" {
				govKeys = strings.Split(r.Field, ",")
			}
		})
	}
	cfgRuns := 0
	var jobList []c07Job
	scnCount, gapCount := 0, 0
	for _, sc := range all {
		if !keep(sc.ID()) {
			continue
		}
		h, err := buildHist(sc.ID(), c07Extra)
		if err != nil {
			continue
		}
		scnCount++
		jobList = append(jobList, c07Job{Scn: sc.ID(), All: true})
		own := len(flatTxs(h))
		var menu []inj
		for t := 0; t < own; t++ {
			menu = append(menu, inj{Tx: t, Mode: "fresh"}, inj{Tx: t, Mode: "same"})
		}
		if own > 0 {
			menu = append(menu, inj{Tx: own - 1, Mode: "badsig"})
		}
		for k, fm := range foreignMenu {
			if fm.scn == sc.ID() {
				continue
			}
			if f.Tier == "quick" && k%4 != len(sc.ID())%4 && kindModule(catalogue.Get(fm.scn).Kind) != kindModule(sc.Kind) {
				// quick: every foreign kind of the history's OWN module (its handlers work on the same store objects,
				// cursors and option copies as the history's transactions) plus a quarter of the other kinds per
				// history (all kinds are spread over the catalogue)
				continue
			}
			menu = append(menu, inj{Src: fm.scn, Tx: fm.tx, Mode: "fresh"})
		}
		var gaps []inj
		lastBlock := len(h.Blocks) - c07Extra + 2
		for i := 0; i < lastBlock && i < len(h.Blocks); i++ {
			n := h.txCount(i)
			first := 1
			if i == 0 {
				first = 0
			}
			for p := first; p <= 3+n; p++ {
				gaps = append(gaps, inj{Block: i, Pos: p})
			}
		}
		gapCount += len(gaps)
		for _, g := range gaps {
			for _, m := range menu {
				m.Block, m.Pos = g.Block, g.Pos
				jobList = append(jobList, c07Job{Scn: sc.ID(), Injs: []inj{m}})
			}
		}
		// configuration proposals of the history: right after the BeginBlock of their block, the mempool checks
		// variants whose update names every option of the same family (thorough: every option of the registry)
		// with every value of the hostile-number menu - nearly all of them are REJECTED there, and a rejected
		// check must leave no trace: no store object, no cache, no package-level bound may remember it. (Added
		// after a seeded change - a range check that wrote the excess of an out-of-range value into the shared
		// upper bound - escaped a menu of valid transactions and broken signatures.)
		flatIdx := 0
		for bi := 0; bi < len(h.Blocks); bi++ {
			for _, t := range h.Blocks[bi].Txs {
				idx := flatIdx
				flatIdx++
				if t.Type != action.PROPOSAL_CREATE {
					continue
				}
				var p struct {
					ConfigUpdate string `json:"configUpdate"`
				}
				if json.Unmarshal(t.Data, &p) != nil || !strings.Contains(p.ConfigUpdate, ":") {
					continue
				}
				family := strings.SplitN(p.ConfigUpdate, ".", 2)[0]
				for _, k := range govKeys {
					if f.Tier == "quick" && !strings.HasPrefix(k, family+".") {
						continue
					}
					for _, v := range c18GovValues {
						jobList = append(jobList, c07Job{Scn: sc.ID(), Injs: []inj{{Block: bi, Pos: 1, Tx: idx, Mode: "cfg", Cfg: k + ":" + v}}})
						cfgRuns++
					}
				}
			}
		}
		if f.Tier == "thorough" {
			// two injections in different gaps: own fresh transactions only
			for a := 0; a < len(gaps); a++ {
				for b := a + 1; b < len(gaps) && gaps[b].Block-gaps[a].Block <= 1; b++ {
					for t1 := 0; t1 < own; t1++ {
						for t2 := 0; t2 < own; t2++ {
							jobList = append(jobList, c07Job{Scn: sc.ID(), Injs: []inj{
								{Block: gaps[a].Block, Pos: gaps[a].Pos, Tx: t1, Mode: "fresh"},
								{Block: gaps[b].Block, Pos: gaps[b].Pos, Tx: t2, Mode: "fresh"},
							}})
						}
					}
				}
			}
		}
	}
	jobs := make([]interface{}, len(jobList))
	for i := range jobList {
		jobs[i] = jobList[i]
	}
	var done, harnessErr, accepted, rejected int
	var errSamples []string
	distinct := map[string]bool{}
	var unstable []c07Job
	skipped := explore.RunJobs("C07", f.Workers, jobs, 3*time.Minute, deadline, nil, func(jr explore.JobResult) {
		j := jobList[jr.Index]
		done++
		var r c07Res
		if jr.Died || jr.Timeout {
			// a worker that dies while a CheckTx is injected is itself a divergence from the baseline run
			rep.Violation(fmt.Sprintf("C07|process-died|scn=%s", j.Scn), "worker process died or hung with an injected CheckTx: "+tail(jr.Stderr, 300), j)
			return
		}
		if err := json.Unmarshal(jr.Out, &r); err == nil && r.Err == unstableMsg {
			unstable = append(unstable, j)
			return
		}
		if err := json.Unmarshal(jr.Out, &r); err != nil || r.Err != "" {
			harnessErr++
			if len(errSamples) < 5 {
				errSamples = append(errSamples, fmt.Sprintf("%+v: %s %v", j, r.Err, err))
			}
			return
		}
		for k, c := range r.Codes {
			if c == 0 {
				accepted++
				distinct[fmt.Sprintf("%s|%d|%d|%s|%d|%s", j.Scn, j.Injs[k].Block, j.Injs[k].Pos, j.Injs[k].Src, j.Injs[k].Tx, j.Injs[k].Mode+j.Injs[k].Cfg)] = true
			} else {
				rejected++
			}
		}
		if len(j.Injs) == 1 && j.Injs[0].Pos == 2 && j.Injs[0].Mode == "fresh" {
			rep.Sample(map[string]interface{}{"scenario": j.Scn, "inject": j.Injs, "checktx_codes": r.Codes})
		}
		if r.Diff != "" {
			where, src := "all-own", ""
			if len(j.Injs) > 0 {
				h, _ := buildHist(j.Scn, c07Extra)
				where = posName(j.Injs[0].Pos, h.txCount(j.Injs[0].Block))
				src = j.Injs[0].Src
				if src == "" {
					src = "own"
				}
				src += ":" + j.Injs[0].Mode
				if j.Injs[0].Cfg != "" {
					src += "=" + j.Injs[0].Cfg
				}
			}
			sig := fmt.Sprintf("C07|consensus-changed|scn=%s|gap=%s|checked=%s|field=%s|n=%d", j.Scn, where, src, r.Field, len(j.Injs))
			rep.Violation(sig, r.Diff, j)
		}
	})
	rep.Set("states", gapCount)
	rep.Set("transitions", done)
	rep.Set("traces_validated_against_impl", done)
	// a verdict that differs between executions of ONE case inside one process points at state that outlives the
	// application instance (a package-level variable written by a handler): the case is run again, once each, in
	// two processes of its own - if the mempool check changes the consensus results in both, it is a violation that
	// merely poisons the process it ran in; otherwise it stays a harness error
	for _, uj := range unstable {
		var diffs []string
		field := ""
		for round := 0; round < 2; round++ {
			explore.RunJobs("C07", 1, []interface{}{uj}, 3*time.Minute, time.Time{}, []string{"VERIF_NOCONFIRM=1"}, func(jr explore.JobResult) {
				var r c07Res
				if !jr.Died && !jr.Timeout && json.Unmarshal(jr.Out, &r) == nil && r.Err == "" && r.Diff != "" {
					diffs = append(diffs, r.Diff)
					field = r.Field
				}
			})
		}
		if len(diffs) == 2 && len(uj.Injs) > 0 {
			h, _ := buildHist(uj.Scn, c07Extra)
			src := uj.Injs[0].Src
			if src == "" {
				src = "own"
			}
			src += ":" + uj.Injs[0].Mode
			if uj.Injs[0].Cfg != "" {
				src += "=" + uj.Injs[0].Cfg
			}
			sig := fmt.Sprintf("C07|consensus-changed|scn=%s|gap=%s|checked=%s|field=%s|n=%d|in-a-fresh-process", uj.Scn, posName(uj.Injs[0].Pos, h.txCount(uj.Injs[0].Block)), src, field, len(uj.Injs))
			rep.Violation(sig, "reproduces in every fresh process, not in a process that has run the case before (state that outlives the application instance): "+diffs[0], uj)
			continue
		}
		harnessErr++
		if len(errSamples) < 5 {
			errSamples = append(errSamples, fmt.Sprintf("%+v: %s", uj, unstableMsg))
		}
	}
	rep.Set("evaluations", done)
	rep.Set("distinct_nontrivial", len(distinct))
	rep.Set("rule", "state = a gap between two consensus calls of a catalogue history; transition = one execution of the whole history on the real application with CheckTx of one menu transaction injected in that gap, transcript compared with the injection-free baseline; non-trivial = the injected CheckTx was ACCEPTED (code 0), i.e. its handler ran to completion against the check state; counted per distinct (history, gap, transaction, mode)")
	rep.Set("scenarios", scnCount)
	rep.Set("gaps", gapCount)
	rep.Set("configuration_value_variants_checked", cfgRuns)
	rep.Set("injected_checktx_accepted", accepted)
	rep.Set("injected_checktx_rejected", rejected)
	rep.Set("harness_errors", harnessErr)
	rep.Set("harness_error_samples", errSamples)
	rep.Set("not_run_due_to_deadline", skipped)
	rep.Set("exhaustive", skipped == 0 && harnessErr == 0)
	rep.Set("bounds", map[string]interface{}{"injected_checktx_per_execution": map[string]int{"quick": 1, "thorough": 2}[f.Tier], "foreign_kinds_in_menu": len(foreignMenu)})
	rep.Assume("CheckTx cannot run during Commit (Tendermint holds the mempool lock); between any other two consensus calls it can")
	if harnessErr > 0 {
		fmt.Fprintf(harness.Out(), "C07: %d harness errors: %v\n", harnessErr, errSamples)
	}
	return rep.Finish()
}

// kindModule groups the transaction kinds by the module whose handlers - and whose store objects - they share.
func kindModule(k string) string {
	switch {
	case strings.Contains(k, "NETWORK_DELEG") || strings.Contains(k, "NETWORK_UNDELEG"):
		return "network-delegation"
	case strings.HasPrefix(k, "DOMAIN_"):
		return "ons"
	case strings.HasPrefix(k, "PROPOSAL_") || k == "EXPIRE_VOTES":
		return "governance"
	case k == "STAKE" || k == "UNSTAKE" || k == "WITHDRAW" || k == "WITHDRAW_REWARD":
		return "staking"
	case strings.HasPrefix(k, "ALLEGATION") || k == "RELEASE":
		return "evidence"
	case strings.HasPrefix(k, "ETH_") || strings.HasPrefix(k, "ERC20_"):
		return "cross-chain"
	case strings.HasPrefix(k, "BID_"):
		return "bid"
	case k == "SEND" || k == "SENDPOOL":
		return "transfer"
	}
	return k
}
