package main

import (
	"os"
	"runtime"
	"runtime/pprof"
	"strings"
	"time"

	"verif/harness"
)

func init() { commands["leak"] = leakCmd }

func rssKB() string {
	b, _ := os.ReadFile("/proc/self/status")
	for _, l := range strings.Split(string(b), "\n") {
		if strings.HasPrefix(l, "VmRSS") {
			return strings.TrimSpace(l[6:])
		}
	}
	return "?"
}

func leakCmd(args []string) int {
	harness.SilenceStdout()
	defer harness.RemoveScratch()
	t0 := time.Now()
	for i := 0; i < 600; i++ {
		w := harness.NewWorld("leak", 4, 3)
		x, err := harness.StartRun(w)
		if err != nil {
			harness.Outf("err %v\n", err)
			return 2
		}
		x.Empty(5)
		x.Close()
		if i%100 == 0 {
			harness.Outf("i=%d rss=%s goroutines=%d elapsed=%v\n", i, rssKB(), runtime.NumGoroutine(), time.Since(t0))
		}
	}
	if len(args) > 0 {
		f, _ := os.Create(args[0])
		pprof.Lookup("goroutine").WriteTo(f, 1)
		f.Close()
	}
	return 0
}
