package main

import (
	"fmt"
	"time"

	"verif/harness"
)

func init() { commands["smoke"] = smoke }

func smoke(args []string) int {
	defer harness.RemoveScratch()
	harness.SilenceStdout()
	w := harness.NewWorld("smoke", 4, 3)
	c := harness.NewChain(w)
	r, err := harness.NewReplica(c, harness.IdentityOf(w.Vals[0]))
	if err != nil {
		harness.Outf("new replica: %v\n", err)
		return 2
	}
	defer r.Close()
	t0 := time.Now()
	ir := r.InitChain()
	if err := c.AfterInit(ir); err != nil {
		harness.Outf("init: %v\n", err)
		return 2
	}
	harness.Outf("init validators=%d dead=%v\n", len(ir.Validators), r.Dead)
	for h := 1; h <= 6; h++ {
		var txs [][]byte
		if h == 2 {
			txs = append(txs, harness.Send(w.Users[0], w.Users[1].Addr, harness.Coin("OLT", harness.OLTUnits(5)), "m1").Bytes())
			cr := r.CheckTx(txs[0])
			harness.Outf("checktx: %v %s\n", cr, cr.Log)
		}
		b := c.NextBlock(txs, 17*time.Second, nil, nil)
		res := r.ExecBlock(b, true, nil)
		if err := c.AfterBlock(res); err != nil {
			harness.Outf("halt: %v\n", err)
			return 1
		}
		harness.Outf("h=%d hash=%x digest=%s txs=%v updates=%d dead=%v\n", h, res.AppHash, res.Digest, res.Txs, len(res.ValUpdates), r.Dead)
		for _, t := range res.Txs {
			if t.Code != 0 {
				harness.Outf("   log: %s\n", t.Log)
			}
		}
	}
	if err := r.CrashRestart(); err != nil {
		harness.Outf("restart: %v\n", err)
		return 2
	}
	info := r.Info()
	harness.Outf("after restart: height=%d hash=%x\n", info.LastBlockHeight, info.LastBlockAppHash)
	harness.Outf("elapsed %v keys=%d\n", time.Since(t0), len(r.Dump()))
	fmt.Sprint()
	return 0
}
