package main

import (
	"fmt"
	"strconv"

	"verif/catalogue"
	"verif/harness"
)

func init() { commands["dump"] = dumpCmd }

// dump <scenario-id> : run a scenario and print the committed key/value state after its last block.
func dumpCmd(args []string) int {
	harness.SilenceStdout()
	defer harness.RemoveScratch()
	if len(args) < 1 {
		for _, s := range catalogue.All() {
			harness.Outf("%s\n", s.ID())
		}
		return 0
	}
	sc := catalogue.Get(args[0])
	if sc == nil {
		harness.Outf("unknown scenario\n")
		return 2
	}
	x, chk, dlv, err := harness.RunScenario(sc)
	if x != nil {
		defer x.Close()
	}
	harness.Outf("check=%v deliver=%v err=%v\n", chk, dlv, err)
	if x == nil {
		return 2
	}
	for _, kv := range x.R.Dump() {
		v := string(kv.V)
		if len(v) > 160 {
			v = v[:160] + "..."
		}
		harness.Outf("%s = %s\n", strconv.Quote(string(kv.K)), strconv.Quote(v))
	}
	_ = fmt.Sprint
	return 0
}
