package main

import (
	"bytes"
	"encoding/base64"
	"encoding/json"
	"fmt"
	"sort"
	"strings"
	"time"

	"github.com/Oneledger/protocol/action"
	"github.com/Oneledger/protocol/data/balance"
	"github.com/Oneledger/protocol/data/keys"

	"verif/catalogue"
	"verif/explore"
	"verif/harness"
)

// C04 — only authentically signed, untampered transactions are admitted or executed.
// For every catalogue scenario the valid target transaction T is mutated by every operator of a
// finite list (each payload field, each fee field, memo, type, signature bytes, signer key, key
// algorithm, signature list shape). Every mutant must be rejected by CheckTx and, delivered in a
// block, must leave the state and all consensus results exactly as in the twin run without it.

func init() { commands["C04"] = c04 }

type c04Job struct {
	Scn  string
	Op   int    // index into mutants(T)
	Name string // operator name (for the record; the index decides)
	Path string // "check" or "deliver"
	Sig  string `json:",omitempty"` // "" = signed plainly; "prehash" = the original is signed in hardware-wallet mode (hash tag + signature over the digest)
}

type c04Res struct {
	Err       string
	Skip      string // mutant not applicable (e.g. identical bytes)
	Accepted  bool   // CheckTx code 0 / DeliverTx code 0
	Effect    string // deliver path: difference to the twin ("" = none)
	Field     string
	Code      uint32
	Log       string
	BaseOK    bool
	Different bool
}

type mutant struct {
	name string
	tx   action.SignedTx
}

// jsonLeafMutations returns, for a JSON document, one mutated document per leaf value.
func jsonLeafMutations(doc []byte) (names []string, docs [][]byte) {
	var v interface{}
	dec := json.NewDecoder(bytes.NewReader(doc))
	dec.UseNumber()
	if err := dec.Decode(&v); err != nil {
		return nil, nil
	}
	type path []interface{}
	var leaves []path
	var walk func(x interface{}, p path)
	walk = func(x interface{}, p path) {
		switch t := x.(type) {
		case map[string]interface{}:
			ks := make([]string, 0, len(t))
			for k := range t {
				ks = append(ks, k)
			}
			sort.Strings(ks)
			for _, k := range ks {
				walk(t[k], append(append(path{}, p...), k))
			}
		case []interface{}:
			for i := range t {
				walk(t[i], append(append(path{}, p...), i))
			}
			if len(t) == 0 {
				leaves = append(leaves, p)
			}
		default:
			leaves = append(leaves, p)
		}
	}
	walk(v, nil)
	mutate := func(x interface{}) interface{} {
		switch t := x.(type) {
		case string:
			// addresses / hex / base64 / decimal strings: change the last character within its class
			if len(t) == 0 {
				return "x"
			}
			// a base64 blob (embedded Ethereum transaction, byte field): one bit of its CONTENT flipped, so that the
			// mutant still decodes and reaches the check the operator is aimed at (changing the last character of
			// the text gave illegal base64: refused by the decoder, never by the signature check)
			allHex := true
			for _, ch := range t {
				if !strings.ContainsRune("0123456789abcdefABCDEF", ch) {
					allHex = false
					break
				}
			}
			if raw, err := base64.StdEncoding.DecodeString(t); err == nil && len(raw) >= 4 && !allHex {
				raw[len(raw)/2] ^= 0x01
				return base64.StdEncoding.EncodeToString(raw)
			}
			b := []byte(t)
			c := b[len(b)-1]
			switch {
			case c >= '0' && c <= '8':
				b[len(b)-1] = c + 1
			case c == '9':
				b[len(b)-1] = '8'
			case c == 'a' || c == 'A':
				b[len(b)-1] = c + 1
			case (c >= 'b' && c <= 'f') || (c >= 'B' && c <= 'F'):
				b[len(b)-1] = c - 1
			default:
				return t + "x"
			}
			return string(b)
		case json.Number:
			s := t.String()
			if len(s) > 0 && s[len(s)-1] >= '0' && s[len(s)-1] <= '8' {
				return json.Number(s[:len(s)-1] + string(s[len(s)-1]+1))
			}
			return json.Number(s[:len(s)-1] + "8")
		case bool:
			return !t
		case nil:
			return "x"
		case []interface{}:
			return []interface{}{"x"}
		}
		return x
	}
	nullAlts := []interface{}{"x", []interface{}{}, map[string]interface{}{}, json.Number("1"), true,
		[]interface{}{map[string]interface{}{"address": "0x0000000000000000000000000000000000000001", "storageKeys": []interface{}{}}}}
	type leafAlt struct {
		p   path
		alt int // -1 = default mutation
	}
	var work []leafAlt
	for _, p := range leaves {
		work = append(work, leafAlt{p, -1})
		if isNullAt(v, p) {
			for a := 1; a < len(nullAlts); a++ {
				work = append(work, leafAlt{p, a})
			}
		}
	}
	for _, wk := range work {
		p := wk.p
		// deep copy via re-decode
		var c interface{}
		d2 := json.NewDecoder(bytes.NewReader(doc))
		d2.UseNumber()
		d2.Decode(&c)
		var set func(x interface{}, p path) interface{}
		set = func(x interface{}, p path) interface{} {
			if len(p) == 0 {
				if wk.alt >= 0 {
					return nullAlts[wk.alt]
				}
				return mutate(x)
			}
			switch t := x.(type) {
			case map[string]interface{}:
				t[p[0].(string)] = set(t[p[0].(string)], p[1:])
				return t
			case []interface{}:
				t[p[0].(int)] = set(t[p[0].(int)], p[1:])
				return t
			}
			return x
		}
		c = set(c, p)
		// (keys in the order of the original document: kinds that insist on the canonical serialisation of
		// their payload - OLVM - would otherwise refuse every mutant for its key order alone and the operator
		// would never reach the check it is aimed at)
		b := orderedMarshal(c, doc)
		if b == nil || bytes.Equal(b, doc) {
			continue
		}
		name := "data"
		for _, e := range p {
			name += fmt.Sprintf(".%v", e)
		}
		if wk.alt >= 0 {
			name += fmt.Sprintf("=null-alt%d", wk.alt)
		}
		names = append(names, name)
		docs = append(docs, b)
	}
	return
}

// orderedMarshal serialises v with the object keys in the order in which `like` has them (recursively); keys
// that `like` does not have follow in sorted order; shapes that differ fall back to encoding/json.
func orderedMarshal(v interface{}, like []byte) []byte {
	switch t := v.(type) {
	case map[string]interface{}:
		var order []string
		sub := map[string]json.RawMessage{}
		dec := json.NewDecoder(bytes.NewReader(like))
		if tok, err := dec.Token(); err == nil && tok == json.Delim('{') {
			for dec.More() {
				kt, err := dec.Token()
				if err != nil {
					break
				}
				k, _ := kt.(string)
				var raw json.RawMessage
				if dec.Decode(&raw) != nil {
					break
				}
				if _, dup := sub[k]; !dup {
					order = append(order, k)
				}
				sub[k] = raw
			}
		}
		var rest []string
		for k := range t {
			if _, ok := sub[k]; !ok {
				rest = append(rest, k)
			}
		}
		sort.Strings(rest)
		var b bytes.Buffer
		b.WriteByte('{')
		n := 0
		for _, k := range append(order, rest...) {
			val, ok := t[k]
			if !ok {
				continue
			}
			if n > 0 {
				b.WriteByte(',')
			}
			n++
			kb, _ := json.Marshal(k)
			b.Write(kb)
			b.WriteByte(':')
			vb := orderedMarshal(val, sub[k])
			if vb == nil {
				return nil
			}
			b.Write(vb)
		}
		b.WriteByte('}')
		return b.Bytes()
	case []interface{}:
		var elems []json.RawMessage
		json.Unmarshal(like, &elems)
		var b bytes.Buffer
		b.WriteByte('[')
		for i, e := range t {
			if i > 0 {
				b.WriteByte(',')
			}
			var l []byte
			if i < len(elems) {
				l = elems[i]
			}
			vb := orderedMarshal(e, l)
			if vb == nil {
				return nil
			}
			b.Write(vb)
		}
		b.WriteByte(']')
		return b.Bytes()
	}
	b, err := json.Marshal(v)
	if err != nil {
		return nil
	}
	return b
}

func isNullAt(v interface{}, p []interface{}) bool {
	for _, e := range p {
		switch t := v.(type) {
		case map[string]interface{}:
			v = t[e.(string)]
		case []interface{}:
			v = t[e.(int)]
		default:
			return false
		}
	}
	return v == nil
}

var c04Types = []action.Type{action.SEND, action.SENDPOOL, action.STAKE, action.UNSTAKE, action.WITHDRAW,
	action.ADD_NETWORK_DELEGATE, action.NETWORK_UNDELEGATE, action.REWARDS_WITHDRAW_NETWORK_DELEGATE, action.REWARDS_REINVEST_NETWORK_DELEGATE,
	action.ALLEGATION, action.ALLEGATION_VOTE, action.RELEASE,
	action.DOMAIN_CREATE, action.DOMAIN_UPDATE, action.DOMAIN_SELL, action.DOMAIN_PURCHASE, action.DOMAIN_SEND, action.DOMAIN_DELETE_SUB, action.DOMAIN_RENEW,
	action.BTC_LOCK, action.ETH_LOCK, action.ETH_REPORT_FINALITY_MINT, action.ETH_REDEEM, action.ERC20_LOCK, action.ERC20_REDEEM,
	action.PROPOSAL_CREATE, action.PROPOSAL_CANCEL, action.PROPOSAL_FUND, action.PROPOSAL_VOTE, action.PROPOSAL_FINALIZE, action.EXPIRE_VOTES, action.PROPOSAL_WITHDRAW_FUNDS,
	action.WITHDRAW_REWARD, action.OLVM, action.Type(0), action.Type(0x7777)}

// mutants enumerates the operator list for one valid transaction (deterministic order).
func mutants(t *harness.TxSpec, w *harness.World) []mutant {
	orig := t.Signed()
	clone := func() action.SignedTx {
		c := orig
		c.Data = append([]byte(nil), orig.Data...)
		c.Signatures = make([]action.Signature, len(orig.Signatures))
		for i, s := range orig.Signatures {
			c.Signatures[i] = action.Signature{Signer: keys.PublicKey{KeyType: s.Signer.KeyType, Data: append([]byte(nil), s.Signer.Data...)}, Signed: append([]byte(nil), s.Signed...)}
		}
		return c
	}
	var out []mutant
	add := func(name string, f func(c *action.SignedTx)) {
		c := clone()
		f(&c)
		out = append(out, mutant{name, c})
	}
	// payload fields (tampering after signing: signatures stay)
	names, docs := jsonLeafMutations(orig.Data)
	for i := range names {
		d := docs[i]
		add("payload:"+names[i], func(c *action.SignedTx) { c.Data = d })
	}
	if len(names) == 0 {
		add("payload:append-byte", func(c *action.SignedTx) { c.Data = append(c.Data, ' ') })
	}
	// fee and memo
	add("fee.price.value+1", func(c *action.SignedTx) {
		v := new(balance.Amount)
		*v = *balance.NewAmountFromBigInt(c.Fee.Price.Value.BigInt())
		c.Fee.Price.Value = *v.Plus(*balance.NewAmount(1))
	})
	add("fee.price.currency", func(c *action.SignedTx) {
		if c.Fee.Price.Currency == "OLT" {
			c.Fee.Price.Currency = "ETH"
		} else {
			c.Fee.Price.Currency = "OLT"
		}
	})
	add("fee.gas+1", func(c *action.SignedTx) { c.Fee.Gas++ })
	add("fee.gas-1", func(c *action.SignedTx) { c.Fee.Gas-- })
	add("memo+x", func(c *action.SignedTx) { c.Memo += "x" })
	for _, ty := range c04Types {
		if ty == orig.Type {
			continue
		}
		ty := ty
		add(fmt.Sprintf("type=%#x", int(ty)), func(c *action.SignedTx) { c.Type = ty })
	}
	// signatures
	attacker := harness.NewAccount("attacker")
	rawMsg := orig.RawBytes()
	for i := range orig.Signatures {
		i := i
		add(fmt.Sprintf("sig[%d]:bitflip", i), func(c *action.SignedTx) {
			if len(c.Signatures[i].Signed) > 0 {
				c.Signatures[i].Signed[len(c.Signatures[i].Signed)/2] ^= 0x04
			}
		})
		add(fmt.Sprintf("sig[%d]:truncated", i), func(c *action.SignedTx) {
			if n := len(c.Signatures[i].Signed); n > 0 {
				c.Signatures[i].Signed = c.Signatures[i].Signed[:n-1]
			}
		})
		add(fmt.Sprintf("sig[%d]:empty", i), func(c *action.SignedTx) { c.Signatures[i].Signed = nil })
		// signature bytes with something added: the field must BE a signature, not merely contain one
		add(fmt.Sprintf("sig[%d]:one-byte-appended", i), func(c *action.SignedTx) { c.Signatures[i].Signed = append(c.Signatures[i].Signed, 0) })
		add(fmt.Sprintf("sig[%d]:two-bytes-appended", i), func(c *action.SignedTx) { c.Signatures[i].Signed = append(c.Signatures[i].Signed, 0x90, 0) })
		add(fmt.Sprintf("sig[%d]:one-byte-prepended", i), func(c *action.SignedTx) {
			c.Signatures[i].Signed = append([]byte{0}, c.Signatures[i].Signed...)
		})
		add(fmt.Sprintf("sig[%d]:hash-tag-prepended", i), func(c *action.SignedTx) {
			c.Signatures[i].Signed = append([]byte(keys.SHA256), c.Signatures[i].Signed...)
		})
		add(fmt.Sprintf("sig[%d]:hash-tag-replaced-or-stripped", i), func(c *action.SignedTx) {
			// a hardware-wallet signature names the digest it was made over: another tag (same signature bytes),
			// or for a plain signature its first six bytes overwritten by a tag
			if sg := c.Signatures[i].Signed; len(sg) >= keys.TAGLEN {
				if string(sg[:keys.TAGLEN]) == keys.SHA256 {
					copy(sg, keys.SHA512)
				} else {
					copy(sg, keys.SHA256)
				}
			}
		})
		add(fmt.Sprintf("sig[%d]:other-message", i), func(c *action.SignedTx) {
			if i < len(t.Signers) {
				c.Signatures[i].Signed = t.Signers[i].Sign(append(append([]byte(nil), rawMsg...), 'x'))
			} else {
				c.Signatures[i].Signed = attacker.Sign(rawMsg)
			}
		})
		add(fmt.Sprintf("sig[%d]:attacker-key-and-signature", i), func(c *action.SignedTx) {
			c.Signatures[i] = action.Signature{Signer: attacker.Pub, Signed: attacker.Sign(rawMsg)}
		})
		if t.SignFn != nil {
			// sender-recovery signatures (OLVM): the Signer key field is not what authenticates the
			// transaction, so changing only that field leaves an authentically signed, untampered
			// transaction; it is an altered unsigned field, i.e. a re-encoding (enumerated by C05)
			continue
		}
		add(fmt.Sprintf("sig[%d]:attacker-key-only", i), func(c *action.SignedTx) { c.Signatures[i].Signer = attacker.Pub })
		// the key of a FUNDED account that has nothing to do with the transaction (the fee step charges the
		// owner of the first signer key: with an unfunded key a forged transaction dies there, for the wrong reason)
		if by := bystander(t, w); by != nil {
			add(fmt.Sprintf("sig[%d]:key-of-a-funded-bystander", i), func(c *action.SignedTx) { c.Signatures[i].Signer = by.Pub })
		}
		for _, alg := range []keys.Algorithm{keys.ED25519, keys.SECP256K1, keys.ETHSECP, keys.BTCECSECP} {
			if alg == orig.Signatures[i].Signer.KeyType {
				continue
			}
			alg := alg
			add(fmt.Sprintf("sig[%d]:key-algorithm=%s", i, alg.String()), func(c *action.SignedTx) { c.Signatures[i].Signer.KeyType = alg })
		}
		add(fmt.Sprintf("sig[%d]:btcec-key-of-attacker", i), func(c *action.SignedTx) {
			// a syntactically valid compressed secp256k1 point under the BTCEC tag
			c.Signatures[i].Signer = keys.PublicKey{KeyType: keys.BTCECSECP, Data: harness.NewSecpAccount("attacker-btcec").Pub.Data}
		})
	}
	// cross-slot substitutions (each slot keeps one half of its own signature object)
	for i := range orig.Signatures {
		for j := range orig.Signatures {
			if i == j {
				continue
			}
			i, j := i, j
			add(fmt.Sprintf("sig[%d]:signature-bytes-of-slot-%d", i, j), func(c *action.SignedTx) {
				c.Signatures[i].Signed = append([]byte(nil), orig.Signatures[j].Signed...)
			})
			add(fmt.Sprintf("sig[%d]:signer-key-of-slot-%d", i, j), func(c *action.SignedTx) {
				c.Signatures[i].Signer = orig.Signatures[j].Signer
			})
		}
	}
	// an attacker who holds one of the required keys signs in every slot with it, keeping the other
	// slots' public keys (the required signer's key is public knowledge)
	if len(orig.Signatures) >= 2 {
		for j := range orig.Signatures {
			j := j
			add(fmt.Sprintf("siglist:all-signature-bytes-from-slot-%d", j), func(c *action.SignedTx) {
				for i := range c.Signatures {
					c.Signatures[i].Signed = append([]byte(nil), orig.Signatures[j].Signed...)
				}
			})
		}
	}
	add("siglist:drop-last", func(c *action.SignedTx) {
		if len(c.Signatures) > 0 {
			c.Signatures = c.Signatures[:len(c.Signatures)-1]
		}
	})
	add("siglist:drop-first", func(c *action.SignedTx) {
		if len(c.Signatures) > 0 {
			c.Signatures = c.Signatures[1:]
		}
	})
	add("siglist:none", func(c *action.SignedTx) { c.Signatures = nil })
	add("siglist:duplicate-first", func(c *action.SignedTx) {
		if len(c.Signatures) > 0 {
			c.Signatures = append(c.Signatures, c.Signatures[0])
		}
	})
	add("siglist:append-attacker", func(c *action.SignedTx) {
		c.Signatures = append(c.Signatures, action.Signature{Signer: attacker.Pub, Signed: attacker.Sign(rawMsg)})
	})
	if len(orig.Signatures) >= 2 {
		add("siglist:swap-first-two", func(c *action.SignedTx) { c.Signatures[0], c.Signatures[1] = c.Signatures[1], c.Signatures[0] })
		add("siglist:first-twice", func(c *action.SignedTx) { c.Signatures[1] = c.Signatures[0] })
	}
	add("siglist:all-attacker", func(c *action.SignedTx) {
		for i := range c.Signatures {
			c.Signatures[i] = action.Signature{Signer: attacker.Pub, Signed: attacker.Sign(rawMsg)}
		}
	})
	return out
}

// bitflips (thorough): one bit flipped at every byte position of the wire form.
// bystander returns a funded user of the world that is not a signer of t (nil if there is none).
func bystander(t *harness.TxSpec, w *harness.World) *harness.Account {
	if w == nil {
		return nil
	}
next:
	for _, u := range w.Users {
		for _, sg := range t.Signers {
			if sg.Addr.Equal(u.Addr) {
				continue next
			}
		}
		if u.Pub.KeyType == keys.ED25519 {
			return u
		}
	}
	return nil
}

func bitflipCount(t *harness.TxSpec) int { return len(t.Bytes()) }

func c04Payload(h *hist, op int, sigMode string) (name string, wire []byte, orig []byte, err error) {
	t := withSigMode(h.Blocks[h.Target].Txs[0], sigMode)
	orig = t.Bytes()
	ms := mutants(t, h.W)
	if op < len(ms) {
		m := ms[op]
		return m.name, m.tx.SignedBytes(), orig, nil
	}
	pos := op - len(ms)
	if pos >= len(orig) {
		return "", nil, nil, fmt.Errorf("operator %d out of range", op)
	}
	b := append([]byte(nil), orig...)
	b[pos] ^= 0x01
	return fmt.Sprintf("wire-bitflip@%d", pos), b, orig, nil
}

// sameParsed reports whether two wire forms parse to the same (type,data,fee,memo,signatures).
func sameParsed(a, b []byte) bool {
	var x, y action.SignedTx
	if json.Unmarshal(a, &x) != nil || json.Unmarshal(b, &y) != nil {
		return false
	}
	xb, _ := json.Marshal(x)
	yb, _ := json.Marshal(y)
	return bytes.Equal(xb, yb)
}

const c04After = 2

func c04Exec(j c04Job) c04Res {
	h, err := buildHist(j.Scn, 0)
	if err != nil {
		return c04Res{Err: err.Error()}
	}
	_, wire, orig, err := c04Payload(h, j.Op, j.Sig)
	if err != nil {
		return c04Res{Err: err.Error()}
	}
	if bytes.Equal(wire, orig) {
		return c04Res{Skip: "mutant identical to the original"}
	}
	if sameParsed(wire, orig) {
		return c04Res{Skip: "parsed content unchanged (re-encoding: subject of C05)"}
	}
	prefix := noCheck(h.Blocks[:h.Target])
	warm := strings.HasSuffix(j.Path, "-warm")
	run := func(extra [][]byte, check []byte) (res []*harness.BlockResult, chk harness.TxRes, dead bool, err error) {
		hh, _ := buildHist(j.Scn, 0)
		x, err := harness.StartRun(hh.W)
		if err != nil {
			return nil, chk, false, err
		}
		defer x.Close()
		for i, b := range noCheck(hh.Blocks[:hh.Target]) {
			if _, err := x.Block(b); err != nil {
				return nil, chk, false, fmt.Errorf("prefix block %d: %v", i+1, err)
			}
		}
		if warm {
			// the node has seen the GENUINE transaction first: checked by its mempool (check path) or checked and
			// executed in a block of its own (deliver path); the mutant arrives afterwards
			if c := x.R.CheckTx(orig); c.Code != 0 {
				return nil, chk, false, fmt.Errorf("warm: the original is not admitted: %s", tail(c.Log, 120))
			}
			if check == nil {
				if _, err := x.BlockAt(harness.BlockSpec{Raw: [][]byte{orig}, NoCheck: true}, true, nil); err != nil {
					return nil, chk, false, fmt.Errorf("warm: block with the original: %v", err)
				}
				prefix = append(noCheck(hh.Blocks[:hh.Target]), harness.BlockSpec{})
			}
		}
		if check != nil {
			chk = x.R.CheckTx(check)
			return nil, chk, x.R.Dead, nil
		}
		if _, err := x.BlockAt(harness.BlockSpec{Raw: extra, NoCheck: true}, true, nil); err != nil {
			return x.Results, chk, x.R.Dead, nil
		}
		for k := 0; k < c04After && !x.R.Dead; k++ {
			if _, err := x.BlockAt(harness.BlockSpec{}, true, nil); err != nil {
				break
			}
		}
		return x.Results[len(prefix):], chk, x.R.Dead, nil
	}
	out := c04Res{}
	if j.Path == "check" || j.Path == "check-warm" {
		_, chk, dead, err := run(nil, wire)
		if err != nil && strings.HasPrefix(err.Error(), "warm: ") {
			return c04Res{Skip: "the mempool check does not admit the original in this state (it runs against the previous header): no node can have seen it first"}
		}
		if err != nil {
			return c04Res{Err: err.Error()}
		}
		out.Code, out.Log = chk.Code, tail(chk.Log, 200)
		out.Accepted = chk.Code == 0 && !dead
		if dead {
			out.Effect, out.Field = "application panicked (and closed itself) in CheckTx", "panic"
		}
		return out
	}
	twin, _, _, err := run(nil, nil)
	if err != nil && strings.HasPrefix(err.Error(), "warm: ") {
		return c04Res{Skip: "the mempool check does not admit the original in this state (it runs against the previous header): no node can have seen it first"}
	}
	if err != nil {
		return c04Res{Err: "twin: " + err.Error()}
	}
	got, _, dead, err := run([][]byte{wire}, nil)
	if err != nil {
		return c04Res{Err: err.Error()}
	}
	if dead {
		out.Effect, out.Field = "application panicked while executing the block with the mutant", "panic"
		return out
	}
	if len(got) > 0 && len(got[0].Txs) == 1 {
		out.Code, out.Log = got[0].Txs[0].Code, tail(got[0].Txs[0].Log, 200)
		out.Accepted = out.Code == 0
	}
	for i := range twin {
		if i >= len(got) {
			out.Effect, out.Field = "run with the mutant stopped early", "halt"
			break
		}
		if got[i].Digest != twin[i].Digest {
			out.Effect = fmt.Sprintf("state after block +%d differs from the twin without the mutant", i)
			out.Field = "state"
			break
		}
		a, b := *got[i], *twin[i]
		a.Txs, b.Txs = nil, nil
		if d := a.Diff(&b); d != "" {
			out.Effect, out.Field = d, diffField(d)
			break
		}
	}
	return out
}

func c04(args []string) int {
	if explore.IsWorker("C04") {
		return workerMain(func(raw json.RawMessage) interface{} {
			var j c04Job
			if err := json.Unmarshal(raw, &j); err != nil {
				return c04Res{Err: err.Error()}
			}
			r, ok := confirm(func() c04Res { return c04Exec(j) }, func(r c04Res) bool { return r.Effect != "" || (strings.HasPrefix(j.Path, "check") && r.Accepted) })
			if !ok {
				return c04Res{Err: unstableMsg}
			}
			return r
		})
	}
	f := explore.ParseFlags("C04", args, nil)
	if f.Replay != "" {
		var doc struct {
			Case c04Job `json:"case"`
		}
		if err := readJSON(f.Replay, &doc); err != nil {
			fmt.Println(err)
			return 2
		}
		harness.SilenceStdout()
		defer harness.RemoveScratch()
		r := c04Exec(doc.Case)
		b, _ := json.MarshalIndent(r, "", " ")
		harness.Outf("%s\n", b)
		if (strings.HasPrefix(doc.Case.Path, "check") && r.Accepted) || r.Effect != "" {
			return 1
		}
		return 0
	}
	harness.SilenceStdout()
	rep := explore.NewReporter("C04", "exploration", f, harness.Out())
	deadline := tierBudget(f, 10*time.Minute, 45*time.Minute)
	keep := scenarioFilter()
	var jobList []c04Job
	kinds := map[string]bool{}
	opsPerKind := map[string]int{}
	prehashOps := map[string]int{}
	for _, sc := range catalogue.All() {
		if !keep(sc.ID()) {
			continue
		}
		// both tiers use every scenario of the catalogue: the states differ in what they let through (the
		// nonce-gap history of OLVM was the only one on which an unsigned part of that kind could be replayed)
		_ = kinds[sc.Kind]
		h, err := buildHist(sc.ID(), 0)
		if err != nil {
			continue
		}
		kinds[sc.Kind] = true
		t := h.Blocks[h.Target].Txs[0]
		ms := mutants(t, h.W)
		opsPerKind[sc.Kind] = len(ms)
		n := len(ms)
		if f.Tier == "thorough" {
			n += bitflipCount(t)
		}
		for op := 0; op < n; op++ {
			name := ""
			if op < len(ms) {
				name = ms[op].name
			} else {
				name = fmt.Sprintf("wire-bitflip@%d", op-len(ms))
			}
			jobList = append(jobList, c04Job{Scn: sc.ID(), Op: op, Name: name, Path: "check"}, c04Job{Scn: sc.ID(), Op: op, Name: name, Path: "deliver"})
			if strings.HasPrefix(name, "sig") {
				// signature operators once more on a node that has already seen (checked / executed) the genuine
				// transaction: whatever a node remembers about a verified transaction must not vouch for a variant
				jobList = append(jobList, c04Job{Scn: sc.ID(), Op: op, Name: name, Path: "check-warm"}, c04Job{Scn: sc.ID(), Op: op, Name: name, Path: "deliver-warm"})
			}
		}
		// the same signature operators on an original signed in the hardware-wallet mode the ED25519 key handler
		// accepts (hash tag + signature over the digest): another code path of the signature check
		if t.SignFn == nil && len(t.Signers) > 0 && t.Signers[0].Pub.KeyType == keys.ED25519 {
			pm := mutants(withSigMode(t, "prehash"), h.W)
			for op := range pm {
				if strings.HasPrefix(pm[op].name, "sig") {
					prehashOps[sc.Kind]++
					jobList = append(jobList, c04Job{Scn: sc.ID(), Op: op, Name: pm[op].name, Path: "check", Sig: "prehash"}, c04Job{Scn: sc.ID(), Op: op, Name: pm[op].name, Path: "deliver", Sig: "prehash"})
				}
			}
		}
	}
	jobs := make([]interface{}, len(jobList))
	for i := range jobList {
		jobs[i] = jobList[i]
	}
	var done, harnessErr, skippedMut, rejected int
	var errSamples []string
	payloadReasons := map[string]map[string]int{}
	distinct := map[string]bool{}
	sigTag := func(j c04Job) string {
		t := ""
		if j.Sig != "" {
			t = "|signed=" + j.Sig
		}
		if strings.HasSuffix(j.Path, "-warm") {
			t += "|after-the-original-was-seen"
		}
		return t
	}
	opClass := func(name string) string {
		// operator class for signatures: strip concrete positions
		if len(name) > 12 && name[:12] == "wire-bitflip" {
			return "wire-bitflip"
		}
		return name
	}
	skipped := explore.RunJobs("C04", f.Workers, jobs, 3*time.Minute, deadline, nil, func(jr explore.JobResult) {
		j := jobList[jr.Index]
		done++
		sc := catalogue.Get(j.Scn)
		if jr.Died || jr.Timeout {
			rep.Violation(fmt.Sprintf("C04|process-died|kind=%s|op=%s|path=%s", sc.Kind, opClass(j.Name), j.Path), "worker process died or hung while handling the mutant: "+tail(jr.Stderr, 300), j)
			return
		}
		var r c04Res
		if err := json.Unmarshal(jr.Out, &r); err != nil || r.Err != "" {
			harnessErr++
			if len(errSamples) < 5 {
				errSamples = append(errSamples, fmt.Sprintf("%+v: %s %v", j, r.Err, err))
			}
			return
		}
		if r.Skip != "" {
			skippedMut++
			return
		}
		distinct[j.Scn+"|"+j.Name+"|"+j.Path+"|"+j.Sig] = true
		if j.Op%17 == 0 && j.Path == "check" {
			rep.Sample(map[string]interface{}{"scenario": j.Scn, "operator": j.Name, "path": j.Path, "code": r.Code, "log": r.Log})
		}
		if strings.HasPrefix(j.Path, "check") {
			if r.Effect != "" {
				rep.Violation(fmt.Sprintf("C04|checktx-panics|kind=%s|op=%s", sc.Kind, opClass(j.Name))+sigTag(j), fmt.Sprintf("CheckTx of mutant %q of a valid %s: %s", j.Name, sc.Kind, r.Effect), j)
			} else if r.Accepted {
				rep.Violation(fmt.Sprintf("C04|checktx-accepts-mutant|kind=%s|op=%s", sc.Kind, opClass(j.Name))+sigTag(j), fmt.Sprintf("CheckTx returned code 0 for mutant %q of a valid %s", j.Name, sc.Kind), j)
			} else {
				rejected++
				// reachability diagnostic: WHY the mempool check refused the payload mutants of each kind (an operator
				// aimed at the signature check is blind if all its mutants die earlier, e.g. in an encoding test)
				if strings.HasPrefix(j.Name, "payload:") {
					reason := r.Log
					if i := strings.Index(reason, `"msg":"`); i >= 0 {
						reason = reason[i+7:]
					}
					if len(reason) > 36 {
						reason = reason[:36]
					}
					if payloadReasons[sc.Kind] == nil {
						payloadReasons[sc.Kind] = map[string]int{}
					}
					payloadReasons[sc.Kind][reason]++
				}
			}
			return
		}
		if r.Effect != "" {
			rep.Violation(fmt.Sprintf("C04|delivered-mutant-has-effect|kind=%s|op=%s|field=%s", sc.Kind, opClass(j.Name), r.Field)+sigTag(j), fmt.Sprintf("mutant %q of a valid %s delivered in a block (code %d): %s", j.Name, sc.Kind, r.Code, r.Effect), j)
		} else {
			rejected++
		}
	})
	var kl []string
	for k := range kinds {
		kl = append(kl, k)
	}
	sort.Strings(kl)
	rep.Set("evaluations", done)
	rep.Set("distinct_nontrivial", len(distinct))
	rep.Set("rule", "one evaluation = one mutant of a valid signed transaction (operator list enumerated completely per kind) sent to CheckTx, or delivered in a block and compared (state digest, app hash, validator updates for this and the next 2 blocks) with the twin run without it; non-trivial = the mutant differs from the original in its parsed content (mutants that only re-encode are skipped and counted)")
	rep.Set("kinds", kl)
	rep.Set("operators_per_kind", opsPerKind)
	rep.Set("signature_operators_on_prehash_signed_originals_per_kind", prehashOps)
	rep.Set("mutants_without_effect_or_rejected", rejected)
	rep.Set("mutants_skipped_same_content", skippedMut)
	rep.Set("payload_mutant_rejection_reasons_per_kind", payloadReasons)
	rep.Set("harness_errors", harnessErr)
	rep.Set("harness_error_samples", errSamples)
	rep.Set("not_run_due_to_deadline", skipped)
	rep.Set("exhaustive", skipped == 0 && harnessErr == 0)
	if harnessErr > 0 {
		fmt.Fprintf(harness.Out(), "C04: %d harness errors: %v\n", harnessErr, errSamples)
	}
	return rep.Finish()
}
