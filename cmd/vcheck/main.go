// vcheck is the single binary behind every check in MANIFEST.json.
//
//	vcheck <command> [flags]
//
// Commands register themselves in the commands map (one file per property).
package main

import (
	"fmt"
	"os"
	"sort"
)

type command func(args []string) int

var commands = map[string]command{}

func main() {
	if len(os.Args) < 2 {
		usage()
	}
	c, ok := commands[os.Args[1]]
	if !ok {
		usage()
	}
	os.Exit(c(os.Args[2:]))
}

func usage() {
	var names []string
	for n := range commands {
		names = append(names, n)
	}
	sort.Strings(names)
	fmt.Fprintf(os.Stderr, "usage: vcheck <command> [flags]\ncommands: %v\n", names)
	os.Exit(2)
}
