package main

import (
	"encoding/json"
	"fmt"
	"os"
	"strings"
	"time"

	"verif/catalogue"
	"verif/explore"
	"verif/harness"
)

// hist is a catalogue history instantiated for one execution.
type hist struct {
	ID     string
	W      *harness.World
	Blocks []harness.BlockSpec
	Target int
}

// buildHist instantiates scenario id with `extra` empty blocks appended.
func buildHist(id string, extra int) (*hist, error) {
	sc := catalogue.Get(id)
	if sc == nil {
		return nil, fmt.Errorf("unknown scenario %q", id)
	}
	w := sc.World()
	blocks, target := sc.History(w)
	for i := 0; i < extra; i++ {
		blocks = append(blocks, harness.BlockSpec{})
	}
	return &hist{ID: id, W: w, Blocks: blocks, Target: target}, nil
}

func (h *hist) txCount(i int) int { return len(h.Blocks[i].Txs) + len(h.Blocks[i].Raw) }

// noCheck returns a copy of the blocks with CheckTx switched off.
func noCheck(bs []harness.BlockSpec) []harness.BlockSpec {
	out := make([]harness.BlockSpec, len(bs))
	for i, b := range bs {
		b.NoCheck = true
		out[i] = b
	}
	return out
}

// runPlain executes blocks on a fresh run and returns the transcript.
func runPlain(w *harness.World, blocks []harness.BlockSpec, digest bool) ([]*harness.BlockResult, error) {
	return runPlainAs(w, harness.IdentityOf(w.Vals[0]), blocks, digest)
}

// runPlainAs is runPlain with an explicit node identity.
func runPlainAs(w *harness.World, id harness.NodeIdentity, blocks []harness.BlockSpec, digest bool) ([]*harness.BlockResult, error) {
	x, err := harness.StartRunAs(w, id)
	if err != nil {
		return nil, err
	}
	defer x.Close()
	for i, b := range blocks {
		res, err := x.BlockAt(b, digest, nil)
		if err != nil {
			return x.Results, fmt.Errorf("block %d: %v", i+1, err)
		}
		if res.Panicked {
			return x.Results, fmt.Errorf("block %d: application panicked", i+1)
		}
	}
	return x.Results, nil
}

// posName names a gap position of a block with n transactions.
func posName(pos, n int) string {
	switch {
	case pos == 0:
		return "before-begin"
	case pos == 1:
		return "after-begin"
	case pos >= 2 && pos < 2+n:
		return "after-deliver"
	case pos == 2+n:
		return "after-end"
	default:
		return "after-commit"
	}
}

// diffField classifies a transcript difference for violation signatures.
func diffField(d string) string {
	switch {
	case strings.Contains(d, "app hash"):
		return "apphash"
	case strings.Contains(d, "validator update"):
		return "valupdates"
	case strings.Contains(d, "tx#"), strings.Contains(d, "tx results"):
		return "txresult"
	default:
		return "other"
	}
}

// workerMain is the common entry of worker processes.
func workerMain(fn func(job json.RawMessage) interface{}) int {
	fd3 := harness.KeepStdout() // results go to the original stdout (a pipe to the master)
	harness.SilenceStdout()
	defer harness.RemoveScratch()
	return explore.ServeWorker(fd3, fn)
}

// tierBudget returns the internal deadline of a run.
func tierBudget(f explore.Flags, quick, thorough time.Duration) time.Time {
	d := quick
	if f.Tier == "thorough" {
		d = thorough
	}
	if f.Budget > 0 {
		d = f.Budget
	}
	return time.Now().Add(d)
}

func scenarioFilter() func(id string) bool {
	pat := os.Getenv("VERIF_SCN")
	if pat == "" {
		return func(string) bool { return true }
	}
	return func(id string) bool { return strings.Contains(id, pat) }
}

func readJSON(path string, v interface{}) error {
	b, err := os.ReadFile(path)
	if err != nil {
		return err
	}
	return json.Unmarshal(b, v)
}

// confirm is the determinism self-test: a verdict that reports a violation is believed only if two
// re-executions of the same case report a violation too; otherwise the case is returned as unstable
// (the caller turns that into a harness error - no verdict - never into a VIOLATION).
func confirm[T any](run func() T, bad func(T) bool) (res T, stable bool) {
	res = run()
	if !bad(res) {
		return res, true
	}
	for i := 0; i < 2; i++ {
		if r2 := run(); !bad(r2) {
			return r2, false
		}
	}
	return res, true
}

const unstableMsg = "unstable verdict: a violation was reported once but did not reproduce in two re-executions of the same case (treated as a harness error)"
