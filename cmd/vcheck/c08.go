package main

import (
	"bytes"
	"encoding/json"
	"fmt"
	"sort"
	"time"

	"verif/catalogue"
	"verif/explore"
	"verif/harness"
)

// C08 — crash-restart equivalence. For every catalogue history and every ABCI call boundary the
// process "dies" (byte copy of the data directory of the still-open instance), a new application is
// started on the copy through the real start-up code, Info() must report the last completed commit,
// and after re-sending the missing blocks the transcript must equal the uninterrupted run's.

func init() { commands["C08"] = c08 }

const c08Extra = 7 // empty blocks appended to every history (two reward cycles + maturities)

type crashPoint struct {
	Block int // -1 = after InitChain, else index into the history
	Pos   int // gap position (see harness.Gap); 0 (before BeginBlock) is the same state as after the previous commit and is skipped
}

type c08Job struct {
	Scn     string
	Crashes []crashPoint // in execution order; a second crash in the same block happens during the replay of that block
}

type c08Res struct {
	Err      string // harness error (no verdict)
	Clause   string // "" = ok, "info" or "diverge"
	Detail   string
	Field    string
	Where    string
	Replayed int // blocks executed more than once
	Blocks   int
	Txs      int
}

var c08Base = map[string][]*harness.BlockResult{}

func c08Baseline(h *hist) ([]*harness.BlockResult, error) {
	if b, ok := c08Base[h.ID]; ok {
		return b, nil
	}
	res, err := runPlainAs(h.W, harness.NaturalIdentityOf(h.W.Vals[0]), noCheck(h.Blocks), false)
	if err != nil {
		return nil, err
	}
	c08Base[h.ID] = res
	return res, nil
}

func c08Exec(j c08Job) c08Res {
	h, err := buildHist(j.Scn, c08Extra)
	if err != nil {
		return c08Res{Err: err.Error()}
	}
	base, err := c08Baseline(h)
	if err != nil {
		return c08Res{Err: "baseline: " + err.Error()}
	}
	h, _ = buildHist(j.Scn, c08Extra) // fresh world/specs for the second execution
	blocks := noCheck(h.Blocks)
	x, err := harness.StartRunAs(h.W, harness.NaturalIdentityOf(h.W.Vals[0]))
	if err != nil {
		return c08Res{Err: err.Error()}
	}
	defer x.Close()
	out := c08Res{Blocks: len(blocks)}
	crashes := append([]crashPoint(nil), j.Crashes...)
	checkInfo := func(wantH int64, wantHash []byte, where string) bool {
		info := x.R.Info()
		if info.LastBlockHeight != wantH || !bytes.Equal(info.LastBlockAppHash, wantHash) {
			out.Clause, out.Where = "info", where
			out.Detail = fmt.Sprintf("after restart Info() = (height %d, hash %x), last completed commit = (height %d, hash %x)", info.LastBlockHeight, info.LastBlockAppHash, wantH, wantHash)
			return false
		}
		return true
	}
	restart := func(where string, wantH int64, wantHash []byte) bool {
		if err := x.R.CrashRestart(); err != nil {
			out.Err = "restart: " + err.Error()
			return false
		}
		if !checkInfo(wantH, wantHash, where) {
			return false
		}
		if wantH == 0 {
			// Tendermint's handshake calls InitChain again when the application reports height 0
			ir := x.R.InitChain()
			if x.R.Dead || len(ir.Validators) == 0 {
				out.Clause, out.Where, out.Detail = "diverge", where, "second InitChain after restart failed"
				out.Field = "initchain"
				return false
			}
		}
		return true
	}
	for len(crashes) > 0 && crashes[0].Block == -1 {
		crashes = crashes[1:]
		if !restart("after-init", 0, nil) {
			return out
		}
	}
	for i, b := range blocks {
		req := x.Prepare(b)
		n := len(req.Txs)
		out.Txs += n
		var res *harness.BlockResult
		for res == nil {
			stopAt := -1
			if len(crashes) > 0 && crashes[0].Block == i {
				stopAt = crashes[0].Pos
				crashes = crashes[1:]
			}
			r := x.R.ExecBlock(req, false, func(g harness.Gap) bool { return g.Pos != stopAt || stopAt == 3+n })
			if x.R.Dead {
				// the uninterrupted baseline did not panic (runPlain refuses such histories)
				out.Clause, out.Field = "diverge", "panic"
				out.Detail = fmt.Sprintf("application panicked (and closed itself) in block %d after a restart; the uninterrupted run did not", i+1)
				if len(j.Crashes) > 0 {
					last := j.Crashes[len(j.Crashes)-1]
					out.Where = "after-init"
					if last.Block >= 0 {
						out.Where = posName(last.Pos, h.txCount(last.Block))
					}
				}
				return out
			}
			if stopAt < 0 {
				res = r
				break
			}
			where := posName(stopAt, n)
			if stopAt == 3+n {
				// died right after Commit: the block is complete
				res = r
				if !restart(where, req.Height, r.AppHash) {
					return out
				}
				break
			}
			var prevHash []byte
			if i > 0 {
				prevHash = base[i-1].AppHash
			}
			if !restart(where, req.Height-1, prevHash) {
				return out
			}
			out.Replayed++
		}
		if d := res.Diff(base[i]); d != "" {
			out.Clause, out.Detail, out.Field = "diverge", d, diffField(d)
			if len(j.Crashes) > 0 {
				last := j.Crashes[len(j.Crashes)-1]
				if last.Block >= 0 {
					out.Where = posName(last.Pos, h.txCount(last.Block))
				} else {
					out.Where = "after-init"
				}
			}
			return out
		}
		if err := x.Finish(res); err != nil {
			out.Err = "chain halted: " + err.Error()
			return out
		}
	}
	return out
}

func c08(args []string) int {
	if explore.IsWorker("C08") {
		return workerMain(func(raw json.RawMessage) interface{} {
			var j c08Job
			if err := json.Unmarshal(raw, &j); err != nil {
				return c08Res{Err: err.Error()}
			}
			r, ok := confirm(func() c08Res { return c08Exec(j) }, func(r c08Res) bool { return r.Clause != "" })
			if !ok {
				return c08Res{Err: unstableMsg}
			}
			return r
		})
	}
	f := explore.ParseFlags("C08", args, nil)
	if f.Replay != "" {
		return c08Replay(f.Replay)
	}
	harness.SilenceStdout()
	rep := explore.NewReporter("C08", "fault_enumeration", f, harness.Out())
	deadline := tierBudget(f, 8*time.Minute, 40*time.Minute)
	keep := scenarioFilter()
	var jobs []interface{}
	var jobList []c08Job
	scnCount := 0
	single, pairs := 0, 0
	for _, sc := range catalogue.All() {
		if !keep(sc.ID()) {
			continue
		}
		h, err := buildHist(sc.ID(), c08Extra)
		if err != nil {
			continue
		}
		scnCount++
		var pts []crashPoint
		pts = append(pts, crashPoint{Block: -1})
		// crash points: every boundary of every block up to two blocks after the target's delayed effects
		// (the trailing extra blocks are only replayed, crashing in all of them adds nothing new)
		last := len(h.Blocks) - c08Extra + 2
		for i := 0; i < last && i < len(h.Blocks); i++ {
			n := h.txCount(i)
			for p := 1; p <= 3+n; p++ {
				pts = append(pts, crashPoint{Block: i, Pos: p})
			}
		}
		for _, p := range pts {
			jobList = append(jobList, c08Job{Scn: sc.ID(), Crashes: []crashPoint{p}})
			single++
		}
		// a node that has been restarted ONCE early in its life (a clean stop right after its first commit) and
		// crashes later: what the start-up code sets differently from a process that ran InitChain itself (the
		// witness flag, option copies, queues) is then in force when the second crash hits. (Added after a
		// seeded change - a witness's redeem transition skipped when its job is already in the node-local job
		// store - escaped the single crashes: a process that ran InitChain itself never acts as a witness.)
		warm := crashPoint{Block: 0, Pos: 3 + h.txCount(0)}
		for _, p := range pts {
			if p.Block >= 1 && (f.Tier != "thorough" || p.Block > 2) {
				jobList = append(jobList, c08Job{Scn: sc.ID(), Crashes: []crashPoint{warm, p}})
				pairs++
			}
		}
		if f.Tier == "thorough" {
			// repeated crashes: every ordered pair (second one at the same or a later boundary, which for the
			// same block means "crash again while replaying it")
			for a := 0; a < len(pts); a++ {
				for b := a; b < len(pts); b++ {
					if pts[b].Block-pts[a].Block > 2 {
						break
					}
					if pts[a].Block == -1 && pts[b].Block == -1 && b != a {
						continue
					}
					jobList = append(jobList, c08Job{Scn: sc.ID(), Crashes: []crashPoint{pts[a], pts[b]}})
					pairs++
				}
			}
		}
	}
	for _, j := range jobList {
		jobs = append(jobs, j)
	}
	var done, nontrivial, harnessErr, replayedBlocks, txs int
	whereCount := map[string]int{}
	errSamples := []string{}
	skipped := explore.RunJobs("C08", f.Workers, jobs, 3*time.Minute, deadline, nil, func(jr explore.JobResult) {
		j := jobList[jr.Index]
		done++
		if jr.Died || jr.Timeout {
			harnessErr++
			if len(errSamples) < 5 {
				errSamples = append(errSamples, fmt.Sprintf("%v: worker died/timeout: %s", j, tail(jr.Stderr, 400)))
			}
			return
		}
		var r c08Res
		if err := json.Unmarshal(jr.Out, &r); err != nil || r.Err != "" {
			harnessErr++
			if len(errSamples) < 5 {
				errSamples = append(errSamples, fmt.Sprintf("%v: %s %v", j, r.Err, err))
			}
			return
		}
		replayedBlocks += r.Replayed
		txs += r.Txs
		if r.Replayed > 0 || len(j.Crashes) > 0 {
			nontrivial++
		}
		for _, c := range j.Crashes {
			if c.Block < 0 {
				whereCount["after-init"]++
			} else {
				h, _ := buildHist(j.Scn, c08Extra)
				whereCount[posName(c.Pos, h.txCount(c.Block))]++
			}
		}
		if len(j.Crashes) == 1 && j.Crashes[0].Pos == 2 {
			rep.Sample(map[string]interface{}{"scenario": j.Scn, "crash": j.Crashes, "replayed_blocks": r.Replayed})
		}
		if r.Clause != "" {
			sig := fmt.Sprintf("C08|%s|scn=%s|crash=%s|field=%s|crashes=%d", r.Clause, j.Scn, r.Where, r.Field, len(j.Crashes))
			rep.Violation(sig, r.Detail, j)
		}
	})
	rep.Set("evaluations", done)
	rep.Set("distinct_nontrivial", nontrivial)
	rep.Set("rule", "one evaluation = one full execution of a catalogue history on the real application with the listed crash point(s): byte copy of the open data directory, restart through the generated Prepare() prefix, Info() compared with the last completed commit, missing blocks re-sent, whole transcript (app hash, validator updates, tx code/data/gas of every block incl. 7 trailing empty blocks) compared with the uninterrupted baseline; all (scenario, crash point) combinations are distinct; non-trivial = at least one crash was injected")
	rep.Set("scenarios", scnCount)
	rep.Set("single_crash_executions", single)
	rep.Set("double_crash_executions", pairs)
	rep.Set("crash_positions", whereCount)
	rep.Set("blocks_replayed_after_restart", replayedBlocks)
	rep.Set("transactions_delivered", txs)
	rep.Set("harness_errors", harnessErr)
	rep.Set("harness_error_samples", errSamples)
	rep.Set("not_run_due_to_deadline", skipped)
	rep.Set("exhaustive", skipped == 0 && harnessErr == 0)
	rep.Set("bounds", map[string]interface{}{"crashes_per_execution": map[string]string{"quick": "1, and 2 where the first is a stop right after the first commit", "thorough": "2 (all pairs at most two blocks apart, plus every pair whose first is a stop right after the first commit)"}[f.Tier], "trailing_empty_blocks": c08Extra})
	rep.Assume("a process death loses no page already written by the process (the crash image is a byte copy of the open data directory); torn writes inside one goleveldb batch are excluded (LevelDB's own guarantee)")
	rep.Assume("Tendermint's block store and tx index survive the crash and the missing blocks are re-sent unchanged")
	if harnessErr > 0 {
		fmt.Fprintf(harness.Out(), "C08: %d harness errors (no verdict for those executions): %v\n", harnessErr, errSamples)
	}
	return rep.Finish()
}

func tail(s string, n int) string {
	if len(s) > n {
		return s[len(s)-n:]
	}
	return s
}

func c08Replay(path string) int {
	var doc struct {
		Case c08Job `json:"case"`
	}
	if err := readJSON(path, &doc); err != nil {
		fmt.Println(err)
		return 2
	}
	harness.SilenceStdout()
	defer harness.RemoveScratch()
	r := c08Exec(doc.Case)
	b, _ := json.MarshalIndent(r, "", " ")
	harness.Outf("%s\n", b)
	if r.Clause != "" {
		return 1
	}
	return 0
}

func sortedKeys(m map[string]int) []string {
	var ks []string
	for k := range m {
		ks = append(ks, k)
	}
	sort.Strings(ks)
	return ks
}
