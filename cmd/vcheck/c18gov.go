package main

// C18, phase "governance options": a configuration proposal is an INPUT too, and one that outlives its
// transaction - the value it carries, once voted through, is read by every later transaction of the
// kinds it governs. The phase enumerates every option a configuration proposal may change (the keys of
// the application's own registry, read at run time) x a menu of hostile numbers, installs each pair in
// the middle of every catalogue history through the application's own update function (validate, then
// write - exactly what the finalisation of a passed proposal runs; a value the function refuses writes
// nothing, as in the finalisation) right before the EndBlock that precedes the history's target block,
// and lets the history run on: whatever the value, no later CheckTx, DeliverTx or block hook may panic,
// exit or halt consensus. (Added after a seeded change - the per-block name fee truncated to 64 bits and
// used as a divisor in one branch of DOMAIN_PURCHASE - escaped the menu: the hostile value sat in an
// option, the crashing transaction was an ordinary one.)

import (
	"encoding/json"
	"fmt"
	"sort"
	"strings"
	"time"

	"verif/catalogue"
	"verif/explore"
	"verif/harness"
)

// c18GovValues: the hostile numbers offered for every option (text, as a proposal carries them).
var c18GovValues = []string{
	"-1", "0", "1", "2", "3", "17", "100",
	"9223372036854775807", "9223372036854775808", // 2^63-1, 2^63
	"18446744073709551615", "18446744073709551616", "18446744073709551617", // 2^64-1, 2^64, 2^64+1
	"36893488147419103232",                      // 2^65
	"10000000000000000000000000000000000000000", // 10^40
	"", "x", "1.5", "+5", "0x10", " 7",
	// the borders of the ranges the governance rules name for one option or another (a value is only
	// dangerous where it is accepted): counts, percentages, block numbers, whole-OLT amounts
	"7", "8", "9", "10", "18", "19", "40", "41", "50", "51", "64", "65", "80", "81",
	"1000", "10000", "75000", "100000", "100001", "109200", "150000", "450000", "468000", "468001",
	"500000", "10000000", "10000001",
}

// legalise moves the staking, evidence and proposal options of a world to the smallest values the governance
// rules accept (data/governance/validations.go), so that an update of any one member of those sets passes the
// validation of the whole set. The histories of the catalogue still execute their transactions; the hooks that
// depended on short maturities and deadlines simply do not fire within the history.
func legalise(w *harness.World) {
	g := &w.Gov
	g.StakingOptions.TopValidatorCount = 8
	g.StakingOptions.MaturityTime = 109200
	g.EvidenceOptions.BlockVotesDiff = 1000
	g.EvidenceOptions.MinVotesRequired = 700
	po := &g.PropOptions
	po.ConfigUpdate.FundingDeadline, po.ConfigUpdate.VotingDeadline = 10000, 10000
	po.CodeChange.FundingDeadline, po.CodeChange.VotingDeadline = 10000, 150000
	po.General.FundingDeadline, po.General.VotingDeadline = 75000, 75000
	for _, o := range []*int{&po.ConfigUpdate.PassPercentage, &po.CodeChange.PassPercentage, &po.General.PassPercentage} {
		if *o < 51 || *o > 80 {
			*o = 67
		}
	}
}

// c18GovKeys asks a live application for the option names of its registry.
func c18GovKeys(scn string) ([]string, error) {
	h, err := buildHist(scn, 0)
	if err != nil {
		return nil, err
	}
	x, err := harness.StartRun(h.W)
	if err != nil {
		return nil, err
	}
	defer x.Close()
	keys := x.R.App.VerifGovUpdateKeys()
	sort.Strings(keys)
	return keys, nil
}

// c18GovExec runs one catalogue history with one option value installed before its target block.
func c18GovExec(j c18Job) c18Res {
	if j.Gov == "?" {
		keys, err := c18GovKeys(j.Scn)
		if err != nil {
			return c18Res{Err: err.Error()}
		}
		return c18Res{Log: strings.Join(keys, ",")}
	}
	i := strings.Index(j.Gov, ":")
	if i < 0 {
		return c18Res{Err: "bad option spec"}
	}
	key, value := j.Gov[:i], j.Gov[i+1:]
	h, err := buildHist(j.Scn, 0)
	if err != nil {
		return c18Res{Err: err.Error()}
	}
	if j.Legal {
		legalise(h.W)
	}
	x, err := harness.StartRun(h.W)
	if err != nil {
		return c18Res{Err: err.Error()}
	}
	defer x.Close()
	out := c18Res{}
	blocks := append([]harness.BlockSpec(nil), h.Blocks...)
	applyAt := h.Target - 1
	if applyAt < 0 {
		// the target sits in the first block: one empty block in front of it carries the update
		blocks = append([]harness.BlockSpec{{}}, blocks...)
		applyAt = 0
	}
	blocks = append(blocks, harness.BlockSpec{}, harness.BlockSpec{}, harness.BlockSpec{})
	for bi, b := range blocks {
		n := len(b.Txs) + len(b.Raw)
		var at func(g harness.Gap) bool
		if bi == applyAt {
			at = func(g harness.Gap) bool {
				if g.Pos == 1+n && !x.R.Dead { // after the last DeliverTx, before EndBlock
					known, ok, err := x.R.App.VerifApplyGovUpdate(key, value)
					switch {
					case !known:
						out.GovRefused = "unknown"
					case err != nil:
						out.GovRefused = "refused: " + tail(err.Error(), 80)
					case !ok:
						out.GovRefused = "refused"
					default:
						out.GovApplied = true
					}
				}
				return true
			}
		}
		res, err := x.BlockAt(b, false, at)
		if x.R.Dead {
			out.Dead = true
			out.Log = fmt.Sprintf("the application died in block %d of the history (option installed in block %d, target block %d)", bi+1, applyAt+1, applyAt+2)
			return out
		}
		if err != nil {
			out.Halt = fmt.Sprintf("block %d of the history (option installed in block %d): %v", bi+1, applyAt+1, err)
			return out
		}
		if res != nil && bi == applyAt+1 && len(res.Txs) > 0 {
			out.Code = res.Txs[0].Code
		}
	}
	return out
}

type c18GovStats struct {
	skipped int
	report  map[string]interface{}
}

// c18GovPhase is the master side: ask for the keys, classify every (key, value) pair on a base history,
// then run the pairs against the catalogue: quick = every pair the update function accepted x every
// history, refused pairs on the base history only; thorough = every pair x every history.
func c18GovPhase(f explore.Flags, rep *explore.Reporter, deadline time.Time, keep func(string) bool, done, harnessErr *int, errSamples *[]string, distinct map[string]bool) c18GovStats {
	st := c18GovStats{report: map[string]interface{}{}}
	var scns []string
	for _, sc := range catalogue.All() {
		if keep(sc.ID()) {
			scns = append(scns, sc.ID())
		}
	}
	if len(scns) == 0 {
		return st
	}
	base := scns[0]
	run := func(jobList []c18Job, handle func(j c18Job, r c18Res)) {
		jobs := make([]interface{}, len(jobList))
		for i := range jobList {
			jobs[i] = jobList[i]
		}
		st.skipped += explore.RunJobs("C18", f.Workers, jobs, 2*time.Minute, deadline, nil, func(jr explore.JobResult) {
			j := jobList[jr.Index]
			*done++
			kind := catalogue.Get(j.Scn).Kind
			if jr.Died || jr.Timeout {
				what := "node process exited (os.Exit / fatal error)"
				if jr.Timeout {
					what = "node hung"
				}
				rep.Violation(fmt.Sprintf("C18|process-exit|kind=%s|option=%s|path=history", kind, c18GovClass(j.Gov)), fmt.Sprintf("history %s with option %q installed before its target block: %s: %s", j.Scn, j.Gov, what, tail(jr.Stderr, 200)), j)
				return
			}
			var r c18Res
			if err := json.Unmarshal(jr.Out, &r); err != nil || r.Err != "" {
				*harnessErr++
				if len(*errSamples) < 5 {
					*errSamples = append(*errSamples, fmt.Sprintf("%+v: %s %v", j, r.Err, err))
				}
				return
			}
			handle(j, r)
		})
	}
	var keys []string
	run([]c18Job{{Scn: base, Gov: "?", Name: "list-option-keys", Path: "history"}}, func(j c18Job, r c18Res) {
		if r.Log != "" {
			keys = strings.Split(r.Log, ",")
		}
	})
	st.report["option_keys"] = keys
	st.report["values_per_key"] = c18GovValues
	if len(keys) == 0 {
		*harnessErr++
		*errSamples = append(*errSamples, "governance option phase: the application's registry of update functions is empty or could not be read")
		return st
	}
	judge := func(j c18Job, r c18Res) {
		kind := catalogue.Get(j.Scn).Kind
		distinct["gov|"+j.Scn+"|"+govTag(j)] = true
		switch {
		case r.Dead:
			rep.Violation(fmt.Sprintf("C18|panic-app-closed|kind=%s|option=%s|path=history", kind, c18GovClass(j.Gov)), fmt.Sprintf("history %s with option %q installed (applied=%v %s) before its target block: %s", j.Scn, govTag(j), r.GovApplied, r.GovRefused, r.Log), j)
		case r.Halt != "":
			rep.Violation(fmt.Sprintf("C18|consensus-halt|kind=%s|option=%s|path=history", kind, c18GovClass(j.Gov)), fmt.Sprintf("history %s with option %q installed (applied=%v %s): %s", j.Scn, govTag(j), r.GovApplied, r.GovRefused, r.Halt), j)
		}
	}
	// pass 1: every pair on the base history, in the world as it is and in its variant with legal option sets
	accepted := map[string]bool{}
	var pass1 []c18Job
	for _, legal := range []bool{false, true} {
		for _, k := range keys {
			for _, v := range c18GovValues {
				pass1 = append(pass1, c18Job{Scn: base, Gov: k + ":" + v, Name: "option " + k + ":" + v, Path: "history", Legal: legal})
			}
		}
	}
	refusedWhy := map[string]int{}
	run(pass1, func(j c18Job, r c18Res) {
		if r.GovApplied {
			accepted[govTag(j)] = true
		} else {
			refusedWhy[tail(r.GovRefused, 40)]++
		}
		judge(j, r)
	})
	var acc []string
	for g := range accepted {
		acc = append(acc, g)
	}
	sort.Strings(acc)
	st.report["pairs"] = len(pass1)
	st.report["pairs_accepted_by_the_update_function"] = acc
	st.report["refusal_reasons"] = refusedWhy
	// pass 2: the pairs against every other history
	var pass2 []c18Job
	firstOfKind := map[string]bool{}
	seenKind := map[string]bool{}
	for _, scn := range scns {
		if k := catalogue.Get(scn).Kind; !seenKind[k] {
			seenKind[k], firstOfKind[scn] = true, true
		}
	}
	for _, scn := range scns[1:] {
		for _, p := range pass1 {
			// (quick tier: the legal variant runs on one history per transaction kind)
			if p.Legal && f.Tier != "thorough" && !firstOfKind[scn] {
				continue
			}
			// (quick tier: a pair accepted in the world as it is is not run again in the legal variant)
			if (accepted[govTag(p)] && !(p.Legal && accepted[p.Gov])) || f.Tier == "thorough" {
				pass2 = append(pass2, c18Job{Scn: scn, Gov: p.Gov, Name: p.Name, Path: "history", Legal: p.Legal})
			}
		}
	}
	applied, targetOK := 0, 0
	run(pass2, func(j c18Job, r c18Res) {
		if r.GovApplied {
			applied++
			if r.Code == 0 {
				targetOK++
			}
		}
		judge(j, r)
	})
	st.report["histories"] = len(scns)
	st.report["executions"] = 1 + len(pass1) + len(pass2)
	st.report["executions_with_the_option_applied"] = applied + len(acc)
	st.report["of_which_the_target_transaction_still_succeeded"] = targetOK
	st.report["rule"] = "one execution = one catalogue history on the real application, with one (option, value) pair handed to the application's own governance update function (validate and write, as the finalisation of a passed configuration proposal does) after the last DeliverTx of the block before the history's target block, then the rest of the history and three empty blocks; every pair in the world as the history defines it and in its variant whose staking, evidence and proposal option sets are legal by the governance rules (otherwise no member of those sets can be changed); quick tier: pairs the function accepted on the base history x every history (a pair accepted in the plain world is not repeated in the legal variant, and the legal variant runs on one history per transaction kind), the refused pairs on the base history only; thorough tier: every pair x every history x both variants"
	return st
}

// govTag: the pair plus the world variant it was installed in.
func govTag(j c18Job) string {
	if j.Legal {
		return j.Gov + "@legal-option-sets"
	}
	return j.Gov
}

// c18GovClass: the option name plus the class of the value (the concrete number stays in the replay file).
func c18GovClass(gov string) string { return gov }
