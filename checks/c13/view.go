package c13

import (
	"crypto/sha256"
	"encoding/binary"
	"encoding/hex"
	"encoding/json"
	"math/big"
	"sort"
	"strconv"
	"strings"
	"time"

	"verif/harness"
)

var e18 = new(big.Int).Exp(big.NewInt(10), big.NewInt(18), nil)

func olt(n int64) *big.Int { return new(big.Int).Mul(big.NewInt(n), e18) }

func addrText(raw []byte) string { return "0lt" + hex.EncodeToString(raw) }

var (
	rewardPoolKey = "b_" + addrText([]byte("rewardpool")) + "_OLT"
	delegPoolKey  = "b_" + addrText([]byte("00000000000000000001")) + "_OLT"
)

// yearRec is one record of rwcum_ydist.
type yearRec struct {
	Start, Close  time.Time
	Distributed   *big.Int
	TillLastCycle *big.Int
}

// view is the reward-relevant content of one committed state, decoded from the raw dump.
type view struct {
	chunks     map[string]map[int64]*big.Int // rwz_<validator>_<chunk index>
	cumBal     map[string]*big.Int           // rwcum_balance_<validator>: matured, not yet withdrawn
	cumWd      map[string]*big.Int           // rwcum_withdrawn_<validator>
	tdist      *big.Int                      // rwcum_tdist
	years      []yearRec                     // rwcum_ydist
	delegTotal *big.Int                      // delegRwz_total_rewards
	delegBal   map[string]*big.Int           // delegRwz_balance_<delegator>
	delegPend  *big.Int                      // sum of delegRwz_pending_*
	rewardPool *big.Int
	delegPool  *big.Int
	negative   []string
	bad        []string // undecodable keys of the families above
	digest     string   // digest of the projected key families (see stateKey)
}

func amountJSON(v []byte) (*big.Int, bool) {
	var s string
	if err := json.Unmarshal(v, &s); err != nil {
		return nil, false
	}
	n, ok := new(big.Int).SetString(s, 10)
	return n, ok
}

// projected reports whether a key belongs to the families the reward subsystem can observe or that can
// influence it: the reward stores (rwz_ chunks, ri_ interval records, rwaddr_ address list, rwcum_
// cumulative records), the delegation reward store, the active delegations (they decide the
// delegators' shares and whether an undelegation is possible) and the balances of the two pools.
// Everything else is projected away: user/stake balances (all accounts are far richer than anything the
// alphabet spends), fee pool shares f_, pending undelegations deleg_p_ (paid to balances only), the vote
// bookkeeping es__ (with MinVotesRequired = 1 nobody is ever frozen, and rewards do not look at it),
// stake bookkeeping st__ (the validator records v_ carry the power and are kept; the Tendermint sets of
// the next blocks are part of the state key), governance options (constant) - none of them is read by
// handleBlockRewards / WITHDRAW_REWARD within these worlds.
func projected(k string) bool {
	return strings.HasPrefix(k, "v_") || strings.HasPrefix(k, "rwz_") || strings.HasPrefix(k, "rwcum_") || strings.HasPrefix(k, "ri_") || strings.HasPrefix(k, "rwaddr_") ||
		strings.HasPrefix(k, "delegRwz_") || strings.HasPrefix(k, "deleg_a_") || k == rewardPoolKey || k == delegPoolKey
}

func decode(dump []harness.KV) *view {
	v := &view{chunks: map[string]map[int64]*big.Int{}, cumBal: map[string]*big.Int{}, cumWd: map[string]*big.Int{}, tdist: new(big.Int),
		delegTotal: new(big.Int), delegBal: map[string]*big.Int{}, delegPend: new(big.Int), rewardPool: new(big.Int), delegPool: new(big.Int)}
	hsh := sha256.New()
	var l [8]byte
	amt := func(k string, raw []byte) *big.Int {
		n, ok := amountJSON(raw)
		if !ok {
			v.bad = append(v.bad, k)
			return new(big.Int)
		}
		if n.Sign() < 0 {
			v.negative = append(v.negative, k)
		}
		return n
	}
	for _, kv := range dump {
		k := string(kv.K)
		if !projected(k) {
			continue
		}
		binary.BigEndian.PutUint64(l[:], uint64(len(kv.K)))
		hsh.Write(l[:])
		hsh.Write(kv.K)
		binary.BigEndian.PutUint64(l[:], uint64(len(kv.V)))
		hsh.Write(l[:])
		hsh.Write(kv.V)
		switch {
		case strings.HasPrefix(k, "rwz_"):
			rest := k[len("rwz_"):]
			i := strings.LastIndexByte(rest, '_')
			if i < 0 {
				v.bad = append(v.bad, k)
				continue
			}
			idx, err := strconv.ParseInt(rest[i+1:], 10, 64)
			if err != nil {
				v.bad = append(v.bad, k)
				continue
			}
			a := rest[:i]
			if v.chunks[a] == nil {
				v.chunks[a] = map[int64]*big.Int{}
			}
			v.chunks[a][idx] = amt(k, kv.V)
		case strings.HasPrefix(k, "rwcum_balance_"):
			v.cumBal[k[len("rwcum_balance_"):]] = amt(k, kv.V)
		case strings.HasPrefix(k, "rwcum_withdrawn_"):
			v.cumWd[k[len("rwcum_withdrawn_"):]] = amt(k, kv.V)
		case k == "rwcum_tdist":
			v.tdist = amt(k, kv.V)
		case k == "rwcum_ydist":
			var y struct {
				Years []struct {
					StartTime, CloseTime       time.Time
					Distributed, TillLastCycle string
				}
			}
			if err := json.Unmarshal(kv.V, &y); err != nil {
				v.bad = append(v.bad, k)
				continue
			}
			for _, r := range y.Years {
				d, ok1 := new(big.Int).SetString(r.Distributed, 10)
				t, ok2 := new(big.Int).SetString(r.TillLastCycle, 10)
				if !ok1 || !ok2 {
					v.bad = append(v.bad, k)
					d, t = new(big.Int), new(big.Int)
				}
				if d.Sign() < 0 || t.Sign() < 0 {
					v.negative = append(v.negative, k)
				}
				v.years = append(v.years, yearRec{Start: r.StartTime, Close: r.CloseTime, Distributed: d, TillLastCycle: t})
			}
		case k == "delegRwz_total_rewards":
			v.delegTotal = amt(k, kv.V)
		case strings.HasPrefix(k, "delegRwz_balance_"):
			v.delegBal[k[len("delegRwz_balance_"):]] = amt(k, kv.V)
		case strings.HasPrefix(k, "delegRwz_pending_"):
			v.delegPend.Add(v.delegPend, amt(k, kv.V))
		case k == rewardPoolKey:
			v.rewardPool = amt(k, kv.V)
		case k == delegPoolKey:
			v.delegPool = amt(k, kv.V)
		}
	}
	v.digest = hex.EncodeToString(hsh.Sum(nil)[:12])
	return v
}

// chunkSum is the sum of all interval chunks of a validator.
func (v *view) chunkSum(a string) *big.Int {
	s := new(big.Int)
	for _, n := range v.chunks[a] {
		s.Add(s, n)
	}
	return s
}

func (v *view) validators() []string {
	m := map[string]bool{}
	for a := range v.chunks {
		m[a] = true
	}
	for a := range v.cumBal {
		m[a] = true
	}
	for a := range v.cumWd {
		m[a] = true
	}
	var out []string
	for a := range m {
		out = append(out, a)
	}
	sort.Strings(out)
	return out
}

func (v *view) sumDelegBal() *big.Int {
	s := new(big.Int)
	for _, n := range v.delegBal {
		s.Add(s, n)
	}
	return s
}

func get(m map[string]*big.Int, k string) *big.Int {
	if n := m[k]; n != nil {
		return n
	}
	return new(big.Int)
}
