package c13

import (
	"fmt"
	"math/big"
	"sort"
	"time"

	"verif/explore"
)

// The reference model encodes the STATEMENT of C13, driven by the same blocks as the application:
//
//  (a) per block: credited (validators' interval chunks + delegators' reward balances; the proposer's
//      share is inside its validator credit) <= amount pulled for the block <= what was left of the
//      current reward year's supply when the calculation cycle began, or min(burn-out rate, rewards
//      pool) once the schedule is over.
//      "pulled" is obtained from the REAL PullRewards on a fresh RewardCumulativeStore over the committed
//      state (= what a node restarted right before this block pulls); "left of the year's supply" is the
//      model's own account: year supply minus everything the model saw credited while that year was
//      the current one (a lower bound of what the application books, which also counts the rounding
//      residue of the delegators' shares - so the model's bound is never tighter than the statement's).
//      The current year of a cycle is decided from the block times at the cycle's first block with the
//      schedule's documented rule: the first year that still has YearCloseWindow seconds to go and in
//      which at least one more block is forecast to fit at the speed of the latest cycle.
//  (b) the books are consistent with (a): the total-distributed counter grows by at least what was
//      credited and by at most what was pulled.
//  (c) a WITHDRAW_REWARD is accepted only for an amount <= matured-and-not-yet-withdrawn, where the
//      model's "matured" is the sum of what it saw credited to the validator at heights whose interval
//      chunk has matured (chunk two intervals back at every interval boundary: a credit of height g is
//      matured from height (g/I + 2) * I on); the stored matured balance + withdrawn total never
//      exceeds the model's matured sum; the withdrawn counter and the rewards pool move by exactly the
//      accepted amounts.
//  (d) restart: see exec.go (twin executions, transcript comparison) and clause "pulled-varies-within-
//      cycle" below (a node restarted at any block of a cycle pulls what a node restarted at the
//      cycle's first block pulled).
//
// Tolerated (the statement allows it): under-distribution of any kind - the commission divisor that
// includes the delegation pool, absent validators' shares staying in the pool, rounding residues, a
// year in which nothing is distributed after its books overran.

type blockInfo struct {
	H        int64
	Ev       event
	T        time.Time
	Fresh    *big.Int // PullRewards(h) of a fresh store on the committed state h-1 (nil: it returned an error)
	FreshErr string
	TxCode   int      // -1 no tx, 0 accepted in DeliverTx, else rejected
	ChkCode  int      // CheckTx code (-1 none)
	WAmount  *big.Int // amount of the withdraw operation in base units (nil: no withdraw in this block)
	Val0     string   // text address of Vals[0]
}

type model struct {
	s        *wspec
	genesis  time.Time
	times    map[int64]time.Time
	closes   []time.Time
	supplies []*big.Int
	burnout  *big.Int

	regime       int // reward year of the running cycle; -1 = schedule over
	calYear      int // first year not yet closed at the cycle's first block (-1: none)
	cycleN       int64
	leftAtCycle  *big.Int
	freshAtCycle *big.Int
	degenerate   bool // the cycle took 0 seconds: the forecast is undefined
	dist         []*big.Int

	credited  map[string]map[int64]*big.Int // validator -> height -> credited
	withdrawn map[string]*big.Int

	viol    []explore.BFSViol
	info    map[string]int64
	regimes map[string]bool
	flags   map[string]bool
	log     func(format string, a ...interface{})
	overran map[int]bool
	// blockFacts[h]: schedule regime and books state at block h (for the restart clause's signature)
	blockFacts map[int64]string
}

func newModel(s *wspec, genesis time.Time) *model {
	m := &model{s: s, genesis: genesis, times: map[int64]time.Time{}, credited: map[string]map[int64]*big.Int{}, withdrawn: map[string]*big.Int{},
		info: map[string]int64{}, regimes: map[string]bool{}, flags: map[string]bool{}, overran: map[int]bool{}, blockFacts: map[int64]string{}, regime: -1}
	for _, y := range s.Supplies {
		m.supplies = append(m.supplies, olt(y))
		m.dist = append(m.dist, new(big.Int))
	}
	m.burnout = olt(s.Burnout)
	return m
}

func (m *model) violate(clause, facts, what string) {
	sig := "C13|" + clause + "|" + facts
	for _, v := range m.viol {
		if v.Sig == sig {
			return
		}
	}
	m.viol = append(m.viol, explore.BFSViol{Sig: sig, What: what})
}

func secs(d time.Duration) int64 { return int64(d / time.Second) }

func opKind(e event) string {
	switch {
	case e.Restart:
		return "restart"
	case e.Op != "":
		return e.Op
	case e.Dt != 0:
		return "time-step"
	case len(e.Absent) > 0:
		return "absent-signer"
	}
	return "default"
}

// poolOp names the operation kind behind a rewards-pool movement.
func poolOp(e event) string {
	if e.Op == opDonateRewards || e.Op == opWOne || e.Op == opWAll || e.Op == opWOver {
		return e.Op
	}
	return "begin-block"
}

func poolClass(p *big.Int, s *wspec) string {
	var tot int64
	for _, x := range s.Powers {
		tot += x
	}
	switch {
	case p.Sign() == 0:
		return "zero"
	case p.Cmp(olt(tot)) > 0:
		return "above-validator-power"
	}
	return "small"
}

func (m *model) regimeName() string {
	if m.regime < 0 {
		return "burnout"
	}
	return fmt.Sprintf("year%d", m.regime+1)
}

// maturedAt is the model's matured sum of validator a at height h.
func (m *model) maturedAt(a string, h int64) *big.Int {
	s := new(big.Int)
	I := m.s.Interval
	for g, n := range m.credited[a] {
		if (g/I+2)*I <= h {
			s.Add(s, n)
		}
	}
	return s
}

// step runs every clause on block b (prev = committed state b.H-1, cur = committed state b.H).
func (m *model) step(b blockInfo, prev, cur *view) {
	h := b.H
	s := m.s
	m.times[h] = b.T
	if h == 1 {
		m.closes = s.yearCloses(m.genesis, b.T)
	}
	m.info["blocks"]++
	fresh := b.Fresh
	if fresh == nil {
		fresh = new(big.Int)
		m.info["fresh_pull_errors"]++
	}

	// ---- the schedule at the first block of a cycle
	h0 := (h-1)/s.Cycle*s.Cycle + 1
	if h == h0 {
		secsPer := s.EstSecs
		if h > s.Cycle {
			secsPer = secs(m.times[h0].Sub(m.times[h0-s.Cycle]))
		}
		T0 := m.times[h0]
		m.regime, m.calYear, m.cycleN, m.degenerate = -1, -1, 0, false
		for i, c := range m.closes {
			left := secs(c.Sub(T0))
			if left > 0 && m.calYear < 0 {
				m.calYear = i
			}
			if left >= s.Window {
				if secsPer <= 0 {
					m.degenerate = true
					break
				}
				n := new(big.Int).Mul(big.NewInt(left), big.NewInt(s.Cycle))
				n.Div(n, big.NewInt(secsPer))
				if n.Sign() > 0 {
					m.regime, m.cycleN = i, n.Int64()
					break
				}
				m.info["year_skipped_no_block_fits"]++
				m.flags["skip"] = true
			}
		}
		if m.regime >= 0 {
			m.leftAtCycle = new(big.Int).Sub(m.supplies[m.regime], m.dist[m.regime])
		} else {
			m.leftAtCycle = nil
		}
		m.freshAtCycle = new(big.Int).Set(fresh)
		m.info["cycles"]++
		if m.regime != m.calYear {
			m.info["cycles_drawing_from_other_than_calendar_year"]++
		}
	}
	m.regimes[m.regimeName()] = true
	m.info["blocks_"+m.regimeName()]++

	// ---- what was credited in this block
	credited := new(big.Int)
	vals := cur.validators()
	anyAbsentCredit := false
	for _, a := range vals {
		d := new(big.Int).Sub(cur.chunkSum(a), prev.chunkSum(a))
		if d.Sign() < 0 {
			m.violate("reward-record-decreased", "op=begin-block|record=interval-chunk|regime="+m.regimeName(),
				fmt.Sprintf("h=%d: the interval chunks of %s decreased by %s", h, a, new(big.Int).Neg(d)))
		}
		for idx, n := range cur.chunks[a] {
			if p := prev.chunks[a][idx]; p != nil && n.Cmp(p) < 0 {
				m.violate("reward-record-decreased", "op=begin-block|record=interval-chunk|regime="+m.regimeName(),
					fmt.Sprintf("h=%d: chunk %d of %s went from %s to %s", h, idx, a, p, n))
			}
		}
		if d.Sign() != 0 {
			if m.credited[a] == nil {
				m.credited[a] = map[int64]*big.Int{}
			}
			m.credited[a][h] = d
		}
		credited.Add(credited, d)
	}
	dDeleg := new(big.Int).Sub(cur.delegTotal, prev.delegTotal)
	dDelegBal := new(big.Int).Sub(new(big.Int).Add(cur.sumDelegBal(), cur.delegPend), new(big.Int).Add(prev.sumDelegBal(), prev.delegPend))
	// delegators' claims (balance + pending payouts) may only grow through the counter (the alphabet has
	// no delegation-reward withdrawal, pending payouts only leave)
	if dDelegBal.Cmp(dDeleg) > 0 {
		m.violate("delegator-credit-not-counted", "op=begin-block|regime="+m.regimeName(),
			fmt.Sprintf("h=%d: delegators' reward balances grew by %s but delegRwz_total_rewards only by %s", h, dDelegBal, dDeleg))
		dDeleg = dDelegBal
	}
	if dDeleg.Sign() < 0 {
		m.violate("reward-record-decreased", "op=begin-block|record=delegRwz_total_rewards|regime="+m.regimeName(), fmt.Sprintf("h=%d: delegRwz_total_rewards decreased by %s", h, new(big.Int).Neg(dDeleg)))
	}
	credited.Add(credited, dDeleg)
	if credited.Sign() > 0 {
		m.info["blocks_with_credit"]++
	}
	if dDeleg.Sign() > 0 {
		m.info["blocks_with_delegator_credit"]++
		m.flags["deleg"] = true
	}
	if len(b.Ev.Absent) > 0 && credited.Sign() > 0 {
		anyAbsentCredit = true
		m.info["blocks_with_credit_and_absent_signer"]++
		m.flags["absent"] = true
	}
	_ = anyAbsentCredit
	pc := poolClass(prev.delegPool, s)
	m.info["blocks_delegpool_"+pc]++
	votes := "all-signed"
	if len(b.Ev.Absent) > 0 {
		votes = "absent-signer"
	}
	_ = votes
	books := "within-supply"
	if len(m.overran) > 0 {
		books = "overran"
	}
	// the operation behind every block-reward clause is the reward distribution of BeginBlock; what
	// discriminates root causes is the schedule regime, whether a year's books already overran, and
	// the size class of the delegation pool (it selects the split formulas)
	facts := "op=begin-block|regime=" + m.regimeName() + "|year-books=" + books
	if books == "within-supply" {
		facts += "|delegpool=" + pc
	}
	m.blockFacts[h] = "regime=" + m.regimeName() + "|year-books=" + books
	m.log("h=%d t=+%ds ev=%s regime=%s N=%d pulled(fresh)=%s credited=%s (delegators %s) pool=%s delegpool=%s", h, secs(b.T.Sub(m.genesis)), b.Ev.Name, m.regimeName(), m.cycleN, fresh, credited, dDeleg, prev.rewardPool, prev.delegPool)

	// ---- (a) credited <= pulled <= schedule
	if fresh.Sign() < 0 {
		m.violate("pulled-negative", facts, fmt.Sprintf("h=%d: a freshly started calculator pulls a negative amount %s", h, fresh))
	}
	if credited.Cmp(fresh) > 0 {
		m.violate("credited>pulled", facts, fmt.Sprintf("h=%d: credited %s to validators and delegators but the amount pulled for this block (fresh calculator on the committed state) is %s", h, credited, fresh))
	}
	if !m.degenerate {
		var bound *big.Int
		var bname string
		if m.regime >= 0 {
			bound, bname = m.leftAtCycle, fmt.Sprintf("left of year %d's supply at the cycle's begin (supply %s - credited so far %s)", m.regime+1, m.supplies[m.regime], new(big.Int).Sub(m.supplies[m.regime], m.leftAtCycle))
			if bound.Sign() < 0 {
				bound = new(big.Int)
			}
		} else {
			bound, bname = m.burnout, "the burn-out rate"
			if prev.rewardPool.Cmp(bound) < 0 {
				bound, bname = prev.rewardPool, "the rewards pool (below the burn-out rate)"
				m.info["blocks_burnout_capped_by_pool"]++
				m.flags["poolcap"] = true
				if prev.rewardPool.Sign() == 0 {
					m.info["blocks_burnout_pool_dry"]++
				}
			}
		}
		m.info["bound_checks"]++
		if fresh.Cmp(bound) > 0 {
			m.violate("pulled>schedule", facts, fmt.Sprintf("h=%d: pulled %s exceeds %s = %s", h, fresh, bname, bound))
		}
		if fresh.Cmp(bound) == 0 && fresh.Sign() > 0 {
			m.info["pulled_equals_bound"]++
		}
		if credited.Cmp(bound) > 0 && credited.Cmp(fresh) <= 0 {
			// unreachable if the two clauses above hold; kept for the report when they do not
			m.info["credited_above_bound"]++
		}
	} else {
		m.info["degenerate_cycle_blocks"]++
	}
	if m.regime >= 0 && h != h0 && fresh.Cmp(m.freshAtCycle) != 0 {
		m.violate("pulled-varies-within-cycle", facts, fmt.Sprintf("h=%d: a node restarted before this block pulls %s, a node restarted before the cycle's first block (h=%d) pulled %s", h, fresh, h0, m.freshAtCycle))
	}
	if h != h0 {
		m.info["within_cycle_comparisons"]++
	}

	// ---- (b) books
	dT := new(big.Int).Sub(cur.tdist, prev.tdist)
	if dT.Cmp(credited) < 0 {
		m.violate("booked<credited", facts, fmt.Sprintf("h=%d: total-distributed counter grew by %s, credited %s", h, dT, credited))
	}
	if dT.Cmp(fresh) > 0 {
		m.violate("booked>pulled", facts, fmt.Sprintf("h=%d: total-distributed counter grew by %s, pulled %s", h, dT, fresh))
	}
	for i, y := range cur.years {
		if i < len(m.supplies) && y.Distributed.Cmp(m.supplies[i]) > 0 && !m.overran[i] {
			m.overran[i] = true
			m.info["year_books_above_supply"]++
			m.flags["overrun"] = true
			m.log("   NOTE h=%d: year %d distributed %s > supply %s", h, i+1, y.Distributed, m.supplies[i])
			if overrunIsViolation {
				m.violate("year-distributed>year-supply", fmt.Sprintf("op=begin-block|regime=%s|forecast-blocks<cycle=%v", m.regimeName(), m.regime >= 0 && m.cycleN < s.Cycle),
					fmt.Sprintf("h=%d: year %d has distributed %s, its supply is %s (per-block amount %s, %d blocks forecast, cycle of %d blocks)", h, i+1, y.Distributed, m.supplies[i], fresh, m.cycleN, s.Cycle))
			}
		}
	}
	if m.regime >= 0 {
		m.dist[m.regime].Add(m.dist[m.regime], credited)
	}

	// ---- (c) withdrawal and maturity
	if b.WAmount != nil {
		a := b.Val0
		avail := new(big.Int).Sub(m.maturedAt(a, h), get(m.withdrawn, a))
		op := b.Ev.Op
		if b.TxCode == 0 {
			m.info["accepted."+op]++
			m.flags["W"] = true
			cls := "below"
			if c := b.WAmount.Cmp(avail); c > 0 {
				cls = "above"
				m.violate("withdraw>matured", "op="+op+"|regime="+m.regimeName(), fmt.Sprintf("h=%d: WITHDRAW_REWARD of %s accepted, matured and not withdrawn for the validator: %s", h, b.WAmount, avail))
			} else if new(big.Int).Sub(avail, b.WAmount).Cmp(e18) < 0 {
				cls = "largest-expressible"
			}
			m.info["withdraw_accepted_"+cls]++
			m.withdrawn[a] = new(big.Int).Add(get(m.withdrawn, a), b.WAmount)
		} else {
			m.info["rejected."+op]++
			switch {
			case b.WAmount.Cmp(avail) > 0:
				m.info["withdraw_rejected_above_matured"]++
				m.flags["Wrej"] = true
			case b.WAmount.Cmp(prev.rewardPool) > 0:
				m.info["withdraw_rejected_pool_short"]++
				m.flags["Wpool"] = true
			default:
				m.info["withdraw_rejected_other"]++
			}
		}
	} else if b.Ev.Op != "" {
		if b.TxCode == 0 {
			m.info["accepted."+b.Ev.Op]++
		} else {
			m.info["rejected."+b.Ev.Op]++
		}
	}
	for _, a := range vals {
		have := new(big.Int).Add(get(cur.cumBal, a), get(cur.cumWd, a))
		mat := m.maturedAt(a, h)
		if have.Cmp(mat) > 0 {
			m.violate("matured>aged-credit", "op=begin-block|regime="+m.regimeName(), fmt.Sprintf("h=%d: matured balance + withdrawn of %s is %s, credited at least two interval boundaries ago: %s", h, a, have, mat))
		}
		hadPrev := new(big.Int).Add(get(prev.cumBal, a), get(prev.cumWd, a))
		if have.Cmp(hadPrev) > 0 {
			m.info["maturity_moves"]++
			if have.Cmp(mat) == 0 {
				m.info["maturity_moves_exact"]++
			}
		}
		if get(cur.cumWd, a).Cmp(get(m.withdrawn, a)) != 0 {
			m.violate("withdrawn-counter", "op=withdraw", fmt.Sprintf("h=%d: withdrawn counter of %s is %s, accepted withdrawals sum to %s", h, a, get(cur.cumWd, a), get(m.withdrawn, a)))
		}
		if get(cur.cumWd, a).Cmp(mat) > 0 {
			m.violate("withdrawn>matured", "op=withdraw", fmt.Sprintf("h=%d: %s has withdrawn %s in total, matured in total %s", h, a, get(cur.cumWd, a), mat))
		}
	}
	wantPool := new(big.Int).Set(prev.rewardPool)
	if b.WAmount != nil && b.TxCode == 0 {
		wantPool.Sub(wantPool, b.WAmount)
	}
	if b.Ev.Op == opDonateRewards && b.TxCode == 0 {
		wantPool.Add(wantPool, olt(9))
	}
	if cur.rewardPool.Cmp(wantPool) != 0 {
		m.violate("rewards-pool-accounting", "op="+poolOp(b.Ev), fmt.Sprintf("h=%d: rewards pool is %s, expected %s (previous balance, accepted withdrawals and donations)", h, cur.rewardPool, wantPool))
	}
	if len(cur.negative) > 0 {
		m.violate("negative-reward-record", "op=begin-block|regime="+m.regimeName(), fmt.Sprintf("h=%d: negative amounts stored under %v", h, cur.negative))
	}
}

// overrunIsViolation: whether "a year's books exceed the year's supply" is reported as a violation.
// The statement bounds every single block by what was left when the cycle began; it does not bound
// the sum over the blocks of one cycle, and the repository's own (always failing, randomised) test
// TestRewardsCumulativeStore_PullRewards expects a year-2 distribution of 70 058 400 against a supply of
// 70 000 000 - the maintainers accept the overrun. Reporting it would demand more than C13 states, so
// it is only counted (info year_books_above_supply); see DESIGN.md section 9.
var overrunIsViolation = false

func (m *model) tag() string {
	var rs, fs []string
	for r := range m.regimes {
		rs = append(rs, r)
	}
	for f := range m.flags {
		fs = append(fs, f)
	}
	sort.Strings(rs)
	sort.Strings(fs)
	return fmt.Sprintf("%s|%v|%v", m.s.Name, rs, fs)
}
