// Package c13 is the explicit-state explorer of property C13: block rewards stay within the pulled
// amount and the yearly schedule; a validator can never withdraw more reward than has matured; the
// per-block amount does not depend on when, within a calculation cycle, a node was restarted.
package c13

import (
	"fmt"
	"os"
	"time"

	"github.com/Oneledger/protocol/consensus"
	"github.com/Oneledger/protocol/data/balance"
	"github.com/Oneledger/protocol/data/keys"
	"github.com/Oneledger/protocol/data/rewards"

	"verif/harness"
	"verif/txs/stk"
)

const day = 24 * time.Hour

// wspec is one genesis configuration of the search (selected by the first element of a history).
type wspec struct {
	Name     string
	Powers   []int64 // whole OLT == voting power of Vals[i]
	Cycle    int64   // BlockSpeedCalculateCycle
	Interval int64   // RewardInterval
	EstSecs  int64   // EstimatedSecondsPerCycle
	Window   int64   // YearCloseWindow (seconds)
	Supplies []int64 // YearBlockRewardShares, whole OLT
	Burnout  int64   // BurnoutRate, whole OLT
	Pool     int64   // genesis balance of the rewards pool, whole OLT
	// YearClose, if set, preloads the year records (as a state export/import does): year 1 starts at
	// genesis time, year i closes YearClose[i] seconds after genesis. nil = the application creates the
	// records itself at block 1 (calendar years from the time of block 1).
	YearClose []int64
	Quick     bool // part of the quick tier
	Unstake   bool // the alphabet contains the power-changing operation
	Note      string
}

// worlds is the fixed list of configurations. Index = first element of every history.
//
// "long" worlds use calendar reward years: the year boundary and the end of the schedule are only
// reachable with the big time steps (40 d / 400 d / 550 d). "short" worlds preload year records that
// close within the first dozen blocks at the default block time, so that cycle boundaries, the close
// window, the year change and the burn-out regime are crossed by default blocks and the deviation
// budget is left for vote patterns, withdrawals, delegation changes and restarts around them.
func worlds() []wspec {
	eq4 := []int64{1000000, 1000000, 1000000, 1000000}
	skew := []int64{1000000, 500000, 3500000} // 2 : 1 : 7
	return []wspec{
		// cycle = 34 s: year 1 is current in blocks 1-2, year 2 in blocks 3-6, burn-out from block 7
		{Name: "short-skew-c2i3", Powers: skew, Cycle: 2, Interval: 3, EstSecs: 34, Window: 40, Supplies: []int64{120, 90}, Burnout: 5, Pool: 1000000,
			YearClose: []int64{62, 130}, Quick: true, Note: "year 1 closes at +62 s, year 2 at +130 s (close window 40 s > one cycle of 34 s); large rewards pool"},
		// cycle = 51 s: year 1 in blocks 1-3, year 2 in blocks 4-6, burn-out from block 7
		{Name: "short-eq4-c3i2-drypool", Powers: eq4, Cycle: 3, Interval: 2, EstSecs: 51, Window: 60, Supplies: []int64{90, 60}, Burnout: 5, Pool: 1,
			YearClose: []int64{80, 130}, Quick: true, Note: "year 1 closes at +80 s, year 2 at +130 s (close window 60 s > one cycle of 51 s); rewards pool of 1 OLT: below the burn-out rate, dry after one withdrawal, above the rate after a donation"},
		{Name: "long-skew-c3i2", Powers: skew, Cycle: 3, Interval: 2, EstSecs: 51, Window: 3600, Supplies: []int64{40000000, 20000000}, Burnout: 5, Pool: 1000000,
			Quick: true, Unstake: true, Note: "calendar years; about 21 OLT per block at the default speed; V2 may drop out of the validator set or raise its stake"},
		{Name: "long-eq4-c2i3-drypool", Powers: eq4, Cycle: 2, Interval: 3, EstSecs: 34, Window: 3600, Supplies: []int64{40000000, 20000000}, Burnout: 5, Pool: 3,
			Quick: true, Note: "calendar years; rewards pool of 3 OLT, below the burn-out rate"},
		// cycle = 34 s: year 1 in blocks 1-4, year 2 in blocks 5-8, burn-out from block 9
		{Name: "short-eq4-c2i2", Powers: eq4, Cycle: 2, Interval: 2, EstSecs: 34, Window: 40, Supplies: []int64{100, 100}, Burnout: 7, Pool: 40,
			YearClose: []int64{96, 164}, Unstake: true, Note: "cycle == interval; year 1 closes at +96 s, year 2 at +164 s; rewards pool of 40 OLT; V2 may lower its power"},
		{Name: "long-skew-c3i3", Powers: skew, Cycle: 3, Interval: 3, EstSecs: 51, Window: 3600, Supplies: []int64{40000000, 20000000}, Burnout: 5, Pool: 30,
			Unstake: true, Note: "calendar years; cycle == interval; rewards pool of 30 OLT; V2 may drop out of the validator set"},
	}
}

// build instantiates the harness world of a configuration (fresh objects on every call).
func (s *wspec) build() *harness.World {
	w := harness.NewWorld("c13-"+s.Name, len(s.Powers), len(s.Powers))
	for i, v := range w.Vals {
		v.Power = s.Powers[i]
	}
	ro := &w.Gov.RewardOptions
	ro.RewardInterval = s.Interval
	ro.BlockSpeedCalculateCycle = s.Cycle
	ro.EstimatedSecondsPerCycle = s.EstSecs
	ro.YearCloseWindow = s.Window
	ro.YearBlockRewardShares = nil
	for _, y := range s.Supplies {
		ro.YearBlockRewardShares = append(ro.YearBlockRewardShares, harness.OLTUnits(y))
	}
	ro.BurnoutRate = harness.OLTUnits(s.Burnout)
	w.PoolBalances = []consensus.BalanceState{
		{Address: keys.Address("rewardpool"), Currency: "OLT", Amount: harness.OLTUnits(s.Pool)},
	}
	if s.YearClose != nil {
		closes := append([]int64(nil), s.YearClose...)
		w.Mutate = func(w *harness.World, st *consensus.AppState) {
			start := w.GenesisTime.UTC()
			var ys []rewards.RewardYear
			for _, c := range closes {
				cl := w.GenesisTime.UTC().Add(time.Duration(c) * time.Second)
				ys = append(ys, rewards.RewardYear{StartTime: start, CloseTime: cl, Distributed: balance.NewAmount(0), TillLastCycle: balance.NewAmount(0)})
				start = cl
			}
			st.Rewards.CumuState.YearsDistributed = rewards.RewardYears{Years: ys}
		}
	}
	return w
}

// yearCloses returns the close times of the reward years as the statement's schedule defines them
// (independent of what the application stored): preloaded ones, or calendar years from block 1.
func (s *wspec) yearCloses(genesis, block1 time.Time) []time.Time {
	var out []time.Time
	if s.YearClose != nil {
		for _, c := range s.YearClose {
			out = append(out, genesis.UTC().Add(time.Duration(c)*time.Second))
		}
		return out
	}
	t := block1.UTC()
	for range s.Supplies {
		t = t.AddDate(1, 0, 0).UTC()
		out = append(out, t)
	}
	return out
}

// event is one whole block.
type event struct {
	Name    string
	Absent  []int         // validators (indexes into World.Vals) missing from the last commit
	Dt      time.Duration // 0 = 17 s
	Op      string        // transaction in the block ("" = none)
	Restart bool          // the node is crash-restarted right before this block
	NA      bool          // not part of this configuration's alphabet
}

const (
	opDelegSmall    = "delegate-small"    // Users[0] delegates 1000 OLT (pool small against the validators' power)
	opDelegBig      = "delegate-big"      // Users[1] delegates 500 000 000 OLT (pool 100x the validators' power)
	opUndelegBig    = "undelegate-big"    // Users[1] takes the 500 000 000 OLT out again
	opDonateDeleg   = "donate-delegpool"  // Users[2] sends 4000 OLT to the delegation pool (nobody's delegation: dilutes)
	opDonateRewards = "donate-rewardpool" // Users[2] sends 9 OLT to the rewards pool
	opUnstake       = "unstake-V2"        // Vals[1] unstakes 450 000 OLT: lower power (equal worlds) / below the minimum, out of the set (2:1:7 worlds)
	opStakeMore     = "stake-more-V2"     // Vals[1] stakes 2 000 000 OLT more: for two blocks its stake record is ahead of the power in the commits
	opWOne          = "withdraw-1"        // Vals[0] withdraws 1 OLT of its matured rewards
	opWAll          = "withdraw-all"      // Vals[0] withdraws floor(matured, not yet withdrawn) whole OLT (the largest expressible amount <= matured)
	opWOver         = "withdraw-over"     // Vals[0] withdraws one OLT more than that (> matured: must fail)
)

// events is the per-block alphabet (index -> event), identical in master and workers and laid out
// identically for every configuration, so that an index names the same event everywhere; events that
// make no sense in a configuration are marked NA there (never executed). Index 0 is the default block
// (everybody signs, 17 s, no transaction, no restart).
func (s *wspec) events() []event {
	eq := len(s.Powers) == 4
	short := s.YearClose != nil
	fast := time.Second
	if os.Getenv("VERIF_C13_SUBSECOND") != "" {
		// probe outside the stated assumption (TimeIotaMs = 1000): -hist replays only, see FINDINGS.md
		fast = time.Millisecond
	}
	return []event{
		{Name: "default"},
		// equal powers: any single validator may be absent (3/4 > 2/3), never two. V1 is the validator that
		// withdraws; V2 stands for the other three (they differ only in when they propose, and every
		// validator is proposer and non-proposer at some height of a history).
		// 2:1:7 - the two small ones may be absent, alone or together (7/10 > 2/3); the big one never.
		{Name: "absent-V1", Absent: []int{0}},
		{Name: "absent-V2", Absent: []int{1}},
		{Name: "absent-V1+V2", Absent: []int{0, 1}, NA: eq},
		{Name: "dt-1s", Dt: fast},
		// years of a few minutes: a slow block changes the forecast, 40 days end the schedule.
		// calendar years: 40 d stays inside year 1, 400 d lands in year 2, 550 d lands in year 2 after a
		// cycle so slow that no further block is forecast to fit, twice 400 d ends the schedule.
		{Name: "dt-60s", Dt: 60 * time.Second, NA: !short},
		{Name: "dt-40d", Dt: 40 * day},
		{Name: "dt-400d", Dt: 400 * day, NA: short},
		{Name: "dt-550d", Dt: 550 * day, NA: short},
		{Name: opDelegSmall, Op: opDelegSmall},
		{Name: opDelegBig, Op: opDelegBig},
		{Name: opUndelegBig, Op: opUndelegBig},
		{Name: opDonateDeleg, Op: opDonateDeleg},
		// only where the pool is small enough for a donation to change the regime
		{Name: opDonateRewards, Op: opDonateRewards, NA: s.Pool >= 1000},
		{Name: opUnstake, Op: opUnstake, NA: !s.Unstake},
		// (added after a seeded change - the share numerator taken from the stake record instead of the commit -
		// escaped the alphabet in which no power ever went UP)
		{Name: opStakeMore, Op: opStakeMore, NA: !s.Unstake},
		{Name: opWOne, Op: opWOne},
		{Name: opWAll, Op: opWAll},
		{Name: opWOver, Op: opWOver},
		{Name: "restart", Restart: true},
	}
}

func (e event) bigDt() bool { return e.Dt >= day }

// numEvents is the size of the per-block alphabet (the same layout for every configuration).
func numEvents() int { w := worlds()[0]; return len(w.events()) }

// buildTx builds the transaction of an operation. pos is the position in the history (distinct memos:
// byte-identical transactions are rejected as replays); floorMaturedOLT is the whole-OLT part of what
// has matured for Vals[0] and is not yet withdrawn at the time the transaction runs.
func buildTx(w *harness.World, op string, pos int, floorMaturedOLT int64) *harness.TxSpec {
	memo := fmt.Sprintf("c13-%d-%s", pos, op)
	switch op {
	case opDelegSmall:
		return stk.Delegate(w.Users[0], stk.OLT(1000), memo)
	case opDelegBig:
		return stk.Delegate(w.Users[1], stk.OLT(500000000), memo)
	case opUndelegBig:
		return stk.Undelegate(w.Users[1], stk.OLT(500000000), memo)
	case opDonateDeleg:
		return stk.SendPool(w.Users[2], "DelegationPool", stk.OLT(4000), memo)
	case opDonateRewards:
		return stk.SendPool(w.Users[2], "RewardsPool", stk.OLT(9), memo)
	case opUnstake:
		return stk.Unstake(w.Vals[1].Val, w.Vals[1].Stake, stk.WholeOLT(450000), memo)
	case opStakeMore:
		return stk.Stake(w.Vals[1], w.Vals[1].Stake, stk.WholeOLT(2000000), memo)
	case opWOne:
		return stk.WithdrawReward(w.Vals[0].Val.Addr, w.Vals[0].Stake, stk.WholeOLT(1), memo)
	case opWAll:
		return stk.WithdrawReward(w.Vals[0].Val.Addr, w.Vals[0].Stake, stk.WholeOLT(floorMaturedOLT), memo)
	case opWOver:
		return stk.WithdrawReward(w.Vals[0].Val.Addr, w.Vals[0].Stake, stk.WholeOLT(floorMaturedOLT+1), memo)
	}
	return nil
}

// withdrawAmountOLT returns the whole-OLT amount a withdraw operation asks for.
func withdrawAmountOLT(op string, floorMaturedOLT int64) (int64, bool) {
	switch op {
	case opWOne:
		return 1, true
	case opWAll:
		return floorMaturedOLT, true
	case opWOver:
		return floorMaturedOLT + 1, true
	}
	return 0, false
}
