package c13

import (
	"encoding/json"
	"flag"
	"fmt"
	"os"
	"sort"
	"strconv"
	"strings"
	"time"

	"verif/explore"
	"verif/harness"
)

const prop = "C13"

func workerMain() int {
	out := harness.KeepStdout() // results go to the original stdout (a pipe to the master)
	harness.SilenceStdout()
	defer harness.RemoveScratch()
	return explore.ServeWorker(out, func(raw json.RawMessage) interface{} {
		var j explore.BFSJob
		if err := json.Unmarshal(raw, &j); err != nil {
			return explore.BFSOut{Err: err.Error()}
		}
		return execHist(j.Hist, j.Tier, nil)
	})
}

// replayHist re-executes one history with the plain harness and prints every block's verdict.
func replayHist(h []int) int {
	harness.SilenceStdout()
	defer harness.RemoveScratch()
	harness.Outf("replaying %v\n", describe(h))
	out := execHist(h, "thorough;k=99;L=-1", harness.Out())
	if out.Err != "" {
		harness.Outf("harness error: %s\n", out.Err)
		return 2
	}
	if out.Key == "" && out.NoExpand && len(out.Viol) == 0 {
		harness.Outf("history is outside the alphabet/bounds\n")
		return 2
	}
	if len(out.Viol) > 0 {
		for _, v := range out.Viol {
			harness.Outf("VIOLATED: %s\n    %s\n", v.Sig, v.What)
		}
		return 1
	}
	harness.Outf("no violation on this history\n")
	return 0
}

func replay(path string) int {
	var doc struct {
		Case struct {
			H []int `json:"h"`
		} `json:"case"`
	}
	b, err := os.ReadFile(path)
	if err == nil {
		err = json.Unmarshal(b, &doc)
	}
	if err != nil {
		fmt.Println(err)
		return 2
	}
	return replayHist(doc.Case.H)
}

// Main is the entry point of `vc13 C13 ...`.
func Main(args []string) int {
	if explore.IsWorker(prop) {
		return workerMain()
	}
	var histFlag string
	var maxK, depthFlag int
	f := explore.ParseFlags(prop, args, func(fs *flag.FlagSet) {
		fs.StringVar(&histFlag, "hist", "", "replay a history given as comma separated names or indexes (configuration, then events), e.g. long-skew-c3i2,default,default,dt-400d")
		fs.IntVar(&maxK, "k", -1, "largest deviation bound to run (default: tier)")
		fs.IntVar(&depthFlag, "depth", -1, "blocks per history (default: tier)")
	})
	if f.Replay != "" {
		return replay(f.Replay)
	}
	if histFlag != "" {
		var h []int
		for _, p := range strings.Split(histFlag, ",") {
			p = strings.TrimSpace(p)
			n, err := strconv.Atoi(p)
			if err != nil {
				n = -1
				for i := 0; i < len(worlds())+numEvents(); i++ {
					if eventName(i) == p || eventName(i) == "config:"+p {
						n = i
					}
				}
				if n < 0 {
					fmt.Printf("unknown element %q\n", p)
					return 2
				}
			}
			h = append(h, n)
		}
		return replayHist(h)
	}
	harness.SilenceStdout()
	rep := explore.NewReporter(prop, "model_checking", f, harness.Out())
	quick := f.Tier == "quick"
	L := map[bool]int{true: 8, false: 12}[quick]
	K := map[bool]int{true: 2, false: 3}[quick]
	if depthFlag > 0 {
		L = depthFlag
	}
	if maxK >= 0 {
		K = maxK
	}
	budget := map[bool]time.Duration{true: 210 * time.Second, false: 27 * time.Minute}[quick]
	if f.Budget > 0 {
		budget = f.Budget
	}
	deadline := time.Now().Add(budget)
	ws := worlds()
	nev := numEvents()

	// Deviation-bounded search: all histories with 0, then <= 1, then <= 2 ... non-default blocks (every
	// block other than "everybody signs, 17 s, no transaction, no restart" is a deviation). Each bound is
	// a complete breadth-first search of its own; the last bound that ran to the full depth is reported.
	var last explore.BFSStats
	boundDone, depthDone := -1, 0
	var perBound []map[string]interface{}
	total := map[string]int64{}
	for k := 0; k <= K; k++ {
		if time.Now().After(deadline) {
			break
		}
		p := params{Quick: quick, K: k, L: L}
		cfg := explore.BFSConfig{
			Command:  prop,
			Workers:  f.Workers,
			MaxDepth: L + 1,
			NumEvents: func(d int) int {
				if d == 0 {
					return len(ws)
				}
				return len(ws) + nev
			},
			Deadline:  deadline,
			PerJob:    2 * time.Minute,
			Tier:      p.String(),
			EventName: eventName,
		}
		t0 := time.Now()
		st := explore.RunBFS(cfg, rep)
		perBound = append(perBound, map[string]interface{}{"deviations": k, "states": st.States, "executions": st.Info["executions"], "depth_completed": st.DepthCompleted - 1,
			"exhaustive": st.Exhaustive, "wall_s": time.Since(t0).Seconds(), "harness_errors": st.HarnessErrors})
		total["executions"] += st.Info["executions"]
		total["nontrivial"] += st.Info["nontrivial_executions"]
		last = st
		if st.Exhaustive && st.DepthCompleted == L+1 {
			boundDone, depthDone = k, L
		} else {
			if boundDone < 0 {
				depthDone = st.DepthCompleted - 1
			}
			break
		}
	}
	st := last
	st.Fill(rep)
	execs := st.Info["executions"]
	rep.Set("transitions", execs)
	rep.Set("traces_validated_against_impl", execs+st.Info["twin_executions"])
	rep.Set("evaluations", execs)
	rep.Set("padding_jobs_not_executed", st.Info["padding_jobs"])
	rep.Set("distinct_nontrivial", st.Info["nontrivial_executions"])
	rep.Set("rule", "figures are those of the search with the largest deviation bound run (it contains the smaller ones); one execution = one history (configuration + up to "+fmt.Sprint(L)+
		" blocks, each one event of the alphabet) replayed from genesis on the real application with the reference model run on every block, full-length histories followed by 2*interval+1 quiet blocks; histories containing a restart are additionally executed without the restart and the app hashes of all blocks compared; histories are distinct by construction (breadth-first over event sequences, successors only of new states); non-trivial = the execution contained at least one of: a decided WITHDRAW_REWARD (accepted, rejected above matured, rejected for an empty pool), a restart comparison, a credit with an absent signer, a delegators' credit, a burn-out block capped by the pool, a year change / end of schedule, a year skipped by the forecast, a year's books above its supply")
	rep.Set("deviation_bound_completed", boundDone)
	rep.Set("depth_completed", depthDone)
	rep.Set("per_bound", perBound)
	rep.Set("executions_all_bounds", total["executions"])
	names := map[string][]string{}
	var active []string
	for _, w := range ws {
		if quick && !w.Quick {
			continue
		}
		active = append(active, w.Name+": "+w.Note)
		for _, e := range w.events() {
			if !e.NA {
				names[w.Name] = append(names[w.Name], e.Name)
			}
		}
	}
	rep.Set("configurations_explored", active)
	rep.Set("alphabet", names)
	rep.Set("bounds", map[string]interface{}{
		"blocks_per_history": L, "deviations_per_history": K, "big_time_steps_per_history": maxBigDt, "events_per_block": nev,
		"validators": "4 x equal power / 3 x 2:1:7", "quiet_blocks_after_full_length_histories": "2*interval+1",
		"search": "deviation-bounded breadth-first search, all successors of every new state, dedup on configuration + height + recent block times + deviations spent + restart age + digest of the reward, delegation-reward, delegation and pool-balance records",
	})
	rep.Assume("block times advance by at least one second per block (Tendermint's default TimeIotaMs = 1000, which the repository's genesis generator uses): a calculation cycle never lasts 0 seconds")
	rep.Assume("powers change only through the two power distributions, the delegation pool sizes and (one quick configuration, two more in the thorough tier) an UNSTAKE that lowers V2's power or drops it out of the validator set and a STAKE that raises it; no validator joins")
	rep.Assume("'pulled' is read from the real PullRewards of a fresh RewardCumulativeStore on the committed state before the block (what a node restarted at that point pulls); the running node's own figure is not observable and is covered through credited <= pulled and the restart twins")
	rep.Assume("drawing from the next year inside YearCloseWindow, and skipping a year in which the forecast fits no block, are treated as the schedule's own rules (configuration options), not as violations")
	rep.Assume("a WITHDRAW_REWARD counts as accepted when DeliverTx returns code 0 (CheckTx runs on the previous block's state and may disagree)")

	// vacuity: every operation must be accepted somewhere (except the one that must always fail)
	var never []string
	ops := []string{opDelegSmall, opDelegBig, opUndelegBig, opDonateDeleg, opDonateRewards, opWOne, opWAll}
	ops = append(ops, opUnstake, opStakeMore)
	if K >= 1 && boundDone >= 1 {
		for _, op := range ops {
			if st.Info["accepted."+op] == 0 {
				// undelegations need a delegation first: two deviations
				if op == opUndelegBig && boundDone < 2 {
					continue
				}
				if (op == opWOne || op == opWAll) && L < 6 {
					continue
				}
				never = append(never, op)
			}
		}
		if st.Info["accepted."+opWOver] > 0 {
			// reported as a violation by the oracle already
		}
	}
	sort.Strings(never)
	if st.HarnessErrors > 0 {
		fmt.Fprintf(harness.Out(), "C13: %d harness errors: %v\n", st.HarnessErrors, st.ErrSamples)
		rep.Finish()
		return 2
	}
	if len(never) > 0 {
		fmt.Fprintf(harness.Out(), "C13: operations of the alphabet that were never accepted anywhere (factory error?): %v\n", never)
		rep.Set("never_accepted", never)
		rep.Finish()
		return 2
	}
	return rep.Finish()
}
