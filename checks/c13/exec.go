package c13

import (
	"bytes"
	"fmt"
	"math/big"
	"os"
	"strconv"
	"strings"

	tmtypes "github.com/tendermint/tendermint/types"

	"github.com/Oneledger/protocol/data/balance"
	"github.com/Oneledger/protocol/data/rewards"
	"github.com/Oneledger/protocol/storage"

	"verif/explore"
	"verif/harness"
)

// params travel in BFSJob.Tier: "<tier>;k=<deviation budget>;L=<blocks per history>".
type params struct {
	Quick bool
	K     int // non-default events per history
	L     int // blocks per history (the quiet extension is appended to histories of exactly this length)
}

func (p params) String() string {
	t := "thorough"
	if p.Quick {
		t = "quick"
	}
	return fmt.Sprintf("%s;k=%d;L=%d", t, p.K, p.L)
}

func parseParams(s string) params {
	p := params{Quick: true, K: 99, L: -1}
	for i, f := range strings.Split(s, ";") {
		if i == 0 {
			p.Quick = f != "thorough"
			continue
		}
		if strings.HasPrefix(f, "k=") {
			p.K, _ = strconv.Atoi(f[2:])
		}
		if strings.HasPrefix(f, "L=") {
			p.L, _ = strconv.Atoi(f[2:])
		}
	}
	return p
}

const maxBigDt = 2 // at most two time steps of days per history

// quietBlocks: default blocks appended to full-length histories (two reward intervals + 1: everything
// credited in the history matures, and as 2*interval+1 > cycle at least one further cycle boundary is
// crossed).
func (s *wspec) quietBlocks() int { return int(2*s.Interval + 1) }

// freshPull asks the REAL PullRewards of a brand-new RewardCumulativeStore (empty calculator cache, as
// after a process start) what it pulls for block h on the committed state. The State object is a
// throw-away overlay: nothing it writes (the lazily created year records) reaches the tree.
func freshPull(x *harness.Run, opts *rewards.Options, h int64, pool *big.Int) (amt *big.Int, errText string) {
	defer func() {
		if r := recover(); r != nil {
			amt, errText = nil, fmt.Sprintf("panic: %v", r)
		}
	}()
	st := storage.NewState(x.R.App.VerifChainState())
	cs := rewards.NewRewardCumulativeStore("rwcum", st)
	o := *opts
	cs.SetOptions(&o)
	cs.Init(x.C.BS)
	a, err := cs.PullRewards(h, balance.NewAmountFromBigInt(new(big.Int).Set(pool)))
	if err != nil {
		return nil, err.Error()
	}
	return new(big.Int).Set(a.BigInt()), ""
}

type runOut struct {
	floors []int64 // per block: the whole-OLT withdrawable amount the withdraw operations were built from
	hashes [][]byte
	m      *model
	key    string
	err    string
	dead   bool
	halted bool
	// inadmissible: the history asks for a vote pattern Tendermint could not commit
	inadmissible bool
}

// run executes one history (events evs of configuration s, then ext default blocks). restarts=false
// ignores the restart flags (the uninterrupted twin); oracle=false only collects app hashes.
// floors (twin only): the withdrawable amounts of the main execution, so that both executions carry
// byte-identical transactions.
func run(s *wspec, evs []event, ext int, restarts, oracle bool, floors []int64, log *os.File) runOut {
	var out runOut
	w := s.build()
	var x *harness.Run
	var err error
	retries := int64(0)
	for attempt := 0; attempt < 3; attempt++ {
		// a start that fails is retried: under heavy machine load InitChain was seen to return its empty
		// error response about once in 100 000 starts (counted in the evidence as start_retries)
		if x, err = harness.StartRunAs(w, harness.NaturalIdentityOf(w.Vals[0])); err == nil {
			break
		}
		retries++
		w = s.build()
	}
	if err != nil {
		out.err = "start: " + err.Error()
		return out
	}
	defer x.Close()
	val0 := w.Vals[0].Val.Addr.String()
	m := newModel(s, w.GenesisTime)
	m.log = func(string, ...interface{}) {}
	if log != nil {
		m.log = func(f string, a ...interface{}) { fmt.Fprintf(log, "  "+f+"\n", a...) }
	}
	out.m = m
	if retries > 0 {
		m.info["start_retries"] = retries
	}
	opts := w.Gov.RewardOptions
	prev := decode(x.R.Dump())
	all := append(append([]event(nil), evs...), make([]event, ext)...)
	for i := len(evs); i < len(all); i++ {
		all[i] = event{Name: "quiet"}
	}
	lastRestart := -1
	for i, e := range all {
		h := int64(i + 1)
		if e.Restart && restarts {
			if err := x.R.CrashRestart(); err != nil {
				out.err = "restart: " + err.Error()
				return out
			}
			info := x.R.Info() // Tendermint's handshake
			if info.LastBlockHeight != h-1 {
				m.violate("restart-info", "op=restart", fmt.Sprintf("after a restart before block %d Info() reports height %d", h, info.LastBlockHeight))
			}
			lastRestart = i
			m.info["restarts"]++
			if (h-1)%s.Cycle == 0 {
				m.info["restarts_at_cycle_first_block"]++
			} else {
				m.info["restarts_inside_cycle"]++
			}
			m.flags["R"] = true
		}
		// the withdrawable amount at the time the block's transaction runs: what the model counts as
		// matured at this height (the chunk maturing in this very block's BeginBlock included) minus
		// what was withdrawn; "all" is the largest whole-OLT amount within it, "over" one OLT more
		floorM := new(big.Int).Div(new(big.Int).Sub(m.maturedAt(val0, h), get(m.withdrawn, val0)), e18).Int64()
		if floors != nil {
			floorM = floors[i]
		}
		out.floors = append(out.floors, floorM)
		spec := harness.BlockSpec{Dt: e.Dt, Absent: e.Absent}
		var wAmt *big.Int
		if e.Op != "" {
			spec.Txs = []*harness.TxSpec{buildTx(w, e.Op, i, floorM)}
			if n, ok := withdrawAmountOLT(e.Op, floorM); ok {
				wAmt = olt(n)
			}
		}
		if len(e.Absent) > 0 {
			ab := map[string]bool{}
			for _, vi := range e.Absent {
				ab[string(w.Vals[vi].Val.TM.PubKey().Address())] = true
			}
			if !x.C.CanSkip(ab) {
				// more than a third of the power would be missing: Tendermint cannot commit such a block
				out.inadmissible = true
				return out
			}
		}
		req := x.Prepare(spec)
		var fresh *big.Int
		var ferr string
		if oracle {
			fresh, ferr = freshPull(x, &opts, h, prev.rewardPool)
		}
		res := x.R.ExecBlock(req, false, nil)
		if x.R.Dead || res == nil || res.Panicked {
			out.dead = true
			m.violate("application-panicked", "op="+opKind(e)+"|regime="+m.regimeName(), fmt.Sprintf("h=%d: the application panicked and closed itself while executing the block (event %s)", h, e.Name))
			return out
		}
		out.hashes = append(out.hashes, res.AppHash)
		if err := x.Finish(res); err != nil {
			out.halted = true
			out.err = "chain halted: " + err.Error()
			return out
		}
		if !oracle {
			continue
		}
		cur := decode(x.R.Dump())
		if len(cur.bad) > 0 {
			out.err = fmt.Sprintf("undecodable reward records: %v", cur.bad)
			return out
		}
		b := blockInfo{H: h, Ev: e, T: x.C.Time, Fresh: fresh, FreshErr: ferr, TxCode: -1, ChkCode: -1, WAmount: wAmt, Val0: val0}
		if len(res.Txs) > 0 {
			b.TxCode = int(res.Txs[0].Code)
			if c := x.Checks[len(x.Checks)-1]; len(c) > 0 {
				b.ChkCode = int(c[0].Code)
			}
			if log != nil {
				fmt.Fprintf(log, "  h=%d tx %s: CheckTx code %d, DeliverTx code %d %s\n", h, e.Op, b.ChkCode, b.TxCode, res.Txs[0].Log)
			}
		}
		m.step(b, prev, cur)
		// the application's year records must describe the schedule the model uses
		if h == 1 || i == len(all)-1 {
			if len(cur.years) != len(m.closes) {
				out.err = fmt.Sprintf("h=%d: %d year records stored, schedule has %d years", h, len(cur.years), len(m.closes))
				return out
			}
			for yi, y := range cur.years {
				if !y.Close.Equal(m.closes[yi]) {
					out.err = fmt.Sprintf("h=%d: stored close time of year %d is %s, the model's schedule says %s", h, yi+1, y.Close, m.closes[yi])
					return out
				}
			}
		}
		prev = cur
		if i == len(evs)-1 {
			// state identity at the end of the history proper (the quiet extension is not part of it)
			out.key = stateKey(s, evs, lastRestart, x, cur)
		}
	}
	return out
}

// stateKey identifies a state for merging: configuration, height (absolute: year boundaries, cycle and
// interval positions all derive from it together with the times), the block times that can still
// influence a forecast (elapsed time and the steps of the last 2 cycles), the number of deviations and
// big time steps spent (they bound what may follow), whether/when the node was restarted (the
// calculator's cache is in-memory residue the digest cannot see: a restarted node is only merged with
// another node restarted equally long ago) and the digest of the projected key families.
func stateKey(s *wspec, evs []event, lastRestart int, x *harness.Run, cur *view) string {
	dev, bigN := 0, 0
	for _, e := range evs {
		if e.Name != "default" {
			dev++
		}
		if e.bigDt() {
			bigN++
		}
	}
	var steps []string
	from := len(evs) - int(2*s.Cycle)
	if from < 0 {
		from = 0
	}
	for _, e := range evs[from:] {
		steps = append(steps, fmt.Sprint(int64(e.Dt/1e9)))
	}
	rs := "-"
	if lastRestart >= 0 {
		ago := len(evs) - lastRestart
		if ago > int(2*s.Cycle) {
			ago = int(2*s.Cycle) + 1
		}
		rs = fmt.Sprint(ago)
	}
	// the Tendermint validator sets of the next blocks (updates take effect two blocks later)
	vs := ""
	if s.Unstake {
		for _, set := range []*tmtypes.ValidatorSet{x.C.LastVals, x.C.Vals, x.C.NextVals} {
			for _, v := range set.Validators {
				vs += fmt.Sprintf("%x:%d,", v.Address[:3], v.VotingPower)
			}
			vs += ";"
		}
	}
	return fmt.Sprintf("%s|h%d|t%d|%s|d%d|b%d|r%s|%s%s", s.Name, len(evs), secs(x.C.Time.Sub(x.W.GenesisTime)), strings.Join(steps, ","), dev, bigN, rs, vs, cur.digest)
}

// resolve maps a history to the configuration and events; ok=false: the history is outside the bounds
// (padding job, not executed). Encoding: h[0] = configuration index; every further element is
// len(worlds()) + event index (so that one index names one thing in samples and replays).
func resolve(h []int, p params) (s *wspec, evs []event, ok bool) {
	ws := worlds()
	if len(h) == 0 || h[0] < 0 || h[0] >= len(ws) {
		return nil, nil, false
	}
	s = &ws[h[0]]
	if p.Quick && !s.Quick {
		return s, nil, false
	}
	alpha := s.events()
	dev, bigN := 0, 0
	for i, x := range h[1:] {
		ei := x - len(ws)
		if ei < 0 || ei >= len(alpha) || alpha[ei].NA {
			return s, nil, false
		}
		e := alpha[ei]
		if ei != 0 {
			dev++
		}
		if e.bigDt() {
			bigN++
		}
		if i == 0 && (len(e.Absent) > 0 || e.Restart) {
			// block 1 carries no commit (nobody can be absent), and a restart before block 1 is a restart of
			// an empty application (InitChain is simply sent again)
			return s, nil, false
		}
		evs = append(evs, e)
	}
	if dev > p.K || bigN > maxBigDt {
		return s, nil, false
	}
	return s, evs, true
}

// eventName names an element of a history.
func eventName(i int) string {
	ws := worlds()
	if i >= 0 && i < len(ws) {
		return "config:" + ws[i].Name
	}
	alpha := ws[0].events()
	if j := i - len(ws); j >= 0 && j < len(alpha) {
		return alpha[j].Name
	}
	return fmt.Sprintf("?%d", i)
}

func describe(h []int) []string {
	var out []string
	for _, x := range h {
		out = append(out, eventName(x))
	}
	return out
}

// execHist is the worker's job: replay one history, run the oracle on every block, compare with the
// uninterrupted twin if the history contains a restart.
func execHist(h []int, tier string, log *os.File) explore.BFSOut {
	p := parseParams(tier)
	s, evs, ok := resolve(h, p)
	if !ok {
		return explore.BFSOut{NoExpand: true, Info: map[string]int64{"padding_jobs": 1}}
	}
	if len(evs) == 0 {
		return explore.BFSOut{Key: "config:" + s.Name, Info: map[string]int64{"configurations": 1}}
	}
	ext := 0
	if len(evs) == p.L || p.L < 0 {
		ext = s.quietBlocks()
	}
	hasRestart := false
	for _, e := range evs {
		hasRestart = hasRestart || e.Restart
	}
	main := run(s, evs, ext, true, true, nil, log)
	if main.inadmissible {
		return explore.BFSOut{NoExpand: true, Info: map[string]int64{"padding_jobs": 1, "vote_patterns_not_committable": 1}}
	}
	if main.err != "" && !main.halted {
		return explore.BFSOut{Err: main.err}
	}
	m := main.m
	out := explore.BFSOut{Key: main.key, Info: m.info}
	m.info["executions"] = 1
	if main.halted {
		out.Err = main.err // no validator-set change is possible in these worlds
		return out
	}
	if hasRestart && !main.dead {
		twin := run(s, evs, ext, false, false, main.floors, nil)
		if twin.err != "" {
			return explore.BFSOut{Err: "twin: " + twin.err}
		}
		m.info["twin_executions"] = 1
		m.info["restart_transcripts_compared"] = 1
		n := len(main.hashes)
		if len(twin.hashes) < n {
			n = len(twin.hashes)
		}
		for i := 0; i < n; i++ {
			m.info["restart_blocks_compared"]++
			if !bytes.Equal(main.hashes[i], twin.hashes[i]) {
				// where was the last restart relative to the divergence
				last := -1
				for j := 0; j <= i && j < len(evs); j++ {
					if evs[j].Restart {
						last = j
					}
				}
				dist := "same-cycle"
				if int64(i)/s.Cycle != int64(last)/s.Cycle {
					dist = "later-cycle"
				}
				if log != nil {
					fmt.Fprintf(log, "  restart twin: app hash of block %d differs (restarted %x, uninterrupted %x)\n", i+1, main.hashes[i], twin.hashes[i])
				}
				m.violate("restart-divergence", fmt.Sprintf("op=restart|diverges=%s|%s", dist, m.blockFacts[int64(i+1)]),
					fmt.Sprintf("node restarted before block %d: app hash of block %d is %x, the uninterrupted node's is %x (first difference)", last+1, i+1, main.hashes[i], twin.hashes[i]))
				break
			}
		}
	}
	out.Viol = m.viol
	out.Tags = []string{m.tag()}
	if main.dead {
		out.NoExpand = true
	}
	// non-trivial: something beyond plain crediting was decided in this execution
	if m.flags["W"] || m.flags["Wrej"] || m.flags["Wpool"] || m.flags["R"] || m.flags["absent"] || m.flags["deleg"] || m.flags["poolcap"] || m.flags["overrun"] || m.flags["skip"] || len(m.regimes) > 1 {
		m.info["nontrivial_executions"] = 1
	}
	if m.info["blocks_with_credit"] > 0 {
		m.info["executions_with_credit"] = 1
	}
	return out
}
