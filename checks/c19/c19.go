// Package c19 is the explicit-state explorer of property C19 (allegations: verdicts follow votes,
// frozen stays frozen, penalties bounded): breadth-first search over blocks of allegation / vote /
// release / stake / unstake / withdraw transactions and time steps on the real application, in several
// worlds (option presets x scripted prefixes leading to non-initial states), with a reference model of
// the statement compared against the committed state after every block (see model.go).
package c19

import (
	"encoding/json"
	"fmt"
	"io"
	"os"
	"sort"
	"strings"
	"time"

	"verif/explore"
	"verif/harness"
	"verif/txs/stk"
)

const prop = "C19"

// quietBlocks is the number of empty blocks appended to every history (a verdict's consequences - the
// delayed stake update, the power-0 update, the status change - need two blocks; re-election after a
// release two more).
const quietBlocks = 5

func workerMain(fn func(job json.RawMessage) interface{}) int {
	out := harness.KeepStdout()
	harness.SilenceStdout()
	defer harness.RemoveScratch()
	return explore.ServeWorker(out, fn)
}

// Main is the entry point: worker, replay or master.
func Main(args []string) int {
	if explore.IsWorker(prop) {
		return workerMain(func(raw json.RawMessage) interface{} {
			var j explore.BFSJob
			if err := json.Unmarshal(raw, &j); err != nil {
				return explore.BFSOut{Err: err.Error()}
			}
			_, wname := splitTier(j.Tier)
			wd := worldByName(wname)
			if wd == nil {
				return explore.BFSOut{Err: "unknown world " + wname}
			}
			return execHistory(wd, j.Hist, nil)
		})
	}
	f := explore.ParseFlags(prop, args, nil)
	only := os.Getenv("VERIF_C19_WORLD")
	if f.Replay != "" {
		return replay(f.Replay)
	}
	harness.SilenceStdout()
	defer harness.RemoveScratch()
	rep := explore.NewReporter(prop, "model_checking", f, harness.Out())
	budget := 210 * time.Second
	if f.Tier == "thorough" {
		budget = 27 * time.Minute
	}
	if f.Budget > 0 {
		budget = f.Budget
	}
	end := time.Now().Add(budget)

	total := explore.BFSStats{Info: map[string]int64{}, Tags: map[string]int{}, Exhaustive: true}
	bounds := map[string]interface{}{}
	for _, wd := range worlds {
		if only != "" && wd.name != only {
			continue
		}
		wd := wd
		dl := time.Now().Add(time.Duration(float64(time.Until(end)) * wd.share))
		cfg := explore.BFSConfig{
			Command:   prop,
			Workers:   f.Workers,
			MaxDepth:  wd.depth[f.Tier],
			NumEvents: func(depth int) int { return len(wd.alphabet) },
			Deadline:  dl,
			PerJob:    2 * time.Minute,
			Tier:      f.Tier + "|" + wd.name,
			EventName: func(i int) string { return wd.name + "/" + wd.alphabet[i].String() },
		}
		st := explore.RunBFS(cfg, rep)
		merge(&total, st, wd.name)
		var names, pre []string
		for _, e := range wd.alphabet {
			names = append(names, e.String())
		}
		for _, e := range wd.prefix {
			pre = append(pre, e.String())
		}
		bounds[wd.name] = map[string]interface{}{"genesis_validators": wd.nVals, "validator_vote_percentage": wd.votePct, "scripted_prefix": pre, "alphabet": names,
			"max_depth": wd.depth[f.Tier], "depth_completed": st.DepthCompleted, "states": st.States, "executions": st.Transitions, "exhaustive_within_bound": st.Exhaustive}
	}
	total.Fill(rep)
	rep.Set("bounds", map[string]interface{}{
		"worlds":          bounds,
		"quiet_extension": fmt.Sprintf("%d empty blocks after every history, oracle on each", quietBlocks),
		"options":         "ValidatorVotePercentage 50 or 67 /100, AllegationPercentage 50/100, penalty 30/100, bounty 50/100, release time 1 day, 4 (one world: 3) genesis validators with powers 4M,3M,2M,1M plus one unstaked candidate",
	})
	rep.Set("distinct_nontrivial", int(total.Info["nontrivial_executions"]))
	rep.Set("rule", "state = (height, chain time, digest of all evidence, staking and validator records and the bounty balance) at a block boundary; transition = one block (0..2 transactions, a time step) executed by replaying the scripted prefix plus the whole history from genesis on the real application, the reference model compared with the committed state and the validator updates after EVERY block including the quiet extension; every history is generated once; non-trivial = in the searched part or the extension an allegation, vote, release or staking transaction was accepted, a verdict was reached, or a staking transaction was rejected for a frozen validator (the scripted prefix alone does not count)")
	rep.Assume("'active validator' is read from the status records (es__vss_) of the previous block boundary for transactions and of the current one for the block-end tally; the records are cross-checked against the validator updates only for guilty validators")
	rep.Assume("all validators of the Tendermint set sign every block, except in world 'missed' where the accused may miss commits (the missed-votes freeze as such is C10's subject; here it only matters that a guilty verdict still freezes for the release time); the accused of an allegation is always one of the validators")
	rep.Assume("rounding of 'required votes' and of the penalty to whole OLT is not fixed by the statement: a band between the exact rational value and its ceiling is tolerated and counted")

	var missing []string
	if only == "" && total.DepthCompleted > 0 {
		for _, k := range kindNames {
			if total.Info["accepted_"+k] == 0 {
				missing = append(missing, "operation never accepted: "+k)
			}
		}
		for _, k := range []string{"antecedent_verdict_guilty", "antecedent_verdict_innocent", "antecedent_two_verdicts_in_one_block", "antecedent_penalty_checked",
			"antecedent_bounty_within_penalty", "antecedent_power0_update_for_guilty_validator", "antecedent_release_after_release_time",
			"antecedent_release_rejected_before_release_time", "antecedent_frozen_stake_rejected", "antecedent_frozen_unstake_rejected", "antecedent_frozen_withdraw_rejected",
			"antecedent_repeated_vote_rejected", "antecedent_tally_with_votes_of_no_longer_active_validators", "rejected_allegation_by_user", "rejected_allegation_by_candidate", "rejected_vote_by_user"} {
			if total.Info[k] == 0 {
				missing = append(missing, "oracle antecedent never fired: "+k)
			}
		}
	}
	if total.HarnessErrors > 0 {
		fmt.Fprintf(harness.Out(), "%s: %d harness errors, e.g. %v\n", prop, total.HarnessErrors, total.ErrSamples)
	}
	code := rep.Finish()
	if len(missing) > 0 {
		fmt.Fprintf(harness.Out(), "%s: VACUOUS - refusing to report success: %s\n", prop, strings.Join(missing, "; "))
		return 2
	}
	if total.HarnessErrors > 0 && code == 0 {
		return 2
	}
	return code
}

func splitTier(t string) (tier, world string) {
	if i := strings.IndexByte(t, '|'); i >= 0 {
		return t[:i], t[i+1:]
	}
	return t, ""
}

func merge(t *explore.BFSStats, s explore.BFSStats, world string) {
	t.States += s.States
	t.Transitions += s.Transitions
	if s.DepthCompleted > t.DepthCompleted {
		t.DepthCompleted = s.DepthCompleted
	}
	for _, l := range s.PerLevel {
		l2 := map[string]int{}
		for k, v := range l {
			l2[k] = v
		}
		l2["world_index"] = worldIndex(world)
		t.PerLevel = append(t.PerLevel, l2)
	}
	for k, v := range s.Info {
		t.Info[k] += v
	}
	for k, v := range s.Tags {
		t.Tags[k] += v
	}
	t.HarnessErrors += s.HarnessErrors
	t.ErrSamples = append(t.ErrSamples, s.ErrSamples...)
	if len(t.ErrSamples) > 5 {
		t.ErrSamples = t.ErrSamples[:5]
	}
	t.Died += s.Died
	t.Capped = t.Capped || s.Capped
	t.DeadlineHit = t.DeadlineHit || s.DeadlineHit
	t.Exhaustive = t.Exhaustive && s.Exhaustive
}

func acct(w *harness.World, a int) *harness.Account {
	if a == user {
		return w.Users[0]
	}
	return w.Vals[a].Val
}

// buildTx turns an operation into a signed transaction; amount is the resolved whole-OLT amount of
// staking kinds.
func buildTx(w *harness.World, o op, amount int64, memo string) *harness.TxSpec {
	switch o.kind {
	case opAllegation:
		return stk.Allegation("c19-req-"+o.req, acct(w, o.actor), w.Vals[o.target].Val.Addr, 1, "c19 proof", memo)
	case opVote:
		c := stk.No
		if o.yes {
			c = stk.Yes
		}
		return stk.AllegationVote("c19-req-"+o.req, acct(w, o.actor), c, memo)
	case opRelease:
		return stk.Release(w.Vals[o.actor].Val, memo)
	case opStake:
		payer := w.Vals[o.actor].Stake
		if o.payer > 0 {
			payer = w.Vals[o.payer-1].Stake
		}
		return stk.Stake(w.Vals[o.actor], payer, stk.WholeOLT(amount), memo)
	case opUnstake:
		return stk.Unstake(w.Vals[o.actor].Val, w.Vals[o.actor].Stake, stk.WholeOLT(amount), memo)
	case opWithdraw:
		return stk.Withdraw(w.Vals[o.actor].Val, w.Vals[o.actor].Stake, stk.WholeOLT(amount), memo)
	}
	panic("bad op kind")
}

// execHistory replays prefix + history on a fresh replica with the oracle on every block, then the
// quiet extension.
func execHistory(wd *wdef, hist []int, trace io.Writer) explore.BFSOut {
	out := explore.BFSOut{Info: map[string]int64{}}
	w := wd.build()
	// starting a replica can fail for reasons that have nothing to do with the history (resource
	// exhaustion on a heavily shared machine): try again before giving up without a verdict
	var x *harness.Run
	var err error
	for attempt := 0; attempt < 4; attempt++ {
		if x, err = harness.StartRun(w); err == nil {
			break
		}
		time.Sleep(time.Duration(200*(attempt+1)) * time.Millisecond)
	}
	if err != nil {
		out.Err = "start: " + err.Error()
		return out
	}
	defer x.Close()
	m := newModel(wd, w)
	m.prev = decode(x.R.Dump())
	say := func(format string, a ...interface{}) {
		if trace != nil {
			fmt.Fprintf(trace, format, a...)
		}
	}
	inTM := func(ad string) bool {
		a, ok := m.actor[ad]
		if !ok || a == user {
			return false
		}
		_, v := x.C.Vals.GetByAddress(w.Vals[a].Val.TM.PubKey().Address())
		return v != nil
	}
	finish := func() explore.BFSOut {
		for _, v := range m.viol {
			out.Viol = append(out.Viol, explore.BFSViol{Sig: v.sig, What: v.what})
		}
		for k, v := range m.info {
			out.Info[k] += v
		}
		out.Info["blocks_checked"] += m.height
		if !m.trivial {
			out.Info["nontrivial_executions"] = 1
		}
		for t := range m.tags {
			out.Tags = append(out.Tags, t)
		}
		sort.Strings(out.Tags)
		return out
	}
	runBlock := func(e event, tag string, scripted bool) bool {
		h := x.C.Height + 1
		var txs []*harness.TxSpec
		var amounts []int64
		for k, o := range e.ops {
			amt := o.amount
			if amt < 0 {
				amt = m.prev.stakeOf(m.addr[o.actor]).Int64()
			}
			amounts = append(amounts, amt)
			txs = append(txs, buildTx(w, o, amt, fmt.Sprintf("c19-%s-%d", tag, k)))
		}
		b := harness.BlockSpec{Txs: txs, Absent: e.absent}
		if e.hours > 0 {
			b.Dt = time.Duration(e.hours) * time.Hour
		}
		wasTrivial := m.trivial
		res, err := x.BlockAt(b, false, nil)
		nv := len(m.viol)
		if x.R.Dead || (res != nil && res.Panicked) {
			m.violate(fmt.Sprintf("C19|application-panicked|op=%s|world=%s", opsName(e.ops), m.cls()), fmt.Sprintf("height %d: the application panicked", h))
			say("block %d %-40s PANIC\n", h, e)
			return false
		}
		if err != nil {
			m.violate(fmt.Sprintf("C19|consensus-halt|op=%s|world=%s", opsName(e.ops), m.cls()), fmt.Sprintf("height %d: %v", h, err))
			say("block %d %-40s HALT %v\n", h, e, err)
			return false
		}
		m.block(h, x.C.Time, e.ops, amounts, res.Txs, res.ValUpdates, decode(x.R.Dump()), inTM)
		if scripted {
			m.trivial = wasTrivial
		}
		if trace != nil {
			var codes []string
			for k, t := range res.Txs {
				codes = append(codes, fmt.Sprintf("code%d", t.Code))
				_ = k
			}
			var ups []string
			for _, u := range res.ValUpdates {
				for i, v := range w.Vals {
					if string(u.PubKey.Data) == string(v.Val.Pub.Data) {
						ups = append(ups, fmt.Sprintf("V%d=%d", i+1, u.Power))
					}
				}
			}
			verdict := "ok"
			if len(m.viol) > nv {
				verdict = "VIOLATION"
			}
			say("block %d %-10s %s [%s] active=%d updates=%v open=%d frozen=%d\n", h, verdict, e, strings.Join(codes, " "), len(m.prev.activeSet()), ups, len(m.open), len(m.frozen))
			for _, v := range m.viol[nv:] {
				say("    %s\n    %s\n", v.sig, v.what)
			}
		}
		return true
	}
	for i, e := range wd.prefix {
		if !runBlock(e, fmt.Sprintf("p%d", i), true) {
			out.Err = fmt.Sprintf("scripted prefix of world %s failed at block %d", wd.name, i+1)
			fin := finish()
			fin.Err = out.Err
			// a violation in the scripted prefix is still a violation: report it, do not hide it as a harness error
			if len(fin.Viol) > 0 {
				fin.Err = ""
				fin.NoExpand = true
				fin.Key = "dead-prefix"
			}
			return fin
		}
	}
	for pos, e := range hist {
		if e < 0 || e >= len(wd.alphabet) {
			out.Err = fmt.Sprintf("bad event index %d", e)
			return out
		}
		if !runBlock(wd.alphabet[e], fmt.Sprint(pos), false) {
			out.NoExpand = true
			out.Key = fmt.Sprintf("dead:%v", hist)
			return finish()
		}
	}
	out.Key = wd.name + ":" + stateKey(x.C.Height, x.C.Time, x.R.Dump())
	for i := 0; i < quietBlocks; i++ {
		if !runBlock(event{}, fmt.Sprintf("q%d", i), false) {
			break
		}
	}
	return finish()
}

// replay re-executes one recorded history (a replay file written by the reporter, or
// {"world": "...", "h": [...]}) and prints the oracle's verdict for every block.
func replay(path string) int {
	b, err := os.ReadFile(path)
	if err != nil {
		fmt.Println(err)
		return 2
	}
	var doc struct {
		World string `json:"world"`
		H     []int  `json:"h"`
		Case  *struct {
			History []string `json:"history"`
			H       []int    `json:"h"`
		} `json:"case"`
	}
	if err := json.Unmarshal(b, &doc); err != nil {
		fmt.Println(err)
		return 2
	}
	world, h := doc.World, doc.H
	if doc.Case != nil {
		h = doc.Case.H
		if len(doc.Case.History) > 0 {
			if i := strings.IndexByte(doc.Case.History[0], '/'); i > 0 {
				world = doc.Case.History[0][:i]
			}
		}
	}
	wd := worldByName(world)
	if wd == nil {
		fmt.Printf("unknown world %q\n", world)
		return 2
	}
	harness.SilenceStdout()
	defer harness.RemoveScratch()
	harness.Outf("replaying in world %s (prefix of %d scripted blocks):", wd.name, len(wd.prefix))
	for _, e := range h {
		harness.Outf(" [%s]", wd.alphabet[e])
	}
	harness.Outf("\n")
	out := execHistory(wd, h, harness.Out())
	if out.Err != "" {
		harness.Outf("harness error: %s\n", out.Err)
		return 2
	}
	if len(out.Viol) > 0 {
		harness.Outf("%d violation(s)\n", len(out.Viol))
		return 1
	}
	harness.Outf("no violation\n")
	return 0
}
