package c19

import (
	"encoding/json"
	"fmt"
	"math/big"
	"sort"
	"strings"
	"time"

	"github.com/Oneledger/protocol/data/keys"

	"verif/harness"
)

// snap is what property C19 can observe in a committed key/value dump.
type snap struct {
	status  map[string]bool     // es__vss_<addr> -> isActive
	frozen  map[string]*frozenR // es__ssvk_<addr>
	reqs    map[string]*reqR    // es__ark_<id>
	tracker map[string]bool     // es__atark
	stake   map[string]*big.Int // st__t_<validator> (whole OLT)
	bound   map[string]*big.Int // st__d_b_<stake account> (withdrawable, whole OLT)
	valRec  map[string]bool     // v_<raw address> exists (keyed by text form)
	bounty  *big.Int            // OLT balance of the bounty program address
	bad     []string
}

type frozenR struct {
	Address       string
	Status        int8
	FrozenHeight  int64
	FrozenAt      *time.Time
	ReleaseHeight int64
	ReleaseAt     *time.Time
}

// isFrozen mirrors the meaning of the record: frozen until a release time later than the freeze time
// has been recorded.
func (f *frozenR) isFrozen() bool {
	if f.ReleaseAt == nil || f.FrozenAt == nil {
		return true
	}
	return !f.ReleaseAt.After(*f.FrozenAt)
}

type reqR struct {
	ID               string
	ReporterAddress  string
	MaliciousAddress string
	Status           int8
	Votes            []struct {
		Address string
		Choice  int8
	}
}

const (
	statusMissedVotes = 1
	statusByzantine   = 2
)

var bountyAddr = keys.Address("oneledgerBountyProgram").String()

func parseAmt(v []byte) (*big.Int, bool) {
	var s string
	if err := json.Unmarshal(v, &s); err != nil {
		return nil, false
	}
	return new(big.Int).SetString(s, 10)
}

func decode(dump []harness.KV) *snap {
	s := &snap{status: map[string]bool{}, frozen: map[string]*frozenR{}, reqs: map[string]*reqR{}, tracker: map[string]bool{},
		stake: map[string]*big.Int{}, bound: map[string]*big.Int{}, valRec: map[string]bool{}, bounty: new(big.Int)}
	for _, kv := range dump {
		k := string(kv.K)
		switch {
		case strings.HasPrefix(k, "es__vss_"):
			var r struct {
				Address  string `json:"address"`
				IsActive bool   `json:"isActive"`
			}
			if json.Unmarshal(kv.V, &r) != nil {
				s.bad = append(s.bad, k)
				continue
			}
			s.status[k[len("es__vss_"):]] = r.IsActive
		case strings.HasPrefix(k, "es__ssvk_"):
			r := &frozenR{}
			if json.Unmarshal(kv.V, r) != nil {
				s.bad = append(s.bad, k)
				continue
			}
			s.frozen[k[len("es__ssvk_"):]] = r
		case strings.HasPrefix(k, "es__ark_"):
			r := &reqR{}
			if json.Unmarshal(kv.V, r) != nil {
				s.bad = append(s.bad, k)
				continue
			}
			s.reqs[k[len("es__ark_"):]] = r
		case k == "es__atark":
			var t struct{ Requests map[string]bool }
			if json.Unmarshal(kv.V, &t) != nil {
				s.bad = append(s.bad, k)
				continue
			}
			for id, v := range t.Requests {
				if v {
					s.tracker[id] = true
				}
			}
		case strings.HasPrefix(k, "st__t_"):
			if n, ok := parseAmt(kv.V); ok {
				s.stake[k[len("st__t_"):]] = n
			} else {
				s.bad = append(s.bad, k)
			}
		case strings.HasPrefix(k, "st__d_b_"):
			if n, ok := parseAmt(kv.V); ok {
				s.bound[k[len("st__d_b_"):]] = n
			} else {
				s.bad = append(s.bad, k)
			}
		case strings.HasPrefix(k, "v_"):
			s.valRec[keys.Address(k[2:]).String()] = true
		case k == "b_"+bountyAddr+"_OLT":
			if n, ok := parseAmt(kv.V); ok {
				s.bounty = n
			} else {
				s.bad = append(s.bad, k)
			}
		}
	}
	return s
}

func (s *snap) stakeOf(a string) *big.Int {
	if n := s.stake[a]; n != nil {
		return n
	}
	return new(big.Int)
}

func (s *snap) activeSet() map[string]bool {
	out := map[string]bool{}
	for a, on := range s.status {
		if on {
			out[a] = true
		}
	}
	return out
}

// stateKey is the BFS state identity. Kept: the height and the chain time (release deadlines are
// wall-clock, the time step is part of the alphabet), every evidence record except the per-height vote
// blocks (requests, tracker, frozen records, status records, cumulative vote counts), all staking
// records (st__*: totals, per-account amounts, maturity queue), validator records (v_*), purge and
// delayed-unstake bookkeeping (purged_*) and the bounty balance. Dropped because they cannot influence
// the allegation subsystem within these worlds: es__svb_<h> (the signers of each past commit: everybody
// in the Tendermint set signs in every block of these worlds, so the record is a function of the
// validator-set history already captured by v_*/purged_*/status records), block-reward bookkeeping
// (rwz_, rwcum_, ri_, rwaddr_), fee shares (f_), governance option records (constant per world) and
// account balances other than the bounty address (stake accounts hold 10^27 base units, fees of a
// whole history are below 10^17: no balance can run dry within the bound, and no handler of the
// alphabet reads a balance for anything but paying its fee; the amounts moved by WITHDRAW are mirrored
// in st__d_b_*).
func stateKey(h int64, t time.Time, dump []harness.KV) string {
	var keep []harness.KV
	for _, kv := range dump {
		k := string(kv.K)
		switch {
		case strings.HasPrefix(k, "es__svb_"):
		case strings.HasPrefix(k, "es__"), strings.HasPrefix(k, "st__"), strings.HasPrefix(k, "v_"), strings.HasPrefix(k, "purged_"):
			keep = append(keep, kv)
		case k == "b_"+bountyAddr+"_OLT":
			keep = append(keep, kv)
		}
	}
	return fmt.Sprintf("%d:%d:%s", h, t.Unix(), harness.DigestOf(keep))
}

func sortedSet(m map[string]bool) []string {
	out := make([]string, 0, len(m))
	for k := range m {
		out = append(out, k)
	}
	sort.Strings(out)
	return out
}
