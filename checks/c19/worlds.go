package c19

import (
	"fmt"
	"strings"

	"verif/harness"
)

// Actors are referred to by small integers: 0..3 = genesis validators V1..V4, 4 = V5 (a candidate with
// a validator key but no stake), 9 = a user account (no validator key at all).
const (
	candidate = 4
	user      = 9
)

func actorName(i int) string {
	switch {
	case i == user:
		return "user"
	case i == candidate:
		return "V5cand"
	}
	return fmt.Sprintf("V%d", i+1)
}

type opKind int

const (
	opAllegation opKind = iota
	opVote
	opRelease
	opStake
	opUnstake
	opWithdraw
)

var kindNames = []string{"allegation", "vote", "release", "stake", "unstake", "withdraw"}

// op is one transaction of the alphabet.
type op struct {
	kind   opKind
	actor  int    // reporter / voter / validator acted upon
	req    string // request id label (allegation, vote)
	target int    // accused (allegation)
	yes    bool   // vote
	amount int64  // staking kinds, whole OLT; -1 = the validator's whole current stake
	payer  int    // stake: 1+index of the validator whose STAKE ACCOUNT pays (0 = the actor's own)
}

func (o op) String() string {
	switch o.kind {
	case opAllegation:
		return fmt.Sprintf("allegation(%s:%s->%s)", o.req, actorName(o.actor), actorName(o.target))
	case opVote:
		c := "no"
		if o.yes {
			c = "yes"
		}
		return fmt.Sprintf("vote(%s,%s,%s)", o.req, actorName(o.actor), c)
	case opRelease:
		return fmt.Sprintf("release(%s)", actorName(o.actor))
	}
	a := fmt.Sprint(o.amount)
	if o.amount < 0 {
		a = "all"
	}
	if o.payer > 0 {
		a += ",paid-by-stake-account-of-" + actorName(o.payer-1)
	}
	return fmt.Sprintf("%s(%s,%s)", kindNames[o.kind], actorName(o.actor), a)
}

// event is one whole block: 0..2 transactions and the block's time step.
type event struct {
	ops    []op
	hours  int   // 0 = the default 17 s step; n > 0 = a step of n hours
	absent []int // validators that do not sign the previous block's commit (missed-votes mechanism)
}

func (e event) String() string {
	var p []string
	if e.hours > 0 {
		p = append(p, fmt.Sprintf("+%dh", e.hours))
	}
	for _, a := range e.absent {
		p = append(p, "absent("+actorName(a)+")")
	}
	for _, o := range e.ops {
		p = append(p, o.String())
	}
	if len(p) == 0 {
		return "empty"
	}
	return strings.Join(p, "+")
}

func ev(ops ...op) event { return event{ops: ops} }

func alleg(req string, reporter, accused int) op {
	return op{kind: opAllegation, actor: reporter, req: req, target: accused}
}
func vote(req string, voter int, yes bool) op {
	return op{kind: opVote, actor: voter, req: req, yes: yes}
}
func release(v int) op        { return op{kind: opRelease, actor: v} }
func stake(v int, n int64) op { return op{kind: opStake, actor: v, amount: n} }
func stakeBy(v, payer int, n int64) op {
	return op{kind: opStake, actor: v, amount: n, payer: payer + 1}
}
func unstake(v int, n int64) op  { return op{kind: opUnstake, actor: v, amount: n} }
func withdraw(v int, n int64) op { return op{kind: opWithdraw, actor: v, amount: n} }
func quiet(n int) []event        { return make([]event, n) }
func seq(parts ...[]event) []event {
	var out []event
	for _, p := range parts {
		out = append(out, p...)
	}
	return out
}

// wdef is one world of the search: option preset, number of validators, a scripted prefix leading to
// the non-initial state the search starts from, the alphabet and the depth bounds.
type wdef struct {
	name     string
	nVals    int   // validators staked at genesis (a fifth, unstaked candidate always exists)
	minVotes int64 // > 0: MinVotesRequired of the evidence options (window: 3 blocks); 0 = the harness default (nobody is ever frozen for missed votes)
	votePct  int64
	prefix   []event
	alphabet []event
	depth    map[string]int
	share    float64
}

const (
	v1 = 0
	v2 = 1
	v3 = 2
	v4 = 3
)

func tallyAlphabet() []event {
	return []event{
		ev(),
		ev(vote("A", v1, true)),
		ev(vote("A", v2, true)),
		ev(vote("A", v4, true)),
		ev(vote("A", v3, false)), // the accused votes
		ev(vote("A", v2, false)),
		ev(vote("A", v4, false)),
		ev(vote("A", user, true)), // outsider
		ev(unstake(v4, -1)),       // a validator leaves the active set while the allegation is open
		ev(unstake(v2, -1)),
		ev(vote("A", v1, true), vote("A", v2, true)),
		ev(vote("A", v2, false), vote("A", v4, false)),
	}
}

var worlds = []*wdef{
	{
		name: "tally50", nVals: 4, votePct: 50,
		prefix:   seq(quiet(2), []event{ev(alleg("A", v1, v3))}),
		alphabet: tallyAlphabet(),
		depth:    map[string]int{"quick": 5, "thorough": 7},
		share:    0.5,
	},
	{
		// two allegations against different validators open at once: two verdicts in one block, votes of
		// a validator frozen meanwhile
		name: "two-open", nVals: 4, votePct: 50,
		prefix: seq(quiet(2), []event{ev(alleg("A", v1, v3), alleg("B", v2, v4))}),
		alphabet: []event{
			ev(),
			ev(vote("A", v1, true)),
			ev(vote("A", v2, true)),
			ev(vote("A", v4, true)), // the accused of B
			ev(vote("B", v1, true)),
			ev(vote("B", v2, true)),
			ev(vote("B", v3, true)), // the accused of A
			ev(vote("A", v4, false)),
			ev(vote("B", v3, false)),
			ev(vote("A", v2, true), vote("B", v1, true)),
			ev(vote("A", v1, true), vote("B", v2, true)),
		},
		depth: map[string]int{"quick": 5, "thorough": 7},
		share: 0.3,
	},
	{
		// life of a frozen validator: V3 unstaked a part earlier (so that something is withdrawable and
		// the stake is not a round number), was found guilty in block 5
		name: "frozen", nVals: 4, votePct: 50,
		prefix: seq(quiet(2), []event{
			ev(unstake(v3, 99999)),
			ev(alleg("A", v1, v3)),
			ev(vote("A", v1, true), vote("A", v2, true)),
		}),
		alphabet: []event{
			ev(),
			{hours: 23}, // just below the release time of one day
			{hours: 25}, // past it
			ev(release(v3)),
			ev(stake(v3, 100000)),
			ev(unstake(v3, 100000)),
			ev(withdraw(v3, 50000)),
			ev(alleg("C", v3, v1)),  // the frozen validator reports
			ev(vote("C", v3, true)), // the frozen validator votes
			ev(alleg("C", v2, v1)),  // somebody else opens C
			ev(alleg("D", v1, v3)),  // a new allegation against the frozen (or released) validator
			ev(release(v3), stake(v3, 100000)),
			// ANOTHER validator is convicted while the record of the released V3 (whose address is the smallest: the
			// first record of every walk over the frozen validators) is still in the store. (Added after a seeded
			// change - that walk stopping at the first RELEASED record instead of skipping it - escaped the worlds
			// in which the only verdicts after a release hit the released validator itself.)
			ev(vote("C", v2, true), vote("C", v4, true)),
		},
		depth: map[string]int{"quick": 5, "thorough": 7},
		share: 0.4,
	},
	{
		// V4 unstaked everything and has dropped out (its validator record is gone) before anything else
		// happens: allegations against and by a validator that has left, its return by staking again
		name: "left", nVals: 4, votePct: 50,
		prefix: seq(quiet(2), []event{ev(unstake(v4, -1))}, quiet(2)),
		alphabet: []event{
			ev(),
			ev(alleg("E", v1, v4)),
			ev(vote("E", v1, true)),
			ev(vote("E", v2, true)),
			ev(vote("E", v3, false)),
			ev(vote("E", v1, true), vote("E", v2, true)),
			ev(alleg("F", v4, v1)), // the validator that left reports
			ev(vote("E", v4, false)),
			ev(stake(v4, 1000000)), // it comes back
		},
		depth: map[string]int{"quick": 4, "thorough": 6},
		share: 0.3,
	},
	{
		// three validators: thresholds 1.5 / 2
		name: "three", nVals: 3, votePct: 50,
		prefix: seq(quiet(2), []event{ev(alleg("A", v1, v3))}),
		alphabet: []event{
			ev(),
			ev(vote("A", v1, true)),
			ev(vote("A", v2, true)),
			ev(vote("A", v3, false)),
			ev(vote("A", v2, false)),
			ev(vote("A", v1, false)),
			ev(vote("A", user, true)),
			ev(unstake(v2, -1)),
			ev(vote("A", v1, true), vote("A", v2, true)),
		},
		depth: map[string]int{"quick": 5, "thorough": 7},
		share: 0.3,
	},
	{
		name: "tally67", nVals: 4, votePct: 67,
		prefix:   seq(quiet(2), []event{ev(alleg("A", v1, v3))}),
		alphabet: tallyAlphabet(),
		depth:    map[string]int{"quick": 4, "thorough": 7},
		share:    0.5,
	},
	{
		// who may open an allegation, against whom, under which request id
		name: "open", nVals: 4, votePct: 50,
		prefix: quiet(2),
		alphabet: []event{
			ev(),
			ev(alleg("A", v1, v3)),
			ev(alleg("A2", v2, v3)),       // a second request against the same accused
			ev(alleg("A", v4, v2)),        // a request id already in use
			ev(alleg("S", v3, v3)),        // self-accusation
			ev(alleg("X", user, v3)),      // outsider: a user key
			ev(alleg("Y", candidate, v3)), // outsider: a candidate that never staked
			ev(alleg("B", v3, v4)),        // the accused of A reports somebody else
			ev(alleg("C", v4, v1)),
			ev(vote("A", v1, true)),
			ev(vote("A", v2, true)),
			ev(vote("A", candidate, true)),
			ev(vote("B", v1, true)),
			ev(unstake(v4, -1)),
			ev(alleg("E", v1, v4)), // possibly against a validator that has left
		},
		depth: map[string]int{"quick": 3, "thorough": 5},
		share: 0.6,
	},
	{
		// the accused stops signing while the allegation against it is open: it is frozen for MISSED VOTES
		// (another mechanism, releasable at once) and found GUILTY afterwards - the guilty freeze with its
		// release time must win. (Added after a seeded change - "keep the record of a validator that is
		// still frozen" - escaped the worlds in which everybody signs.)
		name: "missed", nVals: 4, votePct: 50, minVotes: 2,
		prefix: seq(quiet(4), []event{ev(alleg("A", v1, v3))}),
		alphabet: []event{
			ev(),
			{absent: []int{v3}},
			ev(vote("A", v1, true), vote("A", v2, true)),
			{absent: []int{v3}, ops: []op{vote("A", v1, true)}},
			ev(vote("A", v2, true)),
			ev(release(v3)),
			{hours: 25},
			ev(unstake(v3, 100000)),
		},
		depth: map[string]int{"quick": 5, "thorough": 7},
		share: 0.4,
	},
	{
		// two requests against ONE validator opened in one block (the duplicate test only sees committed
		// requests), the first one decided in that very block or later, votes on the second one afterwards.
		// (Added after a seeded change - the duplicate clean-up moved behind the tally - escaped the worlds in
		// which requests against one validator came in different blocks.)
		name: "dup", nVals: 4, votePct: 50,
		prefix: quiet(2),
		alphabet: []event{
			ev(),
			ev(alleg("A", v1, v3), alleg("A2", v2, v3)),
			ev(alleg("A", v1, v3), alleg("A2", v2, v3), vote("A", v1, true), vote("A", v2, true)),
			ev(vote("A", v1, true), vote("A", v2, true)),
			ev(vote("A2", v1, true), vote("A2", v4, true)),
			ev(vote("A2", v4, true)),
			ev(vote("A", v4, false)),
		},
		depth: map[string]int{"quick": 4, "thorough": 6},
		share: 0.3,
	},
	{
		// ONE stake account funds TWO validators (the stake handler only demands an unused stake account when an
		// existing validator switches to another one): the candidate V5 was staked from V3's stake account.
		// Allegations against either of them: the penalty is a share of THAT validator's stake. (Added after a
		// seeded change - the penalty taken from the stake account's total over all validators it funds -
		// escaped the worlds in which every validator has its own stake account.)
		name: "shared", nVals: 4, votePct: 50,
		prefix: seq(quiet(2), []event{ev(stakeBy(candidate, v3, 1500000))}, quiet(3), []event{ev(alleg("A", v1, v3))}),
		alphabet: []event{
			ev(),
			ev(vote("A", v1, true)),
			ev(vote("A", v2, true)),
			ev(vote("A", v4, true)),
			ev(vote("A", v1, true), vote("A", v2, true)),
			ev(alleg("B", v2, candidate)),
			ev(vote("B", v1, true), vote("B", v2, true)),
			ev(vote("B", v4, true)),
			ev(unstake(v3, 100000)),
		},
		depth: map[string]int{"quick": 4, "thorough": 6},
		share: 0.3,
	},
	{
		// the active set keeps its SIZE while its membership changes: in one block a validator that has voted
		// unstakes everything and the candidate stakes (or the other way round), so that "how many are active"
		// says nothing about "who is active". 67 % of 4: three votes of validators that are active NOW are needed.
		// (Added after a seeded change - a per-voter "is active" memo in the tally, dropped only when the number of
		// active validators changes - escaped worlds in which a validator only ever left or joined alone.)
		name: "swap", nVals: 4, votePct: 67,
		prefix: seq(quiet(2), []event{ev(alleg("A", v1, v3))}),
		alphabet: []event{
			ev(),
			ev(vote("A", v1, true)),
			ev(vote("A", v2, true)),
			ev(vote("A", v4, true)),
			ev(vote("A", candidate, true)),
			ev(unstake(v1, -1), stake(candidate, 1000000)), // V1 out, V5 in: same size
			ev(unstake(v4, -1), stake(candidate, 1000000)),
			ev(vote("A", v1, true), vote("A", v2, true)),
		},
		depth: map[string]int{"quick": 5, "thorough": 7},
		share: 0.3,
	},
	{
		// before any status record exists (they are first written by EndBlock(2))
		name: "early", nVals: 4, votePct: 50,
		prefix: nil,
		alphabet: []event{
			ev(),
			ev(alleg("A", v1, v3)),
			ev(vote("A", v1, true)),
			ev(vote("A", v2, true)),
		},
		depth: map[string]int{"quick": 5, "thorough": 6},
		share: 1.0,
	},
}

func worldByName(n string) *wdef {
	for _, w := range worlds {
		if w.name == n {
			return w
		}
	}
	return nil
}

func worldIndex(n string) int {
	for i, w := range worlds {
		if w.name == n {
			return i
		}
	}
	return -1
}

// build constructs the harness world: nVals genesis validators plus one unstaked candidate, the
// default evidence options (penalty 30 %, bounty 50 %, allegation share 50 %, release after 1 day)
// with the world's validator vote percentage.
func (wd *wdef) build() *harness.World {
	w := harness.NewWorld("c19-"+wd.name, 5, wd.nVals)
	// the candidate is index 4 in every world
	if wd.nVals < 4 {
		// keep actor indexes stable: validators beyond nVals exist as unstaked candidates too
	}
	w.Gov.EvidenceOptions.ValidatorVotePercentage = wd.votePct
	w.Gov.EvidenceOptions.ValidatorVoteDecimals = 100
	w.Gov.EvidenceOptions.AllegationPercentage = 50
	w.Gov.EvidenceOptions.AllegationDecimals = 100
	w.Gov.EvidenceOptions.PenaltyBasePercentage = 30
	w.Gov.EvidenceOptions.PenaltyBaseDecimals = 100
	w.Gov.EvidenceOptions.PenaltyBountyPercentage = 50
	w.Gov.EvidenceOptions.PenaltyBountyDecimals = 100
	w.Gov.EvidenceOptions.ValidatorReleaseTime = 1
	if wd.minVotes > 0 {
		w.Gov.EvidenceOptions.MinVotesRequired = wd.minVotes
		w.Gov.EvidenceOptions.BlockVotesDiff = 3
	}
	return w
}
