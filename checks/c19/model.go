package c19

import (
	"bytes"
	"fmt"
	"math/big"
	"sort"
	"strings"
	"time"

	abci "github.com/tendermint/tendermint/abci/types"

	"github.com/Oneledger/protocol/data/evidence"

	"verif/harness"
)

// The reference model encodes the statement of C19 in exact integer/rational arithmetic:
//
//  (verdict)  a request is decided guilty (innocent) only when the yes (no) votes of DISTINCT validators
//             that are ACTIVE when the tally is taken cross the configured share, each voter counted once.
//             The configured share is: required = active x votePct/voteDec votes; guilty iff
//             yes/required > allegPct/allegDec, innocent iff no/required > 1 - allegPct/allegDec. The
//             statement does not fix how "required" is rounded, so the model works with a band:
//             a verdict is PERMITTED when the share is crossed with the exact rational "required" (the
//             most lenient reading) and REQUIRED when it is crossed with "required" rounded up (the
//             strictest reading, which is what the implementation computes). A verdict that is not
//             permitted, or a missing verdict that is required, is a violation; in between is tolerated.
//  (frozen)   guilty => a frozen record exists from that block on and stays frozen until a RELEASE is
//             accepted, which may only happen when block time > freeze time + release days; while frozen
//             STAKE / UNSTAKE / WITHDRAW for that validator are rejected; the validator leaves the set
//             (status inactive and a power-0 update within 2 blocks) and is not re-announced while frozen.
//  (penalty)  guilty => the validator's stake total drops by exactly the configured percentage (the
//             statement does not fix the rounding to whole OLT: floor..ceil accepted), nobody else's
//             stake changes except through its own accepted staking transactions; the bounty address is
//             credited at most the penalty, and only by verdicts.
//  (outsider) an ALLEGATION or ALLEGATION_VOTE signed by an account that is not an active validator
//             (status record of the previous block boundary) is never accepted; a rejected transaction
//             leaves no request record behind; a second vote of the same voter is never accepted.
//
// Rejections the statement does not demand are only counted.

type request struct {
	id       string
	reporter string
	accused  string
	votes    map[string]bool // voter address -> yes
	// leftOpen: the implementation applied a guilty tally but kept the request open (reported once);
	// the request is not judged again
	leftOpen bool
	// dup: accepted although another request against the same accused was already open (only possible inside
	// one block: the duplicate test reads the committed state). The statement is silent about it; the
	// implementation drops such a request at the next block end without a verdict, which is tolerated - but a
	// verdict on it is judged like any other (a second verdict against one validator shows as a second cut)
	dup bool
}

type freeze struct {
	at       time.Time
	height   int64
	byz      bool
	wasInSet bool
	sawZero  bool
}

type violation struct{ sig, what string }

type model struct {
	wd    *wdef
	w     *harness.World
	opts  evidence.Options
	addr  map[int]string // actor -> address text
	actor map[string]int

	open     map[string]*request
	frozen   map[string]*freeze
	released map[string]int64
	prev     *snap
	height   int64

	viol    []violation
	seenSig map[string]bool
	info    map[string]int64
	tags    map[string]bool
	trivial bool
}

func newModel(wd *wdef, w *harness.World) *model {
	m := &model{wd: wd, w: w, opts: w.Gov.EvidenceOptions, addr: map[int]string{}, actor: map[string]int{},
		open: map[string]*request{}, frozen: map[string]*freeze{}, released: map[string]int64{},
		seenSig: map[string]bool{}, info: map[string]int64{}, tags: map[string]bool{}, trivial: true}
	for i, v := range w.Vals {
		m.addr[i] = v.Val.Addr.String()
		m.actor[m.addr[i]] = i
	}
	m.addr[user] = w.Users[0].Addr.String()
	m.actor[m.addr[user]] = user
	return m
}

func (m *model) violate(sig, what string) {
	if m.seenSig[sig] {
		return
	}
	m.seenSig[sig] = true
	m.viol = append(m.viol, violation{sig, what})
}

func (m *model) count(k string) { m.info[k]++ }

func (m *model) cls() string { return fmt.Sprintf("vals%d-vote%d", m.wd.nVals, m.wd.votePct) }

// role classifies an actor at a block boundary for signatures and counters.
func (m *model) role(a int, at *snap) string {
	switch a {
	case user:
		return "user"
	}
	ad := m.addr[a]
	if _, ok := m.frozen[ad]; ok {
		if at != nil && at.status[ad] {
			return "frozen-validator-still-listed-active"
		}
		return "frozen-validator"
	}
	if at == nil {
		return "no-status-record"
	}
	on, ok := at.status[ad]
	switch {
	case !ok && a == candidate:
		return "candidate"
	case !ok:
		return "no-status-record"
	case on:
		return "active-validator"
	}
	return "inactive-validator"
}

func opsName(ops []op) string {
	if len(ops) == 0 {
		return "none"
	}
	var p []string
	for _, o := range ops {
		p = append(p, kindNames[o.kind])
	}
	return strings.Join(p, "+")
}

func (m *model) isActive(at *snap, ad string) bool { return at != nil && at.status[ad] }

var e18 = new(big.Int).Exp(big.NewInt(10), big.NewInt(18), nil)

// block advances the model over block h and compares it with the committed state after the block.
func (m *model) block(h int64, t time.Time, ops []op, amounts []int64, res []harness.TxRes, ups []abci.ValidatorUpdate, after *snap, inTM func(string) bool) {
	m.height = h
	name := opsName(ops)
	cls := m.cls()
	prev := m.prev
	for _, k := range after.bad {
		m.violate(fmt.Sprintf("C19|undecodable-record|op=%s|world=%s", name, cls), "record "+k+" cannot be decoded")
	}
	stakeDelta := map[string]*big.Int{}
	addDelta := func(ad string, n int64) {
		if stakeDelta[ad] == nil {
			stakeDelta[ad] = new(big.Int)
		}
		stakeDelta[ad].Add(stakeDelta[ad], big.NewInt(n))
	}
	releaseLimit := func(f *freeze) time.Time { return f.at.AddDate(0, 0, int(m.opts.ValidatorReleaseTime)) }

	for k, o := range ops {
		ok := k < len(res) && res[k].Code == 0
		kn := kindNames[o.kind]
		role := m.role(o.actor, prev)
		ad := m.addr[o.actor]
		verdict := "rejected"
		if ok {
			verdict = "accepted"
		}
		m.count(verdict + "_" + kn)
		m.count(verdict + "_" + kn + "_by_" + role)
		m.tags[kn+":"+verdict+":"+role] = true
		switch o.kind {
		case opAllegation:
			accused := m.addr[o.target]
			if ok {
				m.trivial = false
				if !m.isActive(prev, ad) {
					m.violate(fmt.Sprintf("C19|non-active-opened-allegation|op=allegation|reporter=%s|world=%s", role, cls),
						fmt.Sprintf("height %d: allegation %s by %s (%s) accepted although the reporter is not an active validator", h, o.req, actorName(o.actor), role))
				}
				nr := &request{id: o.req, reporter: ad, accused: accused, votes: map[string]bool{}}
				for _, r := range m.open {
					if r.accused == accused {
						nr.dup = true
						m.count("antecedent_duplicate_request_accepted_in_one_block")
						m.tags["duplicate-request-in-one-block"] = true
					}
				}
				m.open[o.req] = nr
			} else {
				dup := false
				for _, r := range m.open {
					if r.accused == accused {
						dup = true
					}
				}
				_, idBusy := m.open[o.req]
				_, accFrozen := m.frozen[accused]
				if m.isActive(prev, ad) && m.isActive(prev, accused) && !dup && !idBusy && !accFrozen && ad != accused {
					m.count("unexpected_reject_allegation")
				}
			}
		case opVote:
			r := m.open[o.req]
			if ok {
				m.trivial = false
				if !m.isActive(prev, ad) {
					m.violate(fmt.Sprintf("C19|non-active-voted|op=vote|voter=%s|world=%s", role, cls),
						fmt.Sprintf("height %d: vote on %s by %s (%s) accepted although the voter is not an active validator", h, o.req, actorName(o.actor), role))
				}
				if r == nil {
					m.violate(fmt.Sprintf("C19|vote-accepted-without-open-request|op=vote|voter=%s|world=%s", role, cls),
						fmt.Sprintf("height %d: vote on %s accepted although no such request is open", h, o.req))
				} else {
					if _, dup := r.votes[ad]; dup {
						m.violate(fmt.Sprintf("C19|repeated-vote-accepted|op=vote|voter=%s|world=%s", role, cls),
							fmt.Sprintf("height %d: a second vote of %s on %s accepted", h, actorName(o.actor), o.req))
					}
					r.votes[ad] = o.yes
				}
			} else if r != nil {
				if _, dup := r.votes[ad]; dup {
					m.count("antecedent_repeated_vote_rejected")
					m.tags["repeated-vote-rejected"] = true
				} else if _, fz := m.frozen[ad]; m.isActive(prev, ad) && !fz {
					m.count("unexpected_reject_vote")
				}
			}
		case opRelease:
			f := m.frozen[ad]
			if ok {
				m.trivial = false
				switch {
				case f == nil:
					// counted, not judged: the statement says nothing about releasing a validator that is not frozen,
					// and the model cannot know every freeze - a validator frozen for missed votes by the BeginBlock
					// of this very block (e.g. a released validator that is not yet back in Tendermint's set and
					// therefore "misses" every commit) is released here before any snapshot shows the record
					m.count("release_accepted_without_a_freeze_known_to_the_model")
				case f.byz && !t.After(releaseLimit(f)):
					m.violate(fmt.Sprintf("C19|released-before-release-time|op=release|world=%s", cls),
						fmt.Sprintf("height %d: release of %s accepted at %s, frozen at %s, release time %d day(s)", h, actorName(o.actor), t.UTC().Format(time.RFC3339), f.at.UTC().Format(time.RFC3339), m.opts.ValidatorReleaseTime))
				default:
					m.count("antecedent_release_after_release_time")
					m.tags["released"] = true
				}
				delete(m.frozen, ad)
				m.released[ad] = h
			} else if f != nil {
				if f.byz && !t.After(releaseLimit(f)) {
					m.count("antecedent_release_rejected_before_release_time")
					m.tags["release-too-early-rejected"] = true
				} else {
					m.count("unexpected_reject_release")
				}
			}
		case opStake, opUnstake, opWithdraw:
			if _, fz := m.frozen[ad]; fz {
				if ok {
					m.violate(fmt.Sprintf("C19|frozen-validator-staking-accepted|op=%s|world=%s", kn, cls),
						fmt.Sprintf("height %d: %s for frozen validator %s accepted", h, kn, actorName(o.actor)))
				} else {
					m.trivial = false
					m.count("antecedent_frozen_" + kn + "_rejected")
					m.tags["frozen-"+kn+"-rejected"] = true
				}
			}
			if ok {
				m.trivial = false
				if _, was := m.released[ad]; was {
					m.count("antecedent_" + kn + "_accepted_after_release")
					m.tags[kn+"-after-release"] = true
				}
				switch o.kind {
				case opStake:
					addDelta(ad, amounts[k])
				case opUnstake:
					addDelta(ad, -amounts[k])
				}
			}
		}
	}

	// (verdict) tally of every open request against the active set of this block boundary
	active := after.activeSet()
	n := int64(len(active))
	o := m.opts
	type verdictOn struct {
		accused string
		req     string
	}
	var guilty []verdictOn
	ids := make([]string, 0, len(m.open))
	for id := range m.open {
		ids = append(ids, id)
	}
	sort.Strings(ids)
	decided := 0
	for _, id := range ids {
		r := m.open[id]
		rec := after.reqs["c19-req-"+id]
		if r.leftOpen {
			if rec == nil {
				delete(m.open, id)
			}
			continue
		}
		fr := after.frozen[r.accused]
		var pfr *frozenR
		if prev != nil {
			pfr = prev.frozen[r.accused]
		}
		newFreeze := fr != nil && fr.FrozenHeight == h && fr.Status == statusByzantine && (pfr == nil || pfr.FrozenHeight != h)
		if f, already := m.frozen[r.accused]; already && f.byz {
			newFreeze = false // frozen by an earlier verdict of the model (cannot happen twice: one request per accused)
		}
		var yesA, noA, yesS, noS int64
		for v, yes := range r.votes {
			if yes {
				yesS++
				if active[v] {
					yesA++
				}
			} else {
				noS++
				if active[v] {
					noA++
				}
			}
		}
		if rec != nil {
			// stored votes must be exactly the accepted ones
			got := map[string]bool{}
			okRec := len(rec.Votes) == len(r.votes)
			for _, v := range rec.Votes {
				if _, dup := got[v.Address]; dup {
					okRec = false
				}
				got[v.Address] = v.Choice == 1
				if want, has := r.votes[v.Address]; !has || want != (v.Choice == 1) {
					okRec = false
				}
			}
			if !okRec {
				m.violate("C19|vote-record-mismatch|op=vote",
					fmt.Sprintf("height %d: request %s stores votes %v, accepted votes were %v", h, id, got, r.votes))
			}
		}
		if r.dup && rec == nil {
			// the duplicate is gone: dropped, or decided together with the original request - a freeze of this block
			// belongs to the original request, which is judged on its own (a second cut shows there)
			m.count("duplicate_request_dropped_without_verdict")
			delete(m.open, id)
			continue
		}
		observed := "none"
		switch {
		case rec == nil && newFreeze:
			observed = "guilty"
		case rec == nil:
			observed = "innocent"
		case newFreeze:
			observed = "guilty"
			recFact := "accused-validator-record=present"
			if !after.valRec[r.accused] {
				recFact = "accused-validator-record=gone"
			}
			m.violate(fmt.Sprintf("C19|guilty-freeze-with-request-left-open|op=end-block-tally|%s", recFact),
				fmt.Sprintf("height %d: %s was frozen by the tally of request %s but the request is still open", h, m.nameOf(r.accused), id))
		}
		votePart := n * o.ValidatorVotePercentage // required (exact) = votePart / voteDec
		ceilReq := (votePart + o.ValidatorVoteDecimals - 1) / o.ValidatorVoteDecimals
		gP, gD := o.AllegationPercentage, o.AllegationDecimals
		permittedG := n > 0 && yesA*o.ValidatorVoteDecimals*gD > votePart*gP
		requiredG := n > 0 && yesA*gD > ceilReq*gP
		permittedI := n > 0 && noA*o.ValidatorVoteDecimals*gD > votePart*(gD-gP)
		requiredI := n > 0 && noA*gD > ceilReq*(gD-gP)
		stale := (yesS - yesA) + (noS - noA)
		if stale > 0 {
			m.count("antecedent_tally_with_votes_of_no_longer_active_validators")
			m.tags["stale-votes-at-tally"] = true
		}
		if len(r.votes) > 0 {
			m.count("antecedent_tally_with_votes")
		}
		facts := fmt.Sprintf("active=%d yes(active)=%d no(active)=%d yes(stored)=%d no(stored)=%d votePct=%d/%d allegPct=%d/%d", n, yesA, noA, yesS, noS,
			o.ValidatorVotePercentage, o.ValidatorVoteDecimals, gP, gD)
		staleFact := "only-active-votes"
		if stale > 0 {
			staleFact = "votes-of-no-longer-active-validators-stored"
		}
		switch observed {
		case "guilty":
			decided++
			m.trivial = false
			m.count("antecedent_verdict_guilty")
			m.tags["verdict-guilty"] = true
			if !permittedG {
				m.violate(fmt.Sprintf("C19|verdict-without-share|op=end-block-tally|verdict=guilty|%s", staleFact),
					fmt.Sprintf("height %d: request %s decided GUILTY: %s", h, id, facts))
			} else if !requiredG {
				m.count("tolerated_verdict_in_rounding_band")
			}
			guilty = append(guilty, verdictOn{r.accused, id})
			if rec != nil {
				r.leftOpen = true
			} else {
				delete(m.open, id)
			}
		case "innocent":
			decided++
			m.trivial = false
			m.count("antecedent_verdict_innocent")
			m.tags["verdict-innocent"] = true
			if !permittedI {
				m.violate(fmt.Sprintf("C19|verdict-without-share|op=end-block-tally|verdict=innocent|%s", staleFact),
					fmt.Sprintf("height %d: request %s decided INNOCENT: %s", h, id, facts))
			} else if !requiredI {
				m.count("tolerated_verdict_in_rounding_band")
			}
			delete(m.open, id)
		default:
			if requiredG || requiredI {
				m.violate(fmt.Sprintf("C19|verdict-missing|op=end-block-tally|due=%s|%s", map[bool]string{true: "guilty", false: "innocent"}[requiredG], staleFact),
					fmt.Sprintf("height %d: request %s still open: %s", h, id, facts))
			} else if permittedG || permittedI {
				m.count("tolerated_no_verdict_in_rounding_band")
			} else if len(r.votes) > 0 {
				m.count("antecedent_votes_below_share_no_verdict")
			}
		}
	}
	if decided > 1 {
		m.count("antecedent_two_verdicts_in_one_block")
		m.tags["two-verdicts-one-block"] = true
	}
	for _, id := range sortedReqIDs(after.reqs) {
		short := strings.TrimPrefix(id, "c19-req-")
		if _, okm := m.open[short]; !okm {
			m.violate(fmt.Sprintf("C19|request-record-without-accepted-allegation|op=%s|world=%s", name, cls),
				fmt.Sprintf("height %d: request record %s exists although no accepted allegation opened it (or it was decided)", h, id))
		}
	}

	// (penalty) + (frozen) consequences of guilty verdicts
	totalCut := new(big.Int)
	cutOf := map[string]*big.Int{}
	for _, g := range guilty {
		x := g.accused
		before := new(big.Int)
		if prev != nil {
			before.Set(prev.stakeOf(x))
		}
		if d := stakeDelta[x]; d != nil {
			before.Add(before, d)
		}
		cut := new(big.Int).Sub(before, after.stakeOf(x))
		num := new(big.Int).Mul(before, big.NewInt(o.PenaltyBasePercentage))
		lo, rem := new(big.Int).QuoRem(num, big.NewInt(o.PenaltyBaseDecimals), new(big.Int))
		hi := new(big.Int).Set(lo)
		if rem.Sign() != 0 {
			hi.Add(hi, big.NewInt(1))
			m.count("antecedent_penalty_not_a_whole_number")
		}
		if cut.Cmp(lo) < 0 || cut.Cmp(hi) > 0 {
			dir := "more"
			if cut.Cmp(lo) < 0 {
				dir = "less"
			}
			if cut.Sign() == 0 {
				dir = "nothing"
			}
			m.violate(fmt.Sprintf("C19|penalty-not-the-configured-percentage|op=end-block-tally|cut=%s", dir),
				fmt.Sprintf("height %d: %s found guilty: stake %v cut by %v, configured %d/%d gives %v..%v", h, m.nameOf(x), before, cut, o.PenaltyBasePercentage, o.PenaltyBaseDecimals, lo, hi))
		} else if cut.Sign() > 0 {
			m.count("antecedent_penalty_checked")
		}
		cutOf[x] = cut
		totalCut.Add(totalCut, cut)
		fr := after.frozen[x]
		if fr == nil || !fr.isFrozen() {
			m.violate("C19|guilty-validator-not-frozen|op=end-block-tally", fmt.Sprintf("height %d: %s found guilty but no frozen record", h, m.nameOf(x)))
		}
		_, missedBefore := m.frozen[x]
		m.frozen[x] = &freeze{at: t, height: h, byz: true, wasInSet: inTM(x) && !missedBefore}
		for _, u := range ups {
			// frozen for missed votes at the begin of this very block and found guilty at its end: the
			// power-0 update is already in this block's updates
			if a, ok := m.actor[x]; ok && a != user && bytes.Equal(u.PubKey.Data, m.w.Vals[a].Val.Pub.Data) && u.Power == 0 {
				m.frozen[x].sawZero = true
			}
		}
		if missedBefore {
			// already frozen for missed votes: the removal from the set was started by that mechanism (its
			// power-0 update may be out already), only the freeze itself and its release time are judged
			m.count("antecedent_guilty_verdict_on_validator_frozen_for_missed_votes")
			m.tags["guilty-while-frozen-for-missed-votes"] = true
		}
		delete(m.released, x)
	}
	// nobody's stake changes except by its own accepted staking transactions and by a verdict
	if prev != nil {
		all := map[string]bool{}
		for a := range prev.stake {
			all[a] = true
		}
		for a := range after.stake {
			all[a] = true
		}
		for _, a := range sortedSet(all) {
			want := new(big.Int).Set(prev.stakeOf(a))
			if d := stakeDelta[a]; d != nil {
				want.Add(want, d)
			}
			if c := cutOf[a]; c != nil {
				continue // judged above
			}
			if after.stakeOf(a).Cmp(want) != 0 {
				dir := "lower"
				if after.stakeOf(a).Cmp(want) > 0 {
					dir = "higher"
				}
				_, fz := m.frozen[a]
				m.violate(fmt.Sprintf("C19|stake-changed-without-verdict|op=%s|stake=%s|frozen=%v|world=%s", name, dir, fz, cls),
					fmt.Sprintf("height %d: stake of %s is %v, expected %v", h, m.nameOf(a), after.stakeOf(a), want))
			}
		}
		dB := new(big.Int).Sub(after.bounty, prev.bounty)
		maxB := new(big.Int).Mul(totalCut, e18)
		switch {
		case dB.Sign() < 0:
			m.violate(fmt.Sprintf("C19|bounty-balance-decreased|op=%s|world=%s", name, cls), fmt.Sprintf("height %d: bounty balance changed by %v", h, dB))
		case len(guilty) == 0 && dB.Sign() != 0:
			m.violate(fmt.Sprintf("C19|bounty-credit-without-verdict|op=%s|world=%s", name, cls), fmt.Sprintf("height %d: bounty balance grew by %v without a guilty verdict", h, dB))
		case dB.Cmp(maxB) > 0:
			m.violate("C19|bounty-exceeds-penalty|op=end-block-tally", fmt.Sprintf("height %d: bounty credited %v, penalties taken %v", h, dB, maxB))
		case len(guilty) > 0:
			m.count("antecedent_bounty_within_penalty")
			share := new(big.Int).Mul(maxB, big.NewInt(o.PenaltyBountyPercentage))
			share.Quo(share, big.NewInt(o.PenaltyBountyDecimals))
			if dB.Cmp(share) == 0 {
				m.count("bounty_equals_configured_share")
			}
		}
	}

	// (frozen) stays frozen, leaves the set, is not re-announced
	for _, x := range sortedFreeze(m.frozen) {
		f := m.frozen[x]
		fr := after.frozen[x]
		if fr == nil || !fr.isFrozen() {
			m.violate(fmt.Sprintf("C19|frozen-validator-unfrozen-without-release|op=%s|world=%s", name, cls),
				fmt.Sprintf("height %d: %s was frozen at height %d and no release was accepted, but its record is gone or released", h, m.nameOf(x), f.height))
			delete(m.frozen, x)
			continue
		}
		if !f.byz {
			continue
		}
		if fr.FrozenAt != nil && !fr.FrozenAt.Equal(f.at) {
			reqFact := "no-open-request-against-it"
			for _, r := range m.open {
				if r.accused == x && r.leftOpen {
					reqFact = "request-left-open-after-guilty-tally"
				}
			}
			m.violate(fmt.Sprintf("C19|freeze-time-moved-while-frozen|op=end-block-tally|%s", reqFact),
				fmt.Sprintf("height %d: %s was found guilty at %s (height %d); its frozen record now says %s (height %d): the release time moves with it", h, m.nameOf(x),
					f.at.UTC().Format(time.RFC3339), f.height, fr.FrozenAt.UTC().Format(time.RFC3339), fr.FrozenHeight))
			f.at = *fr.FrozenAt
		}
		a := m.actor[x]
		pub := m.w.Vals[a].Val.Pub.Data
		for _, u := range ups {
			if !bytes.Equal(u.PubKey.Data, pub) {
				continue
			}
			if u.Power == 0 && h > f.height {
				f.sawZero = true
				m.count("antecedent_power0_update_for_guilty_validator")
				m.tags["guilty-validator-removed"] = true
			}
			if u.Power > 0 && h > f.height {
				m.violate(fmt.Sprintf("C19|frozen-validator-announced-with-power|op=%s|world=%s", name, cls),
					fmt.Sprintf("height %d: frozen validator %s (since height %d) is in the validator updates with power %d", h, m.nameOf(x), f.height, u.Power))
			}
		}
		if h == f.height+2 {
			if f.wasInSet && !f.sawZero {
				m.violate(fmt.Sprintf("C19|guilty-validator-not-removed|op=%s|fact=no-power-0-update-within-2-blocks|world=%s", name, cls),
					fmt.Sprintf("height %d: %s frozen at height %d, no power-0 update so far", h, m.nameOf(x), f.height))
			}
			if after.status[x] {
				m.violate(fmt.Sprintf("C19|guilty-validator-not-removed|op=%s|fact=status-still-active-after-2-blocks|world=%s", name, cls),
					fmt.Sprintf("height %d: %s frozen at height %d is still listed as active", h, m.nameOf(x), f.height))
			}
		}
	}
	for _, x := range sortedFrozenRecs(after.frozen) {
		fr := after.frozen[x]
		if !fr.isFrozen() {
			continue
		}
		if _, known := m.frozen[x]; known {
			continue
		}
		if fr.Status == statusMissedVotes {
			// the missed-votes freeze is another mechanism than the one C19 describes: follow it
			m.frozen[x] = &freeze{at: t, height: h, byz: false}
			m.count("missed_votes_freeze_observed")
			continue
		}
		m.violate(fmt.Sprintf("C19|frozen-without-guilty-verdict|op=%s|world=%s", name, cls),
			fmt.Sprintf("height %d: %s has a frozen record (status %d, height %d) that no guilty verdict explains", h, m.nameOf(x), fr.Status, fr.FrozenHeight))
		m.frozen[x] = &freeze{at: t, height: h, byz: fr.Status == statusByzantine, wasInSet: inTM(x)}
	}
	for x, hr := range m.released {
		if hr < h {
			a := m.actor[x]
			pub := m.w.Vals[a].Val.Pub.Data
			for _, u := range ups {
				if bytes.Equal(u.PubKey.Data, pub) && u.Power > 0 {
					m.info["antecedent_reelected_after_release"]++
					m.tags["reelected-after-release"] = true
				}
			}
		}
	}
	m.prev = after
}

func (m *model) nameOf(ad string) string {
	if a, ok := m.actor[ad]; ok {
		return actorName(a)
	}
	return ad
}

func sortedReqIDs(mm map[string]*reqR) []string {
	out := make([]string, 0, len(mm))
	for k := range mm {
		out = append(out, k)
	}
	sort.Strings(out)
	return out
}

func sortedFreeze(mm map[string]*freeze) []string {
	out := make([]string, 0, len(mm))
	for k := range mm {
		out = append(out, k)
	}
	sort.Strings(out)
	return out
}

func sortedFrozenRecs(mm map[string]*frozenR) []string {
	out := make([]string, 0, len(mm))
	for k := range mm {
		out = append(out, k)
	}
	sort.Strings(out)
	return out
}
