package c14

import (
	"crypto/sha256"
	"encoding/hex"
	"encoding/json"
	"fmt"
	"math/big"
	"sort"
	"strings"

	"github.com/Oneledger/protocol/data/governance"

	"verif/harness"
)

// ---------------------------------------------------------------------------------------------
// Observation: what the committed key/value dump says about the proposal, its votes, its funds, the
// governance option records and every OLT balance.
// ---------------------------------------------------------------------------------------------

type stage int

const (
	sNone stage = iota
	sFunding
	sVoting
	sPassed
	sFailed
	sExpired
	sCancelled
	sGoalMissed
	sFinalized
	sFinalizeFailed
	sInconsistent
)

func (s stage) String() string {
	return [...]string{"none", "funding", "voting", "passed", "failed", "expired", "cancelled", "goal-missed", "finalized", "finalize-failed", "inconsistent"}[s]
}

// rank orders the stages of the statement: funding < voting < {passed, failed, expired} < finalised.
// cancelled and goal-missed are the two ways out of funding.
func (s stage) rank() int {
	switch s {
	case sNone:
		return 0
	case sFunding:
		return 1
	case sVoting:
		return 2
	case sPassed, sFailed, sExpired, sCancelled, sGoalMissed:
		return 3
	case sFinalized, sFinalizeFailed:
		return 4
	}
	return -1
}

type propRec struct {
	Store           string
	ID              string `json:"proposalId"`
	Type            int    `json:"proposalType"`
	Status          int    `json:"status"`
	Outcome         int    `json:"outcome"`
	Proposer        string `json:"proposer"`
	FundingDeadline int64  `json:"fundingDeadline"`
	FundingGoal     string `json:"fundingGoal"`
	VotingDeadline  int64  `json:"votingDeadline"`
	PassPercent     int    `json:"passPercent"`
	Update          string `json:"updateGovernanace"`
}

type voteRec struct {
	Validator string `json:"validator"`
	Opinion   int    `json:"opinion"`
	Power     int64  `json:"power"`
}

type obs struct {
	Height    int64
	Props     []propRec           // all records of the proposal id over the five stores
	Votes     map[string]voteRec  // validator address text -> record
	FundsI    map[string]*big.Int // funder address text -> amount
	FundsT    *big.Int            // nil if the total record does not exist
	Bal       map[string]*big.Int // address text -> OLT balance
	FeeTotal  *big.Int            // sum of all fee pool records
	Gov       map[string]string   // governance option records
	ValPower  map[string]int64    // validator address text -> power in the validator record
	ValActive map[string]bool     // validator address text -> active status record (es__vss_)
	Staking   string              // digest of the stake / validator-status key families
	TotalOLT  *big.Int
	QStore    string // store holding the record of the scripted histories' second proposal ("" = none)
}

var propStores = []string{"propActive", "propPassed", "propFailed", "propFinalizeFailed", "propFinalized"}

func amountOf(v []byte) (*big.Int, bool) {
	var s string
	if err := json.Unmarshal(v, &s); err != nil {
		return nil, false
	}
	return new(big.Int).SetString(s, 10)
}

func observe(height int64, dump []harness.KV) (*obs, error) {
	o := &obs{Height: height, Votes: map[string]voteRec{}, FundsI: map[string]*big.Int{}, Bal: map[string]*big.Int{},
		FeeTotal: new(big.Int), Gov: map[string]string{}, ValPower: map[string]int64{}, ValActive: map[string]bool{}}
	id := string(PropID)
	stk := sha256.New()
	for _, kv := range dump {
		k := string(kv.K)
		switch {
		case strings.HasPrefix(k, "prop") && (strings.Contains(k, string(QPropID)) || strings.Contains(k, string(TPropID))):
			// the second proposal of the scripted / twin histories is not judged: only where its record lives is noted
			for _, st := range propStores {
				if k == st+string(QPropID) || k == st+string(TPropID) {
					o.QStore = st
				}
			}
		case strings.HasPrefix(k, "prop"):
			matched := false
			for _, st := range propStores {
				if k == st+id {
					var p propRec
					if err := json.Unmarshal(kv.V, &p); err != nil {
						return nil, fmt.Errorf("undecodable proposal record %q: %v", k, err)
					}
					p.Store = st
					o.Props = append(o.Props, p)
					matched = true
					break
				}
			}
			if matched {
				continue
			}
			switch {
			case strings.HasPrefix(k, "propVotes_"+id+"_"):
				var v voteRec
				if err := json.Unmarshal(kv.V, &v); err != nil {
					return nil, fmt.Errorf("undecodable vote record: %v", err)
				}
				o.Votes[v.Validator] = v
			case k == "propFunds_t_"+id:
				n, ok := amountOf(kv.V)
				if !ok {
					return nil, fmt.Errorf("undecodable funds total")
				}
				o.FundsT = n
			case strings.HasPrefix(k, "propFunds_i_"+id+"_"):
				n, ok := amountOf(kv.V)
				if !ok {
					return nil, fmt.Errorf("undecodable funds record")
				}
				o.FundsI[k[len("propFunds_i_"+id+"_"):]] = n
			default:
				return nil, fmt.Errorf("unexpected proposal-family key %q", k)
			}
		case strings.HasPrefix(k, "b_") && strings.HasSuffix(k, "_OLT"):
			n, ok := amountOf(kv.V)
			if !ok {
				return nil, fmt.Errorf("undecodable balance %q", k)
			}
			o.Bal[k[2:len(k)-4]] = n
		case strings.HasPrefix(k, "f_"):
			n, ok := amountOf(kv.V)
			if !ok {
				return nil, fmt.Errorf("undecodable fee record %q", k)
			}
			o.FeeTotal.Add(o.FeeTotal, n)
		case strings.HasPrefix(k, "g_"):
			o.Gov[k] = string(kv.V)
		case strings.HasPrefix(k, "v_"):
			var v struct {
				Address string `json:"address"`
				Power   int64  `json:"power"`
			}
			if err := json.Unmarshal(kv.V, &v); err != nil {
				return nil, fmt.Errorf("undecodable validator record: %v", err)
			}
			o.ValPower[v.Address] = v.Power
			stk.Write(kv.K)
			stk.Write(kv.V)
		case strings.HasPrefix(k, "es__vss_"):
			var r struct {
				IsActive bool `json:"isActive"`
			}
			if json.Unmarshal(kv.V, &r) == nil {
				o.ValActive[k[len("es__vss_"):]] = r.IsActive
			}
			stk.Write(kv.K)
			stk.Write([]byte{0})
			stk.Write(kv.V)
			stk.Write([]byte{0})
		case strings.HasPrefix(k, "st__"), strings.HasPrefix(k, "es__ssvk_"), strings.HasPrefix(k, "purged"):
			stk.Write(kv.K)
			stk.Write([]byte{0})
			stk.Write(kv.V)
			stk.Write([]byte{0})
		}
	}
	o.Staking = hex.EncodeToString(stk.Sum(nil)[:8])
	o.TotalOLT = harness.DecodeLedger(dump).TotalOf("OLT")
	return o, nil
}

// stageOf maps (store, status, outcome) of the single record to the statement's stage.
func (o *obs) stageOf() stage {
	if len(o.Props) == 0 {
		return sNone
	}
	if len(o.Props) > 1 {
		return sInconsistent
	}
	p := o.Props[0]
	st, oc := governance.ProposalStatus(p.Status), governance.ProposalOutcome(p.Outcome)
	switch p.Store {
	case "propActive":
		if st == governance.ProposalStatusFunding && oc == governance.ProposalOutcomeInProgress {
			return sFunding
		}
		if st == governance.ProposalStatusVoting && oc == governance.ProposalOutcomeInProgress {
			return sVoting
		}
	case "propPassed":
		if st == governance.ProposalStatusCompleted && oc == governance.ProposalOutcomeCompletedYes {
			return sPassed
		}
	case "propFailed":
		if st == governance.ProposalStatusCompleted {
			switch oc {
			case governance.ProposalOutcomeCompletedNo:
				return sFailed
			case governance.ProposalOutcomeInsufficientVotes:
				return sExpired
			case governance.ProposalOutcomeCancelled:
				return sCancelled
			case governance.ProposalOutcomeInsufficientFunds:
				return sGoalMissed
			}
		}
	case "propFinalized":
		return sFinalized
	case "propFinalizeFailed":
		return sFinalizeFailed
	}
	return sInconsistent
}

func (o *obs) escrow() *big.Int {
	if o.FundsT == nil {
		return new(big.Int)
	}
	return o.FundsT
}

// ---------------------------------------------------------------------------------------------
// Reference model: the property statement, clause by clause.
// ---------------------------------------------------------------------------------------------

type viol struct{ Sig, What string }

type model struct {
	w *harness.World

	stage           stage
	typ             governance.ProposalType
	proposer        string
	fundingDeadline int64
	votingDeadline  int64 // valid from sVoting on
	goal            *big.Int
	passPct         int64
	contrib         map[string]*big.Int // outstanding contribution per funder
	escrow          *big.Int
	snapshot        map[string]int64 // validators snapshotted when voting began -> power
	snapshotKnown   bool
	votes           map[string]int // recorded opinion per snapshotted validator
	decidedBy       string         // how the current passed/failed stage was reached
	configApplied   bool
	finalized       bool

	feesPaid map[string]*big.Int // per address, along the whole history (state key: balances are compared net of fees)

	viols   []viol
	tainted bool
	info    map[string]int64
	tags    map[string]bool
	log     func(format string, a ...interface{})
}

func newModel(w *harness.World) *model {
	return &model{w: w, contrib: map[string]*big.Int{}, escrow: new(big.Int), snapshot: map[string]int64{}, votes: map[string]int{},
		feesPaid: map[string]*big.Int{}, info: map[string]int64{}, tags: map[string]bool{}, log: func(string, ...interface{}) {}}
}

func (m *model) count(k string) { m.info[k]++ }

// fire counts the antecedent of a model clause. Creating and funding alone (and a refused withdrawal)
// do not make an execution non-trivial: something the statement constrains must have happened after them.
func (m *model) fire(clause string) {
	m.info["fired:"+clause]++
	switch clause {
	case "created", "funded", "withdraw-refused", "validator-set-change":
	default:
		m.info["nontrivial_marker"] = 1
	}
}

func (m *model) violate(clause, opName, facts, what string) {
	sig := fmt.Sprintf("C14|%s|op=%s|%s", clause, opName, facts)
	m.viols = append(m.viols, viol{sig, what})
	m.tainted = true
	m.log("    VIOLATION %s: %s", sig, what)
}

func (m *model) roleOf(addr string) string {
	switch {
	case addr == m.proposer:
		return "proposer"
	case m.contrib[addr] != nil && m.contrib[addr].Sign() > 0:
		return "funder"
	}
	return "stranger"
}

// decision evaluates the recorded votes of the snapshot with the rule of the statement's mechanism
// (yes / (all - giveup) >= pass%  -> passed;  1 - no / (all - giveup) < pass% -> failed), in exact
// integer arithmetic.
func (m *model) decision() stage {
	var all, yesP, noP, gu int64
	for v, p := range m.snapshot {
		all += p
		switch governance.VoteOpinion(m.votes[v]) {
		case governance.OPIN_POSITIVE:
			yesP += p
		case governance.OPIN_NEGATIVE:
			noP += p
		case governance.OPIN_GIVEUP:
			gu += p
		}
	}
	tot := all - gu
	if tot <= 0 {
		return sVoting
	}
	if yesP*100 >= m.passPct*tot {
		return sPassed
	}
	if (tot-noP)*100 < m.passPct*tot {
		return sFailed
	}
	return sVoting
}

type txOutcome struct {
	Code    uint32
	GasUsed int64
	Log     string
}

// step advances the model over one block and compares it with the observation after the block.
// ops are the block's transactions in order with their DeliverTx outcomes.
func (m *model) step(h int64, ops []op, res []txOutcome, prev, cur *obs) {
	if m.tainted {
		return // the statement has been broken on this path: what follows is undefined by it
	}
	w := m.w
	addr := func(a *harness.Account) string { return a.Addr.String() }
	exp := map[string]*big.Int{} // expected balance change per address, from the model
	add := func(a string, n *big.Int) {
		if exp[a] == nil {
			exp[a] = new(big.Int)
		}
		exp[a].Add(exp[a], n)
	}
	expFees := new(big.Int)
	// finalisation bookkeeping
	finalizedNow := false
	finalizedFrom := sNone
	finalizedBy := ""
	escrowAtFinalisation := new(big.Int)
	doFinalize := func(by string) {
		finalizedNow, finalizedFrom, finalizedBy = true, m.stage, by
		escrowAtFinalisation.Set(m.escrow)
		m.stage = sFinalized
		m.escrow = new(big.Int)
		m.contrib = map[string]*big.Int{}
	}
	var pendingVotes []op // votes accepted in the block in which voting began (snapshot read at block end)

	for i, o := range ops {
		r := res[i]
		acc := r.Code == 0
		if acc {
			m.count("accepted:" + o.Name)
			m.count("accepted_kind:" + o.Kind.String())
		} else {
			m.count("rejected:" + o.Name)
			m.count("rejected_kind:" + o.Kind.String())
		}
		m.log("    tx %-22s code=%d %s", o.Name, r.Code, short(r.Log, 100))
		if acc && o.feeCharged() {
			fee := new(big.Int).Mul(big.NewInt(r.GasUsed), big.NewInt(1000000000))
			p := addr(o.payer(w))
			add(p, new(big.Int).Neg(fee))
			expFees.Add(expFees, fee)
			if m.feesPaid[p] == nil {
				m.feesPaid[p] = new(big.Int)
			}
			m.feesPaid[p].Add(m.feesPaid[p], fee)
		}
		switch o.Kind {
		case opCreate:
			if !acc {
				continue
			}
			if m.stage != sNone {
				// "moves only forward": creating over an existing proposal would restart it
				m.violate("moves-only-forward", o.Kind.String(), "created-over-stage="+m.stage.String(), "PROPOSAL_CREATE accepted although the proposal already exists")
				return
			}
			po := govOptions(w, o.Type)
			m.stage, m.typ, m.proposer = sFunding, o.Type, addr(w.Users[o.Actor])
			m.fundingDeadline = h + po.FundingDeadline
			m.goal = new(big.Int).Set(po.FundingGoal.BigInt())
			m.passPct = int64(po.PassPercentage)
			init := new(big.Int).Set(po.InitialFunding.BigInt())
			m.contrib[m.proposer] = init
			m.escrow = new(big.Int).Set(init)
			add(m.proposer, new(big.Int).Neg(init))
			m.fire("created")
		case opFund:
			if !acc {
				if m.stage == sFunding && h > m.fundingDeadline {
					m.fire("fund-after-deadline-refused")
				}
				continue
			}
			f := addr(w.Users[o.Actor])
			x := units(o.Amount)
			if m.stage != sFunding {
				m.violate("funding-only-in-funding-stage", o.Kind.String(), "stage="+m.stage.String(), "PROPOSAL_FUND accepted outside the funding stage")
				return
			}
			if h > m.fundingDeadline {
				// "voting once its goal is met BEFORE the funding deadline"
				m.violate("funding-deadline", o.Kind.String(), "accepted-after-funding-deadline", fmt.Sprintf("PROPOSAL_FUND accepted at height %d, funding deadline %d", h, m.fundingDeadline))
				return
			}
			if m.contrib[f] == nil {
				m.contrib[f] = new(big.Int)
			}
			m.contrib[f].Add(m.contrib[f], x)
			m.escrow.Add(m.escrow, x)
			add(f, new(big.Int).Neg(x))
			m.fire("funded")
			if m.escrow.Cmp(m.goal) >= 0 {
				m.stage = sVoting
				m.snapshotKnown = false
				m.fire("voting-began")
			}
		case opVote:
			if !acc {
				if m.stage == sVoting && h > m.votingDeadline && m.snapshotKnown {
					m.fire("vote-after-deadline-refused")
				}
				continue
			}
			if m.stage != sVoting {
				m.violate("votes-only-while-voting", o.Kind.String(), "stage="+m.stage.String(), "PROPOSAL_VOTE accepted outside the voting stage")
				return
			}
			if !m.snapshotKnown {
				pendingVotes = append(pendingVotes, o)
				continue
			}
			if !m.applyVote(h, o) {
				return
			}
		case opCancel:
			if !acc {
				continue
			}
			a := addr(w.Users[o.Actor])
			if m.stage != sFunding {
				m.violate("moves-only-forward", o.Kind.String(), "cancelled-in-stage="+m.stage.String(), "PROPOSAL_CANCEL accepted outside the funding stage")
				return
			}
			if a != m.proposer {
				m.violate("cancel-by-proposer-only", o.Kind.String(), "actor="+m.roleOf(a), "PROPOSAL_CANCEL accepted from an account that is not the proposer")
				return
			}
			m.stage = sCancelled
			m.fire("cancelled")
		case opWithdraw:
			f := addr(w.Users[o.Actor])
			x := units(o.Amount)
			refundable := m.stage == sCancelled || m.stage == sGoalMissed ||
				(m.stage == sFunding && h > m.fundingDeadline && m.escrow.Cmp(m.goal) < 0)
			have := m.contrib[f]
			if have == nil {
				have = new(big.Int)
			}
			if !acc {
				if refundable && x.Sign() > 0 && x.Cmp(have) <= 0 {
					// "returned in full to their funders when the proposal is cancelled or misses its goal"
					m.violate("refund-in-full", o.Kind.String(), "refused|stage="+m.stage.String()+"|actor="+m.roleOf(f), "a funder's withdrawal within the outstanding contribution was refused: "+short(r.Log, 120))
					return
				}
				m.fire("withdraw-refused")
				continue
			}
			if !refundable {
				m.violate("refund-only-when-cancelled-or-goal-missed", o.Kind.String(), "stage="+m.stage.String()+"|actor="+m.roleOf(f), "PROPOSAL_WITHDRAW_FUNDS accepted although the proposal is neither cancelled nor has it missed its goal")
				return
			}
			if x.Sign() <= 0 || x.Cmp(have) > 0 {
				m.violate("refund-never-exceeds-contribution", o.Kind.String(), "actor="+m.roleOf(f), fmt.Sprintf("withdrawal of %s accepted, outstanding contribution %s", x, have))
				return
			}
			if m.stage == sFunding {
				m.stage = sGoalMissed
				m.fire("goal-missed")
			}
			have.Sub(have, x)
			m.escrow.Sub(m.escrow, x)
			add(addr(w.Users[o.Benef]), x)
			m.fire("refunded")
		case opExpire:
			if !acc {
				continue
			}
			a := addr(w.Users[o.Actor])
			if m.stage != sVoting || !m.snapshotKnown || h <= m.votingDeadline {
				// "it can only expire after its voting deadline"
				when := "stage=" + m.stage.String()
				if m.stage == sVoting {
					when += "|before-voting-deadline"
				}
				m.violate("expire-only-after-voting-deadline", o.Kind.String(), "actor="+m.roleOf(a)+"|"+when,
					fmt.Sprintf("EXPIRE_VOTES from an ordinary account accepted at height %d (stage %s, voting deadline %d)", h, m.stage, m.votingDeadline))
				return
			}
			m.stage = sExpired
			m.fire("expired-by-user-after-deadline")
		case opFinalize:
			if !acc {
				continue
			}
			switch m.stage {
			case sPassed, sFailed, sExpired:
				doFinalize("user")
				m.fire("finalized-by-user")
			case sFinalized, sFinalizeFailed:
				// accepted as a no-op ("already finalised")
				m.count("finalize_noop_on_finalized")
			default:
				// accepted: whether it had an effect shows in the stage comparison below; the model does
				// not move
				m.count("finalize_accepted_in_stage_" + m.stage.String())
			}
		case opStake:
			if acc {
				v := w.Vals[o.Actor]
				if o.Amount > 0 { // an unstake (negative amount) moves nothing out of the balance
					add(addr(v.Stake), new(big.Int).Neg(units(o.Amount)))
				}
				m.fire("validator-set-change")
			}
		case opGov:
			// the second proposal's own life is not judged; its payer's outflow is accounted for
			if acc && o.govOut != 0 {
				add(addr(w.Vals[o.govPayer].Stake), new(big.Int).Neg(units(o.govOut)))
			}
		}
	}
	// the block in which the second proposal is finalised distributes ITS funds and changes ITS option: the
	// balance, fee-pool, ledger and option clauses cannot be told apart from that in this one block
	macroFinalised := cur.QStore != prev.QStore && (cur.QStore == "propFinalized" || cur.QStore == "propFinalizeFailed")
	if macroFinalised {
		m.count("blocks_not_judged_for_balances_and_options:second-proposal-finalised")
	}

	obsStage := cur.stageOf()
	m.log("    observed stage=%s  model stage=%s  escrow=%s", obsStage, m.stage, cur.escrow())
	if obsStage == sInconsistent {
		m.violate("moves-only-forward", "block", "inconsistent-record", fmt.Sprintf("proposal records after the block: %+v", cur.Props))
		return
	}
	// the proposal's immutable fields
	if len(cur.Props) == 1 && m.stage != sNone {
		p := cur.Props[0]
		if p.Proposer != m.proposer || p.FundingDeadline != m.fundingDeadline || p.FundingGoal != m.goal.String() || int64(p.PassPercent) != m.passPct || p.Type != int(m.typ) {
			m.violate("moves-only-forward", "block", "immutable-field-changed", fmt.Sprintf("record %+v differs from what was created", p))
			return
		}
	}
	// observation-only forward rule, independent of the model's own bookkeeping
	if ps := prev.stageOf(); obsStage.rank() < ps.rank() {
		m.violate("moves-only-forward", "block", "from="+ps.String()+"|to="+obsStage.String(), "the proposal's stage went backwards")
		return
	}

	// voting began in this block: read the snapshot and judge it
	if m.stage.rank() >= sVoting.rank() && !m.snapshotKnown && m.stage != sCancelled && m.stage != sGoalMissed {
		if len(cur.Props) != 1 || len(cur.Votes) == 0 {
			m.violate("voting-once-goal-met", "PROPOSAL_FUND", "no-voting-stage-after-goal-met", fmt.Sprintf("goal met at height %d but observed stage %s with %d vote records", h, obsStage, len(cur.Votes)))
			return
		}
		// snapshot == the validators (with their power) at the moment voting began; a validator-set change
		// in the same block may precede or follow the funding transaction, so either side of the block is
		// accepted
		for v, rec := range cur.Votes {
			if pw, ok := prev.ValPower[v]; !(ok && pw == rec.Power) {
				if pw2, ok2 := cur.ValPower[v]; !(ok2 && pw2 == rec.Power) {
					m.violate("snapshot-when-voting-began", "PROPOSAL_FUND", "snapshot-entry-not-a-validator", fmt.Sprintf("snapshot entry %s power %d does not match the validator records", v, rec.Power))
					return
				}
			}
			// "the validators snapshotted when voting began" are validators: an entry whose status record says
			// "not active" on BOTH sides of this block belongs to somebody who had lost its seat before voting began
			if pa, pk := prev.ValActive[v]; pk && !pa {
				if ca, ck := cur.ValActive[v]; ck && !ca {
					m.violate("snapshot-when-voting-began", "PROPOSAL_FUND", "snapshot-entry-not-an-active-validator", fmt.Sprintf("snapshot entry %s (power %d) has no active status: it was not a validator when voting began", v, rec.Power))
					return
				}
			}
			m.snapshot[v] = rec.Power
		}
		for v, pw := range prev.ValPower {
			if _, ok := cur.Votes[v]; !ok && pw > 0 {
				if _, still := cur.ValPower[v]; still {
					// a validator with power that is not snapshotted: tolerated only if it has no active status
					// yet (the implementation snapshots validators with an active status record)
					m.count("validator_with_power_not_in_snapshot")
				}
			}
		}
		m.votingDeadline = cur.Props[0].VotingDeadline
		if m.votingDeadline < h {
			m.violate("expire-only-after-voting-deadline", "PROPOSAL_FUND", "voting-deadline-in-the-past", fmt.Sprintf("voting began at %d with deadline %d", h, m.votingDeadline))
			return
		}
		m.snapshotKnown = true
		for _, o := range pendingVotes {
			if !m.applyVote(h, o) {
				return
			}
		}
	}
	if m.stage.rank() >= sVoting.rank() && m.snapshotKnown && len(cur.Props) == 1 && cur.Props[0].VotingDeadline != m.votingDeadline {
		m.violate("expire-only-after-voting-deadline", "block", "voting-deadline-changed", fmt.Sprintf("voting deadline %d became %d", m.votingDeadline, cur.Props[0].VotingDeadline))
		return
	}

	// reconcile the stage: transitions the block hooks may perform on their own
	if obsStage != m.stage {
		switch {
		case m.stage == sVoting && obsStage == sExpired:
			if h <= m.votingDeadline {
				m.violate("expire-only-after-voting-deadline", "internal", "before-voting-deadline", fmt.Sprintf("expired at height %d, voting deadline %d", h, m.votingDeadline))
				return
			}
			m.stage = sExpired
			m.fire("expired-internally-after-deadline")
		case (m.stage == sPassed || m.stage == sFailed || m.stage == sExpired) && (obsStage == sFinalized || obsStage == sFinalizeFailed):
			doFinalize("internal")
			if obsStage == sFinalizeFailed {
				m.stage = sFinalizeFailed
			}
			m.fire("finalized-internally")
		default:
			clause := "pass-fail-per-recorded-votes"
			if !(m.stage == sVoting || m.stage == sPassed || m.stage == sFailed) || !(obsStage == sVoting || obsStage == sPassed || obsStage == sFailed) {
				clause = "moves-only-forward"
			}
			opn := "block"
			if len(ops) > 0 {
				opn = ops[len(ops)-1].Kind.String()
			}
			m.violate(clause, opn, "model="+m.stage.String()+"|impl="+obsStage.String(), fmt.Sprintf("after height %d the statement implies stage %s, the implementation shows %s", h, m.stage, obsStage))
			return
		}
	}

	// recorded votes
	if m.snapshotKnown {
		for v, pw := range m.snapshot {
			rec, ok := cur.Votes[v]
			if !ok || rec.Power != pw || rec.Opinion != m.votes[v] {
				m.violate("pass-fail-per-recorded-votes", "block", "vote-record-differs", fmt.Sprintf("validator %s: model opinion %d power %d, record %+v (present=%v)", v, m.votes[v], pw, rec, ok))
				return
			}
		}
		if len(cur.Votes) != len(m.snapshot) {
			m.violate("pass-fail-per-recorded-votes", "block", "vote-record-outside-snapshot", fmt.Sprintf("%d vote records, snapshot has %d", len(cur.Votes), len(m.snapshot)))
			return
		}
	} else if len(cur.Votes) > 0 {
		m.violate("pass-fail-per-recorded-votes", "block", "vote-records-before-voting", fmt.Sprintf("%d vote records in stage %s", len(cur.Votes), m.stage))
		return
	}

	// funds: escrow and per-funder records
	if cur.escrow().Cmp(m.escrow) != 0 {
		facts := "escrow-differs"
		if m.stage == sFinalized {
			facts = "funds-left-after-finalisation"
		}
		m.violate("funds-accounted", "block", facts, fmt.Sprintf("escrow record %s, model %s (stage %s)", cur.escrow(), m.escrow, m.stage))
		return
	}
	for f, n := range cur.FundsI {
		want := m.contrib[f]
		if want == nil {
			want = new(big.Int)
		}
		if n.Cmp(want) != 0 {
			m.violate("funds-accounted", "block", "funder-record-differs", fmt.Sprintf("funder %s record %s, model %s", f, n, want))
			return
		}
	}
	for f, n := range m.contrib {
		if _, ok := cur.FundsI[f]; !ok && n.Sign() != 0 {
			m.violate("funds-accounted", "block", "funder-record-missing", fmt.Sprintf("funder %s has %s outstanding but no record", f, n))
			return
		}
	}

	if macroFinalised {
		m.tags["stage:"+m.stage.String()] = true
		return
	}
	// balances and fee pool
	feeDelta := new(big.Int).Sub(cur.FeeTotal, prev.FeeTotal)
	feeExtra := new(big.Int).Sub(feeDelta, expFees)
	distributed := new(big.Int)
	addrs := map[string]bool{}
	for a := range prev.Bal {
		addrs[a] = true
	}
	for a := range cur.Bal {
		addrs[a] = true
	}
	var sorted []string
	for a := range addrs {
		sorted = append(sorted, a)
	}
	sort.Strings(sorted)
	for _, a := range sorted {
		before, after := prev.Bal[a], cur.Bal[a]
		if before == nil {
			before = new(big.Int)
		}
		if after == nil {
			after = new(big.Int)
		}
		d := new(big.Int).Sub(after, before)
		e := exp[a]
		if e == nil {
			e = new(big.Int)
		}
		extra := new(big.Int).Sub(d, e)
		if extra.Sign() == 0 {
			continue
		}
		if finalizedNow && extra.Sign() > 0 {
			distributed.Add(distributed, extra)
			continue
		}
		m.violate("funds-accounted", "block", "unexplained-balance-change|finalisation="+fmt.Sprint(finalizedNow), fmt.Sprintf("balance of %s changed by %s, the operations of the block explain %s", a, d, e))
		return
	}
	if finalizedNow {
		if feeExtra.Sign() < 0 {
			m.violate("funds-accounted", "finalisation", "fee-pool-decreased", fmt.Sprintf("fee pool changed by %s beyond the fees", feeExtra))
			return
		}
		distributed.Add(distributed, feeExtra)
		m.fire("distribution-checked")
		m.count("finalized_from_" + finalizedFrom.String() + "_by_" + finalizedBy)
		// "distributed once at finalisation, never exceeding what was contributed"
		if distributed.Cmp(escrowAtFinalisation) > 0 {
			m.violate("distribution-never-exceeds-contributions", "finalisation", "by="+finalizedBy+"|from="+finalizedFrom.String(), fmt.Sprintf("distributed %s, contributed %s", distributed, escrowAtFinalisation))
			return
		}
		m.tags[fmt.Sprintf("distribution:from=%s,burned=%s", finalizedFrom, new(big.Int).Sub(escrowAtFinalisation, distributed))] = true
		if len(cur.FundsI) != 0 {
			m.violate("funds-accounted", "finalisation", "funder-records-left-after-finalisation", fmt.Sprintf("%d funder records left", len(cur.FundsI)))
			return
		}
	} else if feeExtra.Sign() != 0 {
		m.violate("funds-accounted", "block", "unexplained-fee-pool-change", fmt.Sprintf("fee pool changed by %s, fees charged %s", feeDelta, expFees))
		return
	}
	// whole-ledger conservation: nothing but the burnt share of a distribution leaves, nothing enters
	totalDelta := new(big.Int).Sub(cur.TotalOLT, prev.TotalOLT)
	wantDelta := new(big.Int)
	if finalizedNow {
		wantDelta.Sub(distributed, escrowAtFinalisation)
	}
	if totalDelta.Cmp(wantDelta) != 0 {
		m.violate("funds-accounted", "block", "ledger-total-changed", fmt.Sprintf("total OLT changed by %s, expected %s", totalDelta, wantDelta))
		return
	}

	// configuration change: exactly once, only for a passed proposal, at its finalisation
	govChanged := !sameMap(prev.Gov, cur.Gov)
	wantChange := finalizedNow && finalizedFrom == sPassed && m.typ == governance.ProposalTypeConfigUpdate && m.stage == sFinalized
	switch {
	case govChanged && !wantChange:
		m.violate("config-change-exactly-once-only-when-passed", "block", "options-changed|stage="+m.stage.String()+"|already-applied="+fmt.Sprint(m.configApplied), "governance option records changed: "+diffMap(prev.Gov, cur.Gov))
		return
	case wantChange && m.configApplied:
		m.violate("config-change-exactly-once-only-when-passed", "finalisation", "applied-twice", "the configuration change was applied a second time")
		return
	case wantChange:
		if !govChanged {
			m.violate("config-change-exactly-once-only-when-passed", "finalisation", "not-applied", "a passed configuration proposal was finalised without changing the option record")
			return
		}
		if err := checkConfigApplied(prev.Gov, cur.Gov, h); err != "" {
			m.violate("config-change-exactly-once-only-when-passed", "finalisation", "applied-wrongly", err)
			return
		}
		m.configApplied = true
		m.fire("config-applied")
	}
	m.tags["stage:"+m.stage.String()] = true
}

// applyVote records an accepted vote and decides.
func (m *model) applyVote(h int64, o op) bool {
	v := m.w.Vals[o.Actor].Val.Addr.String()
	if h > m.votingDeadline {
		m.violate("votes-until-voting-deadline", o.Kind.String(), "accepted-after-voting-deadline", fmt.Sprintf("vote accepted at height %d, voting deadline %d", h, m.votingDeadline))
		return false
	}
	if _, ok := m.snapshot[v]; !ok {
		m.violate("pass-fail-per-recorded-votes", o.Kind.String(), "vote-by-validator-outside-snapshot", "a vote of a validator that was not snapshotted when voting began was accepted")
		return false
	}
	if prevOp, voted := m.votes[v]; voted && prevOp != 0 {
		if prevOp == int(o.Opinion) {
			m.fire("vote-repeated")
		} else {
			m.fire("vote-changed")
		}
	}
	m.votes[v] = int(o.Opinion)
	m.fire("vote-recorded")
	if d := m.decision(); d != sVoting {
		m.stage = d
		m.fire("decided-" + d.String())
	}
	return true
}

func govOptions(w *harness.World, t governance.ProposalType) governance.ProposalOption {
	if t == governance.ProposalTypeConfigUpdate {
		return w.Gov.PropOptions.ConfigUpdate
	}
	return w.Gov.PropOptions.General
}

func sameMap(a, b map[string]string) bool {
	if len(a) != len(b) {
		return false
	}
	for k, v := range a {
		if w, ok := b[k]; !ok || w != v {
			return false
		}
	}
	return true
}

func diffMap(a, b map[string]string) string {
	var ks []string
	for k, v := range b {
		if w, ok := a[k]; !ok || w != v {
			ks = append(ks, fmt.Sprintf("%q", k))
		}
	}
	for k := range a {
		if _, ok := b[k]; !ok {
			ks = append(ks, fmt.Sprintf("-%q", k))
		}
	}
	sort.Strings(ks)
	return strings.Join(ks, " ")
}

// checkConfigApplied: exactly the ONS option record for this height and its last-update pointer are
// new/changed, and the new record is the old one with perBlockFees replaced by the proposal's value.
func checkConfigApplied(prev, cur map[string]string, h int64) string {
	var changed []string
	for k, v := range cur {
		if w, ok := prev[k]; !ok || w != v {
			changed = append(changed, k)
		}
	}
	for k := range prev {
		if _, ok := cur[k]; !ok {
			return fmt.Sprintf("option record %q disappeared", k)
		}
	}
	sort.Strings(changed)
	var newRec string
	for _, k := range changed {
		switch {
		case strings.HasSuffix(k, "_onsopt"):
			newRec = cur[k]
		case k == "g_onsOptions_defaultOptions":
		default:
			return fmt.Sprintf("unrelated option record %q changed", k)
		}
	}
	if newRec == "" {
		return "no new ONS option record"
	}
	// the newest previous ONS record
	var oldKeys []string
	for k := range prev {
		if strings.HasSuffix(k, "_onsopt") {
			oldKeys = append(oldKeys, k)
		}
	}
	sort.Strings(oldKeys)
	var oldM, newM map[string]interface{}
	if json.Unmarshal([]byte(prev[oldKeys[len(oldKeys)-1]]), &oldM) != nil || json.Unmarshal([]byte(newRec), &newM) != nil {
		return "undecodable ONS option record"
	}
	oldM["perBlockFees"] = configNewPerBlockFee
	ob, _ := json.Marshal(oldM)
	nb, _ := json.Marshal(newM)
	if string(ob) != string(nb) {
		return fmt.Sprintf("new ONS options %s, expected %s", nb, ob)
	}
	return ""
}

func short(s string, n int) string {
	if len(s) > n {
		return s[:n] + "..."
	}
	return s
}

// stateKey: digest of the projection of the committed state that the property can observe or that can
// influence it.
//
//	kept:    height (deadlines are absolute heights); every record of the proposal, its votes and funds;
//	         all governance option records; every OLT balance NET OF THE FEES its owner has paid so far on
//	         this path (two histories that differ only in which rejected/accepted fee-paying transactions
//	         they contain end with balances differing by some 10^-5 OLT; balances are ~10^9 OLT and every
//	         amount of the alphabet is <= 100 OLT or a 1M stake taken once, so no future operation's
//	         acceptance or effect can depend on that difference); validator records, stake records and
//	         validator status records (they decide who is snapshotted and who may vote).
//	dropped: es__svb_/es__scv vote-block bookkeeping (all validators sign every block here, so the
//	         missed-vote freeze it feeds cannot fire), rwz_/rwcum_/ri_ reward accumulators and f_ fee
//	         shares (written by every block, read by no governance code path: finalisation only ADDS to
//	         the fee pool), ETH balances (never touched), the rewards pool balance (constant here).
func stateKey(o *obs, m *model) string {
	h := sha256.New()
	fmt.Fprintf(h, "h=%d|", o.Height)
	for _, p := range o.Props {
		fmt.Fprintf(h, "%+v|", p)
	}
	var ks []string
	for v, r := range o.Votes {
		ks = append(ks, fmt.Sprintf("V%s=%d/%d", v, r.Opinion, r.Power))
	}
	for f, n := range o.FundsI {
		ks = append(ks, fmt.Sprintf("F%s=%s", f, n))
	}
	for k, v := range o.Gov {
		ks = append(ks, "G"+k+"="+v)
	}
	for a, n := range o.Bal {
		net := new(big.Int).Set(n)
		if f := m.feesPaid[a]; f != nil {
			net.Add(net, f)
		}
		ks = append(ks, fmt.Sprintf("B%s=%s", a, net))
	}
	sort.Strings(ks)
	for _, k := range ks {
		h.Write([]byte(k))
		h.Write([]byte{0})
	}
	fmt.Fprintf(h, "T=%s|S=%s", o.escrow(), o.Staking)
	key := hex.EncodeToString(h.Sum(nil)[:12])
	if m.tainted {
		key += "|tainted"
	}
	return key
}
