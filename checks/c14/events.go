package c14

import (
	"fmt"
	"math/big"
	"os"

	"github.com/Oneledger/protocol/action"
	"github.com/Oneledger/protocol/data/balance"
	"github.com/Oneledger/protocol/data/governance"

	"verif/harness"
	"verif/txs/gov"
	"verif/txs/stk"
)

// ---------------------------------------------------------------------------------------------
// World
// ---------------------------------------------------------------------------------------------

// Deadlines are as short as the handlers allow so that "before / at / after the deadline" is reached
// within the depth bound: a proposal created at height h gets funding deadline h+2 (the handler only
// requires it to lie in the future), and voting lasts options.VotingDeadline = 2 blocks from the block
// in which the goal is reached.
const (
	warmup          = 2 // empty blocks before the search starts: validator status records appear at EndBlock(2)
	fundingBlocks   = 2
	votingBlocks    = 2
	extensionBlocks = 4 // quiet blocks appended to every history (expiry, finalisation), oracle still on
)

// ConfigPayload is the configuration change carried by the config-update proposal.
const ConfigPayload = "onsOptions.perBlockFees:2000000000000000000"

var configNewPerBlockFee = "2000000000000000000"

// World: users A (proposer), B (funder), C (funder / stranger); validators V1 (3M), V2 (2M), V3 (1M)
// staked at genesis, V4 a candidate that can join through the stake macro-operation.
func World() *harness.World {
	w := harness.NewWorld("c14", 4, 3)
	for _, po := range []*governance.ProposalOption{&w.Gov.PropOptions.General, &w.Gov.PropOptions.ConfigUpdate, &w.Gov.PropOptions.CodeChange} {
		po.FundingDeadline = fundingBlocks
		po.VotingDeadline = votingBlocks
	}
	return w
}

// WorldScripted: the governance options can only be changed by a proposal if ALL proposal options are inside
// the ranges the application validates (deadlines of at least 10 000 blocks), so the scripted histories run in
// a world with the smallest legal deadlines and skip over them with long stretches of empty blocks; the pass
// percentage of configuration-update proposals starts at 67 and is lowered to 51 in mid-life of the proposal
// under test.
const scriptedDeadline = 10000

func WorldScripted() *harness.World {
	w := harness.NewWorld("c14s", 4, 3)
	w.Gov.PropOptions.ConfigUpdate.FundingDeadline = scriptedDeadline
	w.Gov.PropOptions.ConfigUpdate.VotingDeadline = scriptedDeadline
	w.Gov.PropOptions.ConfigUpdate.PassPercentage = 67
	// the other proposal types are validated together with it
	w.Gov.PropOptions.General.FundingDeadline, w.Gov.PropOptions.General.VotingDeadline = 75000, 75000
	w.Gov.PropOptions.CodeChange.FundingDeadline, w.Gov.PropOptions.CodeChange.VotingDeadline = 10000, 150000
	return w
}

// PropID is the one proposal of the search.
var PropID = func() governance.ProposalID {
	id := gov.PID("c14")
	if os.Getenv("VERIF_C14_ID") == "underscore" {
		// an id the creator is free to choose: 64 characters, one of them the separator of the stores' keys
		id = id[:10] + "_" + id[11:]
	}
	return id
}()

// ---------------------------------------------------------------------------------------------
// Operations and events
// ---------------------------------------------------------------------------------------------

type opKind int

const (
	opCreate opKind = iota
	opFund
	opVote
	opCancel
	opWithdraw
	opExpire
	opFinalize
	opStake
	opGov // a transaction of the pass-percentage macro-operation on a SECOND proposal (not judged by this model)
)

func (k opKind) String() string {
	return [...]string{"PROPOSAL_CREATE", "PROPOSAL_FUND", "PROPOSAL_VOTE", "PROPOSAL_CANCEL", "PROPOSAL_WITHDRAW_FUNDS", "EXPIRE_VOTES", "PROPOSAL_FINALIZE", "STAKE", "GOVERNANCE-MACRO"}[k]
}

// op is one transaction of the alphabet, described by what the reference model needs to know.
type op struct {
	Name     string
	Kind     opKind
	Actor    int                     // user index (0=A proposer, 1=B, 2=C) or validator index for votes / stake
	Amount   int64                   // whole OLT (fund, withdraw, stake)
	Opinion  governance.VoteOpinion  // votes
	Type     governance.ProposalType // create
	Benef    int                     // withdraw: beneficiary user index
	Legit    bool                    // a well-formed, authorised operation: must be accepted somewhere in the search
	MinDepth int                     // smallest search depth at which a Legit op can be accepted
	// opGov only
	gov      func(w *harness.World, h int64, memo string) *harness.TxSpec
	govPayer int   // validator index whose stake account signs and pays
	govOut   int64 // whole OLT leaving the payer besides the fee
}

type event struct {
	Name string
	Ops  []op
	Skip int // scripted histories only: this many EMPTY blocks are run first (oracle on the whole stretch at once), then the block with Ops
}

func oltAmt(n int64) action.Amount { return harness.Coin("OLT", harness.OLTUnits(n)) }

func units(n int64) *big.Int { a := harness.OLTUnits(n); return new(big.Int).Set(a.BigInt()) }

// build turns an op into a signed transaction for a block at the given height.
func (o op) build(w *harness.World, height int64, memo string) *harness.TxSpec {
	U := w.Users
	switch o.Kind {
	case opCreate:
		po := gov.PropOpts(w, o.Type)
		goal := *po.FundingGoal
		cfg := ""
		if o.Type == governance.ProposalTypeConfigUpdate {
			cfg = ConfigPayload
		}
		fd := height + po.FundingDeadline
		return gov.ProposalCreate(PropID, o.Type, "headline", "description", U[o.Actor], harness.Coin("OLT", *po.InitialFunding),
			fd, &goal, fd+po.VotingDeadline, po.PassPercentage, cfg, memo)
	case opFund:
		return gov.ProposalFund(PropID, U[o.Actor], oltAmt(o.Amount), memo)
	case opVote:
		v := w.Vals[o.Actor]
		return gov.ProposalVote(PropID, v.Stake, v.Val, o.Opinion, memo)
	case opCancel:
		return gov.ProposalCancel(PropID, U[o.Actor], "reason", memo)
	case opWithdraw:
		return gov.ProposalWithdrawFunds(PropID, U[o.Actor], oltAmt(o.Amount), U[o.Benef].Addr, memo)
	case opExpire:
		return gov.ExpireVotes(PropID, U[o.Actor], memo)
	case opFinalize:
		return gov.ProposalFinalize(PropID, U[o.Actor], memo)
	case opStake:
		v := w.Vals[o.Actor]
		if o.Amount < 0 {
			return stk.Unstake(v.Val, v.Stake, stk.WholeOLT(-o.Amount), memo)
		}
		return stk.Stake(v, v.Stake, stk.WholeOLT(o.Amount), memo)
	case opGov:
		return o.gov(w, height, memo)
	}
	panic("unknown op")
}

// payer is the address charged with the fee (first signer).
func (o op) payer(w *harness.World) *harness.Account {
	switch o.Kind {
	case opVote, opStake:
		return w.Vals[o.Actor].Stake
	case opGov:
		return w.Vals[o.govPayer].Stake
	}
	return w.Users[o.Actor]
}

// feeCharged: EXPIRE_VOTES and PROPOSAL_FINALIZE charge nothing (their ProcessFee only meters gas).
func (o op) feeCharged() bool { return o.Kind != opExpire && o.Kind != opFinalize }

const (
	tGeneral = governance.ProposalTypeGeneral
	tConfig  = governance.ProposalTypeConfigUpdate
	yes      = governance.OPIN_POSITIVE
	no       = governance.OPIN_NEGATIVE
	giveup   = governance.OPIN_GIVEUP
)

var (
	oCreateG  = op{Name: "create-general(A)", Kind: opCreate, Actor: 0, Type: tGeneral, Legit: true, MinDepth: 1}
	oCreateC  = op{Name: "create-config(A)", Kind: opCreate, Actor: 0, Type: tConfig, Legit: true, MinDepth: 1}
	oFundB    = op{Name: "fund(B,30)", Kind: opFund, Actor: 1, Amount: 30, Legit: true, MinDepth: 2}
	oFundC    = op{Name: "fund(C,90)", Kind: opFund, Actor: 2, Amount: 90, Legit: true, MinDepth: 2}
	oV1Yes    = op{Name: "vote(V1,yes)", Kind: opVote, Actor: 0, Opinion: yes, Legit: true, MinDepth: 3}
	oV1No     = op{Name: "vote(V1,no)", Kind: opVote, Actor: 0, Opinion: no, Legit: true, MinDepth: 3}
	oV2Yes    = op{Name: "vote(V2,yes)", Kind: opVote, Actor: 1, Opinion: yes, Legit: true, MinDepth: 3}
	oV2No     = op{Name: "vote(V2,no)", Kind: opVote, Actor: 1, Opinion: no, Legit: true, MinDepth: 3}
	oV3Yes    = op{Name: "vote(V3,yes)", Kind: opVote, Actor: 2, Opinion: yes, Legit: true, MinDepth: 3}
	oV3Giveup = op{Name: "vote(V3,giveup)", Kind: opVote, Actor: 2, Opinion: giveup, Legit: true, MinDepth: 3}
	oV4Yes    = op{Name: "vote(V4,yes)", Kind: opVote, Actor: 3, Opinion: yes, Legit: true, MinDepth: 5} // only if V4 staked before voting began
	oCancelA  = op{Name: "cancel(proposer A)", Kind: opCancel, Actor: 0, Legit: true, MinDepth: 2}
	oCancelC  = op{Name: "cancel(other C)", Kind: opCancel, Actor: 2}
	// B contributes 30 at most: 10 is a partial refund, 30 the full one (or more than what is left after a
	// partial one), C never has a refundable contribution (its 90 always meet the goal): "other"
	oWdB10     = op{Name: "withdraw(B,10->B)", Kind: opWithdraw, Actor: 1, Amount: 10, Benef: 1, Legit: true, MinDepth: 4}
	oWdB30     = op{Name: "withdraw(B,30->B)", Kind: opWithdraw, Actor: 1, Amount: 30, Benef: 1, Legit: true, MinDepth: 4}
	oWdC10     = op{Name: "withdraw(C,10->C)", Kind: opWithdraw, Actor: 2, Amount: 10, Benef: 2}
	oWdA10     = op{Name: "withdraw(A,10->C)", Kind: opWithdraw, Actor: 0, Amount: 10, Benef: 2, Legit: true, MinDepth: 3} // proposer's initial funding, to a third party
	oExpireC   = op{Name: "user-expire(C)", Kind: opExpire, Actor: 2, Legit: true, MinDepth: 5}
	oFinalizeC = op{Name: "user-finalize(C)", Kind: opFinalize, Actor: 2, Legit: true, MinDepth: 4}
	// V3 (1M) drops to one below the minimum self-delegation: its record keeps power but it is no validator any more
	oUnstakeV3 = op{Name: "unstake(V3,down-to-minimum-1)", Kind: opStake, Actor: 2, Amount: -500001, Legit: true, MinDepth: 1}
	oStakeV4   = op{Name: "stake(V4,1M)", Kind: opStake, Actor: 3, Amount: 1000000, Legit: true, MinDepth: 1}
)

func single(o op) event { return event{Name: o.Name, Ops: []op{o}} }

func pair(a, b op) event { return event{Name: a.Name + "+" + b.Name, Ops: []op{a, b}} }

// Events is the alphabet: every event is one whole block. tier "thorough" adds the validator-set change
// macro-operation with the newcomer's vote and more two-transaction blocks.
func Events(tier string) []event {
	ev := []event{
		{Name: "empty"},
		single(oCreateG), single(oCreateC),
		single(oFundB), single(oFundC),
		single(oV1Yes), single(oV1No), single(oV2Yes), single(oV2No), single(oV3Yes), single(oV3Giveup),
		single(oCancelA), single(oCancelC),
		single(oWdB10), single(oWdB30), single(oWdC10), single(oWdA10),
		single(oExpireC), single(oFinalizeC),
		// several operations in one block where the statement relates them
		pair(oFundC, oV1No),        // a vote in the very block in which voting begins; V1's NO alone decides
		pair(oV2Yes, oFinalizeC),   // decision and a stranger's finalisation in the same block
		pair(oExpireC, oFinalizeC), // expiry and finalisation by a stranger in one block
		pair(oCancelA, oWdB30),     // cancel and refund in one block
		// (added after a seeded change - the snapshot taken over every validator RECORD, also of validators that
		// lost their seat - escaped the quick alphabet, in which the validator set never changed)
		single(oUnstakeV3),
	}
	if tier == "thorough" {
		ev = append(ev,
			single(oStakeV4), single(oV4Yes),
			pair(oV1Yes, oV2Yes),
			pair(oV1Yes, oV1No), // changed vote inside one block
			pair(oFundB, oFundC),
			pair(oWdB30, oWdB30), // the same refund twice in one block
		)
	}
	return ev
}

// ---------------------------------------------------------------------------------------------
// Scripted histories: an option changes in the middle of the proposal's life
// ---------------------------------------------------------------------------------------------

// QPropID is a SECOND proposal, used only by the scripted histories: a configuration update that lowers the
// pass percentage of configuration-update proposals from 67 to 51 while proposal PropID (created under 67)
// is being voted on. The model does not judge it (its records, votes, funds and distribution are skipped);
// what it changes is the OPTION that the proposal under test must NOT be re-read from.
var QPropID = gov.PID("c14-pct")

const QPayload = "propOptions.configUpdate.passPercentage:51"

// scriptedBase is the index of the first scripted-only event (they are not part of the BFS alphabet).
const scriptedBase = 1000

func scriptedEvents() []event {
	qCreate := op{Name: "pct:create", Kind: opGov, govPayer: 0, govOut: 10, gov: func(w *harness.World, h int64, memo string) *harness.TxSpec {
		po := gov.PropOpts(w, governance.ProposalTypeConfigUpdate)
		goal := *po.FundingGoal
		fd := h + po.FundingDeadline
		return gov.ProposalCreate(QPropID, governance.ProposalTypeConfigUpdate, "pct", "lower the pass percentage", w.Vals[0].Stake, harness.Coin("OLT", *po.InitialFunding),
			fd, &goal, fd+po.VotingDeadline, po.PassPercentage, QPayload, memo)
	}}
	qFund := op{Name: "pct:fund", Kind: opGov, govPayer: 0, govOut: 90, gov: func(w *harness.World, h int64, memo string) *harness.TxSpec {
		return gov.ProposalFund(QPropID, w.Vals[0].Stake, oltAmt(90), memo)
	}}
	qVote := func(i int) op {
		return op{Name: fmt.Sprintf("pct:vote(V%d,yes)", i+1), Kind: opGov, govPayer: i, gov: func(w *harness.World, h int64, memo string) *harness.TxSpec {
			return gov.ProposalVote(QPropID, w.Vals[i].Stake, w.Vals[i].Val, governance.OPIN_POSITIVE, memo)
		}}
	}
	past := scriptedDeadline + 8 // well past the voting deadline of the proposal under test
	if v := os.Getenv("VERIF_C14_SKIP"); v != "" {
		fmt.Sscan(v, &past) // timing experiments only
	}
	return []event{
		{Name: "create-config(A)+pct:create+fund", Ops: []op{oCreateC, qCreate, qFund}},                  // 1000
		{Name: "fund(C,90)+pct:votes(V1,V2 yes)", Ops: []op{oFundC, qVote(0), qVote(1)}},                 // 1001
		{Name: "vote(V1,yes)+vote(V3,yes)", Ops: []op{oV1Yes, oV3Yes}},                                   // 1002: 4M of 6M = 66.7 %: above 51, below 67
		{Name: "user-finalize(C)", Ops: []op{oFinalizeC}},                                                // 1003
		{Name: "user-expire(C)", Ops: []op{oExpireC}},                                                    // 1004
		{Name: "empty", Ops: nil},                                                                        // 1005
		{Name: "vote(V2,yes)", Ops: []op{oV2Yes}},                                                        // 1006: 6M of 6M together with 1002
		{Name: fmt.Sprintf("%d-empty-blocks;user-finalize(C)", past), Skip: past, Ops: []op{oFinalizeC}}, // 1007
		{Name: fmt.Sprintf("%d-empty-blocks;user-expire(C)", past), Skip: past, Ops: []op{oExpireC}},     // 1008
		{Name: fmt.Sprintf("%d-empty-blocks", past), Skip: past},                                         // 1009
	}
}

// ScriptedHistories: the proposal under test is created under a pass percentage of 67 and collects 66.7 % of
// YES votes; meanwhile the second proposal lowers the option to 51 and is finalised by the block hook; then the
// proposal under test expires (or not yet) and a stranger sends PROPOSAL_FINALIZE / EXPIRE_VOTES at every later
// point. By the statement it passes or fails "according to the recorded votes" under ITS OWN rule.
func ScriptedHistories() [][]int {
	b := scriptedBase
	return [][]int{
		{b + 0, b + 1, b + 2, b + 5, b + 7},        // expired by the hook (after 10 000 blocks), finalised by a stranger in a later block
		{b + 0, b + 1, b + 2, b + 5, b + 3},        // finalise while still voting (undecided), after the option changed
		{b + 0, b + 1, b + 2, b + 5, b + 8, b + 3}, // expired by a stranger after the deadline, then finalised
		{b + 0, b + 1, b + 2, b + 5, b + 6},        // decided YES under its own rule after the option changed
		{b + 0, b + 1, b + 5, b + 5, b + 7},        // no votes at all, expiry, finalise
		{b + 0, b + 1, b + 2, b + 5, b + 7, b + 3}, // finalise twice
		{b + 0, b + 1, b + 2, b + 5, b + 9, b + 5}, // nobody finalises: the hooks alone
		// the votes are cast AFTER the option changed: still its own rule (added after a sub-agent's remark about the
		// unchanged tree: the vote handler decided with the option currently in force)
		{b + 0, b + 1, b + 5, b + 2, b + 5},
		{b + 0, b + 1, b + 5, b + 2, b + 7},
		{b + 0, b + 1, b + 5, b + 2, b + 6},
	}
}

// ---------------------------------------------------------------------------------------------
// Twin histories: a SECOND proposal decided and finalised in the same blocks as the proposal under test
// ---------------------------------------------------------------------------------------------

// TPropID sorts BEFORE PropID in the stores' key order: whatever walks the fund records of all proposals meets
// the twin's records first. (Added after a sub-agent's remark about the unchanged tree: the fund store's walk
// stops at the first record deleted in the same block.)
var TPropID = gov.PID("c14-twin")

const twinBase = 2000

func twinEvents() []event {
	tCreate := op{Name: "twin:create", Kind: opGov, govPayer: 0, govOut: 10, gov: func(w *harness.World, h int64, memo string) *harness.TxSpec {
		po := gov.PropOpts(w, governance.ProposalTypeGeneral)
		goal := *po.FundingGoal
		fd := h + po.FundingDeadline
		return gov.ProposalCreate(TPropID, governance.ProposalTypeGeneral, "twin", "a second proposal", w.Vals[0].Stake, harness.Coin("OLT", *po.InitialFunding),
			fd, &goal, fd+po.VotingDeadline, po.PassPercentage, "", memo)
	}}
	tFund := op{Name: "twin:fund", Kind: opGov, govPayer: 0, govOut: 90, gov: func(w *harness.World, h int64, memo string) *harness.TxSpec {
		return gov.ProposalFund(TPropID, w.Vals[0].Stake, oltAmt(90), memo)
	}}
	tVote := func(i int) op {
		return op{Name: fmt.Sprintf("twin:vote(V%d,yes)", i+1), Kind: opGov, govPayer: i, gov: func(w *harness.World, h int64, memo string) *harness.TxSpec {
			return gov.ProposalVote(TPropID, w.Vals[i].Stake, w.Vals[i].Val, governance.OPIN_POSITIVE, memo)
		}}
	}
	oWdC0 := op{Name: "withdraw(C,0->C)", Kind: opWithdraw, Actor: 2, Amount: 0, Benef: 2}
	oWdC90 := op{Name: "withdraw(C,90->C)", Kind: opWithdraw, Actor: 2, Amount: 90, Benef: 2}
	return []event{
		{Name: "create-general(A)+twin:create+twin:fund", Ops: []op{oCreateG, tCreate, tFund}},                   // 2000
		{Name: "fund(C,90)", Ops: []op{oFundC}},                                                                  // 2001
		{Name: "vote(V1,yes)+vote(V2,yes)+twin:votes(V1,V2 yes)", Ops: []op{oV1Yes, oV2Yes, tVote(0), tVote(1)}}, // 2002: both decided in one block
		{Name: "empty"}, // 2003: the hook finalises both at the end of this block
		{Name: "withdraw(C,0->C)", Ops: []op{oWdC0}},      // 2004
		{Name: "withdraw(C,90->C)", Ops: []op{oWdC90}},    // 2005
		{Name: "user-finalize(C)", Ops: []op{oFinalizeC}}, // 2006
	}
}

// TwinHistories: both proposals pass in one block and are finalised by the hook in one block; afterwards (the
// funding deadline is long past) a funder of the proposal under test sends withdrawals - of nothing, of its
// whole contribution - and a stranger a finalize: a finalised proposal stays finalised, nothing is refunded.
func TwinHistories() [][]int {
	b := twinBase
	return [][]int{
		{b + 0, b + 1, b + 2, b + 3, b + 3, b + 4},
		{b + 0, b + 1, b + 2, b + 3, b + 3, b + 5},
		{b + 0, b + 1, b + 2, b + 3, b + 4, b + 6},
		{b + 0, b + 1, b + 2, b + 6, b + 4, b + 5},
	}
}

// eventByIndex resolves an event index of any of the three families (alphabet, scripted, twin).
func eventByIndex(evs []event, i int) (event, bool) {
	switch se, te := scriptedEvents(), twinEvents(); {
	case i >= twinBase && i < twinBase+len(te):
		return te[i-twinBase], true
	case i >= scriptedBase && i < scriptedBase+len(se):
		return se[i-scriptedBase], true
	case i >= 0 && i < len(evs):
		return evs[i], true
	}
	return event{}, false
}

func eventNames(ev []event) []string {
	out := make([]string, len(ev))
	for i, e := range ev {
		out[i] = fmt.Sprintf("%d:%s", i, e.Name)
	}
	return out
}

var _ = balance.NewAmount
