// Package c14 is the explicit-state explorer for property C14: governance proposals follow their
// lifecycle and their funds are accounted for. It enumerates, breadth-first and deduplicated on a
// projection of the committed state, all histories of blocks built from a small alphabet of governance
// transactions (create / fund / vote / cancel / withdraw-funds by the entitled and by other accounts,
// EXPIRE_VOTES and PROPOSAL_FINALIZE submitted by an ordinary account, a validator-set change), executes
// each on the real application and compares every block with a reference model of the statement.
package c14

import (
	"encoding/json"
	"fmt"
	"os"
	"os/exec"
	"path/filepath"
	"sort"
	"strings"
	"time"

	"verif/explore"
	"verif/harness"
)

const prop = "C14"

type execResult struct {
	Out     explore.BFSOut
	Verdict []string // per block (replay mode)
}

// execute replays one history from genesis on a fresh replica and runs the oracle on every block.
func execute(hist []int, tier string, verbose bool) (out explore.BFSOut, lines []string) {
	evs := Events(tier)
	w := World()
	if len(hist) > 0 && hist[0] >= scriptedBase && hist[0] < twinBase {
		w = WorldScripted()
	}
	x, err := harness.StartRun(w)
	if err != nil {
		return explore.BFSOut{Err: "StartRun: " + err.Error()}, nil
	}
	defer x.Close()
	m := newModel(w)
	if verbose {
		m.log = func(format string, a ...interface{}) { lines = append(lines, fmt.Sprintf(format, a...)) }
	}
	for i := 0; i < warmup; i++ {
		if _, err := x.Block(harness.BlockSpec{}); err != nil {
			return explore.BFSOut{Err: "warm-up: " + err.Error()}, lines
		}
	}
	prev, err := observe(x.C.Height, x.R.Dump())
	if err != nil {
		return explore.BFSOut{Err: err.Error()}, lines
	}
	var key string
	total := len(hist) + extensionBlocks
	for pos := 0; pos < total; pos++ {
		var ev event
		if pos < len(hist) {
			var ok bool
			if ev, ok = eventByIndex(evs, hist[pos]); !ok {
				return explore.BFSOut{Err: fmt.Sprintf("event index %d out of range", hist[pos])}, lines
			}
		} else {
			ev = event{Name: "(quiet extension)"}
		}
		for k := 0; k < ev.Skip; k++ {
			if _, err := x.BlockAt(harness.BlockSpec{}, false, nil); err != nil { // no state digest: the dump is taken once, after the stretch
				return explore.BFSOut{Err: "chain halted in an empty stretch: " + err.Error()}, lines
			}
			if x.R.Dead {
				m.violate("application-panicked", "block", "stage="+m.stage.String(), "the application closed itself (recovered panic) in an empty block")
				break
			}
		}
		if ev.Skip > 0 && !x.R.Dead {
			// the whole empty stretch is judged as one step
			mid, err := observe(x.C.Height, x.R.Dump())
			if err != nil {
				return explore.BFSOut{Err: err.Error()}, lines
			}
			m.log("height %d..%d: %d empty blocks", prev.Height+1, x.C.Height, ev.Skip)
			m.step(x.C.Height, nil, nil, prev, mid)
			prev = mid
			if m.tainted {
				break
			}
		}
		h := x.C.Height + 1
		var txs []*harness.TxSpec
		for k, o := range ev.Ops {
			txs = append(txs, o.build(w, h, fmt.Sprintf("p%d.%d", pos, k)))
		}
		m.log("height %d: %s", h, ev.Name)
		res, err := x.Block(harness.BlockSpec{Txs: txs})
		if x.R.Dead || (res != nil && res.Panicked) {
			m.violate("application-panicked", lastKind(ev), "stage="+m.stage.String(), "the application closed itself (recovered panic) while executing the block")
			break
		}
		if err != nil {
			return explore.BFSOut{Err: "chain halted: " + err.Error()}, lines
		}
		cur, err := observe(h, x.R.Dump())
		if err != nil {
			return explore.BFSOut{Err: err.Error()}, lines
		}
		outs := make([]txOutcome, len(res.Txs))
		for i, r := range res.Txs {
			outs[i] = txOutcome{Code: r.Code, GasUsed: r.GasUsed, Log: r.Log}
		}
		m.step(h, ev.Ops, outs, prev, cur)
		prev = cur
		if pos == len(hist)-1 {
			key = stateKey(cur, m)
		}
		if m.tainted {
			break
		}
	}
	if len(hist) == 0 {
		key = stateKey(prev, m)
	}
	if !m.tainted && m.stage == sExpired && m.escrow.Sign() > 0 {
		// observation, not a violation: an expired proposal is never finalised by the block hooks, so its
		// contributions stay escrowed (see FINDINGS.md)
		m.count("observed:expired_proposal_still_holds_its_funds_after_quiet_blocks")
	}
	if m.tainted && !strings.HasSuffix(key, "|tainted") {
		// the violation showed only in the quiet extension: the state itself is still expanded
		m.count("violation_in_quiet_extension")
	}
	out = explore.BFSOut{Key: key, Info: m.info}
	if strings.HasSuffix(key, "|tainted") {
		out.NoExpand = true
	}
	for _, v := range m.viols {
		out.Viol = append(out.Viol, explore.BFSViol{Sig: v.Sig, What: v.What})
	}
	for t := range m.tags {
		out.Tags = append(out.Tags, t)
	}
	sort.Strings(out.Tags)
	if m.info["nontrivial_marker"] > 0 {
		out.Info["nontrivial_executions"] = 1
	}
	delete(out.Info, "nontrivial_marker")
	out.Info["executions"] = 1
	return out, lines
}

func lastKind(ev event) string {
	if len(ev.Ops) == 0 {
		return "block"
	}
	return ev.Ops[len(ev.Ops)-1].Kind.String()
}

func workerMain() int {
	fd := harness.KeepStdout() // results go to the original stdout (the pipe to the master)
	harness.SilenceStdout()
	defer harness.RemoveScratch()
	return explore.ServeWorker(fd, func(raw json.RawMessage) interface{} {
		var j explore.BFSJob
		if err := json.Unmarshal(raw, &j); err != nil {
			return explore.BFSOut{Err: err.Error()}
		}
		out, _ := execute(j.Hist, j.Tier, false)
		return out
	})
}

// Main is the entry point of bin/vc14 (after the command word).
func Main(args []string) int {
	if explore.IsWorker(prop) {
		return workerMain()
	}
	f := explore.ParseFlags(prop, args, nil)
	if f.Replay != "" {
		return replay(f)
	}
	harness.SilenceStdout()
	defer harness.RemoveScratch()
	rep := explore.NewReporter(prop, "model_checking", f, harness.Out())
	evs := Events(f.Tier)
	depth, budget := 6, 210*time.Second
	if f.Tier == "thorough" {
		depth, budget = 8, 27*time.Minute
	}
	if f.Budget > 0 {
		budget = f.Budget
	}
	if d := os.Getenv("VERIF_DEPTH"); d != "" {
		fmt.Sscan(d, &depth)
	}
	cfg := explore.BFSConfig{
		Command: prop, Workers: f.Workers, MaxDepth: depth, Tier: f.Tier,
		NumEvents: func(int) int { return len(evs) },
		Deadline:  time.Now().Add(budget),
		PerJob:    2 * time.Minute,
		EventName: func(i int) string { return evs[i].Name },
	}
	st := explore.RunBFS(cfg, rep)
	st.Fill(rep)
	// scripted histories (an option changes in the middle of the proposal's life): same executor, same model
	scripted := append(ScriptedHistories(), TwinHistories()...)
	idMode := os.Getenv("VERIF_C14_ID")
	if idMode != "" {
		scripted = nil // the pass with a hostile proposal id runs the search only
	}
	var sjobs []interface{}
	for _, h := range scripted {
		sjobs = append(sjobs, explore.BFSJob{Hist: h, Tier: f.Tier})
	}
	scriptedRun, scriptedNontrivial := 0, int64(0)
	scriptedInfo := map[string]int64{}
	explore.RunJobs(prop, f.Workers, sjobs, 2*time.Minute, time.Time{}, nil, func(jr explore.JobResult) {
		h := scripted[jr.Index]
		var names []string
		for _, e := range h {
			ev, _ := eventByIndex(nil, e)
			names = append(names, ev.Name)
		}
		if jr.Died || jr.Timeout {
			st.HarnessErrors++
			st.ErrSamples = append(st.ErrSamples, fmt.Sprintf("scripted %v: worker died", names))
			return
		}
		var out explore.BFSOut
		if err := json.Unmarshal(jr.Out, &out); err != nil || out.Err != "" {
			st.HarnessErrors++
			st.ErrSamples = append(st.ErrSamples, fmt.Sprintf("scripted %v: %s %v", names, out.Err, err))
			return
		}
		scriptedRun++
		scriptedNontrivial += out.Info["nontrivial_executions"]
		for k, v := range out.Info {
			if strings.HasPrefix(k, "blocks_not_judged") || strings.HasPrefix(k, "fired:") || strings.HasPrefix(k, "finalized_from") || strings.HasPrefix(k, "accepted:pct") {
				scriptedInfo[k] += v
			}
		}
		for _, v := range out.Viol {
			rep.Violation(v.Sig+"|scripted", v.What+" (scripted history "+strings.Join(names, " ; ")+")", map[string]interface{}{"h": h, "history": names})
		}
	})
	rep.Set("scripted_histories", map[string]interface{}{"what": "a second proposal lowers the pass percentage of configuration-update proposals from 67 to 51 while the proposal under test (created under 67, 66.7 % YES) is being voted on; then expiry / finalisation / further votes at every later point", "run": scriptedRun, "of": len(scripted), "nontrivial": scriptedNontrivial, "counters": scriptedInfo})
	rep.Set("distinct_nontrivial", st.Info["nontrivial_executions"])
	rep.Set("rule", "state = (height, proposal/vote/fund records, governance option records, OLT balances net of fees, validator and stake records) at a block boundary; transition = one whole block (0..2 transactions of the alphabet) executed on the real application by replaying the history from genesis on a fresh replica, the reference model of the statement compared with the committed state after EVERY block of the history and of "+fmt.Sprint(extensionBlocks)+" quiet blocks appended to it; non-trivial = an execution in which at least one antecedent of a model clause fired (a stage transition, a recorded vote, a refund, a distribution, a deadline refusal, a configuration change); every execution is a distinct history")
	rep.Set("bounds", map[string]interface{}{
		"alphabet": eventNames(evs), "events": len(evs), "max_depth": depth, "warmup_blocks": warmup, "quiet_extension_blocks": extensionBlocks,
		"proposals": 1, "users": 3, "validators": "3 staked at genesis (powers 3M/2M/1M) + 1 candidate", "funding_deadline_blocks": fundingBlocks, "voting_deadline_blocks": votingBlocks,
		"budget_s": budget.Seconds(),
	})
	rep.Assume("states reached through a violation of the statement are not expanded (what follows is undefined by the statement); they are counted and carry their own state keys")
	rep.Assume("fee-paying transactions change balances by the fee; states are merged on balances net of fees paid (sound because no amount of the alphabet comes near a balance)")
	rep.Assume("transactions reach DeliverTx whether or not CheckTx accepted them (a proposer may include anything); the DeliverTx result is what the model sees")
	// second pass: the same search (quick depth) with a proposal id that contains the separator of the stores'
	// keys - an id the creator is free to choose. (Added after a sub-agent's remark about the unchanged tree:
	// contributions to such a proposal could never be refunded; since the repair such ids are refused at creation,
	// so nothing of this pass is ever accepted - which is why its vacuity guard is off.)
	if idMode == "" {
		tmp := filepath.Join(filepath.Dir(f.Evidence), fmt.Sprintf(".c14-idpass-%d.json", os.Getpid()))
		cmd := exec.Command(os.Args[0], prop, "-tier", "quick", "-evidence", tmp, "-workers", fmt.Sprint(f.Workers))
		cmd.Env = append(os.Environ(), "VERIF_C14_ID=underscore", "VERIF_DEPTH=5")
		outB, _ := cmd.CombinedOutput()
		var ce struct {
			Coverage map[string]interface{} `json:"coverage"`
		}
		if b, err := os.ReadFile(tmp); err == nil {
			json.Unmarshal(b, &ce)
		}
		os.Remove(tmp)
		lines := strings.Split(string(outB), "\n")
		nv := 0
		for i, l := range lines {
			if strings.HasPrefix(l, "VIOLATION property="+prop) && i+2 < len(lines) {
				sig := strings.TrimPrefix(strings.TrimSpace(lines[i+1]), "signature: ")
				what := strings.TrimPrefix(strings.TrimSpace(lines[i+2]), "what: ")
				var cs map[string]interface{}
				if j := strings.Index(l, "replay="); j >= 0 {
					var doc struct {
						Case map[string]interface{} `json:"case"`
					}
					if b, err := os.ReadFile(strings.TrimSpace(l[j+7:])); err == nil && json.Unmarshal(b, &doc) == nil {
						cs = doc.Case
					}
					os.Remove(strings.TrimSpace(l[j+7:]))
				}
				if cs == nil {
					cs = map[string]interface{}{}
				}
				cs["id_mode"] = "underscore"
				rep.Violation(sig+"|id=with-key-separator", what+" (proposal id containing the key separator; replay with VERIF_C14_ID=underscore)", cs)
				nv++
			}
		}
		if ce.Coverage == nil {
			st.HarnessErrors++
			st.ErrSamples = append(st.ErrSamples, "pass with the hostile proposal id produced no evidence: "+tail(string(outB), 300))
		}
		rep.Set("pass_with_key_separator_in_the_proposal_id", map[string]interface{}{"states": ce.Coverage["states"], "transitions": ce.Coverage["transitions"], "violations": nv, "max_depth": 5})
	}
	// vacuity: every well-formed, authorised operation must have been accepted somewhere
	never := []string{}
	hostile := map[string]int64{}
	for _, e := range evs {
		for _, o := range e.Ops {
			if o.Legit && o.MinDepth <= st.DepthCompleted && st.Info["accepted:"+o.Name] == 0 {
				never = append(never, o.Name)
			}
			if !o.Legit {
				hostile[o.Name] = st.Info["accepted:"+o.Name]
			}
		}
	}
	rep.Set("legit_operations_never_accepted", never)
	// operations built to be unauthorised or underpaid: the statement wants them refused, so "never accepted"
	// is the expected outcome for them (an acceptance shows up as a violation of the clause concerned)
	rep.Set("hostile_operations_accepted_count", hostile)
	code := rep.Finish()
	if idMode != "" {
		never = nil
	}
	if len(never) > 0 {
		fmt.Fprintf(harness.Out(), "%s: operations never accepted although well-formed and within depth: %v — the factory builds them wrongly or the bound is vacuous; refusing to report success\n", prop, never)
		return 2
	}
	if st.HarnessErrors > 0 {
		fmt.Fprintf(harness.Out(), "%s: %d harness errors: %v\n", prop, st.HarnessErrors, st.ErrSamples)
		return 2
	}
	return code
}

// replay re-executes one recorded history (event-index list under case.h) and prints every block's
// oracle verdict; exit 1 if it violates the statement.
func replay(f explore.Flags) int {
	var doc struct {
		Case struct {
			H      []int    `json:"h"`
			Hist   []string `json:"history"`
			IDMode string   `json:"id_mode"`
		} `json:"case"`
		H []int `json:"h"`
	}
	b, err := os.ReadFile(f.Replay)
	if err != nil {
		fmt.Println(err)
		return 2
	}
	if err := json.Unmarshal(b, &doc); err != nil {
		fmt.Println(err)
		return 2
	}
	h := doc.Case.H
	if h == nil {
		h = doc.H
	}
	if doc.Case.IDMode != "" && os.Getenv("VERIF_C14_ID") == "" {
		// a case of the pass with the hostile proposal id: the id is fixed at process start
		cmd := exec.Command(os.Args[0], prop, "-tier", f.Tier, "-replay", f.Replay)
		cmd.Env = append(os.Environ(), "VERIF_C14_ID="+doc.Case.IDMode)
		cmd.Stdout, cmd.Stderr = os.Stdout, os.Stderr
		if err := cmd.Run(); err != nil {
			if ee, ok := err.(*exec.ExitError); ok {
				return ee.ExitCode()
			}
			return 2
		}
		return 0
	}
	harness.SilenceStdout()
	defer harness.RemoveScratch()
	tier := f.Tier
	// a replay recorded by the thorough tier may use events the quick alphabet lacks
	for _, e := range h {
		if e >= len(Events("quick")) {
			tier = "thorough"
		}
	}
	out, lines := execute(h, tier, true)
	for _, l := range lines {
		harness.Outf("%s\n", l)
	}
	if out.Err != "" {
		harness.Outf("harness error: %s\n", out.Err)
		return 2
	}
	if len(out.Viol) > 0 {
		for _, v := range out.Viol {
			harness.Outf("VIOLATION %s\n  %s\n", v.Sig, v.What)
		}
		return 1
	}
	harness.Outf("no violation; state key %s\n", out.Key)
	return 0
}

func tail(s string, n int) string {
	if len(s) > n {
		return s[len(s)-n:]
	}
	return s
}
