package c15

import (
	"encoding/hex"
	"fmt"
	"io"
	"math/big"
	"sort"

	ethcmn "github.com/ethereum/go-ethereum/common"

	"verif/explore"
	"verif/harness"
	"verif/txs/xch"
)

// quietBlocks are appended to every path (not part of the state key): block-end transitions and
// clean-up of whatever the last event started, checked by the same oracle.
const quietBlocks = 2

type runner struct {
	cfg  config
	w    *harness.World
	x    *harness.Run
	ext  map[string]ext
	wits []*harness.ValSpec
	m    *model
	seq  int
	log  io.Writer
}

func addrText(a []byte) string { return "0lt" + hex.EncodeToString(a) }

func newRunner(cfg config, log io.Writer) (*runner, error) {
	w := world(cfg)
	x, err := harness.StartRun(w)
	if err != nil {
		return nil, err
	}
	r := &runner{cfg: cfg, w: w, x: x, ext: externals(w), wits: xch.Witnesses(w), log: log}
	m := &model{n: cfg.N, roles: map[string]string{}, tr: map[string]*mTracker{}, byName: map[string]string{},
		bal: newWrappedLedger(), info: map[string]int64{}, tags: map[string]bool{}, violSeen: map[string]bool{}, dupSeen: map[string]bool{}}
	m.supply = addrText(xch.SupplyAddr)
	m.roles[m.supply] = "supply"
	m.roles[addrText(w.Users[0].Addr)] = "U1"
	m.roles[addrText(w.Users[1].Addr)] = "U2"
	m.roles[addrText(w.Users[2].Addr)] = "third"
	for i, v := range r.wits {
		m.roles[addrText(v.Val.Addr)] = fmt.Sprintf("w%d", i)
	}
	m.roles[addrText(w.Vals[cfg.N].Val.Addr)] = "nv"
	// the reference ledger starts from the genesis state
	s, err := decode(x.R.Dump())
	if err != nil {
		x.Close()
		return nil, err
	}
	for cur, mm := range s.bal {
		for a, v := range mm {
			m.bal[cur][a] = new(big.Int).Set(v)
		}
	}
	r.m = m
	if len(r.wits) != cfg.N {
		x.Close()
		return nil, fmt.Errorf("world has %d witnesses, want %d", len(r.wits), cfg.N)
	}
	return r, nil
}

// account returns the account that signs op o.
func (r *runner) account(o op) *harness.Account {
	if o.Kind != "report" {
		return r.w.Users[o.User]
	}
	switch o.Rep {
	case "nv":
		return r.w.Vals[r.cfg.N].Val
	case "out":
		return r.w.Users[2]
	}
	var i int
	fmt.Sscanf(o.Rep, "w%d", &i)
	return r.wits[i].Val
}

func (r *runner) build(o op, earlier []op) (*harness.TxSpec, string) {
	r.seq++
	memo := fmt.Sprintf("m%d", r.seq)
	x := r.ext[o.Ext]
	u := r.account(o)
	switch o.Kind {
	case "lock":
		return xch.EthLock(u, x.Raw, memo), ""
	case "erc20lock":
		return xch.ERC20Lock(u, x.Raw, memo), ""
	case "redeem":
		return xch.EthRedeem(u, ethcmn.BytesToAddress(r.w.EthUsers[0].Addr.Bytes()), x.Raw, memo), ""
	case "erc20redeem":
		return xch.ERC20Redeem(u, ethcmn.BytesToAddress(r.w.EthUsers[0].Addr.Bytes()), x.Raw, memo), ""
	}
	// report
	idx := int64(0)
	for i, v := range r.wits {
		if v.Val == u {
			idx = int64(i)
		}
	}
	if o.Wrong {
		idx = (idx + 1) % int64(r.cfg.N)
		if r.cfg.N == 1 {
			idx = 1
		}
	}
	// honest locker: the account that submitted the lock (as the model knows it); U1 if there is none yet
	locker := r.w.Users[0].Addr
	if t := r.m.tr[o.Ext]; t != nil {
		for _, usr := range r.w.Users {
			if addrText(usr.Addr) == t.Submitter {
				locker = usr.Addr
			}
		}
	}
	if t := r.m.tr[o.Ext]; t == nil || t.Status == "failed" {
		// a lock submitted earlier in this very block (it will be the tracker the report meets)
		for _, e := range earlier {
			if (e.Kind == "lock" || e.Kind == "erc20lock") && e.Ext == o.Ext {
				locker = r.w.Users[e.User].Addr
				break
			}
		}
	}
	switch o.Locker {
	case "self":
		locker = u.Addr
	case "third":
		locker = r.w.Users[2].Addr
	}
	return xch.ReportFinality(u, xch.TrackerName(x.Raw), locker, idx, o.Yes, memo), addrText(locker)
}

// block executes one event and runs the oracle on it.
func (r *runner) block(ev event) error {
	r.m.beginBlock()
	var txs []*harness.TxSpec
	lockers := make([]string, len(ev.Ops))
	for i, o := range ev.Ops {
		t, l := r.build(o, ev.Ops[:i])
		txs = append(txs, t)
		lockers[i] = l
	}
	res, err := r.x.BlockAt(harness.BlockSpec{Txs: txs}, false, nil)
	if err != nil {
		return fmt.Errorf("chain halted: %v", err)
	}
	if res == nil || r.x.R.Dead {
		return fmt.Errorf("application died")
	}
	for i, o := range ev.Ops {
		x := r.ext[o.Ext]
		name := hex.EncodeToString(xch.TrackerName(x.Raw).Bytes())
		r.m.applyTx(o, x, name, addrText(r.account(o).Addr), lockers[i], res.Txs[i].Code)
		if r.log != nil {
			fmt.Fprintf(r.log, "  h=%d %-60s check=%d deliver=%d %s\n", res.Height, o.name(), r.x.Checks[len(r.x.Checks)-1][i].Code, res.Txs[i].Code, res.Txs[i].Log)
		}
	}
	before := len(r.m.viol)
	if err := r.m.endBlock(r.x.R.Dump()); err != nil {
		return err
	}
	if r.log != nil {
		fmt.Fprintf(r.log, "  h=%d model: %s\n", res.Height, r.m.describe())
		for _, v := range r.m.viol[before:] {
			fmt.Fprintf(r.log, "  h=%d VIOLATED %s -- %s\n", res.Height, v.Sig, v.What)
		}
		if len(r.m.viol) == before {
			fmt.Fprintf(r.log, "  h=%d oracle: ok\n", res.Height)
		}
	}
	return nil
}

func (m *model) describe() string {
	s := ""
	for _, id := range []string{"X", "Y", "Z", "ZB", "Z36", "ZS", "EX", "EZ", "EZT"} {
		if t := m.tr[id]; t != nil {
			s += fmt.Sprintf("%s{%s %s by %s sent-yes=%v sent-no=%v recorded=%v minted=%d refunded=%d} ", id, t.Kind, t.Status, m.role(t.Submitter), t.EverYes, t.EverNo, t.Seen, t.Minted, t.Refunded)
		}
	}
	if s == "" {
		return "no tracker"
	}
	return s
}

// execHist runs one history. h[0] selects the configuration, h[i>0] = len(configs)+event index.
func execHist(h []int, tier string, log io.Writer) explore.BFSOut {
	cs := configs()
	if len(h) == 0 || h[0] < 0 || h[0] >= len(cs) {
		return explore.BFSOut{NoExpand: true}
	}
	cfg := cs[h[0]]
	if (tier == "quick" && !cfg.Quick) || !selected(cfg.Name) {
		return explore.BFSOut{NoExpand: true, Info: map[string]int64{"padding_jobs": 1}}
	}
	for _, e := range h[1:] {
		if e < len(cs) || e-len(cs) >= len(cfg.Events) {
			// this index means nothing at this position / in this configuration: not an execution
			return explore.BFSOut{NoExpand: true, Info: map[string]int64{"padding_jobs": 1}}
		}
	}
	r, err := newRunner(cfg, log)
	if err != nil {
		return explore.BFSOut{Err: err.Error()}
	}
	defer r.x.Close()
	for _, e := range h[1:] {
		if err := r.block(cfg.Events[e-len(cs)]); err != nil {
			return explore.BFSOut{Err: err.Error()}
		}
	}
	key := cfg.Name + "|" + projectedDigest(r.x.R.Dump()) + "|" + r.m.digest()
	for i := 0; i < quietBlocks; i++ {
		if err := r.block(event{}); err != nil {
			return explore.BFSOut{Err: err.Error()}
		}
	}
	r.m.endOfPath()
	out := explore.BFSOut{Key: key, Viol: r.m.viol, Info: r.m.info}
	out.Info["executions"] = 1
	out.Info["executions."+cfg.Name] = 1
	if r.m.nontriv {
		out.Info["nontrivial_executions"] = 1
	}
	// per-event acceptance (vacuity: an event that is never accepted anywhere is a factory error)
	if len(h) > 1 {
		last := h[len(h)-1] - len(cs)
		res := r.x.Results[len(h)-2]
		ok := len(res.Txs) > 0
		for _, t := range res.Txs {
			if t.Code != 0 {
				ok = false
			}
		}
		if ok {
			out.Info[fmt.Sprintf("event_accepted.%s.%02d", cfg.Name, last)] = 1
		}
	}
	for t := range r.m.tags {
		out.Tags = append(out.Tags, cfg.Mode+":"+t)
	}
	sort.Strings(out.Tags)
	return out
}
