package c15

import (
	"crypto/sha256"
	"encoding/hex"
	"encoding/json"
	"fmt"
	"math/big"
	"sort"
	"strings"

	"verif/explore"
	"verif/harness"
)

// The reference model encodes the STATEMENT of C15, not the implementation:
//
//  (mint)    wrapped tokens for a lock are minted at most once, only after MORE THAN two thirds of the
//            recorded witnesses reported success, in exactly the locked amount, to the account that
//            submitted the lock;
//  (redeem)  a redeem's tokens are debited (owner and supply counter) in the block that creates the
//            tracker, and are refunded exactly once, only if more than two thirds reported failure;
//  (unique)  one external transaction never backs two trackers;
//  (votes)   votes of non-witnesses and repeated votes do not count;
//  (supply)  balance(supply address) == sum of all other balances of the wrapped currency, always.
//
// What the statement leaves open is tolerated: whether a lock/redeem/report is accepted at all
// (no liveness except the refund), whether a witness's report with a foreign vote index is counted
// (the model keeps TWO vote vectors: `Max` counts it, `Strict` does not; necessary conditions are
// judged on Max, the one sufficient condition - the refund - on Strict), resubmitting a lock whose
// tracker FAILED (the implementation deletes the failed record and starts a new tracker: still one
// record per external transaction and nothing was minted for the failed one), what happens to a
// released redeem or a failed lock (no ledger effect).

type mTracker struct {
	Ext       string
	Kind      string // lock | redeem | erc20lock | erc20redeem
	Cur       string
	Amount    *big.Int `json:"-"`
	Submitter string   // text address
	Wit       []string // recorded witnesses, tracker order
	Seen      []int    // implementation's FinalityVotes as last observed (validated slot by slot, see endBlock)
	EverYes   []int    // per witness: 1 if it sent an accepted success report while its slot was still empty
	EverNo    []int    // same for failure reports (whatever vote index the report carried)
	Strict    []int    // per witness: verdict of its first accepted report that carried ITS OWN index
	start     []int    // Seen at the beginning of the current block
	Status    string   // ongoing | success | failed
	Gen       int      // number of trackers this external transaction has backed so far (sequentially)
	Minted    int
	Refunded  int
	Name      string `json:"-"` // hex of the 32-byte tracker name
}

func (t *mTracker) isLock() bool { return t.Kind == "lock" || t.Kind == "erc20lock" }

// yesUpper / noUpper: upper bounds of "witnesses that reported success / failure": the recorded votes
// (each validated to be the genuine vote of its witness) plus witnesses whose slot is still empty but
// who did send such a report (e.g. with a foreign index, which the implementation ignores).
func (t *mTracker) yesUpper() int { return t.upper(1, t.EverYes) }
func (t *mTracker) noUpper() int  { return t.upper(2, t.EverNo) }
func (t *mTracker) upper(v int, ever []int) int {
	n := 0
	for i := range t.Seen {
		if t.Seen[i] == v || (t.Seen[i] == 0 && ever[i] == 1) {
			n++
		}
	}
	return n
}

func count(v []int, x int) int {
	n := 0
	for _, e := range v {
		if e == x {
			n++
		}
	}
	return n
}

// moreThanTwoThirds: k of n is MORE than two thirds.
func moreThanTwoThirds(k, n int) bool { return 3*k > 2*n }

type reportSeen struct {
	op       op
	role     string // witness | nonwitness-validator | outsider
	signer   string
	locker   string // text address in the report's Locker field
	accepted bool
	gen      int // generation of the tracker the report was aimed at (0: none existed)
	slot     int // index of the reporter in the tracker's witness list (-1), filled in by endBlock
}

type model struct {
	n        int
	roles    map[string]string // text address -> role name (U1, U2, third, w0.., nv, supply)
	users    []string
	supply   string
	tr       map[string]*mTracker           // by ext id
	byName   map[string]string              // hex tracker name -> ext id
	bal      map[string]map[string]*big.Int // currency -> address -> expected balance
	info     map[string]int64
	tags     map[string]bool
	viol     []explore.BFSViol
	violSeen map[string]bool
	dupSeen  map[string]bool
	nontriv  bool
	// per block
	reports map[string][]reportSeen
	lastOp  string
}

func (m *model) count(k string) { m.info[k]++ }

func (m *model) violate(sig, what string) {
	if m.violSeen[sig] {
		return
	}
	m.violSeen[sig] = true
	m.viol = append(m.viol, explore.BFSViol{Sig: sig, What: what})
}

// ---- decoding the committed state ---------------------------------------------------------------

type dTracker struct {
	Type          int
	State         int
	Witnesses     []string
	ProcessOwner  string
	FinalityVotes []byte
}

type snapshot struct {
	trackers map[string]map[string]*dTracker // hex name -> store -> record
	bal      map[string]map[string]*big.Int  // currency -> address -> balance
}

var stores = []string{"etht_", "ethsuccess_", "ethfailed_"}

func decode(dump []harness.KV) (*snapshot, error) {
	s := &snapshot{trackers: map[string]map[string]*dTracker{}, bal: newWrappedLedger()}
	for _, kv := range dump {
		k := string(kv.K)
		for _, p := range stores {
			if strings.HasPrefix(k, p) {
				name := hex.EncodeToString(kv.K[len(p):])
				d := &dTracker{}
				if err := json.Unmarshal(kv.V, d); err != nil {
					return nil, fmt.Errorf("tracker %s%s: %v", p, name, err)
				}
				if s.trackers[name] == nil {
					s.trackers[name] = map[string]*dTracker{}
				}
				s.trackers[name][p] = d
			}
		}
		if strings.HasPrefix(k, "b_") {
			i := strings.LastIndexByte(k, '_')
			cur := k[i+1:]
			if _, ok := s.bal[cur]; !ok {
				continue
			}
			var str string
			if err := json.Unmarshal(kv.V, &str); err != nil {
				return nil, fmt.Errorf("balance %s: %v", k, err)
			}
			n, ok := new(big.Int).SetString(str, 10)
			if !ok {
				return nil, fmt.Errorf("balance %s: %q", k, str)
			}
			s.bal[cur][k[2:i]] = n
		}
	}
	return s, nil
}

// projection of the committed state onto what C15 can observe or be influenced by: the three tracker
// stores, the wrapped-currency balances (ETH, TTC) and the witness set. Everything else is dropped:
// the lock/redeem/report handlers and the block-end driver read nothing but these families and the
// (constant) governance options; the OLT balances only pay fees (10^9 OLT per account against
// ~3*10^-4 OLT per transaction: they cannot run out within any bound used here); rewards, vote blocks
// and fee shares never feed back into the tracker subsystem.
func projectedDigest(dump []harness.KV) string {
	h := sha256.New()
	for _, kv := range dump {
		k := string(kv.K)
		keep := strings.HasPrefix(k, "etht_") || strings.HasPrefix(k, "ethsuccess_") || strings.HasPrefix(k, "ethfailed_") || strings.HasPrefix(k, "w_")
		if strings.HasPrefix(k, "b_") && (strings.HasSuffix(k, "_ETH") || strings.HasSuffix(k, "_TTC")) {
			keep = true
		}
		if keep {
			fmt.Fprintf(h, "%d:%s=%d:%s;", len(kv.K), kv.K, len(kv.V), kv.V)
		}
	}
	return hex.EncodeToString(h.Sum(nil)[:12])
}

// digest of the model state: part of the state key, so that two histories are merged only if the
// oracle's future verdicts coincide as well.
func (m *model) digest() string {
	var ids []string
	for id := range m.tr {
		ids = append(ids, id)
	}
	sort.Strings(ids)
	h := sha256.New()
	for _, id := range ids {
		b, _ := json.Marshal(m.tr[id])
		h.Write(b)
	}
	return hex.EncodeToString(h.Sum(nil)[:8])
}

func (m *model) role(addr string) string {
	if r, ok := m.roles[addr]; ok {
		return r
	}
	return "other"
}

// roleClass removes indexes from a role (signatures carry classes, not identities).
func roleClass(r string) string {
	switch {
	case strings.HasPrefix(r, "w"):
		return "witness"
	case r == "U1" || r == "U2":
		return "user"
	}
	return r
}

// ---- driving the model --------------------------------------------------------------------------

func (m *model) beginBlock() {
	m.reports = map[string][]reportSeen{}
	m.lastOp = "none"
	for _, t := range m.tr {
		t.start = append([]int(nil), t.Seen...)
	}
}

// applyTx feeds one delivered transaction (and its result code) to the model.
func (m *model) applyTx(o op, x ext, name string, signer, locker string, code uint32) {
	acc := code == 0
	if o.Kind != "report" || m.lastOp == "none" {
		m.lastOp = o.Kind // the block's submission if it has one, else its (first) report
	}
	if acc {
		m.count("accepted." + o.Kind)
	} else {
		m.count("rejected." + o.Kind)
	}
	switch o.Kind {
	case "lock", "erc20lock", "redeem", "erc20redeem":
		t := m.tr[o.Ext]
		if t != nil {
			m.count("resubmission." + t.Status)
			m.nontriv = true
		}
		if !acc {
			return
		}
		isLock := o.Kind == "lock" || o.Kind == "erc20lock"
		if t != nil {
			who := "same-user"
			if t.Submitter != signer {
				who = "other-user"
			}
			if !(isLock && t.Status == "failed") {
				m.violate(fmt.Sprintf("C15|second-tracker-for-one-external-tx|op=%s|existing=%s|by=%s", o.Kind, t.Status, who),
					fmt.Sprintf("%s accepted although external transaction %s already backs a tracker (%s)", o.Kind, o.Ext, t.Status))
			} else {
				m.count("relock_after_failed")
			}
		}
		nt := &mTracker{Ext: o.Ext, Kind: o.Kind, Cur: x.Cur, Amount: x.Amount, Submitter: signer, Status: "ongoing", Name: name, Gen: 1}
		if t != nil {
			nt.Gen, nt.Minted, nt.Refunded = t.Gen+1, t.Minted, t.Refunded
			if t.Wit != nil && !(isLock && t.Status == "failed") {
				// (already reported above) the implementation accepted a second tracker: keep judging the new
				// one against the same recorded witnesses (the witness set never changes in these worlds)
				// instead of cascading into follow-up reports when it completes before it is first seen
				k := len(t.Wit)
				nt.Wit = t.Wit
				nt.Seen, nt.EverYes, nt.EverNo, nt.Strict, nt.start = make([]int, k), make([]int, k), make([]int, k), make([]int, k), make([]int, k)
			}
		}
		m.tr[o.Ext] = nt
		m.byName[name] = o.Ext
		if !isLock {
			// debited before the tracker exists: owner and supply counter
			have := m.bal[x.Cur][signer]
			if have == nil || have.Cmp(x.Amount) < 0 {
				m.violate(fmt.Sprintf("C15|redeem-tracker-without-funds|op=%s", o.Kind),
					fmt.Sprintf("%s of %s accepted although the owner holds only %v", o.Kind, x.Amount, have))
			}
			m.addBal(x.Cur, signer, new(big.Int).Neg(x.Amount))
			m.addBal(x.Cur, m.supply, new(big.Int).Neg(x.Amount))
			m.count("redeem_debited")
			m.nontriv = true
		}
	case "report":
		rs := reportSeen{op: o, accepted: acc, slot: -1, signer: signer, locker: locker}
		if t := m.tr[o.Ext]; t != nil && t.Status == "ongoing" {
			rs.gen = t.Gen
		}
		switch {
		case strings.HasPrefix(o.Rep, "w"):
			rs.role = "witness"
		case o.Rep == "nv":
			rs.role = "nonwitness-validator"
		default:
			rs.role = "outsider"
		}
		if rs.role != "witness" {
			m.count("nonwitness_report")
			if acc {
				m.count("nonwitness_report_accepted")
			}
			m.nontriv = true
		}
		if o.Wrong {
			m.count("wrong_index_report")
		}
		m.reports[o.Ext] = append(m.reports[o.Ext], rs)
	}
}

// castVotes books the accepted reports of this block on tracker t (called once the recorded witnesses
// are known, i.e. also for a tracker created in this very block).
func (m *model) castVotes(id string, t *mTracker) {
	for i := range m.reports[id] {
		r := &m.reports[id][i]
		if r.gen != t.Gen {
			continue // aimed at an earlier (failed) tracker of the same external transaction, or at none
		}
		for j, wa := range t.Wit {
			if wa == r.signer {
				r.slot = j
			}
		}
		if r.slot < 0 {
			continue // not a recorded witness: must not count
		}
		if t.start[r.slot] != 0 || t.EverYes[r.slot]+t.EverNo[r.slot] > 0 {
			m.count("repeated_report")
			m.nontriv = true
		}
		if !r.accepted || t.start[r.slot] != 0 {
			continue
		}
		if r.op.Yes {
			t.EverYes[r.slot] = 1
		} else {
			t.EverNo[r.slot] = 1
		}
		if !r.op.Wrong && t.Strict[r.slot] == 0 {
			t.Strict[r.slot] = 2
			if r.op.Yes {
				t.Strict[r.slot] = 1
			}
		}
	}
}

func (m *model) addBal(cur, addr string, d *big.Int) {
	if m.bal[cur][addr] == nil {
		m.bal[cur][addr] = new(big.Int)
	}
	m.bal[cur][addr] = new(big.Int).Add(m.bal[cur][addr], d)
}

// completing returns the report that completed tracker id in this block: the accepted report of a
// recorded witness at which the simulated count (votes recorded before the block + first own-index
// reports of this block, in order) reaches the implementation's threshold; else the last accepted one.
func (m *model) completing(id string, final string) *reportSeen {
	rs := m.reports[id]
	t := m.tr[id]
	if t != nil && t.start != nil {
		sim := append([]int(nil), t.start...)
		want := 1
		if final == "failed" {
			want = 2
		}
		for i := range rs {
			r := &rs[i]
			if !r.accepted || r.slot < 0 || r.slot >= len(sim) || r.op.Wrong || sim[r.slot] != 0 || r.gen != t.Gen {
				continue
			}
			sim[r.slot] = 2
			if r.op.Yes {
				sim[r.slot] = 1
			}
			if moreThanTwoThirds(count(sim, want), len(sim)) {
				return r
			}
		}
	}
	for i := len(rs) - 1; i >= 0; i-- {
		if rs[i].accepted {
			return &rs[i]
		}
	}
	return nil
}

// repFacts describes the completing report; the locker field is classified by what it actually names,
// relative to the tracker's submitter.
func (m *model) repFacts(t *mTracker, r *reportSeen) string {
	if r == nil {
		return "completing-report=none"
	}
	idx := "right"
	if r.op.Wrong {
		idx = "wrong"
	}
	return fmt.Sprintf("reporter=%s|index=%s|locker-field=%s", r.role, idx, m.lockerClass(t, r))
}

func (m *model) lockerClass(t *mTracker, r *reportSeen) string {
	switch {
	case r.locker == t.Submitter:
		return "submitter"
	case r.locker == r.signer:
		return "reporter"
	case m.role(r.locker) == "third":
		return "third-party"
	case m.role(r.locker) == "U1" || m.role(r.locker) == "U2":
		return "other-user"
	}
	return "other"
}

// endBlock compares the model with the committed state after a block.
func (m *model) endBlock(dump []harness.KV) error {
	s, err := decode(dump)
	if err != nil {
		return err
	}
	// (unique) one record per external transaction across the three stores; no unknown tracker
	for name, recs := range s.trackers {
		if len(recs) > 1 && !m.dupSeen[name] {
			m.dupSeen[name] = true // reported in the block in which the second record appears
			m.violate(fmt.Sprintf("C15|two-tracker-records|op=%s|stores=%d", m.lastOp, len(recs)), "one tracker name is present in more than one store")
		}
		if _, ok := m.byName[name]; !ok {
			m.violate(fmt.Sprintf("C15|unexpected-tracker|op=%s", m.lastOp), "a tracker exists that no accepted lock/redeem of the history created")
		}
	}
	var ids []string
	for id := range m.tr {
		ids = append(ids, id)
	}
	sort.Strings(ids)
	for _, id := range ids {
		t := m.tr[id]
		recs := s.trackers[t.Name]
		var store string
		var d *dTracker
		for _, p := range stores {
			if recs[p] != nil && d == nil {
				store, d = p, recs[p]
			}
		}
		if d == nil {
			m.violate(fmt.Sprintf("C15|tracker-vanished|op=%s|kind=%s|status=%s", m.lastOp, t.Kind, t.Status), "the tracker of an accepted "+t.Kind+" is in none of the three stores")
			continue
		}
		if store == "etht_" && t.Wit == nil {
			// first sight of this tracker generation: the recorded witnesses
			t.Wit = append([]string(nil), d.Witnesses...)
			k := len(t.Wit)
			t.Seen, t.EverYes, t.EverNo, t.Strict, t.start = make([]int, k), make([]int, k), make([]int, k), make([]int, k), make([]int, k)
			if k != m.n {
				m.violate(fmt.Sprintf("C15|recorded-witnesses|op=%s|got=%d", t.Kind, k), "the tracker does not record the current witness set")
			}
		}
		n := len(t.Wit)
		if t.Wit != nil && t.Status == "ongoing" {
			m.castVotes(id, t)
		}
		if store == "etht_" {
			// (votes) a slot may only carry a verdict its OWN witness sent in an accepted report while the
			// slot was empty, and never changes afterwards
			for i := 0; i < n && i < len(d.FinalityVotes); i++ {
				got := int(d.FinalityVotes[i])
				if t.Seen[i] != 0 && got != t.Seen[i] {
					m.violate(fmt.Sprintf("C15|recorded-vote-changed|op=report|kind=%s", t.Kind), "a recorded vote changed after it was cast (repeated votes must not count)")
				}
				if t.Seen[i] == 0 && got != 0 {
					legit := (got == 1 && t.EverYes[i] == 1) || (got == 2 && t.EverNo[i] == 1)
					if !legit {
						who := "nobody"
						for _, r := range m.reports[id] {
							if r.accepted && r.slot != i {
								who = r.role
								if r.op.Wrong {
									who += "-with-foreign-index"
								}
							}
						}
						m.violate(fmt.Sprintf("C15|vote-counted-that-its-witness-did-not-cast|op=report|kind=%s|cast-by=%s", t.Kind, who),
							fmt.Sprintf("slot %d of the tracker carries vote %d but its witness sent no such report", i, got))
					}
					m.count("vote_recorded")
				}
				t.Seen[i] = got
			}
		}
		// completion: the record left the ongoing store (or carries a final state)
		final := ""
		switch {
		case store == "ethsuccess_" || (store == "etht_" && d.State == 5):
			final = "success"
		case store == "ethfailed_" || (store == "etht_" && d.State == 6):
			final = "failed"
		}
		if t.Status == "ongoing" && final != "" {
			t.Status = final
			m.nontriv = true
			cr := m.completing(id, final)
			yes, no := t.yesUpper(), t.noUpper()
			m.count("completed." + t.Kind + "." + final)
			if cr != nil && cr.locker != t.Submitter && final == "success" && t.isLock() {
				m.count("lock_completed_by_report_naming_another_beneficiary")
			}
			switch {
			case t.isLock() && final == "success":
				// (mint) threshold, once, exact amount, to the submitter
				if !moreThanTwoThirds(yes, n) {
					m.violate(fmt.Sprintf("C15|mint-below-threshold|op=report|kind=%s|witnesses=%s|%s", t.Kind, nClass(n), m.repFacts(t, cr)),
						fmt.Sprintf("lock completed with %d success reports of %d recorded witnesses", yes, n))
				}
				t.Minted++
				if t.Minted > 1 {
					m.violate(fmt.Sprintf("C15|minted-twice|op=report|kind=%s", t.Kind), "wrapped tokens minted a second time for one external transaction")
				}
				m.addBal(t.Cur, t.Submitter, t.Amount)
				m.addBal(t.Cur, m.supply, t.Amount)
				m.count("mint_expected")
			case !t.isLock() && final == "failed":
				// (redeem) refund only above the failure threshold, once, exact amount, to the owner
				if !moreThanTwoThirds(no, n) {
					m.violate(fmt.Sprintf("C15|refund-below-threshold|op=report|kind=%s|witnesses=%s|%s", t.Kind, nClass(n), m.repFacts(t, cr)),
						fmt.Sprintf("redeem failed/refunded with %d failure reports of %d recorded witnesses", no, n))
				}
				t.Refunded++
				if t.Refunded > 1 {
					m.violate(fmt.Sprintf("C15|refunded-twice|op=report|kind=%s", t.Kind), "a redeem was refunded a second time")
				}
				m.addBal(t.Cur, t.Submitter, t.Amount)
				m.addBal(t.Cur, m.supply, t.Amount)
				m.count("refund_expected")
			case t.isLock() && final == "failed":
				if !moreThanTwoThirds(no, n) {
					m.count("lock_failed_below_threshold") // no ledger effect: not covered by the statement
				}
			}
		}
	}
	// exact comparison of every wrapped balance (mint/refund amounts, beneficiaries, redeem debits)
	for _, cur := range wrapped {
		addrs := map[string]bool{}
		for a := range s.bal[cur] {
			addrs[a] = true
		}
		for a := range m.bal[cur] {
			addrs[a] = true
		}
		var list []string
		for a := range addrs {
			list = append(list, a)
		}
		sort.Strings(list)
		var wrong []string
		for _, a := range list {
			got, want := s.bal[cur][a], m.bal[cur][a]
			if got == nil {
				got = new(big.Int)
			}
			if want == nil {
				want = new(big.Int)
			}
			if got.Cmp(want) != 0 {
				wrong = append(wrong, a)
			}
		}
		if len(wrong) > 0 {
			m.explainMismatch(cur, wrong, s)
			// resynchronise so that one defect is reported once per execution, not at every later block
			for _, a := range wrong {
				got := s.bal[cur][a]
				if got == nil {
					got = new(big.Int)
				}
				m.bal[cur][a] = new(big.Int).Set(got)
			}
		}
		// (supply) counter == tokens in circulation
		sum := new(big.Int)
		for a, v := range s.bal[cur] {
			if a != m.supply {
				sum.Add(sum, v)
			}
		}
		sup := s.bal[cur][m.supply]
		if sup == nil {
			sup = new(big.Int)
		}
		m.count("supply_checked")
		if sup.Cmp(sum) != 0 {
			m.violate(fmt.Sprintf("C15|supply-counter|op=%s|cur=%s|counter-%s-circulation", m.lastOp, cur, cmpWord(sup, sum)),
				fmt.Sprintf("supply counter %v, %s in circulation %v", sup, cur, sum))
		}
	}
	return nil
}

func nClass(n int) string { return fmt.Sprint(n) }

func cmpWord(a, b *big.Int) string {
	if a.Cmp(b) > 0 {
		return "above"
	}
	return "below"
}

// explainMismatch turns a balance mismatch into a violation with a discriminating signature.
func (m *model) explainMismatch(cur string, wrong []string, s *snapshot) {
	get := func(mm map[string]*big.Int, a string) *big.Int {
		if v := mm[a]; v != nil {
			return v
		}
		return new(big.Int)
	}
	// a lock that completed in this block whose submitter was not credited while somebody else was
	var ids []string
	for id := range m.tr {
		ids = append(ids, id)
	}
	sort.Strings(ids)
	for _, id := range ids {
		t := m.tr[id]
		cr := m.completing(id, "success")
		if !t.isLock() || t.Status != "success" || t.Cur != cur || cr == nil {
			continue
		}
		short := new(big.Int).Sub(get(m.bal[cur], t.Submitter), get(s.bal[cur], t.Submitter))
		if short.Cmp(t.Amount) != 0 {
			continue
		}
		for _, a := range wrong {
			if a == t.Submitter || a == m.supply {
				continue
			}
			extra := new(big.Int).Sub(get(s.bal[cur], a), get(m.bal[cur], a))
			if extra.Cmp(t.Amount) == 0 {
				credited := roleClass(m.role(a))
				if a == cr.signer {
					credited = "the-completing-reporter"
				} else if m.role(a) == "third" {
					credited = "third-party-named-in-the-report"
				}
				m.violate(fmt.Sprintf("C15|mint-not-to-the-lock-submitter|op=report|kind=%s|credited=%s|%s", t.Kind, credited, m.repFacts(t, cr)),
					fmt.Sprintf("the minted %v %s went to %s (%s), not to the account that submitted the lock", t.Amount, cur, a, m.role(a)))
				return
			}
		}
	}
	var parts []string
	for _, a := range wrong {
		d := new(big.Int).Sub(get(s.bal[cur], a), get(m.bal[cur], a))
		sign := "more"
		if d.Sign() < 0 {
			sign = "less"
		}
		parts = append(parts, roleClass(m.role(a))+"-has-"+sign)
	}
	sort.Strings(parts)
	parts = dedupe(parts)
	m.violate(fmt.Sprintf("C15|wrapped-balance-differs-from-model|op=%s|cur=%s|%s", m.lastOp, cur, strings.Join(parts, ",")),
		fmt.Sprintf("%s balances differ from the reference ledger for %v", cur, wrong))
}

func dedupe(s []string) []string {
	var out []string
	for i, x := range s {
		if i == 0 || x != s[i-1] {
			out = append(out, x)
		}
	}
	return out
}

// endOfPath: the one sufficient condition of the statement - a redeem for which more than two thirds
// of the recorded witnesses reported failure (each with its own index) is refunded, exactly once.
func (m *model) endOfPath() {
	var ids []string
	for id := range m.tr {
		ids = append(ids, id)
	}
	sort.Strings(ids)
	for _, id := range ids {
		t := m.tr[id]
		if t.isLock() || t.Wit == nil {
			continue
		}
		n := len(t.Wit)
		if moreThanTwoThirds(count(t.Strict, 2), n) {
			m.count("refund_due")
			if t.Refunded == 0 {
				m.violate(fmt.Sprintf("C15|refund-missing|op=report|kind=%s|tracker=%s", t.Kind, t.Status),
					fmt.Sprintf("%d of %d witnesses reported failure of the redeem but the debited %v %s were not refunded", count(t.Strict, 2), n, t.Amount, t.Cur))
			}
		}
		// outcome tags (diversity of what was reached)
	}
	for _, id := range ids {
		t := m.tr[id]
		if t.Wit == nil {
			continue
		}
		m.tags[fmt.Sprintf("%s:%s:yes=%d,no=%d,gen=%d", t.Kind, t.Status, t.yesUpper(), t.noUpper(), t.Gen)] = true
	}
}
