// Package c15 is the explicit-state explorer of property C15: cross-chain lock/redeem is
// threshold-gated with exactly-once mint and refund.
//
// An execution replays a history (a list of event indexes) from genesis on a fresh replica. The first
// element of a history selects the CONFIGURATION (witness count x sub-alphabet), every further element
// is one block holding 0..2 operations of that configuration's alphabet. After every block the
// reference tracker model (model.go) is compared with the committed state.
package c15

import (
	"bytes"
	"fmt"
	"math/big"
	"strings"

	ethchain "github.com/Oneledger/protocol/chains/ethereum"
	"github.com/Oneledger/protocol/chains/ethereum/contract"
	"github.com/Oneledger/protocol/data/balance"
	"github.com/Oneledger/protocol/data/chain"
	ethcmn "github.com/ethereum/go-ethereum/common"
	"github.com/ethereum/go-ethereum/accounts/abi"
	ethtypes "github.com/ethereum/go-ethereum/core/types"

	"verif/harness"
	"verif/txs/xch"
)

// op is one operation (one transaction) of the alphabet.
type op struct {
	Kind string // lock | redeem | erc20lock | erc20redeem | report
	User int    // lock/redeem: index into World.Users of the submitter
	Ext  string // external transaction id: X Y (locks) Z ZB Z36 (redeems) EX (erc20 lock) EZ EZT (erc20 redeems)
	// report only
	Rep    string // w0..w3 (recorded witnesses in tracker order) | nv (staked validator that is no witness) | out (user key)
	Yes    bool
	Wrong  bool   // vote index of somebody else
	Locker string // honest (the lock's submitter) | self (the reporter) | third (user C)
}

func (o op) name() string {
	if o.Kind != "report" {
		return fmt.Sprintf("%s(U%d,%s)", o.Kind, o.User+1, o.Ext)
	}
	v := "no"
	if o.Yes {
		v = "yes"
	}
	s := fmt.Sprintf("report(%s,%s,%s", o.Rep, o.Ext, v)
	if o.Wrong {
		s += ",wrong-index"
	}
	if o.Locker != "honest" {
		s += ",locker=" + o.Locker
	}
	return s + ")"
}

// event is one block.
type event struct {
	Ops []op
}

func (e event) name() string {
	if len(e.Ops) == 0 {
		return "empty-block"
	}
	s := ""
	for i, o := range e.Ops {
		if i > 0 {
			s += " ; "
		}
		s += o.name()
	}
	return s
}

// config is one (witness count, sub-alphabet) pair.
type config struct {
	Name   string
	N      int // witnesses
	Mode   string
	Events []event
	Quick  bool // part of the quick tier
}

func lock(u int, ext string) op   { return op{Kind: "lock", User: u, Ext: ext} }
func redeem(u int, ext string) op { return op{Kind: "redeem", User: u, Ext: ext} }
func rep(r, ext string, yes bool) op {
	return op{Kind: "report", Rep: r, Ext: ext, Yes: yes, Locker: "honest"}
}
func wit(i int) string { return fmt.Sprintf("w%d", i) }

func single(ops ...op) []event {
	var out []event
	for _, o := range ops {
		out = append(out, event{Ops: []op{o}})
	}
	return out
}

// honestReports: every witness, yes and no, right index, honest locker.
func honestReports(n int, ext string) []op {
	var out []op
	for i := 0; i < n; i++ {
		out = append(out, rep(wit(i), ext, true), rep(wit(i), ext, false))
	}
	return out
}

// hostileReports: wrong vote index, non-witness validator, outsider.
func hostileReports(n int, ext string) []op {
	a := rep(wit(0), ext, true)
	a.Wrong = true
	b := rep(wit(n-1), ext, false)
	b.Wrong = true
	nvY := rep("nv", ext, true)
	nvY.Locker = "self"
	outY := rep("out", ext, true)
	outY.Locker = "self"
	return []op{a, b, nvY, rep("nv", ext, false), outY, rep("out", ext, false)}
}

// lyingReports: witnesses reporting success but naming somebody else as the beneficiary.
func lyingReports(n int, ext string) []op {
	var out []op
	for i := 0; i < n; i++ {
		o := rep(wit(i), ext, true)
		o.Locker = "third"
		out = append(out, o)
	}
	o := rep(wit(0), ext, true)
	o.Locker = "self"
	return append(out, o)
}

func pair(a, b op) event { return event{Ops: []op{a, b}} }

func third(o op) op { o.Locker = "third"; return o }

func configs() []config {
	var out []config
	// 2 witnesses: the smallest count that is 2 mod 3, where "more than two thirds" (both) and a BFT-style 2f+1
	// (one) differ. (Added after a seeded change - the threshold written as 2*(n/3)+1 - escaped the counts 1, 3, 4,
	// on which the two formulas agree.)
	for _, n := range []int{1, 2, 3, 4} {
		last := wit(n - 1)
		// ---- lock: two users, two external transactions, the full report matrix on X
		ev := []event{{}}
		ev = append(ev, single(lock(0, "X"), lock(1, "X"), lock(1, "Y"))...)
		ev = append(ev, single(honestReports(n, "X")...)...)
		ev = append(ev, single(hostileReports(n, "X")...)...)
		ev = append(ev, single(lyingReports(n, "X")...)...)
		ev = append(ev,
			pair(lock(0, "X"), lock(1, "X")),                  // duplicate inside one block
			pair(lock(0, "X"), rep(wit(0), "X", true)),        // report on a tracker of the same block
			pair(rep(last, "X", true), rep(last, "X", true)),  // repeated report inside one block
			pair(rep(last, "X", true), rep(last, "X", false)), // changed mind inside one block
		)
		if n > 1 {
			ev = append(ev,
				pair(rep(wit(0), "X", true), rep(wit(1), "X", true)),
				pair(rep(wit(n-2), "X", true), third(rep(last, "X", true))), // threshold crossed by a lying report
				pair(third(rep(wit(n-2), "X", true)), rep(last, "X", true)), // lie first, honest completion
				pair(rep(wit(0), "X", false), rep(wit(1), "X", false)),
			)
		}
		out = append(out, config{Name: fmt.Sprintf("lock/%dw", n), N: n, Mode: "lock", Events: ev, Quick: true})

		// ---- redeem: sufficient / insufficient balance, same external tx by another user, a payload that
		// is no Ethereum transaction at all (36 bytes: selector + amount)
		ev = []event{{}}
		ev = append(ev, single(redeem(0, "Z"), redeem(1, "Z"), redeem(0, "ZB"), redeem(0, "Z36"))...)
		ev = append(ev, single(honestReports(n, "Z")...)...)
		ev = append(ev, single(hostileReports(n, "Z")...)...)
		ev = append(ev,
			pair(redeem(0, "Z"), redeem(1, "Z")),
			pair(redeem(0, "Z"), rep(wit(0), "Z", false)),
			pair(rep(last, "Z", false), rep(last, "Z", false)),
		)
		if n > 1 {
			ev = append(ev, pair(rep(wit(0), "Z", false), rep(wit(1), "Z", false)), pair(rep(wit(0), "Z", true), rep(wit(1), "Z", true)))
		}
		out = append(out, config{Name: fmt.Sprintf("redeem/%dw", n), N: n, Mode: "redeem", Events: ev, Quick: n != 4})
		// ---- redeem with a hostile ENVELOPE: the embedded Ethereum transaction is well formed, but one of its
		// fields (the gas price) holds the bytes of the redeem selector, so "the amount" depends on whether a
		// parser looks at the whole envelope or at the call data. Whatever was debited when the tracker was
		// created is what a failed redeem gives back. (Added after a seeded change - the refund parsed from the
		// call data, the debit from the raw envelope - escaped the well-formed envelopes.)
		ev = []event{{}}
		ev = append(ev, single(redeem(0, "ZS"))...)
		ev = append(ev, single(honestReports(n, "ZS")...)...)
		if n > 1 {
			ev = append(ev, pair(rep(wit(0), "ZS", false), rep(wit(1), "ZS", false)))
		}
		out = append(out, config{Name: fmt.Sprintf("redeem-envelope/%dw", n), N: n, Mode: "redeem", Events: ev, Quick: n == 1 || n == 3})
		if n == 2 {
			continue // mixed and erc20 add nothing about the threshold
		}

		// ---- mixed: a lock and a redeem in flight together (shared supply counter, shared store object)
		ev = []event{{}}
		ev = append(ev, single(lock(0, "X"), redeem(0, "Z"), redeem(0, "ZB"))...)
		ev = append(ev, single(honestReports(n, "X")...)...)
		ev = append(ev, single(honestReports(n, "Z")...)...)
		ev = append(ev, single(third(rep(last, "X", true)))...)
		ev = append(ev, pair(lock(0, "X"), redeem(0, "Z")), pair(rep(last, "X", true), rep(last, "Z", false)), pair(lock(0, "X"), rep(wit(0), "X", true)))
		out = append(out, config{Name: fmt.Sprintf("mixed/%dw", n), N: n, Mode: "mixed", Events: ev, Quick: n != 4})

		// ---- erc20: token lock and the two forms of token redeem
		ev = []event{{}}
		ev = append(ev, single(op{Kind: "erc20lock", User: 0, Ext: "EX"}, op{Kind: "erc20lock", User: 1, Ext: "EX"},
			op{Kind: "erc20redeem", User: 0, Ext: "EZ"}, op{Kind: "erc20redeem", User: 0, Ext: "EZT"})...)
		ev = append(ev, single(honestReports(n, "EX")...)...)
		ev = append(ev, single(honestReports(n, "EZ")...)...)
		ev = append(ev, single(honestReports(n, "EZT")...)...)
		ev = append(ev, single(third(rep(last, "EX", true)))...)
		ev = append(ev, pair(op{Kind: "erc20lock", User: 0, Ext: "EX"}, rep(wit(0), "EX", true)))
		if n > 1 {
			ev = append(ev, pair(rep(wit(n-2), "EX", true), rep(last, "EX", true)), pair(rep(wit(n-2), "EZ", false), rep(last, "EZ", false)))
		}
		out = append(out, config{Name: fmt.Sprintf("erc20/%dw", n), N: n, Mode: "erc20", Events: ev, Quick: n == 3})
	}
	return out
}

// maxEvents is the largest alphabet over all configurations (histories index events as
// len(configs)+i so that every index has one meaning at every position).
func maxEvents(cs []config) int {
	m := 0
	for _, c := range cs {
		if len(c.Events) > m {
			m = len(c.Events)
		}
	}
	return m
}

// ---- world and external transactions ------------------------------------------------------------

// world: n witnesses (staked validators V1..Vn) + one staked validator that is NOT a witness (the
// "non-witness validator key"); users A (U1), B (U2), C (third party / outsider key).
func world(c config) *harness.World {
	w := xch.EthWorld("c15-"+c.Name, c.N+1, c.N+1)
	w.Vals[c.N].Witness = false
	// THREE listed tokens, the one the alphabet uses in the middle: a lookup that returns the first or the last
	// entry of the list instead of the matching one mints, debits or refunds another currency. (Added after a
	// seeded change - GetToken returning a pointer to the loop variable, i.e. the last listed token - escaped
	// worlds with a single listed token.)
	tl := w.Gov.ETHCDOption.TokenList
	before, after := tl[0], tl[0]
	before.TokName, before.TokAddr = "TTA", ethcmn.HexToAddress("0x00000000000000000000000000000000000C0DA1")
	after.TokName, after.TokAddr = "TTZ", ethcmn.HexToAddress("0x00000000000000000000000000000000000C0DA2")
	w.Gov.ETHCDOption.TokenList = []ethchain.ERC20Token{before, tl[0], after}
	w.Currencies = append(w.Currencies,
		balance.Currency{Id: 5, Name: "TTA", Chain: chain.TESTTOKEN, Decimal: 18, Unit: "testUnits"},
		balance.Currency{Id: 6, Name: "TTZ", Chain: chain.TESTTOKEN, Decimal: 18, Unit: "testUnits"})
	return w
}

// wrapped lists the currencies whose every balance is compared with the reference ledger.
var wrapped = []string{"ETH", "TTC", "TTA", "TTZ"}

func newWrappedLedger() map[string]map[string]*big.Int {
	m := map[string]map[string]*big.Int{}
	for _, c := range wrapped {
		m[c] = map[string]*big.Int{}
	}
	return m
}

var e18 = big.NewInt(1000000000000000000)

func eth(n int64) *big.Int { return new(big.Int).Mul(big.NewInt(n), e18) }

// ext describes one external transaction of the alphabet.
type ext struct {
	Raw    []byte
	Amount *big.Int
	Cur    string
}

// the external transactions depend on the (deterministic) keys only: built once per process
var extCache map[string]ext

func externals(w *harness.World) map[string]ext {
	if extCache == nil {
		extCache = buildExternals(w)
	}
	return extCache
}

func buildExternals(w *harness.World) map[string]ext {
	k0, k1 := w.EthUsers[0].Eth, w.EthUsers[1].Eth
	z36 := append([]byte{0xdb, 0x00, 0x6a, 0x75}, xch.Word(0)...)
	copy(z36[4:], make([]byte, 32))
	amt := eth(2).Bytes()
	copy(z36[36-len(amt):], amt)
	// ZS: redeem(4 ETH) whose 32-byte gas price starts with the selector of redeem(uint256). The application
	// takes the amount of a redeem from the 32 bytes that follow the FIRST occurrence of the selector in the
	// raw bytes it was given (chains/ethereum ParseRedeem); the reference amount follows the same rule, written
	// out here, because the statement only fixes that the refund equals the debit
	a := mustRedeemData(eth(4))
	gp := new(big.Int).SetBytes(append([]byte{0xdb, 0x00, 0x6a, 0x75}, make([]byte, 28)...))
	zs := xch.SignEthTx(ethtypes.NewTransaction(6, harness.ETHContractAddr, big.NewInt(0), 21000, gp, a), k0)
	zsAmt := new(big.Int)
	if i := bytes.Index(zs, []byte{0xdb, 0x00, 0x6a, 0x75}); i >= 0 && i+36 <= len(zs) {
		zsAmt.SetBytes(zs[i+4 : i+36])
	}
	return map[string]ext{
		"ZS":  {zs, zsAmt, "ETH"},
		"X":   {xch.RawLockTx(k0, 0, eth(1)), eth(1), "ETH"},
		"Y":   {xch.RawLockTx(k1, 0, eth(2)), eth(2), "ETH"},
		"Z":   {xch.RawRedeemTx(k0, 1, eth(2)), eth(2), "ETH"},
		"ZB":  {xch.RawRedeemTx(k0, 2, eth(6)), eth(6), "ETH"}, // more than the 5 ETH a user owns at genesis
		"Z36": {z36, eth(2), "ETH"},
		"EX":  {xch.RawERC20LockTx(k0, 3, harness.TTCTokenAddr, harness.ERCContractAddr, eth(3)), eth(3), "TTC"},
		"EZ":  {xch.RawERC20RedeemTx(k0, 4, harness.TTCTokenAddr, eth(4)), eth(4), "TTC"},
		"EZT": {xch.RawERC20RedeemTxTo(k0, 5, harness.TTCTokenAddr, harness.TTCTokenAddr, eth(4)), eth(4), "TTC"},
	}
}

// mustRedeemData is the call data of redeem(amount) on the LockRedeem contract.
func mustRedeemData(amount *big.Int) []byte {
	a, err := abi.JSON(strings.NewReader(contract.LockRedeemABI))
	if err != nil {
		panic(err)
	}
	data, err := a.Pack("redeem", amount)
	if err != nil {
		panic(err)
	}
	return data
}
