package c15

import (
	"encoding/json"
	"flag"
	"fmt"
	"os"
	"sort"
	"strconv"
	"strings"
	"time"

	"verif/explore"
	"verif/harness"
)

const prop = "C15"

func workerMain() int {
	out := harness.KeepStdout() // results go to the original stdout (a pipe to the master)
	harness.SilenceStdout()
	defer harness.RemoveScratch()
	return explore.ServeWorker(out, func(raw json.RawMessage) interface{} {
		var j explore.BFSJob
		if err := json.Unmarshal(raw, &j); err != nil {
			return explore.BFSOut{Err: err.Error()}
		}
		return execHist(j.Hist, j.Tier, nil)
	})
}

func eventName(i int) string {
	cs := configs()
	if i < len(cs) {
		return "config:" + cs[i].Name
	}
	// the same index names the same alphabet position in every configuration of one mode family; the
	// replay resolves it against the configuration selected by the first element
	return fmt.Sprintf("e%d", i-len(cs))
}

func describeHist(h []int) []string {
	cs := configs()
	var out []string
	if len(h) == 0 || h[0] >= len(cs) {
		return out
	}
	cfg := cs[h[0]]
	out = append(out, "config:"+cfg.Name)
	for _, e := range h[1:] {
		if e >= len(cs) && e-len(cs) < len(cfg.Events) {
			out = append(out, cfg.Events[e-len(cs)].name())
		} else {
			out = append(out, fmt.Sprintf("?%d", e))
		}
	}
	return out
}

func replay(path string) int {
	var doc struct {
		Case struct {
			H []int `json:"h"`
		} `json:"case"`
	}
	b, err := os.ReadFile(path)
	if err == nil {
		err = json.Unmarshal(b, &doc)
	}
	if err != nil {
		fmt.Println(err)
		return 2
	}
	harness.SilenceStdout()
	defer harness.RemoveScratch()
	if n, _ := strconv.Atoi(os.Getenv("C15_BENCH")); n > 0 { // diagnostics only: cost of one execution
		t0 := time.Now()
		for i := 0; i < n; i++ {
			execHist(doc.Case.H, "", nil)
		}
		harness.Outf("%d executions of a %d-block history: %v each\n", n, len(doc.Case.H)-1, time.Since(t0)/time.Duration(n))
		return 0
	}
	harness.Outf("replaying %v\n", describeHist(doc.Case.H))
	out := execHist(doc.Case.H, "", harness.Out())
	if out.Err != "" {
		harness.Outf("harness error: %s\n", out.Err)
		return 2
	}
	if len(out.Viol) > 0 {
		for _, v := range out.Viol {
			harness.Outf("VIOLATED: %s\n    %s\n", v.Sig, v.What)
		}
		return 1
	}
	harness.Outf("no violation on this history\n")
	return 0
}

// Main is the entry point of `vc15 C15 ...`.
func Main(args []string) int {
	if explore.IsWorker(prop) {
		return workerMain()
	}
	var only string
	f := explore.ParseFlags(prop, args, func(fs *flag.FlagSet) {
		fs.StringVar(&only, "configs", "", "comma-separated configuration names to explore (default: all of the tier); for development and demos")
	})
	if only != "" {
		os.Setenv("C15_CONFIGS", only) // inherited by the worker processes
	}
	if f.Replay != "" {
		return replay(f.Replay)
	}
	harness.SilenceStdout()
	rep := explore.NewReporter(prop, "model_checking", f, harness.Out())
	cs := configs()
	nev := maxEvents(cs)
	quick := f.Tier == "quick"
	depth := map[bool]int{true: 4, false: 7}[quick] // blocks per history (plus the configuration element)
	budget := map[bool]time.Duration{true: 200 * time.Second, false: 27 * time.Minute}[quick]
	if f.Budget > 0 {
		budget = f.Budget
	}
	var active []string
	cfg := explore.BFSConfig{
		Command:  prop,
		Workers:  f.Workers,
		MaxDepth: depth + 1,
		NumEvents: func(d int) int {
			if d == 0 {
				return len(cs)
			}
			return len(cs) + nev
		},
		Deadline:  time.Now().Add(budget),
		PerJob:    2 * time.Minute,
		Tier:      f.Tier,
		EventName: eventName,
	}
	// configurations outside the tier are cut at the root by the worker (see execHist)
	for _, c := range cs {
		if (!quick || c.Quick) && selected(c.Name) {
			active = append(active, c.Name)
		}
	}
	st := explore.RunBFS(cfg, rep)
	st.Fill(rep)
	execs := st.Info["executions"]
	rep.Set("transitions", execs)
	rep.Set("traces_validated_against_impl", execs)
	rep.Set("evaluations", execs)
	rep.Set("padding_jobs_not_executed", st.Info["padding_jobs"])
	rep.Set("per_level_note", "level 1 selects the configuration, level k+1 is block k; the per-level 'executions' include padding jobs (event indexes that mean nothing in a configuration: answered without executing anything), 'transitions' does not")
	rep.Set("distinct_nontrivial", st.Info["nontrivial_executions"])
	rep.Set("rule", "one case = one history (configuration + up to "+fmt.Sprint(depth)+" blocks of 0..2 operations) replayed from genesis on the real application, reference tracker model compared with the committed state after every block and after "+fmt.Sprint(quietBlocks)+" trailing empty blocks; histories are distinct by construction (BFS over event sequences, successors only of new states); non-trivial = in that execution at least one oracle antecedent fired: a tracker completed (mint / release / failure / refund), a redeem was debited, a duplicate submission for an existing tracker was attempted, a non-witness reported, or a witness reported twice")
	// vacuity: every event of every explored configuration must be accepted somewhere
	var never []string
	perCfg := map[string]interface{}{}
	for ci, c := range cs {
		if (quick && !c.Quick) || !selected(c.Name) {
			continue
		}
		acc := 0
		for i, e := range c.Events {
			if len(e.Ops) == 0 {
				continue
			}
			if st.Info[fmt.Sprintf("event_accepted.%s.%02d", c.Name, i)] > 0 {
				acc++
			} else if !neverAcceptedByDesign(c, e) {
				never = append(never, c.Name+": "+e.name())
			}
		}
		perCfg[c.Name] = map[string]interface{}{"index": ci, "events": len(c.Events), "events_accepted_somewhere": acc}
	}
	counters := map[string]int64{}
	for k, v := range st.Info {
		if !strings.HasPrefix(k, "event_accepted.") {
			counters[k] = v
		}
	}
	rep.Set("counters", counters)
	rep.Set("configurations", perCfg)
	rep.Set("configurations_explored", active)
	rep.Set("bounds", map[string]interface{}{
		"witness_counts": []int{1, 2, 3, 4}, "blocks_per_history": depth, "ops_per_block": "0..2 (listed pairs)",
		"trailing_empty_blocks": quietBlocks, "alphabet_sizes": alphabetSizes(cs), "search": "breadth-first, all successors of every new state, dedup on projected state digest + model digest",
	})
	rep.Set("alphabet", alphabetNames(cs, quick))
	rep.Assume("witness jobs (which would talk to an Ethereum node) are never executed: finality reports are produced by the explorer, for every witness and verdict")
	rep.Assume("state identity = digest of the tracker stores, ETH/TTC balances and witness records + digest of the reference model; OLT balances, fees, rewards and vote bookkeeping are projected away (they cannot influence the tracker subsystem within the bounds)")
	rep.Assume("a witness's report carrying another witness's vote index may or may not be counted (the statement is silent); resubmitting a lock whose tracker FAILED is tolerated (still one record per external transaction, nothing minted for the failed one)")
	if len(never) > 0 {
		sort.Strings(never)
		fmt.Fprintf(harness.Out(), "C15: operations of the alphabet that were never accepted anywhere (factory error?): %v\n", never)
		rep.Set("never_accepted", never)
		rep.Finish()
		return 2
	}
	if st.HarnessErrors > 0 {
		fmt.Fprintf(harness.Out(), "C15: %d harness errors: %v\n", st.HarnessErrors, st.ErrSamples)
		rep.Finish()
		return 2
	}
	return rep.Finish()
}

// selected reports whether a configuration passes the -configs filter.
func selected(name string) bool {
	only := os.Getenv("C15_CONFIGS")
	if only == "" {
		return true
	}
	for _, n := range strings.Split(only, ",") {
		if n == name {
			return true
		}
	}
	return false
}

// neverAcceptedByDesign: events that the statement (and the implementation) must always reject.
func neverAcceptedByDesign(c config, e event) bool {
	for _, o := range e.Ops {
		// with one witness the only foreign index is out of range
		if o.Kind == "report" && o.Wrong && c.N == 1 {
			return true
		}
		// an ERC20 redeem addressed (as on Ethereum) to the LockRedeemERC contract can never be RELEASED: the
		// completing success report fails with "Token not supported" (FINDINGS.md, tolerated: liveness of the
		// release is not in the statement); with one witness every success report is the completing one
		if o.Kind == "report" && o.Ext == "EZ" && o.Yes && c.N == 1 {
			return true
		}
		// redeeming 6 ETH: nobody can own more than the 5 ETH of genesis unless a lock was minted
		if o.Ext == "ZB" && c.Mode == "redeem" {
			return true
		}
	}
	// pairs whose second element repeats the first submission / vote are rejected as a pair
	if len(e.Ops) == 2 {
		a, b := e.Ops[0], e.Ops[1]
		if a.Kind == b.Kind && a.Ext == b.Ext && (a.Kind != "report" || a.Rep == b.Rep) {
			return true
		}
	}
	return false
}

func alphabetSizes(cs []config) map[string]int {
	out := map[string]int{}
	for _, c := range cs {
		out[c.Name] = len(c.Events)
	}
	return out
}

func alphabetNames(cs []config, quick bool) map[string][]string {
	out := map[string][]string{}
	for _, c := range cs {
		if quick && !c.Quick {
			continue
		}
		for _, e := range c.Events {
			out[c.Name] = append(out[c.Name], e.name())
		}
	}
	return out
}
