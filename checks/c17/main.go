package c17

import (
	"encoding/json"
	"fmt"
	"os"
	"sort"
	"strconv"
	"strings"
	"time"

	"verif/explore"
	"verif/harness"
)

const prop = "C17"

func workerMain() int {
	out := harness.KeepStdout()
	harness.SilenceStdout()
	defer harness.RemoveScratch()
	return explore.ServeWorker(out, func(raw json.RawMessage) interface{} {
		var j explore.BFSJob
		if err := json.Unmarshal(raw, &j); err != nil {
			return explore.BFSOut{Err: err.Error()}
		}
		return execHist(j.Hist, nil)
	})
}

func replay(path string) int {
	var doc struct {
		Case struct {
			H []int `json:"h"`
		} `json:"case"`
	}
	b, err := os.ReadFile(path)
	if err == nil {
		err = json.Unmarshal(b, &doc)
	}
	if err != nil {
		fmt.Println(err)
		return 2
	}
	harness.SilenceStdout()
	defer harness.RemoveScratch()
	if n, _ := strconv.Atoi(os.Getenv("C17_BENCH")); n > 0 { // diagnostics only
		t0 := time.Now()
		for i := 0; i < n; i++ {
			execHist(doc.Case.H, nil)
		}
		harness.Outf("%d executions of a %d-block history: %v each\n", n, len(doc.Case.H), time.Since(t0)/time.Duration(n))
		return 0
	}
	evs := events()
	var names []string
	for _, e := range doc.Case.H {
		if e >= 0 && e < len(evs) {
			names = append(names, evs[e].name())
		}
	}
	harness.Outf("replaying %v\n", names)
	out := execHist(doc.Case.H, harness.Out())
	if out.Err != "" {
		harness.Outf("harness error: %s\n", out.Err)
		return 2
	}
	if len(out.Viol) > 0 {
		for _, v := range out.Viol {
			harness.Outf("VIOLATED: %s\n    %s\n", v.Sig, v.What)
		}
		return 1
	}
	harness.Outf("no violation on this history\n")
	return 0
}

// Main is the entry point of `vc17 C17 ...`.
func Main(args []string) int {
	if explore.IsWorker(prop) {
		return workerMain()
	}
	f := explore.ParseFlags(prop, args, nil)
	if f.Replay != "" {
		return replay(f.Replay)
	}
	harness.SilenceStdout()
	rep := explore.NewReporter(prop, "model_checking", f, harness.Out())
	evs := events()
	quick := f.Tier == "quick"
	depth := map[bool]int{true: 4, false: 5}[quick]
	budget := map[bool]time.Duration{true: 400 * time.Second, false: 27 * time.Minute}[quick]
	if f.Budget > 0 {
		budget = f.Budget
	}
	cfg := explore.BFSConfig{
		Command:  prop,
		Workers:  f.Workers,
		MaxDepth: depth,
		NumEvents: func(d int) int {
			// quick tier: the triples (last in the alphabet) are tried in the first two blocks only, so that
			// the depth-4 level stays inside the quick budget; the thorough tier tries them everywhere
			if quick && d >= 2 {
				return len(evs) - lateEvents()
			}
			return len(evs)
		},
		Deadline:  time.Now().Add(budget),
		PerJob:    2 * time.Minute,
		Tier:      f.Tier,
		EventName: func(i int) string { return evs[i].name() },
	}
	st := explore.RunBFS(cfg, rep)
	st.Fill(rep)
	rep.Set("distinct_nontrivial", st.Info["nontrivial_executions"])
	rep.Set("rule", "one case = one history of up to "+fmt.Sprint(depth)+" blocks (1..3 operations each, or none) replayed from genesis on the real application; after every transaction (deliver state, between two DeliverTx calls) and after every block (committed state) the native and the EVM view of every tracked account are compared and the transaction's effect is checked against the reference ledger; histories are distinct by construction; non-trivial = at least one OLVM transaction of the history was executed (clause 2 evaluated) or failed its pre-checks (clause 3 evaluated)")
	var never []string
	acc := 0
	for i, e := range evs {
		if len(e.Ops) == 0 {
			continue
		}
		if st.Info[fmt.Sprintf("event_accepted.%02d", i)] > 0 {
			acc++
		} else if !neverAcceptedByDesign(e) {
			never = append(never, e.name())
		}
	}
	counters := map[string]int64{}
	for k, v := range st.Info {
		if !strings.HasPrefix(k, "event_accepted.") {
			counters[k] = v
		}
	}
	rep.Set("counters", counters)
	rep.Set("events_accepted_somewhere", acc)
	var names []string
	for _, e := range evs {
		names = append(names, e.name())
	}
	rep.Set("alphabet", names)
	rep.Set("bounds", map[string]interface{}{"blocks_per_history": depth, "ops_per_block": fmt.Sprintf("0..3 (%d single operations, %d listed pairs, %d listed triples, %d events of the value-forwarding factory contract; quick tier: triples and factory events in the first two blocks only)", len(singles()), len(pairs()), len(triples()), len(factoryEvents())), "alphabet_size": len(evs),
		"trailing_empty_blocks": quietBlocks, "search": "breadth-first, all successors of every new state, dedup on projected state digest"})
	rep.Assume("the EVM view is read through a fresh instance of the adapter (vm.CommitStateDB over the account keeper and contract store) bound to the same state object the native read uses; the application's own adapter instance is never probed")
	rep.Assume("native transactions cannot be signed by ETHSECP accounts at all (their key handler signs/verifies 32-byte digests only), so 'native from an ETHSECP account' does not exist; native sends TO them and OLVM transfers to ED25519 accounts are in the alphabet")
	rep.Assume("value actually transferred = the transaction's value if the EVM reports success (event tag tx.status=1, read from the node's transaction index), else 0; the kill contract pays its whole balance to the caller; the factory contract forwards 1 OLT to the address of its next creation and endows the creation with 2 OLT, which come back to it when the child's init code reverts")
	rep.Assume("a byte-identical resubmission that executes again is counted and tagged, not judged (at-most-once is C05); rich accounts' balances are not part of the state identity")
	if len(never) > 0 {
		sort.Strings(never)
		fmt.Fprintf(harness.Out(), "C17: operations of the alphabet that were never accepted anywhere (factory error?): %v\n", never)
		rep.Set("never_accepted", never)
		rep.Finish()
		return 2
	}
	if st.HarnessErrors > 0 {
		fmt.Fprintf(harness.Out(), "C17: %d harness errors: %v\n", st.HarnessErrors, st.ErrSamples)
		rep.Finish()
		return 2
	}
	return rep.Finish()
}

// neverAcceptedByDesign: events holding an operation that must fail its pre-checks.
func neverAcceptedByDesign(e event) bool {
	for _, o := range e.Ops {
		switch {
		case o.Kind == "poor-below", o.Kind == "wrong-chain", o.Kind == "resubmit", o.Kind == "create-empty-lowgas", o.Nonce < 0:
			return true
		}
	}
	// the poor account can pay once
	return len(e.Ops) == 2 && e.Ops[0].Kind == "poor-exact" && e.Ops[1].Kind == "poor-exact"
}
