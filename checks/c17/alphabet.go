// Package c17 is the explicit-state explorer of property C17: OLVM transactions keep one ledger and
// charge exactly the gas used.
//
// A history is a list of event indexes; one event = one block with 1..3 operations (or none). After
// EVERY transaction (read from the deliver state between two DeliverTx calls) and after every block
// (read from the committed state) the oracle compares the native and the EVM view of every tracked
// account and checks the transaction's effect against a reference ledger.
package c17

import "fmt"

// op is one operation of the alphabet. The concrete transaction (nonce, target address) is built
// against the reference model's state at the moment the block is assembled.
type op struct {
	Kind string
	// native-send | transfer | create-store | create-kill | call-ok | call-revert | call-oog | kill |
	// poor-below | poor-exact | wrong-chain | resubmit | create-factory | factory-child-reverts | factory-child-ok
	From  string // A | EA | EC
	To    string // B | EA | EB | A | F | STORE (the store contract, or the address EA's next creation will get)
	Nonce int    // OLVM: offset to the nonce the sender is predicted to have at that point of the block: 0 = exactly it, +2 = gap, -1 = one below (skipped when that nonce is 0)
}

func (o op) name() string {
	s := o.Kind
	if o.From != "" {
		s += "(" + o.From
		if o.To != "" {
			s += "->" + o.To
		}
		switch {
		case o.Nonce > 0:
			s += fmt.Sprintf(",nonce+%d", o.Nonce)
		case o.Nonce < 0:
			s += fmt.Sprintf(",nonce%d", o.Nonce)
		}
		s += ")"
	}
	return s
}

type event struct{ Ops []op }

func (e event) name() string {
	if len(e.Ops) == 0 {
		return "empty-block"
	}
	s := ""
	for i, o := range e.Ops {
		if i > 0 {
			s += " ; "
		}
		s += o.name()
	}
	return s
}

var (
	sendAB     = op{Kind: "native-send", From: "A", To: "B"}
	sendAEA    = op{Kind: "native-send", From: "A", To: "EA"}
	sendAStore = op{Kind: "native-send", From: "A", To: "STORE"}
	sendAEC    = op{Kind: "native-send", From: "A", To: "EC"}
	xferEB     = op{Kind: "transfer", From: "EA", To: "EB"}
	xferA      = op{Kind: "transfer", From: "EA", To: "A"}
	xferF      = op{Kind: "transfer", From: "EA", To: "F"}
	xferGap    = op{Kind: "transfer", From: "EA", To: "EB", Nonce: 2}
	xferLow    = op{Kind: "transfer", From: "EA", To: "EB", Nonce: -1}
	mkStore    = op{Kind: "create-store", From: "EA"}
	mkKill     = op{Kind: "create-kill", From: "EA"}
	callOK     = op{Kind: "call-ok", From: "EA", To: "STORE"}
	callRevert = op{Kind: "call-revert", From: "EA", To: "STORE"}
	callOOG    = op{Kind: "call-oog", From: "EA", To: "STORE"}
	kill       = op{Kind: "kill", From: "EA"}
	poorBelow  = op{Kind: "poor-below", From: "EC", To: "EB"}
	poorExact  = op{Kind: "poor-exact", From: "EC", To: "EB"}
	wrongChain = op{Kind: "wrong-chain", From: "EA", To: "EB"}
	resubmit   = op{Kind: "resubmit", From: "EA"}
	// a contract creation without init code whose gas limit (40 000) lies between the price of a plain send
	// (21 000) and the intrinsic gas of a creation (53 000): must fail its pre-checks without any trace
	mkLowGas = op{Kind: "create-empty-lowgas", From: "EA"}
	// operations that make an OLVM transaction LOAD an account without changing it (zero-value transfer; the
	// reverted / out-of-gas calls above do the same to the contract), and the native credit of that account
	// a contract creation whose nonce is AHEAD of the account's (this chain accepts nonce gaps): the account nonce
	// must still rise by exactly one
	mkStoreGap = op{Kind: "create-store", From: "EA", Nonce: 2}
	xferZeroEB = op{Kind: "transfer-zero", From: "EA", To: "EB"}
	sendAEB    = op{Kind: "native-send", From: "A", To: "EB"}
)

// singles: one operation per block.
func singles() []event {
	var out []event
	out = append(out, event{})
	for _, o := range []op{sendAB, sendAEA, sendAStore, xferEB, xferA, xferF, mkStore, mkKill, callOK, callRevert, callOOG, kill,
		xferGap, xferLow, poorBelow, poorExact, wrongChain, resubmit, mkStoreGap} {
		out = append(out, event{Ops: []op{o}})
	}
	return out
}

// pairs: two operations in one block (native and OLVM mixed, dependent OLVM transactions).
func pairs() []event {
	p := func(a, b op) event { return event{Ops: []op{a, b}} }
	return []event{
		p(sendAEA, xferEB),      // native credit, then the credited account spends through the EVM
		p(xferEB, sendAEA),      // EVM debit, then native credit of the same account
		p(xferA, sendAB),        // EVM credit of a native account that then spends natively
		p(mkStore, callOK),      // create and call in one block
		p(xferEB, xferEB),       // two transfers, consecutive nonces
		p(xferEB, xferLow),      // same nonce twice: the second fails its pre-checks
		p(poorExact, poorExact), // affordable alone, not twice
		p(xferGap, xferEB),      // gap, then the nonce the state has now
		p(mkKill, kill),         // create and destroy in one block
		p(kill, kill),           // destroy twice in one block
		p(callRevert, callOK),   // reverted, then successful call
		p(sendAStore, mkStore),  // native pre-funding of the address the creation will get
		p(callOK, sendAStore),   // EVM touches the contract, then native credit of it
		p(callOOG, xferEB),      // out of gas, then a transfer
		p(xferGap, resubmit),    // the byte-identical transaction again in the same block
		// (added after a seeded change - such a creation priced as a send by the pre-checks and then rejected by
		// the state transition AFTER the gas was pre-paid, nothing finalised - escaped the alphabet)
		p(mkLowGas, xferEB), // rejected for its intrinsic gas, then a transfer of the same sender in the same block
	}
}

// triples: an OLVM transaction that is validated but not executed (it fails its pre-checks after the
// sender's account was read), then a NATIVE change of that same account, then an OLVM transaction of that
// account - all in one block, so that nothing (no EndBlock, no Commit) refreshes whatever the first
// transaction may have left behind in memory. (Added after a seeded change - pre-checks reading through
// the shared EVM adapter - escaped the pairs.)
func triples() []event {
	t := func(a, b, c op) event { return event{Ops: []op{a, b, c}} }
	return []event{
		t(poorBelow, sendAEC, poorExact), // rejected for funds, natively funded, then affordable
		t(xferLow, sendAEA, xferEB),      // rejected for its nonce, native credit, then a transfer
		t(wrongChain, sendAEA, xferEB),   // rejected for its chain id, native credit, then a transfer
		t(xferEB, sendAEA, xferA),        // executed, native credit, executed again
		// an EXECUTED OLVM transaction that only reads an account (added after a seeded change - the adapter
		// keeping read-only objects alive until the end of the block - escaped the triples above, whose first
		// transaction is either rejected or changes every account it loads)
		t(callRevert, sendAStore, callOK), // the contract is loaded and left clean by a reverted call, natively credited, then written by a call
		t(xferZeroEB, sendAEB, xferEB),    // the recipient is loaded by a zero-value transfer, natively credited, then credited through the EVM
	}
}

// factoryEvents: value that moves INSIDE one transaction. The factory contract forwards 1 OLT of the 3 OLT it is
// called with to the address its next CREATE will produce and then creates a child there with an endowment
// of 2 OLT; the child's init code reverts (the endowment stays with the factory) or returns (the child ends
// with 3 OLT). "The transferred value to the recipient" then has three recipients, one of them re-created in
// a frame that may be rolled back. (Added after a seeded change - an in-place addition on a number shared by
// the old and the re-created account object - was caught by the adapter check C16 only.)
var (
	mkFactory     = op{Kind: "create-factory", From: "EA"}
	factoryRevert = op{Kind: "factory-child-reverts", From: "EA"}
	factoryOK     = op{Kind: "factory-child-ok", From: "EA"}
)

func factoryEvents() []event {
	return []event{
		{Ops: []op{mkFactory}},
		{Ops: []op{factoryRevert}},
		{Ops: []op{factoryOK}},
		{Ops: []op{mkFactory, factoryRevert}},
		{Ops: []op{factoryRevert, factoryOK}},
	}
}

// lateEvents: the events the quick tier tries in the first two blocks of a history only.
func lateEvents() int { return len(triples()) + len(factoryEvents()) }

func events() []event {
	return append(append(append(singles(), pairs()...), triples()...), factoryEvents()...)
}
