package c17

import (
	"bytes"
	"crypto/sha256"
	"encoding/hex"
	"encoding/json"
	"fmt"
	"io"
	"io/ioutil"
	"math/big"
	"sort"
	"strings"

	ethcmn "github.com/ethereum/go-ethereum/common"
	ethcrypto "github.com/ethereum/go-ethereum/crypto"
	tmtypes "github.com/tendermint/tendermint/types"

	"github.com/Oneledger/protocol/consensus"
	"github.com/Oneledger/protocol/data/balance"
	"github.com/Oneledger/protocol/data/evm"
	"github.com/Oneledger/protocol/data/fees"
	"github.com/Oneledger/protocol/data/keys"
	"github.com/Oneledger/protocol/log"
	"github.com/Oneledger/protocol/storage"
	"github.com/Oneledger/protocol/vm"

	"verif/explore"
	"verif/harness"
	"verif/txs/xch"
)

const quietBlocks = 1

var (
	gwei   = big.NewInt(1000000000)
	oneOLT = new(big.Int).Exp(big.NewInt(10), big.NewInt(18), nil)
)

func olt(n int64) *big.Int { return new(big.Int).Mul(big.NewInt(n), oneOLT) }

// poorGas is the gas limit of the poor account's transfers; poorFunds its genesis balance: exactly the
// cost (value + gas limit x price) of the "poor-exact" transfer of 1 OLT.
const poorGas = 30000

var poorFunds = new(big.Int).Add(olt(1), new(big.Int).Mul(big.NewInt(poorGas), gwei))

func world() (*harness.World, *harness.Account, keys.Address) {
	w := harness.NewWorld("c17", 4, 3)
	ec := harness.NewEthAccount("c17-poor")
	w.PoolBalances = append(w.PoolBalances, consensus.BalanceState{Address: ec.Addr, Currency: "OLT", Amount: *balance.NewAmountFromBigInt(poorFunds)})
	fresh := keys.Address(ethcmn.HexToAddress("0x00000000000000000000000000000000000F4E54").Bytes())
	return w, ec, fresh
}

// view is what one account looks like through both doors.
type view struct {
	NatBal, EvmBal     *big.Int
	NatNonce, EvmNonce uint64
}

// snap is the tracked part of a state.
type snap struct {
	Acc  map[string]view // by text address
	Pool *big.Int        // fee pool record
}

var discard = log.NewLoggerWithPrefix(ioutil.Discard, "c17")

var oltCurrencies = func() *balance.CurrencySet {
	cs := balance.NewCurrencySet()
	if err := cs.Register(harness.OLT); err != nil {
		panic(err)
	}
	return cs
}()

func addrText(a []byte) string { return "0lt" + hex.EncodeToString(a) }

// takeSnap reads the tracked accounts from st: natively (balance store record, keeper record) and
// through a FRESH instance of the EVM state adapter bound to the same state (vm.CommitStateDB over
// the account keeper and contract store) - the application's own adapter object is not touched, so
// probing cannot perturb its object cache; a stale cache inside the application shows up in the
// effect checks instead (the reference ledger predicts every balance exactly).
func takeSnap(st *storage.State, addrs []keys.Address) (*snap, error) {
	s := &snap{Acc: map[string]view{}}
	bs := balance.NewStore("b", st)
	keeper := balance.NewNesterAccountKeeper(st, balance.NewStore("b", st), oltCurrencies)
	sdb := vm.NewCommitStateDB(evm.NewContractStore(st), keeper, discard)
	cur := harness.OLT
	for _, a := range addrs {
		var v view
		c, err := bs.GetBalanceForCurr(a, &cur)
		if err != nil {
			return nil, err
		}
		v.NatBal = new(big.Int).Set(c.Amount.BigInt())
		raw, _ := st.Get(append(storage.Prefix("keeper"), a.Bytes()...))
		if len(raw) > 0 {
			var rec struct {
				Sequence uint64 `json:"sequence"`
			}
			if err := json.Unmarshal(raw, &rec); err != nil {
				return nil, fmt.Errorf("keeper record of %s: %v", a, err)
			}
			v.NatNonce = rec.Sequence
		}
		ea := ethcmn.BytesToAddress(a.Bytes())
		v.EvmBal = new(big.Int).Set(sdb.GetBalance(ea))
		v.EvmNonce = sdb.GetNonce(ea)
		s.Acc[addrText(a)] = v
	}
	fs := fees.NewStore("f", st)
	fs.SetupOpt(&fees.FeeOption{FeeCurrency: harness.OLT, MinFeeDecimal: 9})
	pc, err := fs.Get([]byte(fees.POOL_KEY))
	if err != nil {
		return nil, err
	}
	s.Pool = new(big.Int).Set(pc.Amount.BigInt())
	return s, nil
}

// built is an operation instantiated against the model.
type built struct {
	op     op
	spec   *harness.TxSpec
	raw    []byte
	from   keys.Address
	to     keys.Address // recipient (the predicted contract address for a creation)
	value  *big.Int
	olvm   bool
	skip   bool // degenerate in this state (nonce-1 at nonce 0, nothing to resubmit)
	dup    bool
	kills  bool   // the call hits the deployed kill contract
	child  keys.Address // factory call: the address named in the call data (= the predicted address of the creation)
	fact   int    // call of the deployed factory contract: 1 = the child's init code reverts, 2 = it returns
	expect string // executes | fails-precheck (what the reference model demands where the statement decides it)
}

type runner struct {
	w        *harness.World
	x        *harness.Run
	ec       *harness.Account
	fresh    keys.Address
	roles    map[string]string
	track    []keys.Address
	store    keys.Address // deployed store contract (nil if none)
	killc    keys.Address // deployed kill contract (nil if none / destroyed)
	factory  keys.Address // deployed factory contract (nil if none)
	last     *built       // EA's last executed OLVM transaction
	seq      int
	info     map[string]int64
	tags     map[string]bool
	viol     []explore.BFSViol
	seen     map[string]bool
	nontriv  bool
	log      io.Writer
	prevDump []harness.KV
}

func (r *runner) count(k string) { r.info[k]++ }

func (r *runner) violate(sig, what string) {
	if r.seen[sig] {
		return
	}
	r.seen[sig] = true
	r.viol = append(r.viol, explore.BFSViol{Sig: sig, What: what})
	if r.log != nil {
		fmt.Fprintf(r.log, "    VIOLATED %s -- %s\n", sig, what)
	}
}

func newRunner(logw io.Writer) (*runner, error) {
	w, ec, fresh := world()
	x, err := harness.StartRun(w)
	if err != nil {
		return nil, err
	}
	r := &runner{w: w, x: x, ec: ec, fresh: fresh, roles: map[string]string{}, info: map[string]int64{}, tags: map[string]bool{}, seen: map[string]bool{}, log: logw}
	for name, a := range map[string]keys.Address{"A": w.Users[0].Addr, "B": w.Users[1].Addr, "EA": w.EthUsers[0].Addr, "EB": w.EthUsers[1].Addr, "EC": ec.Addr, "F": fresh} {
		r.roles[addrText(a)] = name
	}
	r.track = []keys.Address{w.Users[0].Addr, w.Users[1].Addr, w.EthUsers[0].Addr, w.EthUsers[1].Addr, ec.Addr, fresh}
	// one empty block first: OLVM is switched on by BeginBlock(1), and CheckTx looks at the previous header
	if _, err := x.BlockAt(harness.BlockSpec{}, false, nil); err != nil {
		x.Close()
		return nil, err
	}
	r.prevDump = x.R.Dump()
	return r, nil
}

func (r *runner) tracked(a keys.Address, role string) {
	for _, t := range r.track {
		if t.Equal(a) {
			return
		}
	}
	r.track = append(r.track, a)
	if _, ok := r.roles[addrText(a)]; !ok {
		r.roles[addrText(a)] = role
	}
}

func (r *runner) acct(name string) *harness.Account {
	switch name {
	case "A":
		return r.w.Users[0]
	case "B":
		return r.w.Users[1]
	case "EA":
		return r.w.EthUsers[0]
	case "EB":
		return r.w.EthUsers[1]
	case "EC":
		return r.ec
	}
	panic(name)
}

// build instantiates the block's operations. pred carries the nonce the sender is predicted to have
// after the earlier operations of the same block.
func (r *runner) build(ev event, committed *snap) []*built {
	pred := map[string]uint64{}
	nonceOf := func(a *harness.Account) uint64 {
		k := addrText(a.Addr)
		if n, ok := pred[k]; ok {
			return n
		}
		return committed.Acc[k].NatNonce
	}
	store, killc, factory := r.store, r.killc, r.factory
	var out []*built
	zero := harness.Amt("0")
	for _, o := range ev.Ops {
		r.seq++
		b := &built{op: o, value: new(big.Int)}
		switch o.Kind {
		case "native-send":
			from := r.acct(o.From)
			var to keys.Address
			if o.To == "STORE" {
				to = store
				if to == nil {
					ea := r.acct("EA")
					to = keys.Address(xch.ContractAddr(ea, nonceOf(ea)).Bytes())
				}
				r.tracked(to, "contract-address")
			} else {
				to = r.acct(o.To).Addr
			}
			b.from, b.to, b.value = from.Addr, to, olt(1)
			b.spec = harness.Send(from, to, harness.Coin("OLT", harness.OLTUnits(1)), fmt.Sprintf("m%d", r.seq))
		case "resubmit":
			src := r.last
			if len(out) > 0 && out[len(out)-1].olvm && !out[len(out)-1].skip && !out[len(out)-1].dup {
				src = out[len(out)-1] // the transaction just before, in this very block
			}
			if src == nil {
				b.skip = true
				break
			}
			// the byte-identical transaction once more
			b.olvm, b.dup = true, true
			b.from, b.to, b.value, b.spec, b.raw = src.from, src.to, src.value, src.spec, src.raw
			b.expect = "fails-precheck"
		default:
			from := r.acct(o.From)
			n := nonceOf(from)
			b.olvm, b.from = true, from.Addr
			b.expect = "executes"
			switch {
			case o.Nonce < 0 && n == 0:
				b.skip = true
			case o.Nonce < 0:
				n--
				b.expect = "fails-precheck"
			default:
				n += uint64(o.Nonce)
			}
			if b.skip {
				break
			}
			gas := int64(0)
			switch o.Kind {
			case "transfer", "transfer-zero":
				var to keys.Address
				if o.To == "F" {
					to = r.fresh
				} else {
					to = r.acct(o.To).Addr
				}
				b.to, b.value = to, olt(3)
				amt := harness.OLTUnits(3)
				if o.Kind == "transfer-zero" {
					b.value, amt = new(big.Int), zero
				}
				b.spec = xch.OLVMSend(r.w, from, to, n, amt)
			case "wrong-chain":
				to := r.acct(o.To).Addr
				b.to, b.value = to, olt(3)
				b.spec = xch.OLVM(from, from.Addr, &to, n, harness.Coin("OLT", harness.OLTUnits(3)), nil, big.NewInt(1), "")
				b.expect = "fails-precheck"
			case "poor-below", "poor-exact":
				to := r.acct(o.To).Addr
				v := new(big.Int).Set(olt(1))
				if o.Kind == "poor-below" {
					v.Add(v, big.NewInt(1)) // cost = genesis balance + 1
				}
				b.to, b.value = to, v
				b.spec = xch.OLVMSend(r.w, from, to, n, *balance.NewAmountFromBigInt(v))
				gas = poorGas
				have := new(big.Int).Set(committed.Acc[addrText(from.Addr)].NatBal)
				for _, e := range out {
					if e.from.Equal(from.Addr) && e.expect == "executes" {
						have = big.NewInt(0) // spent earlier in this block (all but the gas refund)
					}
					if !e.olvm && !e.skip && e.to.Equal(from.Addr) {
						have.Add(have, e.value) // a native credit earlier in this block (the rich sender always can)
					}
				}
				cost := new(big.Int).Add(v, new(big.Int).Mul(big.NewInt(poorGas), gwei))
				if have.Cmp(cost) < 0 {
					b.expect = "fails-precheck"
				}
			case "create-empty-lowgas":
				addr := keys.Address(xch.ContractAddr(from, nonceOf(from)).Bytes())
				b.to = addr
				r.tracked(addr, "contract-address")
				b.spec = xch.OLVMCreate(r.w, from, n, zero, nil)
				gas = 40000
				b.expect = "fails-precheck"
			case "create-store", "create-kill":
				code, val := xch.InitCode(storeClearRuntime), zero
				if o.Kind == "create-kill" {
					code, val = xch.InitCode(xch.KillRuntime), harness.OLTUnits(2)
					b.value = olt(2)
				}
				// the EVM derives the address from the STATE nonce
				addr := keys.Address(xch.ContractAddr(from, nonceOf(from)).Bytes())
				b.to = addr
				r.tracked(addr, "contract-address")
				b.spec = xch.OLVMCreate(r.w, from, n, val, code)
				if o.Kind == "create-store" {
					store = addr
				} else {
					killc = addr
				}
			case "call-ok", "call-revert", "call-oog":
				to := store
				if to == nil {
					to = keys.Address(xch.ContractAddr(from, nonceOf(from)).Bytes()) // nothing there: a call without code
				}
				r.tracked(to, "contract-address")
				arg, val := xch.Word(7), zero
				switch o.Kind {
				case "call-revert":
					arg, val = xch.Word(0), harness.OLTUnits(1)
					b.value = olt(1)
				case "call-oog":
					arg, val = xch.Word(9), harness.OLTUnits(1)
					b.value = olt(1)
					gas = 22000
				}
				b.to = to
				b.spec = xch.OLVMCall(r.w, from, ethcmn.BytesToAddress(to), n, val, arg)
			case "create-factory":
				addr := keys.Address(xch.ContractAddr(from, nonceOf(from)).Bytes())
				b.to = addr
				r.tracked(addr, "contract-address")
				b.spec = xch.OLVMCreate(r.w, from, n, zero, xch.InitCode(factoryRuntime))
				factory = addr
			case "factory-child-reverts", "factory-child-ok":
				if factory == nil {
					b.skip = true // no factory deployed (or deployed by this very block: its address is tracked from now on)
					break
				}
				b.fact = 1
				mode := int64(0)
				if o.Kind == "factory-child-ok" {
					b.fact, mode = 2, 1
				}
				// the addresses the factory's next creations can get: whatever its nonce is by then, the
				// address really used is among the tracked ones (the effect check reads the nonce it had)
				fn := committed.Acc[addrText(factory)].NatNonce
				if fn == 0 {
					fn = 1 // deployed by this very block: a contract starts with nonce 1
				}
				for k := uint64(0); k < 4; k++ {
					r.tracked(keys.Address(ethcrypto.CreateAddress(ethcmn.BytesToAddress(factory), fn+k).Bytes()), "contract-address")
				}
				used := uint64(0)
				for _, e := range out {
					if e.fact > 0 && !e.skip {
						used++
					}
				}
				child := ethcrypto.CreateAddress(ethcmn.BytesToAddress(factory), fn+used)
				b.to, b.value = factory, olt(3)
				b.spec = xch.OLVMCall(r.w, from, ethcmn.BytesToAddress(factory), n, harness.OLTUnits(3), append(ethcmn.LeftPadBytes(child.Bytes(), 32), xch.Word(mode)...))
				b.child = keys.Address(child.Bytes())
			case "kill":
				to := killc
				b.kills = to != nil
				if to == nil {
					to = keys.Address(xch.ContractAddr(from, nonceOf(from)).Bytes())
				}
				killc = nil
				r.tracked(to, "contract-address")
				b.to = to
				b.spec = xch.OLVMCall(r.w, from, ethcmn.BytesToAddress(to), n, zero, nil)
			default:
				panic(o.Kind)
			}
			if b.skip || b.spec == nil {
				b.skip = true // degenerate in this state (e.g. a factory call without a deployed factory)
				break
			}
			if gas > 0 {
				b.spec.Fee.Gas = gas
			}
			if gas != poorGas {
				// every transaction of a history gets its own gas limit: OLVM transactions have no free
				// memo, and two transactions equal in every field would be ONE transaction to the node
				// (only the explicit resubmit operation wants that)
				b.spec.Fee.Gas += int64(r.seq)
			}
			if b.expect == "executes" {
				pred[addrText(from.Addr)] = nonceOf(from) + 1
			}
		}
		if b.spec != nil && b.raw == nil {
			b.raw = b.spec.Bytes()
		}
		out = append(out, b)
	}
	return out
}

// factoryRuntime: call(gas, calldata[0:32], 1 OLT); then create(2 OLT, init) where init is
// "PUSH1 0 PUSH1 0 REVERT" if calldata[32:64] == 0 and "PUSH1 0 PUSH1 0 RETURN" if it is 1.
var factoryRuntime = []byte{
	0x60, 0x00, 0x60, 0x00, 0x60, 0x00, 0x60, 0x00, // out size, out offset, in size, in offset
	0x67, 0x0d, 0xe0, 0xb6, 0xb3, 0xa7, 0x64, 0x00, 0x00, // PUSH8 1 OLT
	0x60, 0x00, 0x35, // calldata[0:32]: the recipient
	0x5a, 0xf1, 0x50, // GAS CALL POP
	0x60, 0x20, 0x35, // mode
	0x60, 0x0a, 0x02, // mode * 10
	0x60, 0xfd, 0x03, // 0xfd - mode*10 : REVERT (0xfd) or RETURN (0xf3)
	0x64, 0x60, 0x00, 0x60, 0x00, 0x00, // PUSH5 "PUSH1 0 PUSH1 0 <00>"
	0x01,             // ADD: the init code, right-aligned in the word
	0x60, 0x00, 0x52, // MSTORE at 0 -> memory[27:32]
	0x60, 0x05, 0x60, 0x1b, // size 5, offset 27
	0x67, 0x1b, 0xc1, 0x6d, 0x67, 0x4e, 0xc8, 0x00, 0x00, // PUSH8 2 OLT
	0xf0, 0x50, // CREATE POP
	0x00,
}

func (r *runner) role(a string) string {
	if x, ok := r.roles[a]; ok {
		return x
	}
	return "other"
}

// storeClearRuntime is xch.StoreRuntime with one more store: a call with a non-zero word v sets storage[0] = v
// AND clears storage[1] (which the init code set to 42). The FIRST successful call after the deployment
// therefore earns a storage gas refund, later ones do not - so the alphabet covers executions with and
// without a refund without growing. (Added after a seeded change - the refund handed to the sender but not
// deducted from the gas used that is reported and charged to the fee pool - escaped the refund-free alphabet.)
//
//	v := calldata[0:32]; if v == 0 { revert(0,0) }; storage[0] = v; storage[1] = 0; log0(v); stop
var storeClearRuntime = []byte{
	0x60, 0x00, // 00 PUSH1 0
	0x35,       // 02 CALLDATALOAD        v
	0x80,       // 03 DUP1                v v
	0x15,       // 04 ISZERO              v (v==0)
	0x60, 0x1a, // 05 PUSH1 0x1a
	0x57,       // 07 JUMPI               v
	0x80,       // 08 DUP1                v v
	0x60, 0x00, // 09 PUSH1 0
	0x55,       // 0b SSTORE              v          storage[0]=v
	0x60, 0x00, // 0c PUSH1 0
	0x60, 0x01, // 0e PUSH1 1
	0x55,       // 10 SSTORE              v          storage[1]=0
	0x60, 0x00, // 11 PUSH1 0
	0x52,       // 13 MSTORE                         mem[0:32]=v
	0x60, 0x20, // 14 PUSH1 32
	0x60, 0x00, // 16 PUSH1 0
	0xa0,       // 18 LOG0
	0x00,       // 19 STOP
	0x5b,       // 1a JUMPDEST
	0x60, 0x00, // 1b PUSH1 0
	0x60, 0x00, // 1d PUSH1 0
	0xfd, // 1f REVERT
}

func sub(a, b *big.Int) *big.Int { return new(big.Int).Sub(a, b) }

func signWord(d *big.Int) string {
	switch d.Sign() {
	case 1:
		return "too-much"
	case -1:
		return "too-little"
	}
	return "exact"
}

// checkViews: clause 1 - both doors show the same number.
func (r *runner) checkViews(s *snap, opKind, when string) {
	var as []string
	for a := range s.Acc {
		as = append(as, a)
	}
	sort.Strings(as)
	for _, a := range as {
		v := s.Acc[a]
		r.count("views_compared")
		if v.NatBal.Cmp(v.EvmBal) != 0 {
			r.violate(fmt.Sprintf("C17|views-differ|op=%s|when=%s|field=balance|account=%s", opKind, when, roleClass(r.role(a))),
				fmt.Sprintf("balance of %s (%s): native %v, through the EVM %v", a, r.role(a), v.NatBal, v.EvmBal))
		}
		if v.NatNonce != v.EvmNonce {
			r.violate(fmt.Sprintf("C17|views-differ|op=%s|when=%s|field=nonce|account=%s", opKind, when, roleClass(r.role(a))),
				fmt.Sprintf("nonce of %s (%s): keeper record %d, through the EVM %d", a, r.role(a), v.NatNonce, v.EvmNonce))
		}
	}
}

func roleClass(role string) string {
	switch role {
	case "A", "B":
		return "native-user"
	case "EA", "EB", "EC":
		return "eth-user"
	case "F":
		return "fresh-address"
	}
	return role
}

type txStatus struct {
	found    bool
	status   string // "1" success, "0" failed, "" none
	errStr   string
	contract []byte
}

func (r *runner) statusOf(raw []byte) txStatus {
	res, err := r.x.R.Index.Get(tmtypes.Tx(raw).Hash())
	var st txStatus
	if err != nil || res == nil {
		return st
	}
	st.found = true
	for _, e := range res.Result.Events {
		for _, kv := range e.Attributes {
			switch string(kv.Key) {
			case "tx.status":
				st.status = string(kv.Value)
			case "tx.error":
				st.errStr = string(kv.Value)
			case "tx.contract":
				st.contract = append([]byte(nil), kv.Value...)
			}
		}
	}
	return st
}

// checkEffect: clauses 2 and 3 - the effect of one transaction (before -> after).
func (r *runner) checkEffect(b *built, res harness.TxRes, before, after *snap) {
	kind := b.op.Kind
	delta := func(a keys.Address) *big.Int {
		k := addrText(a)
		return sub(after.Acc[k].NatBal, before.Acc[k].NatBal)
	}
	dNonce := func(a keys.Address) int64 {
		k := addrText(a)
		return int64(after.Acc[k].NatNonce) - int64(before.Acc[k].NatNonce)
	}
	others := func(except ...keys.Address) {
		var as []string
		for a := range after.Acc {
			as = append(as, a)
		}
		sort.Strings(as)
	next:
		for _, a := range as {
			for _, e := range except {
				if e != nil && addrText(e) == a {
					continue next
				}
			}
			bv, ok := before.Acc[a]
			if !ok {
				continue
			}
			av := after.Acc[a]
			if av.NatBal.Cmp(bv.NatBal) != 0 || av.NatNonce != bv.NatNonce {
				r.violate(fmt.Sprintf("C17|bystander-changed|op=%s|account=%s", kind, roleClass(r.role(a))),
					fmt.Sprintf("%s (%s) is neither sender nor recipient of the transaction but changed: balance %v -> %v, nonce %d -> %d", a, r.role(a), bv.NatBal, av.NatBal, bv.NatNonce, av.NatNonce))
			}
		}
	}
	if !b.olvm {
		// native transaction: only the equality of the views is C17's business (checked by the caller)
		if res.Code == 0 {
			r.count("accepted." + kind)
		} else {
			r.count("rejected." + kind)
		}
		return
	}
	executed := res.Code == 0 && !b.dup
	if b.dup {
		// DeliverTx answers a transaction it finds in the node's index with the recorded response (code 0)
		// without executing it; whether a byte-identical transaction was executed AGAIN is decided by its
		// effect. At-most-once execution is property C05's subject: C17 only demands that whatever
		// executes is accounted exactly, so a re-execution is counted and tagged, not judged here.
		r.count("resubmission_byte_identical")
		if dNonce(b.from) != 0 {
			executed = true
			r.count("resubmission_executed_again")
			r.tags["byte-identical-olvm-tx-executed-twice"] = true
		}
	}
	if executed {
		r.count("accepted." + kind)
	} else {
		r.count("rejected." + kind)
	}
	if !executed {
		// (3) a transaction that fails its consensus pre-checks changes nothing
		r.count("clause.precheck_failed")
		r.nontriv = true
		if after.Pool.Cmp(before.Pool) != 0 {
			r.violate(fmt.Sprintf("C17|failed-precheck-has-effect|op=%s|field=fee-pool", kind), fmt.Sprintf("fee pool %v -> %v", before.Pool, after.Pool))
		}
		if d := delta(b.from); d.Sign() != 0 {
			r.violate(fmt.Sprintf("C17|failed-precheck-has-effect|op=%s|field=sender-balance", kind), fmt.Sprintf("sender balance changed by %v", d))
		}
		if dNonce(b.from) != 0 {
			r.violate(fmt.Sprintf("C17|failed-precheck-has-effect|op=%s|field=sender-nonce", kind), fmt.Sprintf("sender nonce changed by %d", dNonce(b.from)))
		}
		others(b.from)
		if b.expect == "executes" {
			r.count("expected_to_execute_but_rejected." + kind)
		}
		return
	}
	// (2) executed, successful or reverted
	r.count("clause.executed")
	r.nontriv = true
	if b.expect == "fails-precheck" && !b.dup {
		r.violate(fmt.Sprintf("C17|executed-despite-failing-precheck|op=%s", kind), "the reference model says this transaction fails a consensus pre-check (nonce below the state nonce / cost above the balance / foreign chain id) but it was executed")
	}
	st := r.statusOf(b.raw)
	ok := st.status == "1"
	if ok {
		r.count("executed.success")
	} else {
		r.count("executed.reverted_or_failed")
		r.tags["vm-error:"+st.errStr] = true
	}
	fee := new(big.Int).Mul(big.NewInt(res.GasUsed), b.spec.Fee.Price.Value.BigInt())
	// value actually transferred
	moved := new(big.Int)
	if ok {
		moved.Set(b.value)
	}
	wantSender := new(big.Int).Neg(new(big.Int).Add(fee, moved))
	wantRecipient := new(big.Int).Set(moved)
	selfSend := b.to != nil && b.to.Equal(b.from)
	if b.kills && ok {
		// the tiny contract pays its whole balance to the caller and disappears
		k := before.Acc[addrText(b.to)].NatBal
		wantSender.Add(wantSender, k)
		wantRecipient.Sub(wantRecipient, k)
		if k.Sign() > 0 {
			r.count("selfdestruct_with_balance")
		}
	}
	var extra []keys.Address
	if b.fact > 0 && ok {
		// 1 OLT goes to the address named in the call data; the creation (at the address derived from the
		// factory's nonce BEFORE the transaction) keeps its endowment of 2 OLT iff its init code returned
		created := keys.Address(ethcrypto.CreateAddress(ethcmn.BytesToAddress(b.to), before.Acc[addrText(b.to)].NatNonce).Bytes())
		want := map[string]*big.Int{addrText(b.child): olt(1)}
		wantRecipient.Sub(wantRecipient, olt(1))
		if b.fact == 2 {
			wantRecipient.Sub(wantRecipient, olt(2))
			if w, ok := want[addrText(created)]; ok {
				w.Add(w, olt(2))
			} else {
				want[addrText(created)] = olt(2)
			}
		}
		r.count("factory_call_executed")
		if !created.Equal(b.child) {
			r.count("factory_call_forwarded_to_another_address_than_the_creation")
		}
		for _, a := range []keys.Address{b.child, created} {
			extra = append(extra, a)
			if _, tracked := after.Acc[addrText(a)]; !tracked {
				r.count("factory_address_not_tracked")
				continue
			}
			if d := sub(delta(a), want[addrText(a)]); d.Sign() != 0 {
				r.violate(fmt.Sprintf("C17|recipient-credit|op=%s|status=%s|inner-recipient-gets-%s", kind, statusText(ok), signWord(d)),
					fmt.Sprintf("%s (address of the factory's creation / named in the call data) changed by %v, expected %v", addrText(a), delta(a), want[addrText(a)]))
			}
		}
	}
	if selfSend {
		wantSender.Add(wantSender, wantRecipient)
	}
	statusWord := "reverted"
	if ok {
		statusWord = "ok"
	}
	if d := sub(delta(b.from), wantSender); d.Sign() != 0 {
		r.violate(fmt.Sprintf("C17|sender-debit|op=%s|status=%s|sender-ends-with-%s", kind, statusWord, signWord(d)),
			fmt.Sprintf("sender balance changed by %v, expected -(gasUsed %d x price + value moved %v) = %v", delta(b.from), res.GasUsed, moved, wantSender))
	}
	if d := sub(sub(after.Pool, before.Pool), fee); d.Sign() != 0 {
		r.violate(fmt.Sprintf("C17|fee-pool-credit|op=%s|status=%s|pool-gets-%s", kind, statusWord, signWord(d)),
			fmt.Sprintf("fee pool changed by %v, expected gasUsed %d x price = %v", sub(after.Pool, before.Pool), res.GasUsed, fee))
	}
	if b.to != nil && !selfSend {
		if d := sub(delta(b.to), wantRecipient); d.Sign() != 0 {
			r.violate(fmt.Sprintf("C17|recipient-credit|op=%s|status=%s|recipient-gets-%s", kind, statusWord, signWord(d)),
				fmt.Sprintf("recipient balance changed by %v, expected %v", delta(b.to), wantRecipient))
		}
	}
	if dn := dNonce(b.from); dn != 1 {
		r.violate(fmt.Sprintf("C17|nonce-step|op=%s|status=%s|delta=%d", kind, statusWord, dn), fmt.Sprintf("sender nonce changed by %d", dn))
	}
	if b.op.Nonce > 0 {
		r.count("executed_with_nonce_gap")
	}
	if strings.HasPrefix(kind, "create") && ok {
		r.count("contract_created")
		if st.contract != nil && !bytes.Equal(st.contract, b.to.Bytes()) {
			r.violate(fmt.Sprintf("C17|contract-address|op=%s", kind), fmt.Sprintf("contract created at %x, reference says %x", st.contract, b.to.Bytes()))
		}
	}
	others(append([]keys.Address{b.from, b.to}, extra...)...)
}

func statusText(ok bool) string {
	if ok {
		return "ok"
	}
	return "reverted"
}

// block runs one event with snapshots between the consensus calls.
func (r *runner) block(ev event) error {
	committed, err := takeSnap(storage.NewState(r.x.R.App.VerifChainState()), r.track)
	if err != nil {
		return err
	}
	bs := r.build(ev, committed)
	var live []*built
	var raws [][]byte
	for _, b := range bs {
		if !b.skip {
			live = append(live, b)
			raws = append(raws, b.raw)
		} else {
			r.count("degenerate_op_skipped")
		}
	}
	req := r.x.Prepare(harness.BlockSpec{Raw: raws})
	snaps := make([]*snap, len(live)+1)
	var serr error
	res := r.x.R.ExecBlock(req, false, func(g harness.Gap) bool {
		if g.Pos >= 1 && g.Pos <= 1+len(live) {
			s, err := takeSnap(r.x.R.App.VerifDeliverState(), r.track)
			if err != nil {
				serr = err
			}
			snaps[g.Pos-1] = s
		}
		return true
	})
	if serr != nil {
		return serr
	}
	if res == nil || r.x.R.Dead {
		return fmt.Errorf("application died")
	}
	if err := r.x.Finish(res); err != nil {
		return fmt.Errorf("chain halted: %v", err)
	}
	// BeginBlock must not move tracked balances
	r.checkViews(snaps[0], "begin-block", "after-begin-block")
	for i, b := range live {
		if r.log != nil {
			chk := r.x.Checks[len(r.x.Checks)-1][i]
			fmt.Fprintf(r.log, "  h=%d %-28s check=%d deliver=%d gasUsed=%d %s\n", res.Height, b.op.name(), chk.Code, res.Txs[i].Code, res.Txs[i].GasUsed, res.Txs[i].Log)
		}
		r.checkViews(snaps[i+1], b.op.Kind, "after-tx")
		r.checkEffect(b, res.Txs[i], snaps[i], snaps[i+1])
		// bookkeeping of the reference model
		if b.olvm && res.Txs[i].Code == 0 && (!b.dup || snaps[i+1].Acc[addrText(b.from)].NatNonce != snaps[i].Acc[addrText(b.from)].NatNonce) {
			st := r.statusOf(b.raw)
			if b.from.Equal(r.acct("EA").Addr) && !b.dup {
				r.last = b
			}
			if st.status == "1" {
				switch b.op.Kind {
				case "create-store":
					r.store = b.to
				case "create-kill":
					r.killc = b.to
				case "create-factory":
					r.factory = b.to
				case "kill":
					if r.killc != nil && b.to.Equal(r.killc) {
						r.killc = nil
					}
				}
			}
		}
	}
	// after the block: committed state, both views again, and nothing moved between the last
	// transaction and the commit
	end, err := takeSnap(storage.NewState(r.x.R.App.VerifChainState()), r.track)
	if err != nil {
		return err
	}
	r.checkViews(end, lastKind(live), "after-block")
	last := snaps[len(live)]
	var as []string
	for a := range end.Acc {
		as = append(as, a)
	}
	sort.Strings(as)
	for _, a := range as {
		if lv, ok := last.Acc[a]; ok && (lv.NatBal.Cmp(end.Acc[a].NatBal) != 0 || lv.NatNonce != end.Acc[a].NatNonce) {
			r.violate(fmt.Sprintf("C17|changed-between-last-tx-and-commit|op=%s|account=%s", lastKind(live), roleClass(r.role(a))),
				fmt.Sprintf("%s: balance %v after the last transaction, %v committed", a, lv.NatBal, end.Acc[a].NatBal))
		}
	}
	// a block whose OLVM transactions all failed their pre-checks (and that holds nothing else) leaves
	// the account, contract and balance records exactly as they were
	dump := r.x.R.Dump()
	allFailed := len(live) > 0
	for i, b := range live {
		if !b.olvm || (res.Txs[i].Code == 0 && !b.dup) {
			allFailed = false
		}
	}
	if allFailed {
		r.count("clause.block_of_failed_prechecks")
		if d := familyDiff(r.prevDump, dump); d != "" {
			r.violate(fmt.Sprintf("C17|failed-precheck-has-effect|op=%s|field=committed-record:%s", lastKind(live), d), "a block holding only OLVM transactions that failed their pre-checks changed a "+d+" record")
		}
	}
	r.prevDump = dump
	if r.log != nil {
		fmt.Fprintf(r.log, "  h=%d %s\n", res.Height, r.describe(end))
	}
	return nil
}

func lastKind(bs []*built) string {
	if len(bs) == 0 {
		return "none"
	}
	return bs[len(bs)-1].op.Kind
}

// familyDiff names the first key family (b_ OLT balances, keeper_, contracts_) in which two dumps differ.
func familyDiff(a, b []harness.KV) string {
	pick := func(d []harness.KV, fam string) map[string]string {
		m := map[string]string{}
		for _, kv := range d {
			k := string(kv.K)
			if strings.HasPrefix(k, fam) && (fam != "b_" || strings.HasSuffix(k, "_OLT")) {
				m[k] = string(kv.V)
			}
		}
		return m
	}
	for _, fam := range []string{"b_", "keeper_", "contracts_"} {
		x, y := pick(a, fam), pick(b, fam)
		if len(x) != len(y) {
			return fam
		}
		for k, v := range x {
			if y[k] != v {
				return fam
			}
		}
	}
	return ""
}

func (r *runner) describe(s *snap) string {
	var parts []string
	var as []string
	for a := range s.Acc {
		as = append(as, a)
	}
	sort.Strings(as)
	for _, a := range as {
		v := s.Acc[a]
		parts = append(parts, fmt.Sprintf("%s{bal=%v nonce=%d}", r.role(a), v.NatBal, v.NatNonce))
	}
	return strings.Join(parts, " ") + fmt.Sprintf(" pool=%v", s.Pool)
}

// stateKey: the committed state projected onto what can influence or be observed by C17 within the
// bounds, plus the reference model's own memory. Kept: every keeper_ record (nonces, code hashes), every
// contracts_ record (code, storage), the balances of the SMALL accounts (the poor account, the fresh
// address, contract addresses). Dropped: the balances of the rich accounts (10^9 OLT each against at
// most a few OLT moved per history: no sufficiency check can flip), fee-pool shares, rewards, vote and
// validator bookkeeping (none of them is read by a SEND or an OLVM transaction).
func (r *runner) stateKey(dump []harness.KV) string {
	small := map[string]bool{}
	for _, a := range r.track {
		switch r.role(addrText(a)) {
		case "A", "B", "EA", "EB":
		default:
			small["b_"+addrText(a)+"_OLT"] = true
		}
	}
	h := sha256.New()
	for _, kv := range dump {
		k := string(kv.K)
		if strings.HasPrefix(k, "keeper_") || strings.HasPrefix(k, "contracts_") || small[k] {
			fmt.Fprintf(h, "%d:%s=%d:%s;", len(kv.K), kv.K, len(kv.V), kv.V)
		}
	}
	fmt.Fprintf(h, "|store=%x|kill=%x|factory=%x|last=%v", r.store, r.killc, r.factory, r.last != nil)
	return hex.EncodeToString(h.Sum(nil)[:14])
}

func execHist(h []int, logw io.Writer) explore.BFSOut {
	evs := events()
	for _, e := range h {
		if e < 0 || e >= len(evs) {
			return explore.BFSOut{Err: fmt.Sprintf("event index %d out of range", e)}
		}
	}
	r, err := newRunner(logw)
	if err != nil {
		return explore.BFSOut{Err: err.Error()}
	}
	defer r.x.Close()
	for _, e := range h {
		if err := r.block(evs[e]); err != nil {
			return explore.BFSOut{Err: err.Error()}
		}
	}
	key := r.stateKey(r.prevDump)
	for i := 0; i < quietBlocks; i++ {
		if err := r.block(event{}); err != nil {
			return explore.BFSOut{Err: err.Error()}
		}
	}
	out := explore.BFSOut{Key: key, Viol: r.viol, Info: r.info}
	out.Info["executions"] = 1
	if r.nontriv {
		out.Info["nontrivial_executions"] = 1
	}
	if len(h) > 0 {
		last := h[len(h)-1]
		res := r.x.Results[len(h)]
		ok := len(res.Txs) > 0
		for _, t := range res.Txs {
			if t.Code != 0 {
				ok = false
			}
		}
		if ok {
			out.Info[fmt.Sprintf("event_accepted.%02d", last)] = 1
		}
	}
	for t := range r.tags {
		out.Tags = append(out.Tags, t)
	}
	sort.Strings(out.Tags)
	return out
}
