package c20

import (
	"fmt"
	"math/big"

	"github.com/Oneledger/protocol/action"
	"github.com/Oneledger/protocol/data/governance"
	"github.com/Oneledger/protocol/data/keys"

	"verif/harness"
	"verif/txs/gov"
)

const (
	warmup          = 2 // validator status records (needed by the price-change macro-operation) appear at EndBlock(2)
	extensionBlocks = 2 // quiet blocks appended to every history, oracle still on (nothing happens to names by itself: expiry is lazy)
)

// PriceChangePayload is the configuration change of the price-change macro-operation: the per-block
// fee doubles from 1 to 2 OLT, so that afterwards odd payments leave a remainder (floor).
const PriceChangePayload = "onsOptions.perBlockFees:2000000000000000000"

// World: users A, B, C; ONS options base price 10 OLT, 1 OLT per block, first level "ol".
func World() *harness.World { return harness.NewWorld("c20", 4, 3) }

var propID = gov.PID("c20-price-change")

const (
	nameA = "a.ol"
	nameB = "b.a.ol"
	nameC = "c.a.ol" // a second sub-name: sorts after b.a.ol in the store's (reversed-name) key order
	// another TOP-LEVEL name, of another owner, whose label ENDS with the label of a.ol: in the store's
	// reversed-name key order it lies right behind a.ol's sub-names ("lo.a." < "lo.ab" < "lo.a~")
	nameD = "ba.ol"
	// a name that differs from a.ol in the CASE of a letter only (the name pattern admits upper-case letters): it
	// is another name, with another key - unless some layer normalises the spelling and another does not
	nameE = "A.ol"
)

type opKind int

const (
	opCreate opKind = iota
	opUpdate
	opSell
	opPurchase
	opSend
	opRenew
	opDeleteSub
	opGov // a transaction of the price-change macro-operation (not judged by this model)
)

func (k opKind) String() string {
	return [...]string{"DOMAIN_CREATE", "DOMAIN_UPDATE", "DOMAIN_SELL", "DOMAIN_PURCHASE", "DOMAIN_SEND", "DOMAIN_RENEW", "DOMAIN_DELETE_SUB", "GOVERNANCE"}[k]
}

// op is one transaction of the alphabet in the terms of the reference registry.
type op struct {
	Name     string
	Kind     opKind
	Actor    int // user index 0=A 1=B 2=C (signer and owner/buyer/sender field)
	Domain   string
	Price    int64 // whole OLT: buying price / sale price / offering / amount / renewal payment
	Benef    int   // user index of the beneficiary / account field, -1 = nil
	Active   bool  // update
	Cancel   bool  // sell: cancel the sale
	Legit    bool
	MinDepth int
	gov      func(w *harness.World, h int64, memo string) *harness.TxSpec
	govPayer int   // validator index whose stake account pays
	govOut   int64 // whole OLT leaving the payer besides the fee
	govUser  bool  // opGov sent by user Actor instead of a validator's stake account, free of charge (PROPOSAL_FINALIZE)
}

type event struct {
	Name string
	Ops  []op
	Gov  bool // the next step of the price-change macro-operation
}

func oltAmt(n int64) action.Amount { return harness.Coin("OLT", harness.OLTUnits(n)) }

func units(n int64) *big.Int { a := harness.OLTUnits(n); return new(big.Int).Set(a.BigInt()) }

func (o op) benefAddr(w *harness.World) keys.Address {
	if o.Benef < 0 {
		return nil
	}
	return w.Users[o.Benef].Addr
}

func (o op) build(w *harness.World, h int64, memo string) *harness.TxSpec {
	u := w.Users[o.Actor%len(w.Users)]
	switch o.Kind {
	case opCreate:
		return gov.DomainCreate(u, o.benefAddr(w), o.Domain, "", oltAmt(o.Price), memo)
	case opUpdate:
		return gov.DomainUpdate(u, o.benefAddr(w), o.Domain, o.Active, "", memo)
	case opSell:
		return gov.DomainSell(u, o.Domain, oltAmt(o.Price), o.Cancel, memo)
	case opPurchase:
		return gov.DomainPurchase(u, o.benefAddr(w), o.Domain, oltAmt(o.Price), memo)
	case opSend:
		return gov.DomainSend(u, o.Domain, oltAmt(o.Price), memo)
	case opRenew:
		return gov.DomainRenew(u, o.Domain, oltAmt(o.Price), memo)
	case opDeleteSub:
		return gov.DomainDeleteSub(u, o.Domain, memo)
	case opGov:
		return o.gov(w, h, memo)
	}
	panic("unknown op")
}

func (o op) payer(w *harness.World) *harness.Account {
	if o.Kind == opGov && !o.govUser {
		return w.Vals[o.govPayer].Stake
	}
	return w.Users[o.Actor]
}

// govStep returns the transactions of step n (0-based) of the price-change macro-operation: a
// config-update proposal is created and fully funded in one block by V1's stake account, voted YES by V1
// and V2 in the next gov-step block (5M of 6M: passed), and finalised by the block hook at the end of the
// block after that, which writes the new ONS option record. Later steps are empty blocks.
func govStep(n int) []op {
	switch n {
	case 0:
		return []op{
			{Name: "gov:create", Kind: opGov, govPayer: 0, govOut: 10, gov: func(w *harness.World, h int64, memo string) *harness.TxSpec {
				return gov.ValidCreate(w, propID, governance.ProposalTypeConfigUpdate, w.Vals[0].Stake, h, PriceChangePayload, memo)
			}},
			{Name: "gov:fund", Kind: opGov, govPayer: 0, govOut: 90, gov: func(w *harness.World, h int64, memo string) *harness.TxSpec {
				return gov.ProposalFund(propID, w.Vals[0].Stake, oltAmt(90), memo)
			}},
		}
	case 1:
		vote := func(i int) op {
			return op{Name: fmt.Sprintf("gov:vote(V%d)", i+1), Kind: opGov, govPayer: i, gov: func(w *harness.World, h int64, memo string) *harness.TxSpec {
				return gov.ProposalVote(propID, w.Vals[i].Stake, w.Vals[i].Val, governance.OPIN_POSITIVE, memo)
			}}
		}
		return []op{vote(0), vote(1)}
	}
	return nil
}

var (
	// creation: price just above the base price of 10 OLT, so names expire within 2-3 blocks (a name
	// created in block h for 10+n OLT gets expiry height h-1+n)
	oCreateA   = op{Name: "create(A,a.ol,13)", Kind: opCreate, Actor: 0, Domain: nameA, Price: 13, Benef: 0, Legit: true, MinDepth: 1}
	oCreateB   = op{Name: "create(B,a.ol,12)", Kind: opCreate, Actor: 1, Domain: nameA, Price: 12, Benef: 1, Legit: true, MinDepth: 1}
	oCreateA10 = op{Name: "create(A,a.ol,10=base)", Kind: opCreate, Actor: 0, Domain: nameA, Price: 10, Benef: 0}
	oSubA      = op{Name: "create(A,b.a.ol,11)", Kind: opCreate, Actor: 0, Domain: nameB, Price: 11, Benef: 1, Legit: true, MinDepth: 2}
	oSubC      = op{Name: "create(A,c.a.ol,11)", Kind: opCreate, Actor: 0, Domain: nameC, Price: 11, Benef: 0, Legit: true, MinDepth: 2}
	oCreateD   = op{Name: "create(C,ba.ol,40)", Kind: opCreate, Actor: 2, Domain: nameD, Price: 40, Benef: 2, Legit: true, MinDepth: 1}
	oCreateE   = op{Name: "create(C,A.ol,40)", Kind: opCreate, Actor: 2, Domain: nameE, Price: 40, Benef: 2, Legit: true, MinDepth: 1}
	oSubB      = op{Name: "create(B,b.a.ol,11)", Kind: opCreate, Actor: 1, Domain: nameB, Price: 11, Benef: 1, Legit: true, MinDepth: 2}
	oUpdA      = op{Name: "update(A,a.ol,benef=C)", Kind: opUpdate, Actor: 0, Domain: nameA, Benef: 2, Active: true, Legit: true, MinDepth: 2}
	oUpdB      = op{Name: "update(B,a.ol,benef=B)", Kind: opUpdate, Actor: 1, Domain: nameA, Benef: 1, Active: true, Legit: true, MinDepth: 2}
	oDeactA    = op{Name: "update(A,a.ol,deactivate)", Kind: opUpdate, Actor: 0, Domain: nameA, Benef: 0, Active: false, Legit: true, MinDepth: 2}
	oDeactNil  = op{Name: "update(A,a.ol,deactivate,benef=nil)", Kind: opUpdate, Actor: 0, Domain: nameA, Benef: -1, Active: false, Legit: true, MinDepth: 2}
	oUpdSubB   = op{Name: "update(B,b.a.ol,benef=B)", Kind: opUpdate, Actor: 1, Domain: nameB, Benef: 1, Active: true, Legit: true, MinDepth: 3}
	oSellA     = op{Name: "sell(A,a.ol,12)", Kind: opSell, Actor: 0, Domain: nameA, Price: 12, Legit: true, MinDepth: 2}
	oSellB     = op{Name: "sell(B,a.ol,12)", Kind: opSell, Actor: 1, Domain: nameA, Price: 12, Legit: true, MinDepth: 2}
	oCancelA   = op{Name: "cancel-sale(A,a.ol)", Kind: opSell, Actor: 0, Domain: nameA, Price: 12, Cancel: true, Legit: true, MinDepth: 2}
	// offers: 9 < base 10 < asking 12 < 14 (at perBlock 1: 2 extra blocks over asking, 4 over base)
	oBuyB9   = op{Name: "purchase(B,a.ol,9)", Kind: opPurchase, Actor: 1, Domain: nameA, Price: 9, Benef: 1}
	oBuyB10  = op{Name: "purchase(B,a.ol,10)", Kind: opPurchase, Actor: 1, Domain: nameA, Price: 10, Benef: 1, Legit: true, MinDepth: 4}
	oBuyB12  = op{Name: "purchase(B,a.ol,12)", Kind: opPurchase, Actor: 1, Domain: nameA, Price: 12, Benef: 1, Legit: true, MinDepth: 3}
	oBuyB15  = op{Name: "purchase(B,a.ol,15)", Kind: opPurchase, Actor: 1, Domain: nameA, Price: 15, Benef: 1, Legit: true, MinDepth: 3}
	oBuyA15  = op{Name: "purchase(A,a.ol,15)", Kind: opPurchase, Actor: 0, Domain: nameA, Price: 15, Benef: 0, Legit: true, MinDepth: 3}
	oBuyBNil = op{Name: "purchase(B,a.ol,15,account=nil)", Kind: opPurchase, Actor: 1, Domain: nameA, Price: 15, Benef: -1, Legit: true, MinDepth: 3}
	oBuySub  = op{Name: "purchase(B,b.a.ol,15)", Kind: opPurchase, Actor: 1, Domain: nameB, Price: 15, Benef: 1}
	oSendA   = op{Name: "send(C->a.ol,5)", Kind: opSend, Actor: 2, Domain: nameA, Price: 5, Legit: true, MinDepth: 2}
	oSendSub = op{Name: "send(C->b.a.ol,5)", Kind: opSend, Actor: 2, Domain: nameB, Price: 5, Legit: true, MinDepth: 3}
	// renewals must exceed the per-block fee; 3 and 5 OLT leave a remainder once the fee is 2 OLT
	oRenewA  = op{Name: "renew(A,a.ol,3)", Kind: opRenew, Actor: 0, Domain: nameA, Price: 3, Legit: true, MinDepth: 2}
	oRenewB  = op{Name: "renew(B,a.ol,5)", Kind: opRenew, Actor: 1, Domain: nameA, Price: 5, Legit: true, MinDepth: 2}
	oDelSubA = op{Name: "delete-sub(A,b.a.ol)", Kind: opDeleteSub, Actor: 0, Domain: nameB, Legit: true, MinDepth: 3}
	oDelSubB = op{Name: "delete-sub(B,b.a.ol)", Kind: opDeleteSub, Actor: 1, Domain: nameB, Legit: true, MinDepth: 3}
	oDelAllA = op{Name: "delete-all-subs(A,a.ol)", Kind: opDeleteSub, Actor: 0, Domain: nameA, Legit: true, MinDepth: 2}
)

// a stranger's PROPOSAL_FINALIZE for the price-change proposal: accepted once the proposal has passed (then
// it does what the block hook would do at the end of that block), refused otherwise. In one block with a
// renewal it is CHECKED (mempool) before the renewal is DELIVERED: the renewal must still use the price in force.
var oGovUserFinalize = op{Name: "gov:user-finalize(C)", Kind: opGov, Actor: 2, govUser: true, gov: func(w *harness.World, h int64, memo string) *harness.TxSpec {
	return gov.ProposalFinalize(propID, w.Users[2], memo)
}}

func single(o op) event { return event{Name: o.Name, Ops: []op{o}} }

func pair(a, b op) event { return event{Name: a.Name + "+" + b.Name, Ops: []op{a, b}} }

// Events is the alphabet; every event is one whole block.
func Events(tier string) []event {
	ev := []event{
		{Name: "empty"},
		single(oCreateA), single(oCreateB), single(oSubA), single(oSubB),
		single(oUpdA), single(oUpdB), single(oDeactA),
		single(oSellA), single(oSellB), single(oCancelA),
		single(oBuyB9), single(oBuyB10), single(oBuyB12), single(oBuyB15), single(oBuyA15),
		single(oSendA), single(oSendSub),
		single(oRenewA), single(oRenewB),
		single(oDelSubA), single(oDelSubB),
		{Name: "price-change-step", Gov: true},
		pair(oSellA, oBuyB12),    // put on sale and bought in one block
		pair(oBuyB15, oBuyA15),   // two buyers in one block
		pair(oCreateA, oCreateB), // two creators of one name in one block
		// two sub-names, and an operation on the parent in the same block in which one of them was deleted
		// (the walk over the sub-names meets a record deleted in this very block). Added after a seeded
		// change - the sub-name walk stopping at the first undecodable record - escaped the one-sub-name alphabet.
		pair(oSubA, oSubC),
		pair(oDelSubA, oRenewA),
		// (added after a seeded change - the renewal reading options cached on the shared store object, which
		// a mempool check of the finalisation updates early - escaped the alphabet)
		pair(oRenewA, oGovUserFinalize),
		// (added after a seeded change - the walk over a name's sub-names covering every name whose label ends
		// with the parent's label - escaped the alphabet with a single top-level name)
		single(oCreateD),
		// (added after a seeded change - names lower-cased when the record is written but not when its existence is
		// tested, so that creating "A.ol" overwrote a.ol - escaped the all-lower-case alphabet)
		single(oCreateE),
	}
	if tier == "thorough" {
		ev = append(ev,
			single(oCreateA10), single(oDeactNil), single(oUpdSubB), single(oBuyBNil), single(oBuySub), single(oDelAllA),
			pair(oRenewA, oSendA),
			pair(oSubA, oSendSub),
			pair(oDelSubA, oDeactA),
			pair(oDelSubA, oSellA),
		)
	}
	return ev
}

func eventNames(ev []event) []string {
	out := make([]string, len(ev))
	for i, e := range ev {
		out[i] = fmt.Sprintf("%d:%s", i, e.Name)
	}
	return out
}
