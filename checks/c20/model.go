package c20

import (
	"crypto/sha256"
	"encoding/base64"
	"encoding/binary"
	"encoding/hex"
	"encoding/json"
	"fmt"
	"math/big"
	"sort"
	"strings"

	"verif/harness"
)

// ---------------------------------------------------------------------------------------------
// Observation
// ---------------------------------------------------------------------------------------------

// dom is what the statement talks about in a domain record. Creation height, last-update height and
// URI are bookkeeping of the implementation and are not compared.
type dom struct {
	Owner  string
	Benef  string
	Expire int64
	Active bool
	OnSale bool
	Sale   *big.Int // nil if none
}

func (d *dom) String() string {
	s := "-"
	if d.Sale != nil {
		s = d.Sale.String()
	}
	return fmt.Sprintf("{owner=%s benef=%s expire=%d active=%v onsale=%v price=%s}", tail(d.Owner), tail(d.Benef), d.Expire, d.Active, d.OnSale, s)
}

func tail(a string) string {
	if len(a) > 6 {
		return ".." + a[len(a)-4:]
	}
	if a == "" {
		return "(empty)"
	}
	return a
}

func (d *dom) clone() *dom {
	c := *d
	if d.Sale != nil {
		c.Sale = new(big.Int).Set(d.Sale)
	}
	return &c
}

type obs struct {
	Height    int64
	Reg       map[string]*dom
	Bal       map[string]*big.Int
	FeeTotal  *big.Int
	Base      *big.Int // ONS options in force after this block
	PerBlock  *big.Int
	OnsRecord string
	PropKeys  string // digest of all proposal-family records (progress of the price-change macro-operation)
	Finalized bool   // a finalized proposal record exists
}

func amountOf(v []byte) (*big.Int, bool) {
	var s string
	if err := json.Unmarshal(v, &s); err != nil {
		return nil, false
	}
	return new(big.Int).SetString(s, 10)
}

// normAddr: an empty address is serialised as the bare prefix "0lt".
func normAddr(a string) string {
	if a == "0lt" {
		return ""
	}
	return a
}

func reverse(s string) string {
	r := []rune(s)
	for i, j := 0, len(r)-1; i < j; i, j = i+1, j-1 {
		r[i], r[j] = r[j], r[i]
	}
	return string(r)
}

func observe(height int64, dump []harness.KV) (*obs, error) {
	o := &obs{Height: height, Reg: map[string]*dom{}, Bal: map[string]*big.Int{}, FeeTotal: new(big.Int)}
	gov := map[string][]byte{}
	ph := sha256.New()
	for _, kv := range dump {
		k := string(kv.K)
		switch {
		case strings.HasPrefix(k, "d_"):
			var r struct {
				A string  `json:"a"`
				B string  `json:"b"`
				C string  `json:"c"`
				F int64   `json:"f"`
				G bool    `json:"g"`
				H bool    `json:"h"`
				I *string `json:"i"`
			}
			if err := json.Unmarshal(kv.V, &r); err != nil {
				return nil, fmt.Errorf("undecodable domain record %q: %v", k, err)
			}
			if reverse(k[2:]) != r.C {
				return nil, fmt.Errorf("domain key %q holds name %q", k, r.C)
			}
			d := &dom{Owner: normAddr(r.A), Benef: normAddr(r.B), Expire: r.F, Active: r.G, OnSale: r.H}
			if r.I != nil {
				raw, err := base64.StdEncoding.DecodeString(*r.I)
				if err != nil {
					return nil, fmt.Errorf("undecodable sale price in %q", k)
				}
				n, ok := amountOf(raw)
				if !ok {
					return nil, fmt.Errorf("undecodable sale price in %q", k)
				}
				d.Sale = n
			}
			o.Reg[r.C] = d
		case strings.HasPrefix(k, "b_") && strings.HasSuffix(k, "_OLT"):
			n, ok := amountOf(kv.V)
			if !ok {
				return nil, fmt.Errorf("undecodable balance %q", k)
			}
			o.Bal[k[2:len(k)-4]] = n
		case strings.HasPrefix(k, "f_"):
			n, ok := amountOf(kv.V)
			if !ok {
				return nil, fmt.Errorf("undecodable fee record %q", k)
			}
			o.FeeTotal.Add(o.FeeTotal, n)
		case strings.HasPrefix(k, "g_"):
			gov[k] = kv.V
		case strings.HasPrefix(k, "prop"):
			ph.Write(kv.K)
			ph.Write([]byte{0})
			ph.Write(kv.V)
			ph.Write([]byte{0})
			if strings.HasPrefix(k, "propFinalized") {
				o.Finalized = true
			}
		}
	}
	o.PropKeys = hex.EncodeToString(ph.Sum(nil)[:8])
	// the ONS option record in force: the one written at the last-update height
	luh := gov["g_onsOptions_defaultOptions"]
	if len(luh) != 8 {
		return nil, fmt.Errorf("no last-update pointer for the ONS options")
	}
	rec := gov["g_"+string(rune(int64(binary.LittleEndian.Uint64(luh))))+"_onsopt"]
	var opt struct {
		PerBlockFees    string `json:"perBlockFees"`
		BaseDomainPrice string `json:"baseDomainPrice"`
	}
	if err := json.Unmarshal(rec, &opt); err != nil {
		return nil, fmt.Errorf("undecodable ONS options: %v", err)
	}
	var ok1, ok2 bool
	o.PerBlock, ok1 = new(big.Int).SetString(opt.PerBlockFees, 10)
	o.Base, ok2 = new(big.Int).SetString(opt.BaseDomainPrice, 10)
	if !ok1 || !ok2 || o.PerBlock.Sign() <= 0 {
		return nil, fmt.Errorf("bad ONS options %s", rec)
	}
	o.OnsRecord = string(rec)
	return o, nil
}

// ---------------------------------------------------------------------------------------------
// Reference registry: the property statement, clause by clause
// ---------------------------------------------------------------------------------------------

type viol struct{ Sig, What string }

type txOutcome struct {
	Code    uint32
	GasUsed int64
	Log     string
}

type model struct {
	w        *harness.World
	reg      map[string]*dom
	feesPaid map[string]*big.Int

	viols   []viol
	tainted bool
	info    map[string]int64
	tags    map[string]bool
	log     func(format string, a ...interface{})
}

func newModel(w *harness.World) *model {
	return &model{w: w, reg: map[string]*dom{}, feesPaid: map[string]*big.Int{}, info: map[string]int64{}, tags: map[string]bool{},
		log: func(string, ...interface{}) {}}
}

func (m *model) count(k string) { m.info[k]++ }

func (m *model) fire(clause string) {
	m.info["fired:"+clause]++
	m.info["nontrivial_marker"] = 1
}

func (m *model) violate(clause, opName, facts, what string) {
	sig := fmt.Sprintf("C20|%s|op=%s|%s", clause, opName, facts)
	m.viols = append(m.viols, viol{sig, what})
	m.tainted = true
	m.log("    VIOLATION %s: %s", sig, what)
}

func isSub(name string) bool { return strings.Count(name, ".") >= 2 }

func parentOf(name string) string {
	p := strings.Split(name, ".")
	return p[len(p)-2] + "." + p[len(p)-1]
}

// expired: a name whose expiry height E was set in block h0 to (h0-1)+n has n paid blocks after its
// creation block; it is expired in block h iff E < h-1. The statement does not say from which height
// the paid blocks count; the model takes the convention that creation and purchase use consistently
// (the committed height, i.e. block height - 1) and applies it everywhere.
func expired(d *dom, h int64) bool { return d.Expire < h-1 }

func (m *model) role(d *dom, a string) string {
	if d != nil && d.Owner == a {
		return "owner"
	}
	return "stranger"
}

func floorDiv(a, b *big.Int) int64 { return new(big.Int).Div(a, b).Int64() }

// step advances the registry over one block and compares it with the observation after the block.
func (m *model) step(h int64, ops []op, res []txOutcome, prev, cur *obs) {
	if m.tainted {
		return
	}
	w := m.w
	base, per := prev.Base, prev.PerBlock // options in force while the block's transactions run
	exp := map[string]*big.Int{}
	add := func(a string, n *big.Int) {
		if exp[a] == nil {
			exp[a] = new(big.Int)
		}
		exp[a].Add(exp[a], n)
	}
	expFee := new(big.Int) // fees and payments that go to the fee pool
	toPool := func(from string, n *big.Int) {
		add(from, new(big.Int).Neg(n))
		expFee.Add(expFee, n)
	}
	lastOp := map[string]string{} // name -> kind of the last accepted operation on it (signatures)
	govBlock := false

	for i, o := range ops {
		r := res[i]
		acc := r.Code == 0
		if acc {
			m.count("accepted:" + o.Name)
			m.count("accepted_kind:" + o.Kind.String())
		} else {
			m.count("rejected:" + o.Name)
			m.count("rejected_kind:" + o.Kind.String())
		}
		m.log("    tx %-36s code=%d %s", o.Name, r.Code, short(r.Log, 110))
		if !acc {
			continue
		}
		payer := o.payer(w).Addr.String()
		fee := new(big.Int).Mul(big.NewInt(r.GasUsed), big.NewInt(1000000000))
		if o.govUser {
			fee = new(big.Int) // PROPOSAL_FINALIZE only meters gas, nothing is charged
		}
		toPool(payer, fee)
		if m.feesPaid[payer] == nil {
			m.feesPaid[payer] = new(big.Int)
		}
		m.feesPaid[payer].Add(m.feesPaid[payer], fee)
		if o.Kind == opGov {
			govBlock = true
			if o.govOut > 0 {
				add(payer, new(big.Int).Neg(units(o.govOut))) // into the proposal's escrow
			}
			continue
		}
		a := w.Users[o.Actor].Addr.String()
		benef := ""
		if o.Benef >= 0 {
			benef = w.Users[o.Benef].Addr.String()
		}
		d := m.reg[o.Domain]
		lastOp[o.Domain] = o.Kind.String()
		switch o.Kind {
		case opCreate:
			price := units(o.Price)
			if d != nil {
				// "at most one owner at a time": a second creation of an existing name
				m.violate("exclusive-ownership", o.Kind.String(), "actor="+m.role(d, a)+"|name-exists|expired="+fmt.Sprint(expired(d, h)), "DOMAIN_CREATE accepted for a name that already has an owner")
				return
			}
			nd := &dom{Owner: a, Benef: benef, Active: true}
			if nd.Benef == "" {
				nd.Benef = a
			}
			if isSub(o.Domain) {
				p := m.reg[parentOf(o.Domain)]
				if p == nil || p.Owner != a {
					// "sub-domains change only through transactions signed by the current owner"
					m.violate("owner-only-changes", o.Kind.String(), "actor="+m.role(p, a)+"|field=sub-domains|parent-exists="+fmt.Sprint(p != nil), "a sub-domain was created by an account that does not own the parent")
					return
				}
				nd.Expire = p.Expire // "a sub-name expires with its parent"
				m.fire("sub-created")
			} else {
				if price.Cmp(base) < 0 {
					m.violate("expiry-arithmetic", o.Kind.String(), "paid-less-than-base-price", fmt.Sprintf("created for %s, base price %s", price, base))
					return
				}
				nd.Expire = (h - 1) + floorDiv(new(big.Int).Sub(price, base), per)
				m.fire("created")
			}
			toPool(a, price)
			m.reg[o.Domain] = nd
		case opUpdate:
			if d == nil || d.Owner != a {
				m.violate("owner-only-changes", o.Kind.String(), "actor="+m.role(d, a)+"|field=beneficiary", "DOMAIN_UPDATE accepted from an account that does not own the name")
				return
			}
			d.Benef = benef
			d.Active = o.Active
			if !o.Active && !isSub(o.Domain) {
				for n, s := range m.reg {
					if isSub(n) && parentOf(n) == o.Domain {
						s.Active = false
						lastOp[n] = o.Kind.String()
					}
				}
			}
			m.fire("updated-by-owner")
		case opSell:
			if d == nil || d.Owner != a {
				m.violate("owner-only-changes", o.Kind.String(), "actor="+m.role(d, a)+"|field=sale-status", "DOMAIN_SELL accepted from an account that does not own the name")
				return
			}
			if o.Cancel {
				d.OnSale, d.Sale = false, nil
				m.fire("sale-cancelled-by-owner")
			} else {
				d.OnSale, d.Sale, d.Active = true, units(o.Price), false
				m.fire("put-on-sale-by-owner")
			}
		case opPurchase:
			off := units(o.Price)
			if d == nil {
				m.violate("purchase-pays-asking-price", o.Kind.String(), "unknown-name", "DOMAIN_PURCHASE accepted for a name that does not exist")
				return
			}
			prevOwner := d.Owner
			var n int64
			switch {
			case d.OnSale && !expired(d, h):
				if off.Cmp(d.Sale) < 0 {
					m.violate("purchase-pays-asking-price", o.Kind.String(), "on-sale|offered-below-asking-price", fmt.Sprintf("bought for %s, asking price %s", off, d.Sale))
					return
				}
				add(a, new(big.Int).Neg(off))
				add(prevOwner, d.Sale)
				rest := new(big.Int).Sub(off, d.Sale)
				expFee.Add(expFee, rest)
				n = floorDiv(rest, per)
				m.fire("purchased-on-sale")
				if off.Cmp(d.Sale) == 0 {
					m.fire("purchased-at-exactly-asking-price")
				}
			case expired(d, h):
				if off.Cmp(base) < 0 {
					m.violate("purchase-pays-asking-price", o.Kind.String(), "expired|offered-below-base-price", fmt.Sprintf("expired name bought for %s, base price %s", off, base))
					return
				}
				toPool(a, off)
				n = floorDiv(new(big.Int).Sub(off, base), per)
				m.fire("purchased-expired-at-base-price")
			default:
				m.violate("purchase-pays-asking-price", o.Kind.String(), "actor="+m.role(d, a)+"|not-on-sale-not-expired", fmt.Sprintf("name with expiry %d bought in block %d although it is neither on sale nor expired", d.Expire, h))
				return
			}
			e := d.Expire
			if e < h-1 {
				e = h - 1
			}
			m.reg[o.Domain] = &dom{Owner: a, Benef: benef, Expire: e + n, Active: true}
			for sn := range m.reg {
				if isSub(sn) && parentOf(sn) == o.Domain {
					delete(m.reg, sn) // the previous owner's sub-domains go with the sale
					lastOp[sn] = o.Kind.String()
				}
			}
			if isSub(o.Domain) {
				m.count("sub_domain_purchased")
			}
		case opSend:
			if d == nil {
				m.violate("balances-move-accordingly", o.Kind.String(), "unknown-name", "DOMAIN_SEND accepted for a name that does not exist")
				return
			}
			x := units(o.Price)
			add(a, new(big.Int).Neg(x))
			add(d.Benef, x)
			m.fire("sent-to-beneficiary")
		case opRenew:
			if d == nil || d.Owner != a {
				m.violate("owner-only-changes", o.Kind.String(), "actor="+m.role(d, a)+"|field=expiry", "DOMAIN_RENEW accepted from an account that does not own the name")
				return
			}
			p := units(o.Price)
			toPool(a, p)
			d.Expire += floorDiv(p, per)
			for n, s := range m.reg {
				if isSub(n) && parentOf(n) == o.Domain {
					s.Expire = d.Expire
					lastOp[n] = o.Kind.String()
				}
			}
			m.fire("renewed")
			if new(big.Int).Mod(p, per).Sign() != 0 {
				m.fire("payment-with-remainder")
			}
		case opDeleteSub:
			pn := o.Domain
			if isSub(pn) {
				pn = parentOf(pn)
			}
			p := m.reg[pn]
			if p == nil || p.Owner != a {
				m.violate("owner-only-changes", o.Kind.String(), "actor="+m.role(p, a)+"|field=sub-domains", "DOMAIN_DELETE_SUB accepted from an account that does not own the parent name")
				return
			}
			if isSub(o.Domain) {
				delete(m.reg, o.Domain)
			} else {
				for n := range m.reg {
					if isSub(n) && parentOf(n) == o.Domain {
						delete(m.reg, n)
						lastOp[n] = o.Kind.String()
					}
				}
			}
			m.fire("sub-deleted-by-owner")
		}
	}

	// ---- compare the registry
	names := map[string]bool{}
	for n := range m.reg {
		names[n] = true
	}
	for n := range cur.Reg {
		names[n] = true
	}
	var sorted []string
	for n := range names {
		sorted = append(sorted, n)
	}
	sort.Strings(sorted)
	for _, n := range sorted {
		md, od := m.reg[n], cur.Reg[n]
		opn := lastOp[n]
		if opn == "" {
			opn = "none"
		}
		kind := "name"
		if isSub(n) {
			kind = "sub-name"
		}
		switch {
		case md == nil:
			m.violate("exclusive-ownership", opn, kind+"|record-appeared-or-survived", fmt.Sprintf("%s: the implementation has %s, the statement implies no record", n, od))
			return
		case od == nil:
			m.violate("owner-only-changes", opn, kind+"|record-disappeared", fmt.Sprintf("%s: the statement implies %s, the implementation has no record", n, md))
			return
		}
		field := ""
		clause := "owner-only-changes"
		switch {
		case md.Owner != od.Owner:
			field, clause = "owner", "exclusive-ownership"
		case md.Expire != od.Expire:
			field, clause = "expiry", "expiry-arithmetic"
		case md.Benef != od.Benef:
			field = "beneficiary"
		case md.Active != od.Active:
			field = "active-flag"
		case md.OnSale != od.OnSale:
			field = "sale-status"
		case (md.Sale == nil) != (od.Sale == nil) || (md.Sale != nil && md.Sale.Cmp(od.Sale) != 0):
			field = "sale-price"
		}
		if field != "" {
			changed := "unchanged-by-impl"
			if pd := prev.Reg[n]; pd == nil || pd.String() != od.String() {
				changed = "changed-by-impl"
			}
			m.violate(clause, opn, kind+"|field="+field+"|"+changed, fmt.Sprintf("%s after block %d: the statement implies %s, the implementation has %s", n, h, md, od))
			return
		}
		// "a sub-name expires with its parent"
		if isSub(n) {
			if p := cur.Reg[parentOf(n)]; p != nil {
				if p.Expire != od.Expire {
					m.violate("sub-expires-with-parent", opn, "expiry-differs-from-parent", fmt.Sprintf("%s expires at %d, its parent at %d", n, od.Expire, p.Expire))
					return
				}
				m.info["checked:sub-expires-with-parent"]++
			} else {
				m.violate("sub-expires-with-parent", opn, "sub-name-without-parent", n+" exists without its parent")
				return
			}
		}
	}

	// ---- balances and fee pool
	finalisation := cur.Finalized && !prev.Finalized // the macro-operation's proposal was finalised: funds distributed
	abc := map[string]bool{}
	for _, u := range w.Users {
		abc[u.Addr.String()] = true
	}
	addrs := map[string]bool{}
	for a := range prev.Bal {
		addrs[a] = true
	}
	for a := range cur.Bal {
		addrs[a] = true
	}
	var as []string
	for a := range addrs {
		as = append(as, a)
	}
	sort.Strings(as)
	for _, a := range as {
		before, after := prev.Bal[a], cur.Bal[a]
		if before == nil {
			before = new(big.Int)
		}
		if after == nil {
			after = new(big.Int)
		}
		d := new(big.Int).Sub(after, before)
		e := exp[a]
		if e == nil {
			e = new(big.Int)
		}
		if d.Cmp(e) == 0 {
			continue
		}
		if finalisation && !abc[a] {
			continue // recipients of the proposal's fund distribution (checked by C14, not here)
		}
		who := "other"
		if abc[a] {
			who = "user"
		}
		opn := "none"
		if len(ops) > 0 {
			opn = ops[len(ops)-1].Kind.String()
		}
		m.violate("balances-move-accordingly", opn, "account="+who, fmt.Sprintf("balance of %s changed by %s in block %d, the accepted operations explain %s", tail(a), d, h, e))
		return
	}
	if !finalisation {
		if fd := new(big.Int).Sub(cur.FeeTotal, prev.FeeTotal); fd.Cmp(expFee) != 0 {
			opn := "none"
			if len(ops) > 0 {
				opn = ops[len(ops)-1].Kind.String()
			}
			m.violate("balances-move-accordingly", opn, "account=fee-pool", fmt.Sprintf("fee pool changed by %s in block %d, fees and payments amount to %s", fd, h, expFee))
			return
		}
	}
	if cur.OnsRecord != prev.OnsRecord {
		m.fire("price-options-changed")
	}
	_ = govBlock
	// outcome tags
	for n, d := range m.reg {
		t := "name"
		if isSub(n) {
			t = "sub"
		}
		m.tags[fmt.Sprintf("%s:owner=%s,onsale=%v,active=%v,expired=%v", t, userName(w, d.Owner), d.OnSale, d.Active, expired(d, h+1))] = true
	}
}

func userName(w *harness.World, a string) string {
	for i, u := range w.Users {
		if u.Addr.String() == a {
			return string(rune('A' + i))
		}
	}
	return "?"
}

func short(s string, n int) string {
	if len(s) > n {
		return s[:n] + "..."
	}
	return s
}

// stateKey: digest of the projection of the committed state that the property can observe or that can
// influence it.
//
//	kept:    height (expiry heights are absolute); of every domain record the fields the statement talks
//	         about (owner, beneficiary, expiry, active flag, sale flag, price); the ONS option record in
//	         force; every proposal-family record (progress of the price-change macro-operation); every OLT
//	         balance net of the fees its owner paid on this path (same argument as in C14: balances are
//	         ~10^9 OLT, amounts <= 100 OLT, fees ~10^-5 OLT).
//	dropped: a record's creation height, URI and last-update height: the latter is only read by
//	         IsChangeable(h) = h >= lastUpdate+1, which is true for every block after the one that wrote it,
//	         so at a block boundary it cannot influence any future operation; vote-block and reward
//	         bookkeeping, fee shares, validator and stake records (constant here: no staking operation in the
//	         alphabet), ETH balances.
func stateKey(o *obs, m *model) string {
	h := sha256.New()
	fmt.Fprintf(h, "h=%d|ons=%s|prop=%s|", o.Height, o.OnsRecord, o.PropKeys)
	var ks []string
	for n, d := range o.Reg {
		ks = append(ks, "D"+n+"="+fullDom(d))
	}
	for a, n := range o.Bal {
		net := new(big.Int).Set(n)
		if f := m.feesPaid[a]; f != nil {
			net.Add(net, f)
		}
		ks = append(ks, fmt.Sprintf("B%s=%s", a, net))
	}
	sort.Strings(ks)
	for _, k := range ks {
		h.Write([]byte(k))
		h.Write([]byte{0})
	}
	key := hex.EncodeToString(h.Sum(nil)[:12])
	if m.tainted {
		key += "|tainted"
	}
	return key
}

func fullDom(d *dom) string {
	s := "-"
	if d.Sale != nil {
		s = d.Sale.String()
	}
	return fmt.Sprintf("%s|%s|%d|%v|%v|%s", d.Owner, d.Benef, d.Expire, d.Active, d.OnSale, s)
}
