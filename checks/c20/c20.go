// Package c20 is the explicit-state explorer for property C20: domain names have one owner, change only
// through transactions of that owner or through a paid purchase, and their expiry follows exactly from
// the payments. It enumerates, breadth-first and deduplicated on a projection of the committed state, all
// histories of blocks built from a small alphabet of ONS transactions by an owner and by strangers on a
// name and a sub-name (plus a macro-operation that changes the per-block price through a passed
// configuration proposal), executes each on the real application and compares every block with a
// reference registry that encodes the statement.
package c20

import (
	"encoding/json"
	"fmt"
	"os"
	"sort"
	"strings"
	"time"

	"verif/explore"
	"verif/harness"
)

const prop = "C20"

type execResult struct {
	Out     explore.BFSOut
	Verdict []string // per block (replay mode)
}

// execute replays one history from genesis on a fresh replica and runs the oracle on every block.
func execute(hist []int, tier string, verbose bool) (out explore.BFSOut, lines []string) {
	evs := Events(tier)
	w := World()
	x, err := harness.StartRun(w)
	if err != nil {
		return explore.BFSOut{Err: "StartRun: " + err.Error()}, nil
	}
	defer x.Close()
	m := newModel(w)
	if verbose {
		m.log = func(format string, a ...interface{}) { lines = append(lines, fmt.Sprintf(format, a...)) }
	}
	for i := 0; i < warmup; i++ {
		if _, err := x.Block(harness.BlockSpec{}); err != nil {
			return explore.BFSOut{Err: "warm-up: " + err.Error()}, lines
		}
	}
	prev, err := observe(x.C.Height, x.R.Dump())
	if err != nil {
		return explore.BFSOut{Err: err.Error()}, lines
	}
	var key string
	govSteps := 0
	total := len(hist) + extensionBlocks
	for pos := 0; pos < total; pos++ {
		var ev event
		if pos < len(hist) {
			if hist[pos] < 0 || hist[pos] >= len(evs) {
				return explore.BFSOut{Err: fmt.Sprintf("event index %d out of range", hist[pos])}, lines
			}
			ev = evs[hist[pos]]
		} else {
			ev = event{Name: "(quiet extension)"}
		}
		h := x.C.Height + 1
		if ev.Gov {
			ev.Ops = govStep(govSteps)
			govSteps++
		}
		var txs []*harness.TxSpec
		for k, o := range ev.Ops {
			txs = append(txs, o.build(w, h, fmt.Sprintf("p%d.%d", pos, k)))
		}
		m.log("height %d: %s", h, ev.Name)
		res, err := x.Block(harness.BlockSpec{Txs: txs})
		if x.R.Dead || (res != nil && res.Panicked) {
			m.violate("application-panicked", lastKind(ev), "block", "the application closed itself (recovered panic) while executing the block")
			break
		}
		if err != nil {
			return explore.BFSOut{Err: "chain halted: " + err.Error()}, lines
		}
		cur, err := observe(h, x.R.Dump())
		if err != nil {
			return explore.BFSOut{Err: err.Error()}, lines
		}
		outs := make([]txOutcome, len(res.Txs))
		for i, r := range res.Txs {
			outs[i] = txOutcome{Code: r.Code, GasUsed: r.GasUsed, Log: r.Log}
		}
		m.step(h, ev.Ops, outs, prev, cur)
		prev = cur
		if pos == len(hist)-1 {
			key = stateKey(cur, m)
		}
		if m.tainted {
			break
		}
	}
	if len(hist) == 0 {
		key = stateKey(prev, m)
	}
	if m.tainted && !strings.HasSuffix(key, "|tainted") {
		// the violation showed only in the quiet extension: the state itself is still expanded
		m.count("violation_in_quiet_extension")
	}
	out = explore.BFSOut{Key: key, Info: m.info}
	if strings.HasSuffix(key, "|tainted") {
		out.NoExpand = true
	}
	for _, v := range m.viols {
		out.Viol = append(out.Viol, explore.BFSViol{Sig: v.Sig, What: v.What})
	}
	for t := range m.tags {
		out.Tags = append(out.Tags, t)
	}
	sort.Strings(out.Tags)
	if m.info["nontrivial_marker"] > 0 {
		out.Info["nontrivial_executions"] = 1
	}
	delete(out.Info, "nontrivial_marker")
	out.Info["executions"] = 1
	return out, lines
}

func lastKind(ev event) string {
	if len(ev.Ops) == 0 {
		return "block"
	}
	return ev.Ops[len(ev.Ops)-1].Kind.String()
}

func workerMain() int {
	fd := harness.KeepStdout() // results go to the original stdout (the pipe to the master)
	harness.SilenceStdout()
	defer harness.RemoveScratch()
	return explore.ServeWorker(fd, func(raw json.RawMessage) interface{} {
		var j explore.BFSJob
		if err := json.Unmarshal(raw, &j); err != nil {
			return explore.BFSOut{Err: err.Error()}
		}
		out, _ := execute(j.Hist, j.Tier, false)
		return out
	})
}

// Main is the entry point of bin/vc14 (after the command word).
func Main(args []string) int {
	if explore.IsWorker(prop) {
		return workerMain()
	}
	f := explore.ParseFlags(prop, args, nil)
	if f.Replay != "" {
		return replay(f)
	}
	harness.SilenceStdout()
	defer harness.RemoveScratch()
	rep := explore.NewReporter(prop, "model_checking", f, harness.Out())
	evs := Events(f.Tier)
	depth, budget := 5, 228*time.Second
	if f.Tier == "thorough" {
		depth, budget = 7, 27*time.Minute
	}
	if f.Budget > 0 {
		budget = f.Budget
	}
	if d := os.Getenv("VERIF_DEPTH"); d != "" {
		fmt.Sscan(d, &depth)
	}
	cfg := explore.BFSConfig{
		Command: prop, Workers: f.Workers, MaxDepth: depth, Tier: f.Tier,
		NumEvents: func(int) int { return len(evs) },
		Deadline:  time.Now().Add(budget),
		PerJob:    2 * time.Minute,
		EventName: func(i int) string { return evs[i].Name },
	}
	st := explore.RunBFS(cfg, rep)
	st.Fill(rep)
	rep.Set("distinct_nontrivial", st.Info["nontrivial_executions"])
	rep.Set("rule", "state = (height, owner/beneficiary/expiry/active/sale fields of every domain record, ONS option record in force, proposal records of the price-change macro-operation, OLT balances net of fees) at a block boundary; transition = one whole block (0..2 transactions of the alphabet) executed on the real application by replaying the history from genesis on a fresh replica, the reference registry of the statement compared with the committed domain records, all OLT balances and the fee pool after EVERY block of the history and of "+fmt.Sprint(extensionBlocks)+" quiet blocks appended to it; non-trivial = an execution in which at least one antecedent of a model clause fired (a name or sub-name created, changed by its owner, put on sale, bought on sale or expired, renewed, paid to, a sub-name deleted, the price options changed); every execution is a distinct history")
	rep.Set("bounds", map[string]interface{}{
		"alphabet": eventNames(evs), "events": len(evs), "max_depth": depth, "warmup_blocks": warmup, "quiet_extension_blocks": extensionBlocks,
		"names": []string{nameA, nameB, nameC, nameD, nameE}, "users": 3, "base_price_olt": 10, "per_block_olt": "1, then 2 after the price-change macro-operation", "budget_s": budget.Seconds(),
	})
	rep.Assume("states reached through a violation of the statement are not expanded (what follows is undefined by the statement)")
	rep.Assume("fee-paying transactions change balances by the fee; states are merged on balances net of fees paid (sound because no amount of the alphabet comes near a balance)")
	rep.Assume("transactions reach DeliverTx whether or not CheckTx accepted them; the DeliverTx result is what the model sees")
	rep.Assume("the statement does not say from which height paid blocks count; the model uses the convention of creation and purchase (committed height = block height - 1) for every operation and for what 'expired' means")
	// vacuity: every well-formed, authorised operation must have been accepted somewhere
	never := []string{}
	hostile := map[string]int64{}
	for _, e := range evs {
		for _, o := range e.Ops {
			if o.Legit && o.MinDepth <= st.DepthCompleted && st.Info["accepted:"+o.Name] == 0 {
				never = append(never, o.Name)
			}
			if !o.Legit {
				hostile[o.Name] = st.Info["accepted:"+o.Name]
			}
		}
	}
	if st.DepthCompleted >= 4 && st.Info["fired:price-options-changed"] == 0 {
		never = append(never, "price-change macro-operation (the ONS option record never changed)")
	}
	rep.Set("legit_operations_never_accepted", never)
	// operations built to be unauthorised or underpaid: the statement wants them refused, so "never accepted"
	// is the expected outcome for them (an acceptance shows up as a violation of the clause concerned)
	rep.Set("hostile_operations_accepted_count", hostile)
	code := rep.Finish()
	if len(never) > 0 {
		fmt.Fprintf(harness.Out(), "%s: operations never accepted although well-formed and within depth: %v — the factory builds them wrongly or the bound is vacuous; refusing to report success\n", prop, never)
		return 2
	}
	if st.HarnessErrors > 0 {
		fmt.Fprintf(harness.Out(), "%s: %d harness errors: %v\n", prop, st.HarnessErrors, st.ErrSamples)
		return 2
	}
	return code
}

// replay re-executes one recorded history (event-index list under case.h) and prints every block's
// oracle verdict; exit 1 if it violates the statement.
func replay(f explore.Flags) int {
	var doc struct {
		Case struct {
			H    []int    `json:"h"`
			Hist []string `json:"history"`
		} `json:"case"`
		H []int `json:"h"`
	}
	b, err := os.ReadFile(f.Replay)
	if err != nil {
		fmt.Println(err)
		return 2
	}
	if err := json.Unmarshal(b, &doc); err != nil {
		fmt.Println(err)
		return 2
	}
	h := doc.Case.H
	if h == nil {
		h = doc.H
	}
	harness.SilenceStdout()
	defer harness.RemoveScratch()
	tier := f.Tier
	// a replay recorded by the thorough tier may use events the quick alphabet lacks
	for _, e := range h {
		if e >= len(Events("quick")) {
			tier = "thorough"
		}
	}
	out, lines := execute(h, tier, true)
	for _, l := range lines {
		harness.Outf("%s\n", l)
	}
	if out.Err != "" {
		harness.Outf("harness error: %s\n", out.Err)
		return 2
	}
	if len(out.Viol) > 0 {
		for _, v := range out.Viol {
			harness.Outf("VIOLATION %s\n  %s\n", v.Sig, v.What)
		}
		return 1
	}
	harness.Outf("no violation; state key %s\n", out.Key)
	return 0
}
