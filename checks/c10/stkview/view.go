// Package stkview decodes the staking-related key families of a committed key/value dump into plain
// Go values. It is shared by the C10 (validator-set updates) and C11 (stake life-cycle) explorers.
// Nothing here judges anything: it is a decoder plus a few helpers (state-key projection, worker
// entry, Tendermint set rendering).
package stkview

import (
	"crypto/sha256"
	"encoding/base64"
	"encoding/binary"
	"encoding/hex"
	"encoding/json"
	"fmt"
	"math/big"
	"sort"
	"strconv"
	"strings"
	"time"

	tmtypes "github.com/tendermint/tendermint/types"

	"verif/harness"
)

// ValRec is one `v_<raw address>` validator record.
type ValRec struct {
	Addr      string // "0lt..." text form
	StakeAddr string
	KeyType   string
	PubKey    []byte
	Power     int64
	Staking   *big.Int
}

// FrozenRec is one `es__ssvk_<addr>` record.
type FrozenRec struct {
	Status        int8 // 1 = missed required votes, 2 = byzantine fault (guilty verdict)
	FrozenHeight  int64
	ReleaseHeight int64
	Frozen        bool // still frozen (not released after the last freeze)
}

// StatusRec is one `es__vss_<addr>` record.
type StatusRec struct {
	Active bool
	Height int64
}

// Options are the staking options in force (last update height record + versioned option record).
type Options struct {
	Top      int64
	Min      *big.Int
	Maturity int64
	OK       bool
}

// Maturing is one entry of a `st__m_<h>` queue.
type Maturing struct {
	Addr   string
	Amount *big.Int
}

// View is the decoded staking state after a block.
type View struct {
	Vals      map[string]*ValRec             // validator address -> record
	Frozen    map[string]*FrozenRec          // validator address -> freeze record
	Status    map[string]*StatusRec          // validator address -> election status
	Opt       Options                        // staking options
	Total     map[string]*big.Int            // st__t_<V>
	Locked    map[string]map[string]*big.Int // st__e_<V>_<D>
	Effective map[string]*big.Int            // st__d_e_<D>
	Bounded   map[string]*big.Int            // st__d_b_<D>
	Queue     map[int64][]Maturing           // st__m_<h>
	Purged    map[string]int64               // purged_<raw V> (last purge height)
	Delayed   []string                       // purged_unstake_<h><raw V> keys (pending penalty application)
	Balance   map[string]*big.Int            // b_<addr>_OLT
	Requests  map[string]string              // es__ark_<id> -> accused address
	Votes     map[string]int64               // es__scv: signatures per validator address inside the counting window
	Bad       []string                       // keys of these families that could not be decoded
}

func num(v []byte) (*big.Int, bool) {
	var s string
	if err := json.Unmarshal(v, &s); err != nil {
		return nil, false
	}
	n, ok := new(big.Int).SetString(s, 10)
	return n, ok
}

// AddrText renders raw address bytes the way the repository's keys.Address.String does.
func AddrText(raw []byte) string { return "0lt" + hex.EncodeToString(raw) }

// Decode decodes a dump.
func Decode(dump []harness.KV) *View {
	v := &View{Vals: map[string]*ValRec{}, Frozen: map[string]*FrozenRec{}, Status: map[string]*StatusRec{},
		Total: map[string]*big.Int{}, Locked: map[string]map[string]*big.Int{}, Effective: map[string]*big.Int{},
		Bounded: map[string]*big.Int{}, Queue: map[int64][]Maturing{}, Purged: map[string]int64{},
		Balance: map[string]*big.Int{}, Requests: map[string]string{}, Votes: map[string]int64{}}
	var luh int64 = -1
	opts := map[string][]byte{}
	for _, kv := range dump {
		k := string(kv.K)
		switch {
		case strings.HasPrefix(k, "v_"):
			var r struct {
				Address      string `json:"address"`
				StakeAddress string `json:"stakeAddress"`
				PubKey       struct {
					KeyType string `json:"keyType"`
					Data    string `json:"data"`
				} `json:"pubKey"`
				Power   int64  `json:"power"`
				Staking string `json:"staking"`
			}
			if err := json.Unmarshal(kv.V, &r); err != nil {
				v.Bad = append(v.Bad, fmt.Sprintf("%q", k))
				continue
			}
			pk, _ := base64.StdEncoding.DecodeString(r.PubKey.Data)
			st, ok := new(big.Int).SetString(r.Staking, 10)
			if !ok {
				v.Bad = append(v.Bad, fmt.Sprintf("%q", k))
				continue
			}
			addr := AddrText(kv.K[2:])
			v.Vals[addr] = &ValRec{Addr: addr, StakeAddr: strings.ToLower(r.StakeAddress), KeyType: r.PubKey.KeyType, PubKey: pk, Power: r.Power, Staking: st}
		case strings.HasPrefix(k, "purged_unstake_"):
			v.Delayed = append(v.Delayed, k)
		case strings.HasPrefix(k, "purged_"):
			n, err := strconv.ParseInt(string(kv.V), 10, 64)
			if err != nil {
				v.Bad = append(v.Bad, fmt.Sprintf("%q", k))
				continue
			}
			v.Purged[AddrText(kv.K[len("purged_"):])] = n
		case strings.HasPrefix(k, "es__ssvk_"):
			var r struct {
				Status        int8
				FrozenHeight  int64
				FrozenAt      *time.Time
				ReleaseHeight int64
				ReleaseAt     *time.Time
			}
			if err := json.Unmarshal(kv.V, &r); err != nil {
				v.Bad = append(v.Bad, k)
				continue
			}
			fr := &FrozenRec{Status: r.Status, FrozenHeight: r.FrozenHeight, ReleaseHeight: r.ReleaseHeight}
			// data/evidence/history.go IsFrozen: no release time, or release not after the freeze
			fr.Frozen = r.ReleaseAt == nil || r.FrozenAt == nil || !r.ReleaseAt.After(*r.FrozenAt)
			v.Frozen[k[len("es__ssvk_"):]] = fr
		case strings.HasPrefix(k, "es__vss_"):
			var r struct {
				IsActive bool  `json:"isActive"`
				Height   int64 `json:"height"`
			}
			if err := json.Unmarshal(kv.V, &r); err != nil {
				v.Bad = append(v.Bad, k)
				continue
			}
			v.Status[k[len("es__vss_"):]] = &StatusRec{Active: r.IsActive, Height: r.Height}
		case k == "es__scv":
			var r struct{ Addresses map[string]int64 }
			if err := json.Unmarshal(kv.V, &r); err != nil {
				v.Bad = append(v.Bad, k)
				continue
			}
			for a, n := range r.Addresses {
				v.Votes[strings.ToLower(a)] = n
			}
		case strings.HasPrefix(k, "es__ark_"):
			var r struct{ MaliciousAddress string }
			_ = json.Unmarshal(kv.V, &r)
			v.Requests[k[len("es__ark_"):]] = strings.ToLower(r.MaliciousAddress)
		case strings.HasPrefix(k, "st__t_"):
			if n, ok := num(kv.V); ok {
				v.Total[k[6:]] = n
			} else {
				v.Bad = append(v.Bad, k)
			}
		case strings.HasPrefix(k, "st__e_"):
			rest := k[6:]
			i := strings.IndexByte(rest, '_')
			n, ok := num(kv.V)
			if i < 0 || !ok {
				v.Bad = append(v.Bad, k)
				continue
			}
			if v.Locked[rest[:i]] == nil {
				v.Locked[rest[:i]] = map[string]*big.Int{}
			}
			v.Locked[rest[:i]][rest[i+1:]] = n
		case strings.HasPrefix(k, "st__d_e_"):
			if n, ok := num(kv.V); ok {
				v.Effective[k[8:]] = n
			} else {
				v.Bad = append(v.Bad, k)
			}
		case strings.HasPrefix(k, "st__d_b_"):
			if n, ok := num(kv.V); ok {
				v.Bounded[k[8:]] = n
			} else {
				v.Bad = append(v.Bad, k)
			}
		case strings.HasPrefix(k, "st__m_"):
			h, err := strconv.ParseInt(k[6:], 10, 64)
			var mb struct {
				Data []struct {
					Address string
					Amount  string
				}
			}
			if err != nil || json.Unmarshal(kv.V, &mb) != nil {
				v.Bad = append(v.Bad, k)
				continue
			}
			for _, d := range mb.Data {
				n, ok := new(big.Int).SetString(d.Amount, 10)
				if !ok {
					v.Bad = append(v.Bad, k)
					continue
				}
				v.Queue[h] = append(v.Queue[h], Maturing{Addr: strings.ToLower(d.Address), Amount: n})
			}
		case k == "g_stakingOptions_defaultOptions":
			if len(kv.V) == 8 {
				luh = int64(binary.LittleEndian.Uint64(kv.V))
			}
		case strings.HasPrefix(k, "g_") && strings.HasSuffix(k, "_stakingopt"):
			opts[k] = kv.V
		case strings.HasPrefix(k, "b_") && strings.HasSuffix(k, "_OLT"):
			if n, ok := num(kv.V); ok {
				v.Balance[k[2:len(k)-4]] = n
			}
		}
	}
	if luh >= 0 {
		// data/governance/store.go Get: key = prefix + string(rune(lastUpdateHeight)) + "_" + name
		if raw, ok := opts["g_"+string(rune(luh))+"_stakingopt"]; ok {
			var o struct {
				Min      string `json:"minSelfDelegationAmount"`
				Top      int64  `json:"topValidatorCount"`
				Maturity int64  `json:"maturityTime"`
			}
			if json.Unmarshal(raw, &o) == nil {
				if m, ok := new(big.Int).SetString(o.Min, 10); ok {
					v.Opt = Options{Top: o.Top, Min: m, Maturity: o.Maturity, OK: true}
				}
			}
		}
	}
	sort.Strings(v.Delayed)
	return v
}

// IsFrozen reports whether validator addr has an unreleased freeze record.
func (v *View) IsFrozen(addr string) bool {
	f := v.Frozen[addr]
	return f != nil && f.Frozen
}

// ValAddrs returns the validator addresses with a record, sorted.
func (v *View) ValAddrs() []string {
	var out []string
	for a := range v.Vals {
		out = append(out, a)
	}
	sort.Strings(out)
	return out
}

// Zero-safe big helpers.
func Big(m map[string]*big.Int, k string) *big.Int {
	if n := m[k]; n != nil {
		return n
	}
	return new(big.Int)
}

// SetText renders a Tendermint validator set as "addr:power,..." (sorted by address).
func SetText(s *tmtypes.ValidatorSet) string {
	if s == nil {
		return ""
	}
	var parts []string
	for _, val := range s.Validators {
		parts = append(parts, fmt.Sprintf("%x:%d", val.Address, val.VotingPower))
	}
	sort.Strings(parts)
	return strings.Join(parts, ",")
}

// Projection decides which keys of a dump enter a state key.
type Projection func(key string) bool

// StateKey hashes the projected dump plus extra strings.
func StateKey(dump []harness.KV, keep Projection, extra ...string) string {
	h := sha256.New()
	var l [8]byte
	put := func(b []byte) {
		binary.BigEndian.PutUint64(l[:], uint64(len(b)))
		h.Write(l[:])
		h.Write(b)
	}
	for _, e := range extra {
		put([]byte(e))
	}
	for _, kv := range dump {
		if keep(string(kv.K)) {
			put(kv.K)
			put(kv.V)
		}
	}
	return hex.EncodeToString(h.Sum(nil)[:12])
}
