// Package c10 is the explicit-state explorer for property C10: the validator updates returned at
// each block end are acceptable to Tendermint, follow the staking rule read from the previous
// block's records, and the active set converges to the election once the records stop changing.
//
// Execution = replay of a history (list of event indexes of a world's alphabet) from genesis on a
// fresh replica of the REAL application; event = one block or a macro-op of consecutive blocks; the
// oracle (oracle.go) runs on every block of the path and on the quiet blocks appended after it.
package c10

import (
	"encoding/json"
	"flag"
	"fmt"
	"os"
	"sort"
	"strings"
	"time"

	"verif/checks/c10/stkview"
	"verif/explore"
	"verif/harness"
)

const prop = "C10"

const (
	stableBlocks = 5  // the statement's "within five blocks"
	maxQuiet     = 14 // quiet blocks appended at most (release -> re-election -> re-freeze needs 4 + 5)
)

// keep: projection of the dump that enters the state key. Kept: validator records, purge
// bookkeeping, every stake record, all evidence records (status, freeze, requests, cumulative votes;
// vote blocks only while they are inside the counting window), all options, proposal stores (gov
// world). Dropped: balances and fee shares (every account holds 10^9 OLT, three orders of magnitude
// more than any sum of stakes and fees a bounded history can move, so sufficiency never changes; they
// differ by fees between commuting orders and would prevent all merging), reward and delegation
// accumulators, witnesses, domains, contract state: none of them is read by the staking handlers, the
// evidence handlers or the election.
func keep(height, window int64) stkview.Projection {
	return func(k string) bool {
		switch {
		case strings.HasPrefix(k, "es__svb_"):
			var h int64
			fmt.Sscanf(k[len("es__svb_"):], "%d", &h)
			return h > height-window
		case strings.HasPrefix(k, "v_"), strings.HasPrefix(k, "purged_"), strings.HasPrefix(k, "st__"),
			strings.HasPrefix(k, "es__"), strings.HasPrefix(k, "g_"), strings.HasPrefix(k, "prop"):
			return true
		}
		return false
	}
}

// execResult is what one execution yields.
type execResult struct {
	out    explore.BFSOut
	halted bool
}

// execute replays a history in world wd.
func execute(wd *worldDef, hist []int, trace func(string, ...interface{})) (res execResult) {
	w := wd.Build()
	x, err := harness.StartRun(w)
	if err != nil {
		res.out.Err = "start: " + err.Error()
		return
	}
	defer x.Close()
	s := newSink()
	s.trace = trace
	s.minVotes, s.window = w.Gov.EvidenceOptions.MinVotesRequired, w.Gov.EvidenceOptions.BlockVotesDiff
	prev := stkview.Decode(x.R.Dump())
	var lastDump []harness.KV
	changedSets := false
	// attribution of a judgement at height h: the operation during which the election inputs (records,
	// freeze flags, options) last changed at a height <= h-1, because the updates of h are computed from
	// the records of h-1
	type change struct {
		h  int64
		op string
	}
	changes := []change{{0, "genesis"}}
	opFor := func(h int64) string {
		op := "genesis"
		for _, c := range changes {
			if c.h <= h-1 {
				op = c.op
			}
		}
		return op
	}
	// per validator: the operation during which its record (stake, power, key, existence) or its freeze
	// flag last changed
	valOp := map[string]string{}
	recPrint := func(v *stkview.View, a string) string {
		r := v.Vals[a]
		if r == nil {
			return "-"
		}
		return fmt.Sprintf("%s:%d:%x", r.Staking, r.Power, r.PubKey)
	}
	// which operation kinds change a record directly (in their own block), and which the freeze flag
	direct := func(kind string, record bool) bool {
		if record {
			return strings.HasPrefix(kind, "stake") || strings.HasPrefix(kind, "unstake")
		}
		return kind == "guilty" || kind == "absent" || kind == "release"
	}
	frzOp := map[string]string{}
	s.opOf = func(a string, freeze bool) string {
		m := valOp
		if freeze {
			m = frzOp
		}
		if op, ok := m[a]; ok {
			return op
		}
		return "genesis"
	}
	sharedKeyOp := "" // the operation that made two validator records share one consensus key
	sharedKey := func(v *stkview.View) bool {
		seen := map[string]bool{}
		for _, r := range v.Vals {
			if seen[string(r.PubKey)] {
				return true
			}
			seen[string(r.PubKey)] = true
		}
		return false
	}
	runBlock := func(b harness.BlockSpec, kind string, ev *eventDef) bool {
		h := x.C.Height + 1
		if len(b.Absent) > 0 {
			// a block is only committed if more than 2/3 of the power signed the previous one
			abs := map[string]bool{}
			for _, i := range b.Absent {
				abs[string(w.Vals[i].Val.TM.PubKey().Address())] = true
			}
			if !x.C.CanSkip(abs) {
				b.Absent = nil
			}
		}
		s.op = opFor(h)
		before := stkview.SetText(x.C.NextVals)
		r, herr := x.BlockAt(b, false, nil) // no digest: the dump is taken below anyway
		if r == nil {
			res.out.Err = "no block result"
			return false
		}
		if x.R.Dead || r.Panicked {
			s.violate("application-died", "", fmt.Sprintf("height %d: the application closed itself (recovered panic)", h))
			res.halted = true
			return false
		}
		accepted := false
		for _, t := range r.Txs {
			if t.Code == 0 {
				accepted = true
				s.count("acc:" + kind)
			} else {
				s.count("rej:" + kind)
			}
		}
		lastDump = x.R.Dump()
		cur := stkview.Decode(lastDump)
		if trace != nil {
			var us []string
			for _, u := range r.ValUpdates {
				name := fmt.Sprintf("%x", u.PubKey.Data[:4])
				for _, v := range w.Vals {
					if string(v.Val.TM.PubKey().Bytes()[5:]) == string(u.PubKey.Data) {
						name = v.Name
					}
				}
				us = append(us, fmt.Sprintf("%s=%d", name, u.Power))
			}
			var codes []uint32
			for _, t := range r.Txs {
				codes = append(codes, t.Code)
			}
			trace("   h=%d %-12s tx-codes=%v updates=[%s] halt=%v\n", h, kind, codes, strings.Join(us, " "), herr)
			for _, t := range r.Txs {
				if t.Code != 0 {
					trace("      rejected: %s\n", t.Log)
				}
			}
			for _, v := range w.Vals {
				a := v.Val.Addr.String()
				if f := cur.Frozen[a]; f != nil && (prev.Frozen[a] == nil || *prev.Frozen[a] != *f) {
					trace("      freeze record of %s: %+v\n", v.Name, *f)
				}
			}
		}
		if sharedKeyOp != "" && sharedKey(prev) {
			// one root cause, one signature: whatever happens after two records share a key is attributed to
			// the operation that created the sharing
			s.op = sharedKeyOp + "|records-share-a-key"
		}
		checkBlock(s, h, prev, cur, r.ValUpdates, herr)
		if sharedKeyOp == "" && sharedKey(cur) {
			sharedKeyOp = kind
		}
		if len(cur.Bad) > 0 {
			s.violate("harness", "undecodable-record", fmt.Sprintf("height %d: undecodable %v", h, cur.Bad))
		}
		// attribution: a change of a validator's record or freeze flag belongs to the running operation if
		// that operation is about this validator; otherwise it is a delayed effect (record deletion, delayed
		// penalty, purge, re-freeze: block hooks one or more blocks after their cause) and keeps the
		// attribution it had
		explained := false
		for i, v := range w.Vals {
			a := v.Val.Addr.String()
			recCh := recPrint(cur, a) != recPrint(prev, a)
			frzCh := cur.IsFrozen(a) != prev.IsFrozen(a)
			mine := ev != nil && ev.Target == i+1 && (accepted || !ev.HasTx)
			if recCh {
				if mine && direct(ev.Kind, true) {
					valOp[a] = ev.Kind
					explained = true
				} else if _, ok := valOp[a]; !ok {
					valOp[a] = "block-hook"
				}
			}
			if frzCh {
				if mine && direct(ev.Kind, false) {
					frzOp[a] = ev.Kind
					explained = true
				} else if _, ok := frzOp[a]; !ok {
					frzOp[a] = "block-hook"
				}
			}
		}
		if eligibleCount(cur) < eligibleCount(prev) {
			// who took the last eligible validators away: the running operation if it is about a validator
			// whose record or freeze flag changed, else the operation whose delayed effect this is
			if explained {
				s.emptyOp = ev.Kind
			} else if s.emptyOp == "" {
				s.emptyOp = changes[len(changes)-1].op
			}
		}
		if electionPrint(cur) != electionPrint(prev) {
			op := changes[len(changes)-1].op
			if explained || (ev != nil && ev.Target == 0 && ev.Kind != "empty" && accepted) {
				op = ev.Kind
			} else if op == "genesis" {
				op = "block-hook"
			}
			changes = append(changes, change{h, op})
		}
		prev = cur
		if herr != nil {
			res.halted = true
			return false
		}
		if stkview.SetText(x.C.NextVals) != before {
			changedSets = true
		}
		return true
	}
	ok := true
	for pos, e := range hist {
		if e < 0 || e >= len(wd.Events) {
			res.out.Err = fmt.Sprintf("event index %d out of range", e)
			return
		}
		ev := wd.Events[e]
		c := &evCtx{W: w, V: prev, X: x, H: x.C.Height + 1, Tag: fmt.Sprintf("p%d-%s", pos, ev.Kind)}
		for _, b := range ev.Blocks(c) {
			if ok = runBlock(b, ev.Kind, ev); !ok {
				break
			}
		}
		if !ok {
			break
		}
	}
	if res.out.Err != "" {
		return
	}
	if ok {
		window := w.Gov.EvidenceOptions.BlockVotesDiff
		res.out.Key = stkview.StateKey(lastDump, keep(x.C.Height, window), wd.Name, fmt.Sprint(x.C.Height),
			stkview.SetText(x.C.LastVals), stkview.SetText(x.C.Vals), stkview.SetText(x.C.NextVals))
		// quiet extension (not part of the state): run until the election inputs were unchanged for five
		// consecutive blocks, then compare the Tendermint set with the reference election
		stable := 0
		fp := electionPrint(prev)
		for q := 0; q < maxQuiet && ok; q++ {
			if ok = runBlock(harness.BlockSpec{NoCheck: true}, "quiet", nil); !ok {
				break
			}
			if p := electionPrint(prev); p == fp {
				stable++
			} else {
				stable, fp = 0, p
			}
			if stable >= stableBlocks {
				s.op = changes[len(changes)-1].op
				checkConverged(s, prev, x.C.Vals)
				break
			}
		}
		if ok && stable < stableBlocks {
			s.op = changes[len(changes)-1].op
			s.violate("records-never-stable", "", fmt.Sprintf("the validator records, freeze flags or options still changed within the last %d of %d quiet blocks", stableBlocks, maxQuiet))
		}
	} else {
		res.out.NoExpand = true
	}
	if changedSets {
		s.count("nontrivial")
		s.tags["set-changed"] = true
	}
	// outcome tag: the final Tendermint set by validator names and powers + who is frozen
	var members []string
	for _, v := range w.Vals {
		if _, val := x.C.Vals.GetByAddress(v.Val.TM.PubKey().Address()); val != nil {
			members = append(members, fmt.Sprintf("%s=%d", v.Name, val.VotingPower))
		}
	}
	var frozen []string
	for _, v := range w.Vals {
		if prev.IsFrozen(v.Val.Addr.String()) {
			frozen = append(frozen, v.Name)
		}
	}
	tag := wd.Name + ":" + strings.Join(members, ",") + "|frozen=" + strings.Join(frozen, ",")
	if res.halted {
		tag += "|HALT"
	}
	s.tags[tag] = true
	res.out.Viol = s.viol
	res.out.Info = s.info
	for t := range s.tags {
		res.out.Tags = append(res.out.Tags, t)
	}
	sort.Strings(res.out.Tags)
	return
}

// ---------------------------------------------------------------------------------------------
// worker / master
// ---------------------------------------------------------------------------------------------

func workerMain() int {
	fd3 := harness.KeepStdout() // results go to the original stdout (a pipe to the master)
	harness.SilenceStdout()
	// the scratch root is named after the pid: a crashed process with a recycled pid may have left
	// replica directories behind, and InitChain fails on a directory that already holds a chain
	harness.RemoveScratch()
	defer harness.RemoveScratch()
	return explore.ServeWorker(fd3, func(raw json.RawMessage) interface{} {
		var j explore.BFSJob
		if err := json.Unmarshal(raw, &j); err != nil {
			return explore.BFSOut{Err: err.Error()}
		}
		parts := strings.SplitN(j.Tier, ":", 2)
		if len(parts) != 2 {
			return explore.BFSOut{Err: "bad tier " + j.Tier}
		}
		wd := worldByName(parts[1])
		if wd == nil {
			return explore.BFSOut{Err: "unknown world " + parts[1]}
		}
		return execute(wd, j.Hist, nil).out
	})
}

type replayFile struct {
	Case struct {
		History []string `json:"history"`
		H       []int    `json:"h"`
	} `json:"case"`
	Signature string `json:"signature"`
}

func replay(path string) int {
	harness.SilenceStdout()
	harness.RemoveScratch()
	defer harness.RemoveScratch()
	var rf replayFile
	b, err := os.ReadFile(path)
	if err == nil {
		err = json.Unmarshal(b, &rf)
	}
	if err != nil || len(rf.Case.History) == 0 || len(rf.Case.History) != len(rf.Case.H) {
		harness.Outf("cannot read replay %s: %v\n", path, err)
		return 2
	}
	name := strings.SplitN(rf.Case.History[0], ":", 2)[0]
	wd := worldByName(name)
	if wd == nil {
		harness.Outf("unknown world %q in replay\n", name)
		return 2
	}
	harness.Outf("replay %s\n  world %s: %s\n  history %v\n  recorded signature: %s\n", path, wd.Name, wd.What, rf.Case.History, rf.Signature)
	r := execute(wd, rf.Case.H, func(f string, a ...interface{}) { harness.Outf(f, a...) })
	if r.out.Err != "" {
		harness.Outf("harness error: %s\n", r.out.Err)
		return 2
	}
	if len(r.out.Viol) > 0 {
		for _, v := range r.out.Viol {
			harness.Outf("VIOLATION %s\n   %s\n", v.Sig, v.What)
		}
		return 1
	}
	harness.Outf("no violation on this history\n")
	return 0
}

func pow(b, e int) float64 {
	r := 1.0
	for i := 0; i < e; i++ {
		r *= float64(b)
	}
	return r
}

// Main is the entry of `vc10 C10 ...`.
func Main(args []string) int {
	if explore.IsWorker(prop) {
		return workerMain()
	}
	only := ""
	depthOverride := 0
	flags := explore.ParseFlags(prop, args, func(fs *flag.FlagSet) {
		fs.StringVar(&only, "world", "", "explore only this world")
		fs.IntVar(&depthOverride, "depth", 0, "override the BFS depth of every world")
	})
	if flags.Replay != "" {
		return replay(flags.Replay)
	}
	harness.SilenceStdout()
	rep := explore.NewReporter(prop, "model_checking", flags, harness.Out())
	budget := 210 * time.Second
	if flags.Tier == "thorough" {
		budget = 27 * time.Minute
	}
	if flags.Budget > 0 {
		budget = flags.Budget
	}
	end := time.Now().Add(budget)
	var ws []*worldDef
	for _, wd := range worlds() {
		if only == "" || only == wd.Name {
			ws = append(ws, wd)
		}
	}
	// cheap searches first: a world that finishes early leaves its share of the budget to the later ones
	sort.SliceStable(ws, func(i, j int) bool {
		ci := pow(len(ws[i].Events), ws[i].Depth[flags.Tier])
		cj := pow(len(ws[j].Events), ws[j].Depth[flags.Tier])
		return ci < cj
	})
	total := explore.BFSStats{Info: map[string]int64{}, Tags: map[string]int{}, Exhaustive: true}
	perWorld := map[string]interface{}{}
	bounds := map[string]interface{}{}
	kindsWithTx := map[string]bool{}
	for i, wd := range ws {
		wd := wd
		depth := wd.Depth[flags.Tier]
		if depthOverride > 0 {
			depth = depthOverride
		}
		var names []string
		for _, e := range wd.Events {
			names = append(names, e.Name)
			if e.HasTx && !e.Hostile {
				kindsWithTx[e.Kind] = true
			}
		}
		// share the remaining budget evenly between the worlds still to do
		remaining := time.Until(end)
		deadline := time.Now().Add(remaining / time.Duration(len(ws)-i))
		st := explore.RunBFS(explore.BFSConfig{
			Command:   prop,
			Workers:   flags.Workers,
			MaxDepth:  depth,
			NumEvents: func(int) int { return len(wd.Events) },
			Deadline:  deadline,
			PerJob:    2 * time.Minute,
			Tier:      flags.Tier + ":" + wd.Name,
			EventName: func(e int) string { return wd.Name + ":" + wd.Events[e].Name },
		}, rep)
		total.States += st.States
		total.Transitions += st.Transitions
		total.HarnessErrors += st.HarnessErrors
		total.ErrSamples = append(total.ErrSamples, st.ErrSamples...)
		total.Died += st.Died
		total.Capped = total.Capped || st.Capped
		total.DeadlineHit = total.DeadlineHit || st.DeadlineHit
		total.Exhaustive = total.Exhaustive && st.Exhaustive
		if total.DepthCompleted == 0 || st.DepthCompleted < total.DepthCompleted {
			total.DepthCompleted = st.DepthCompleted
		}
		for k, v := range st.Info {
			total.Info[k] += v
		}
		for k, v := range st.Tags {
			total.Tags[k] += v
		}
		for _, l := range st.PerLevel {
			l2 := map[string]int{}
			for k, v := range l {
				l2[k] = v
			}
			l2["world_index"] = i
			total.PerLevel = append(total.PerLevel, l2)
		}
		perWorld[wd.Name] = map[string]interface{}{"what": wd.What, "alphabet": names, "depth_bound": depth, "depth_completed": st.DepthCompleted,
			"states": st.States, "executions": st.Transitions, "exhaustive_within_bound": st.Exhaustive, "per_level": st.PerLevel}
		bounds[wd.Name] = fmt.Sprintf("%d events, depth %d, + up to %d quiet blocks per execution", len(wd.Events), depth, maxQuiet)
	}
	total.Fill(rep)
	rep.Set("worlds", perWorld)
	rep.Set("bounds", bounds)
	rep.Set("distinct_nontrivial", total.Info["nontrivial"])
	rep.Set("rule", "an execution counts as non-trivial when the Tendermint validator set (membership or a power) changed at least once along it; "+
		"the counters fired:* say how often each oracle antecedent occurred (positive update judged, power-0 update, freeze by missed votes / verdict, release, "+
		"options changed inside a block, more eligible validators than the top count, convergence comparison made)")
	rep.Assume("4 candidate validators with stakes 3M/2M/1M/0 around a minimum of 500 000; amounts are the boundary representatives listed in the alphabets")
	rep.Assume("transactions are delivered without a preceding CheckTx (the proposer is not trusted; DeliverTx validates like CheckTx)")
	rep.Assume("evidence options: 2 signatures required in every window of 3 blocks, release time 0 days; all blocks 17 s apart")
	rep.Assume("state identity: height + Tendermint's three validator sets + the committed validator, purge, stake, evidence, option and proposal records (balances, fee shares, reward and delegation accumulators dropped: no staking/evidence handler or the election reads them beyond a sufficiency test that 10^9 OLT per account always passes)")
	// vacuity: every transaction-bearing operation must have been accepted somewhere
	var never []string
	for k := range kindsWithTx {
		if total.Info["acc:"+k] == 0 {
			never = append(never, k)
		}
	}
	sort.Strings(never)
	code := rep.Finish()
	if len(never) > 0 && only == "" {
		harness.Outf("%s: operations never accepted anywhere: %v - the factory builds them wrongly; refusing to report success\n", prop, never)
		return 2
	}
	if total.HarnessErrors > 0 {
		harness.Outf("%s: %d harness errors, e.g. %v\n", prop, total.HarnessErrors, total.ErrSamples)
		if code == 0 {
			return 2
		}
	}
	return code
}
