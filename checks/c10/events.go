package c10

import (
	"fmt"
	"math/big"

	"github.com/Oneledger/protocol/data/governance"

	"verif/checks/c10/stkview"
	"verif/harness"
	"verif/txs/gov"
	"verif/txs/stk"
)

// ---------------------------------------------------------------------------------------------
// worlds
// ---------------------------------------------------------------------------------------------

// Every world has four candidate validators V1 (3 000 000), V2 (2 000 000), V3 (1 000 000) staked at
// genesis and V4 unstaked; the minimum self-delegation is 500 000 everywhere. Evidence options: a
// validator needs 2 signatures in every window of 4 blocks (with the harness default of 1 nobody can
// ever be frozen for missed votes; with a window of 3 every NEW or RELEASED validator is frozen at
// once, because its first signature is seen 3 blocks after its election while it is examined from
// status height + window on), a frozen validator may be released at once (release time 0 days) so that
// RELEASE needs no time jump.
type worldDef struct {
	Name   string
	What   string
	Build  func() *harness.World
	Events []*eventDef
	Depth  map[string]int // tier -> BFS depth
}

func baseWorld(name string) *harness.World {
	w := harness.NewWorld("c10-"+name, 4, 3)
	w.Gov.EvidenceOptions.MinVotesRequired = 2
	w.Gov.EvidenceOptions.BlockVotesDiff = 4
	w.Gov.EvidenceOptions.ValidatorReleaseTime = 0
	return w
}

func worlds() []*worldDef {
	full := []*eventDef{evEmpty, evStakeNew, evStakeLow, evStakeMore, evStakeDupKey, evStakeSecpKey, evUnstakePart, evUnstakeBelowV1,
		evUnstakeBelowV2, evUnstakeAllV3, evUnstakeAllV4, evWithdrawV3, evAbsentV3, evGuiltyV3, evReleaseV3, evByzV2}
	// the boundary worlds leave out what cannot interact with the top-count rule
	boundary := []*eventDef{evEmpty, evStakeNew, evStakeLow, evStakeMore, evUnstakePart, evUnstakeBelowV1,
		evUnstakeBelowV2, evUnstakeAllV3, evAbsentV3, evGuiltyV3, evReleaseV3}
	// cheap worlds first: a world that finishes early leaves its share of the budget to the later ones
	return []*worldDef{
		{Name: "fk0top2", What: "no Frankenstein switch, genesis top count 2 with 3 genesis validators + 1 candidate (V3 is purged at once)",
			Build: func() *harness.World {
				w := baseWorld("fk0top2")
				w.Frankenstein = 0
				w.Gov.StakingOptions.TopValidatorCount = 2
				return w
			}, Events: boundary, Depth: map[string]int{"quick": 4, "thorough": 5}},
		{Name: "fk0top3", What: "no Frankenstein switch, genesis top count 3: the fourth candidate competes with V3",
			Build: func() *harness.World {
				w := baseWorld("fk0top3")
				w.Frankenstein = 0
				w.Gov.StakingOptions.TopValidatorCount = 3
				return w
			}, Events: boundary, Depth: map[string]int{"quick": 3, "thorough": 5}},
		{Name: "fk3top2", What: "genesis top count 2, Frankenstein switch to 64 at height 3 (the election rule changes mid-history)",
			Build: func() *harness.World {
				w := baseWorld("fk3top2")
				w.Frankenstein = 3
				w.Gov.StakingOptions.TopValidatorCount = 2
				return w
			}, Events: boundary, Depth: map[string]int{"quick": 3, "thorough": 5}},
		{Name: "gov", What: "main-net sized governance periods (the only setting in which a config proposal on the staking options validates): " +
			"a passed proposal raises the minimum self-delegation to 1 500 000 (the top count can only be set within 8..64, which 4 candidates never reach)",
			Build: func() *harness.World {
				w := gov.BigWorld("c10")
				w.Gov.EvidenceOptions.ValidatorReleaseTime = 0
				return w
			}, Events: []*eventDef{evEmpty, evStakeNew, evStakeMore, evUnstakePart, evUnstakeBelowV2, evGuiltyV3, evReleaseV3, evGovMin},
			Depth: map[string]int{"quick": 3, "thorough": 4}},
		{Name: "fk1", What: "Frankenstein height 1: top count 64 from the first block on (everybody above the minimum is elected)",
			Build: func() *harness.World { return baseWorld("fk1") }, Events: full, Depth: map[string]int{"quick": 4, "thorough": 5}},
	}
}

func worldByName(n string) *worldDef {
	for _, w := range worlds() {
		if w.Name == n {
			return w
		}
	}
	return nil
}

// ---------------------------------------------------------------------------------------------
// events: one event = one block, or a macro-op of a few consecutive blocks
// ---------------------------------------------------------------------------------------------

// evCtx is what an event may look at when it builds its blocks: the world, the decoded state before
// the event (amounts like "all" are read from it - a deterministic function of the history), the
// height of the event's first block and a tag that makes memos unique per position in the history.
type evCtx struct {
	W   *harness.World
	V   *stkview.View
	X   *harness.Run
	H   int64
	Tag string
}

type eventDef struct {
	Name    string // rendered in histories
	Kind    string // used in signatures and counters
	HasTx   bool   // carries transactions (then it must be accepted somewhere, unless Hostile)
	Hostile bool   // an operation a correct implementation may always reject (no acceptance demanded)
	Target  int    // 1-based index of the validator the operation is about (0 = none / everybody)
	Blocks  func(c *evCtx) []harness.BlockSpec
}

func nb(txs ...*harness.TxSpec) harness.BlockSpec {
	// NoCheck: the proposer is not trusted; DeliverTx runs the same Validate as CheckTx, and CheckTx
	// against the previous header would only filter by a one-block-older time/height.
	return harness.BlockSpec{Txs: txs, NoCheck: true}
}

func stakingOf(c *evCtx, i int) *big.Int {
	if r := c.V.Vals[c.W.Vals[i].Val.Addr.String()]; r != nil {
		return r.Staking
	}
	return new(big.Int)
}

func whole(n *big.Int) int64 {
	if n.IsInt64() {
		return n.Int64()
	}
	return 1
}

var (
	evEmpty = &eventDef{Name: "empty", Kind: "empty", Blocks: func(c *evCtx) []harness.BlockSpec { return []harness.BlockSpec{nb()} }}

	evStakeNew = &eventDef{Name: "stake-new(V4,600000)", Kind: "stake-new", HasTx: true, Target: 4, Blocks: func(c *evCtx) []harness.BlockSpec {
		v := c.W.Vals[3]
		return []harness.BlockSpec{nb(stk.Stake(v, v.Stake, stk.WholeOLT(600000), c.Tag))}
	}}
	evStakeLow = &eventDef{Name: "stake-low(V4,400000)", Kind: "stake-low", HasTx: true, Target: 4, Blocks: func(c *evCtx) []harness.BlockSpec {
		v := c.W.Vals[3]
		return []harness.BlockSpec{nb(stk.Stake(v, v.Stake, stk.WholeOLT(400000), c.Tag))}
	}}
	evStakeMore = &eventDef{Name: "stake-more(V3,2500000)", Kind: "stake-more", HasTx: true, Target: 3, Blocks: func(c *evCtx) []harness.BlockSpec {
		v := c.W.Vals[2]
		return []harness.BlockSpec{nb(stk.Stake(v, v.Stake, stk.WholeOLT(2500000), c.Tag))}
	}}
	// V4 stakes under its own address but announces V1's consensus public key
	evStakeDupKey = &eventDef{Name: "stake-dupkey(V4,key-of-V1,600000)", Kind: "stake-dupkey", HasTx: true, Hostile: true, Target: 4, Blocks: func(c *evCtx) []harness.BlockSpec {
		v := c.W.Vals[3]
		return []harness.BlockSpec{nb(stk.StakeRaw(v.Val, v.Stake, c.W.Vals[0].Val.Pub, v.Ecdsa.Pub, v.Name, stk.WholeOLT(600000), c.Tag))}
	}}
	// a NEW validator whose consensus key is a SECP256K1 key (address and key match, correctly signed by both
	// parties, funded from V4's stake account): Tendermint's default consensus parameters admit ed25519 keys only
	evStakeSecpKey = &eventDef{Name: "stake-new(validator-with-secp256k1-consensus-key,600000)", Kind: "stake-secp-key", HasTx: true, Hostile: true, Target: 4, Blocks: func(c *evCtx) []harness.BlockSpec {
		v := c.W.Vals[3]
		sv := harness.NewSecpAccount("c10-secp-validator")
		return []harness.BlockSpec{nb(stk.StakeRaw(sv, v.Stake, sv.Pub, v.Ecdsa.Pub, "secpval", stk.WholeOLT(600000), c.Tag))}
	}}
	evUnstakePart = &eventDef{Name: "unstake-part(V1,500000)", Kind: "unstake-part", HasTx: true, Target: 1, Blocks: func(c *evCtx) []harness.BlockSpec {
		v := c.W.Vals[0]
		return []harness.BlockSpec{nb(stk.Unstake(v.Val, v.Stake, stk.WholeOLT(500000), c.Tag))}
	}}
	evUnstakeBelowV1 = unstakeBelow(0)
	evUnstakeBelowV2 = unstakeBelow(1)
	evUnstakeAllV3   = unstakeAll(2)
	evUnstakeAllV4   = unstakeAll(3)
	evWithdrawV3     = &eventDef{Name: "withdraw(V3,all-withdrawable)", Kind: "withdraw", HasTx: true, Target: 3, Blocks: func(c *evCtx) []harness.BlockSpec {
		v := c.W.Vals[2]
		amt := whole(stkview.Big(c.V.Bounded, v.Stake.Addr.String()))
		if amt <= 0 {
			amt = 1
		}
		return []harness.BlockSpec{nb(stk.Withdraw(v.Val, v.Stake, stk.WholeOLT(amt), c.Tag))}
	}}
	// macro-op: V3 does not sign the commits carried by three consecutive blocks (1 signature left in
	// the window of 4 < 2 required). Applied only where Tendermint could still commit (> 2/3 sign); the
	// signer set of the following blocks is not known yet, V3's share never exceeds 1/3 in these worlds
	// unless the others unstaked - the harness ignores an absent validator that is not in the signer set.
	evAbsentV3 = &eventDef{Name: "absent-3-blocks(V3)", Kind: "absent", Target: 3, Blocks: func(c *evCtx) []harness.BlockSpec {
		b := nb()
		b.Absent = []int{2}
		return []harness.BlockSpec{b, b, b}
	}}
	// macro-op: V1 accuses V3, V1 votes yes, V2 votes yes, in three consecutive blocks
	evGuiltyV3 = &eventDef{Name: "guilty-verdict(V3)", Kind: "guilty", HasTx: true, Target: 3, Blocks: func(c *evCtx) []harness.BlockSpec {
		id := "req-" + c.Tag
		return []harness.BlockSpec{
			nb(stk.Allegation(id, c.W.Vals[0].Val, c.W.Vals[2].Val.Addr, 1, "proof", c.Tag+"a")),
			nb(stk.AllegationVote(id, c.W.Vals[0].Val, stk.Yes, c.Tag+"b")),
			nb(stk.AllegationVote(id, c.W.Vals[1].Val, stk.Yes, c.Tag+"c")),
		}
	}}
	evReleaseV3 = &eventDef{Name: "release(V3)", Kind: "release", HasTx: true, Target: 3, Blocks: func(c *evCtx) []harness.BlockSpec {
		return []harness.BlockSpec{nb(stk.Release(c.W.Vals[2].Val, c.Tag))}
	}}
	evByzV2 = &eventDef{Name: "byzantine-evidence(V2)", Kind: "byzantine", Target: 2, Blocks: func(c *evCtx) []harness.BlockSpec {
		b := nb()
		b.Byz = []int{1}
		return []harness.BlockSpec{b}
	}}
	// macro-op: a config-update proposal "stakingOptions.minSelfDelegationAmount:1500000" is created,
	// funded to its goal, voted by V1 and V2 and finalised by the block after the second vote
	evGovMin = &eventDef{Name: "proposal(minSelfDelegation=1500000)", Kind: "gov-min", HasTx: true, Blocks: func(c *evCtx) []harness.BlockSpec {
		id := gov.PID("c10-" + c.Tag)
		w := c.W
		typ := governance.ProposalTypeConfigUpdate
		vote := func(i int, memo string) *harness.TxSpec {
			return gov.ProposalVote(id, w.Vals[i].Stake, w.Vals[i].Val, governance.OPIN_POSITIVE, memo)
		}
		return []harness.BlockSpec{
			nb(gov.ValidCreate(w, id, typ, w.Users[0], c.H, "stakingOptions.minSelfDelegationAmount:1500000", c.Tag+"a")),
			nb(gov.ProposalFund(id, w.Users[1], stk.OLT(50), c.Tag+"b")),
			nb(gov.ProposalFund(id, w.Users[2], stk.OLT(40), c.Tag+"c")),
			nb(vote(0, c.Tag+"d")),
			nb(vote(1, c.Tag+"e")),
			nb(), // BeginBlock queues, EndBlock runs the internal finalisation
		}
	}}
)

// unstakeAll: validator i unstakes everything its record shows.
func unstakeAll(i int) *eventDef {
	return &eventDef{Name: fmt.Sprintf("unstake-all(V%d)", i+1), Kind: "unstake-all", HasTx: true, Target: i + 1, Blocks: func(c *evCtx) []harness.BlockSpec {
		v := c.W.Vals[i]
		amt := whole(stakingOf(c, i))
		if amt <= 0 {
			amt = 1
		}
		return []harness.BlockSpec{nb(stk.Unstake(v.Val, v.Stake, stk.WholeOLT(amt), c.Tag))}
	}}
}

// unstakeBelow: validator i unstakes down to 400 000 (100 000 under the minimum).
func unstakeBelow(i int) *eventDef {
	return &eventDef{Name: fmt.Sprintf("unstake-below-min(V%d,to-400000)", i+1), Kind: "unstake-below", HasTx: true, Target: i + 1, Blocks: func(c *evCtx) []harness.BlockSpec {
		v := c.W.Vals[i]
		amt := new(big.Int).Sub(stakingOf(c, i), big.NewInt(400000))
		a := whole(amt)
		if a <= 0 {
			a = 1
		}
		return []harness.BlockSpec{nb(stk.Unstake(v.Val, v.Stake, stk.WholeOLT(a), c.Tag))}
	}}
}
