package c10

import (
	"fmt"
	"math/big"
	"sort"
	"strings"

	abci "github.com/tendermint/tendermint/abci/types"
	tmtypes "github.com/tendermint/tendermint/types"

	"verif/checks/c10/stkview"
	"verif/explore"
)

// The oracle encodes the statement of C10, clause by clause. It never predicts what the application
// will do; it looks at the validator updates a block returned and at the validator RECORDS (`v_`
// family: the statement's "records", see the property's anchors) of the PREVIOUS block, the freeze
// records and the staking options:
//
//	accept      the updates of every block are acceptable to Tendermint (the harness applies them to
//	            a real types.ValidatorSet with UpdateWithChangeSet, two-block delay included: duplicate
//	            keys, removal of an absent validator, empty set, power out of range are its errors)
//	known       every positive-power update names a validator that has a record in the previous block
//	min-stake   ... whose own stake was at least the minimum self-delegation
//	not-frozen  ... that was not frozen in the previous block's records and was not flagged for missed
//	            votes at the beginning of this block
//	power       ... and the update carries that stake as its power
//	top-count   at most the configured top count of positive updates per block
//	prefer      no eligible validator with strictly more stake than an issued one is left out
//	converge    once the records stop changing, the Tendermint set equals the election within 5 blocks
//
// Where the option value of "the" minimum / top count is ambiguous (the options may change in the
// very block: Frankenstein switch in BeginBlock, proposal finalisation at the end of EndBlock), the
// value before and the value after the block are both tolerated.

type sink struct {
	emptyOp          string                                // the operation that last reduced the number of eligible validators (attribution of "empty set")
	minVotes, window int64                                 // evidence options of the world (missed-votes rule)
	op               string                                // attribution of judgements that concern no single validator
	opOf             func(addr string, freeze bool) string // attribution of judgements about one validator: the operation that last changed its record or freeze flag
	viol             []explore.BFSViol
	seen             map[string]bool
	info             map[string]int64
	tags             map[string]bool
	trace            func(format string, a ...interface{}) // replay mode: print verdicts
}

func newSink() *sink {
	return &sink{seen: map[string]bool{}, info: map[string]int64{}, tags: map[string]bool{}}
}

func (s *sink) violate(clause, facts, what string) { s.violateOp(s.op, clause, facts, what) }

// violateAbout attributes the violation to the operation that last touched validator addr.
func (s *sink) violateAbout(addr, clause, facts, what string) {
	op := s.op
	if s.opOf != nil && !strings.Contains(s.op, "records-share-a-key") {
		op = s.opOf(addr, strings.Contains(clause+facts, "frozen") || strings.Contains(clause, "flagged"))
	}
	s.violateOp(op, clause, facts, what)
}

func (s *sink) violateOp(op, clause, facts, what string) {
	sig := prop + "|" + clause + "|op=" + op
	if facts != "" {
		sig += "|" + facts
	}
	if s.trace != nil {
		s.trace("      VIOLATION %s: %s\n", sig, what)
	}
	if s.seen[sig] {
		return
	}
	s.seen[sig] = true
	s.viol = append(s.viol, explore.BFSViol{Sig: sig, What: what})
}

func (s *sink) count(k string) { s.info[k]++ }

func minBig(a, b *big.Int) *big.Int {
	if a == nil {
		return b
	}
	if b == nil {
		return a
	}
	if a.Cmp(b) < 0 {
		return a
	}
	return b
}

func maxBig(a, b *big.Int) *big.Int {
	if a == nil {
		return b
	}
	if b == nil {
		return a
	}
	if a.Cmp(b) > 0 {
		return a
	}
	return b
}

// haltClass classifies Tendermint's refusal (no addresses, no numbers).
func haltClass(err error) string {
	m := err.Error()
	switch {
	case strings.Contains(m, "duplicate entry"):
		return "duplicate-key"
	case strings.Contains(m, "failed to find validator") && strings.Contains(m, "to remove"):
		return "remove-absent-validator"
	case strings.Contains(m, "empty set"):
		return "empty-set"
	case strings.Contains(m, "total voting power"), strings.Contains(m, "overflow"):
		return "power-out-of-range"
	case strings.Contains(m, "negative"):
		return "negative-power"
	case strings.Contains(m, "pubkey type"):
		return "bad-pubkey-type"
	default:
		return "other"
	}
}

// flaggedNow: frozen for missed votes in the BeginBlock of height h (record written by
// CheckMaliciousValidators before the election of the same block).
// The freeze record alone is not enough: a verdict reached in the EndBlock of the same height
// overwrites it (status 2, same height). So the rule itself is evaluated too (the statement does not
// define "flagged malicious"; this is the rule of identity/validator_set_allegation.go): above the
// window height, a validator with fewer than the required signatures in the cumulative count written
// by this block's BeginBlock, whose status was active for at least one window.
func (s *sink) flaggedNow(prev, cur *stkview.View, addr string, h int64) bool {
	f := cur.Frozen[addr]
	if f != nil && f.Frozen && f.Status == 1 && f.FrozenHeight == h {
		return true
	}
	n, counted := cur.Votes[addr]
	st := prev.Status[addr]
	return h > s.window && counted && n < s.minVotes && st != nil && st.Active && st.Height+s.window <= h
}

// checkBlock judges the updates of block h. prev/cur are the decoded states after h-1 and h.
func checkBlock(s *sink, h int64, prev, cur *stkview.View, ups []abci.ValidatorUpdate, halt error) {
	if halt != nil {
		if c := haltClass(halt); c == "empty-set" && s.emptyOp != "" && !strings.Contains(s.op, "records-share-a-key") {
			s.violateOp(s.emptyOp, "updates-rejected-by-tendermint", "err="+c, fmt.Sprintf("height %d: %v", h, halt))
		} else {
			s.violate("updates-rejected-by-tendermint", "err="+c, fmt.Sprintf("height %d: %v", h, halt))
		}
	}
	if !prev.Opt.OK || !cur.Opt.OK {
		s.violate("harness", "staking-options-undecodable", "the staking options could not be decoded from the dump")
		return
	}
	minLo := minBig(prev.Opt.Min, cur.Opt.Min)
	minHi := maxBig(prev.Opt.Min, cur.Opt.Min)
	topHi := prev.Opt.Top
	if cur.Opt.Top > topHi {
		topHi = cur.Opt.Top
	}
	if prev.Opt.Top != cur.Opt.Top || prev.Opt.Min.Cmp(cur.Opt.Min) != 0 {
		s.count("fired:options-changed-in-block")
	}
	byKey := map[string][]*stkview.ValRec{}
	for _, a := range prev.ValAddrs() {
		r := prev.Vals[a]
		byKey[string(r.PubKey)] = append(byKey[string(r.PubKey)], r)
	}
	issued := map[string]*stkview.ValRec{}
	pos := 0
	for _, u := range ups {
		if u.Power == 0 {
			s.count("fired:power-0-update")
			continue
		}
		pos++
		s.count("fired:positive-update")
		cands := byKey[string(u.PubKey.Data)]
		if len(cands) == 0 {
			s.violate("positive-update-without-record", "", fmt.Sprintf("height %d: update power %d for a key without validator record in the previous block", h, u.Power))
			continue
		}
		// several records may (wrongly) share a key: the update is fine if one of them justifies it;
		// otherwise the record that comes closest is reported
		var best *stkview.ValRec
		var why []string
		for _, r := range cands {
			var bad []string
			if r.Staking.Cmp(minLo) < 0 {
				bad = append(bad, "below-minimum")
			}
			if prev.IsFrozen(r.Addr) {
				bad = append(bad, "frozen")
			}
			if s.flaggedNow(prev, cur, r.Addr, h) {
				bad = append(bad, "flagged-missed-votes")
			}
			if big.NewInt(u.Power).Cmp(r.Staking) != 0 {
				bad = append(bad, "power-differs-from-stake")
			}
			if best == nil || len(bad) < len(why) {
				best, why = r, bad
			}
		}
		if len(why) == 0 {
			issued[best.Addr] = best
			continue
		}
		for _, w := range why {
			s.violateAbout(best.Addr, "positive-update-"+w, "", fmt.Sprintf("height %d: update power %d for %s; previous record: stake %s power %d frozen %v; minimum %s",
				h, u.Power, best.Addr, best.Staking, best.Power, prev.IsFrozen(best.Addr), minLo))
		}
	}
	if int64(pos) > topHi {
		s.violate("more-than-top-count", "", fmt.Sprintf("height %d: %d positive updates, top count %d", h, pos, topHi))
	}
	// preference: somebody certainly eligible (under the stricter reading of the options) with strictly
	// more stake than an issued validator was left out
	var eligible []*stkview.ValRec
	for _, a := range prev.ValAddrs() {
		r := prev.Vals[a]
		if r.Staking.Cmp(minHi) >= 0 && !prev.IsFrozen(a) && !s.flaggedNow(prev, cur, a, h) {
			eligible = append(eligible, r)
		}
	}
	if int64(len(eligible)) > minInt64(prev.Opt.Top, cur.Opt.Top) {
		s.count("fired:more-eligible-than-top-count")
	}
	if pos > 0 {
		for _, e := range eligible {
			if issued[e.Addr] != nil {
				continue
			}
			for _, i := range issued {
				if e.Staking.Cmp(i.Staking) > 0 {
					s.violateAbout(e.Addr, "higher-stake-skipped", "", fmt.Sprintf("height %d: %s (stake %s) got no update while %s (stake %s) did", h, e.Addr, e.Staking, i.Addr, i.Staking))
					break
				}
			}
		}
	}
	// vacuity: what happened in this block
	for a, f := range cur.Frozen {
		p := prev.Frozen[a]
		if f.Frozen && (p == nil || !p.Frozen || p.FrozenHeight != f.FrozenHeight) {
			if f.Status == 1 {
				s.count("fired:freeze-missed-votes")
			} else {
				s.count("fired:freeze-guilty-verdict")
			}
		}
		if !f.Frozen && p != nil && p.Frozen {
			s.count("fired:release")
		}
	}
	if len(prev.Delayed) < len(cur.Delayed) {
		s.count("fired:delayed-penalty-recorded")
	}
	if len(prev.Vals) > len(cur.Vals) {
		s.count("fired:validator-record-deleted")
	}
}

func minInt64(a, b int64) int64 {
	if a < b {
		return a
	}
	return b
}

// eligibleCount: validators that could be elected by the records (stake >= minimum, not frozen).
func eligibleCount(v *stkview.View) int {
	n := 0
	for a, r := range v.Vals {
		if v.Opt.OK && r.Staking.Cmp(v.Opt.Min) >= 0 && !v.IsFrozen(a) {
			n++
		}
	}
	return n
}

// electionPrint is everything the reference election depends on.
func electionPrint(v *stkview.View) string {
	var sb strings.Builder
	for _, a := range v.ValAddrs() {
		r := v.Vals[a]
		fmt.Fprintf(&sb, "%s:%s:%d:%x:%v;", a, r.Staking, r.Power, r.PubKey, v.IsFrozen(a))
	}
	fmt.Fprintf(&sb, "top=%d min=%s", v.Opt.Top, v.Opt.Min)
	return sb.String()
}

// checkConverged compares the Tendermint set with the reference election of the (stable) records:
// the eligible validators (stake >= minimum, not frozen), the top-count of them by stake (ties at
// the boundary may go either way), each with its stake as power.
func checkConverged(s *sink, v *stkview.View, set *tmtypes.ValidatorSet) {
	s.count("fired:convergence-checked")
	type cand struct {
		r   *stkview.ValRec
		tm  []byte
		pow *big.Int
	}
	var elig []cand
	for _, a := range v.ValAddrs() {
		r := v.Vals[a]
		if r.Staking.Cmp(v.Opt.Min) >= 0 && !v.IsFrozen(a) {
			elig = append(elig, cand{r: r})
		}
	}
	if len(elig) == 0 {
		// "never empty the set" and "converge to the election" cannot both hold when nobody is eligible;
		// the first is the consensus-critical one, the second is not demanded here
		s.count("fired:empty-election-not-judged")
		return
	}
	sort.Slice(elig, func(i, j int) bool { return elig[i].r.Staking.Cmp(elig[j].r.Staking) > 0 })
	want := len(elig)
	if int64(want) > v.Opt.Top {
		want = int(v.Opt.Top)
		s.count("fired:convergence-with-exclusion-by-top-count")
	}
	members := map[string]int64{} // pubkey -> power
	for _, val := range set.Validators {
		members[string(val.PubKey.Bytes()[5:])] = val.VotingPower // amino prefix (4) + length (1) + 32 key bytes
	}
	byKey := map[string]*stkview.ValRec{}
	for _, a := range v.ValAddrs() {
		byKey[string(v.Vals[a].PubKey)] = v.Vals[a]
	}
	var lowestMember *big.Int
	isElig := map[string]bool{}
	for _, e := range elig {
		isElig[e.r.Addr] = true
		if p, ok := members[string(e.r.PubKey)]; ok {
			if big.NewInt(p).Cmp(e.r.Staking) != 0 {
				s.violateAbout(e.r.Addr, "not-converged", "member-power-differs-from-stake", fmt.Sprintf("%s is in the set with power %d, its stake is %s", e.r.Addr, p, e.r.Staking))
			}
			lowestMember = minBig(lowestMember, e.r.Staking)
		}
	}
	// members that the records do not justify
	for _, val := range set.Validators {
		key := string(val.PubKey.Bytes()[5:])
		r := byKey[key]
		switch {
		case r == nil:
			// no record names this key any more (a validator's address is the address of its key)
			s.violateAbout(fmt.Sprintf("0lt%x", []byte(val.Address)), "not-converged", "member-without-record", fmt.Sprintf("Tendermint validator %X (power %d) has no validator record; set %s", val.Address, val.VotingPower, stkview.SetText(set)))
		case isElig[r.Addr]:
		case v.IsFrozen(r.Addr):
			s.violateAbout(r.Addr, "not-converged", "member-frozen", fmt.Sprintf("%s (power %d) is in the set although it is frozen", r.Addr, val.VotingPower))
		default:
			s.violateAbout(r.Addr, "not-converged", "member-below-minimum", fmt.Sprintf("%s (power %d) is in the set although its stake %s is below the minimum %s", r.Addr, val.VotingPower, r.Staking, v.Opt.Min))
		}
	}
	// eligible validators left outside although there is room or a weaker member
	inSet := 0
	for _, e := range elig {
		if _, ok := members[string(e.r.PubKey)]; ok {
			inSet++
		}
	}
	for _, e := range elig {
		if _, ok := members[string(e.r.PubKey)]; ok {
			continue
		}
		if inSet < want {
			s.violateAbout(e.r.Addr, "not-converged", "eligible-outside-with-room", fmt.Sprintf("%s (stake %s) is eligible and outside the set which holds only %d of %d possible elected validators", e.r.Addr, e.r.Staking, inSet, want))
		} else if lowestMember != nil && e.r.Staking.Cmp(lowestMember) > 0 {
			s.violateAbout(e.r.Addr, "not-converged", "higher-stake-outside", fmt.Sprintf("%s (stake %s) is outside the set although a member has only %s", e.r.Addr, e.r.Staking, lowestMember))
		}
	}
	if len(set.Validators) > want && int64(want) == v.Opt.Top {
		s.count("fired:set-larger-than-top-count")
	}
}
