package c12

import (
	"encoding/base64"
	"encoding/json"
	"fmt"
	"math/big"
	"sort"
	"strconv"
	"strings"

	"github.com/Oneledger/protocol/data/keys"
	"github.com/Oneledger/protocol/data/network_delegation"

	"verif/harness"
)

// snap is what property C12 can observe in a committed key/value dump: balances, active network
// delegations, pending undelegations, delegation reward balances and pending reward withdrawals.
type snap struct {
	bal     map[string]*big.Int           // "0lt..." -> OLT balance
	otherB  map[string]string             // every b_ key that is not an OLT balance (other currencies): raw value
	active  map[string]*big.Int           // deleg_a_<addr>
	pendU   map[int64]map[string]*big.Int // deleg_p_<h>_<addr>
	rb      map[string]*big.Int           // delegRwz_balance_<addr>
	pendR   map[int64]map[string]*big.Int // delegRwz_pending_<h>_<addr>
	totalRw *big.Int                      // delegRwz_total_rewards
	bad     []string                      // undecodable records of the families above
}

// poolAddr is the text form of the delegation pool address.
var poolAddr = keys.Address(network_delegation.DELEGATION_POOL_KEY).String()

func parseAmt(v []byte) (*big.Int, bool) {
	var s string
	if err := json.Unmarshal(v, &s); err != nil {
		return nil, false
	}
	return new(big.Int).SetString(s, 10)
}

// parseCoin decodes {"currency":{...,"name":"OLT"},"amount":"<base64 of a JSON string> | <decimal>"}.
func parseCoin(v []byte) (string, *big.Int, bool) {
	var c struct {
		Currency struct {
			Name string `json:"name"`
		} `json:"currency"`
		Amount json.RawMessage `json:"amount"`
	}
	if err := json.Unmarshal(v, &c); err != nil {
		return "", nil, false
	}
	var s string
	if err := json.Unmarshal(c.Amount, &s); err != nil {
		return "", nil, false
	}
	if n, ok := new(big.Int).SetString(s, 10); ok {
		return c.Currency.Name, n, true
	}
	raw, err := base64.StdEncoding.DecodeString(s)
	if err != nil {
		return "", nil, false
	}
	n, ok := parseAmt(raw)
	return c.Currency.Name, n, ok
}

func splitHeightAddr(rest string) (int64, string, bool) {
	i := strings.IndexByte(rest, '_')
	if i <= 0 {
		return 0, "", false
	}
	h, err := strconv.ParseInt(rest[:i], 10, 64)
	if err != nil {
		return 0, "", false
	}
	return h, rest[i+1:], true
}

func decode(dump []harness.KV) *snap {
	s := &snap{bal: map[string]*big.Int{}, otherB: map[string]string{}, active: map[string]*big.Int{},
		pendU: map[int64]map[string]*big.Int{}, rb: map[string]*big.Int{}, pendR: map[int64]map[string]*big.Int{}, totalRw: new(big.Int)}
	put := func(m map[int64]map[string]*big.Int, h int64, a string, n *big.Int) {
		if m[h] == nil {
			m[h] = map[string]*big.Int{}
		}
		m[h][a] = n
	}
	for _, kv := range dump {
		k := string(kv.K)
		switch {
		case strings.HasPrefix(k, "b_"):
			i := strings.LastIndexByte(k, '_')
			if i > 2 && k[i+1:] == "OLT" {
				n, ok := parseAmt(kv.V)
				if !ok {
					s.bad = append(s.bad, k)
					continue
				}
				s.bal[k[2:i]] = n
			} else {
				s.otherB[k] = string(kv.V)
			}
		case strings.HasPrefix(k, "deleg_a_"):
			cur, n, ok := parseCoin(kv.V)
			if !ok || cur != "OLT" {
				s.bad = append(s.bad, k)
				continue
			}
			s.active[k[len("deleg_a_"):]] = n
		case strings.HasPrefix(k, "deleg_p_"):
			h, a, ok := splitHeightAddr(k[len("deleg_p_"):])
			cur, n, ok2 := parseCoin(kv.V)
			if !ok || !ok2 || cur != "OLT" {
				s.bad = append(s.bad, k)
				continue
			}
			put(s.pendU, h, a, n)
		case k == "delegRwz_total_rewards":
			if n, ok := parseAmt(kv.V); ok {
				s.totalRw = n
			} else {
				s.bad = append(s.bad, k)
			}
		case strings.HasPrefix(k, "delegRwz_balance_"):
			n, ok := parseAmt(kv.V)
			if !ok {
				s.bad = append(s.bad, k)
				continue
			}
			s.rb[k[len("delegRwz_balance_"):]] = n
		case strings.HasPrefix(k, "delegRwz_pending_"):
			h, a, ok := splitHeightAddr(k[len("delegRwz_pending_"):])
			n, ok2 := parseAmt(kv.V)
			if !ok || !ok2 {
				s.bad = append(s.bad, k)
				continue
			}
			put(s.pendR, h, a, n)
		case strings.HasPrefix(k, "deleg"):
			// a record of the delegation stores in a family this decoder does not know
			s.bad = append(s.bad, k)
		}
	}
	return s
}

func (s *snap) balOf(a string) *big.Int {
	if n := s.bal[a]; n != nil {
		return n
	}
	return new(big.Int)
}

func (s *snap) sumActive() *big.Int {
	t := new(big.Int)
	for _, n := range s.active {
		t.Add(t, n)
	}
	return t
}

// maxPendingHeight returns the largest height carrying a non-zero pending record.
func (s *snap) maxPendingHeight() int64 {
	var mx int64
	for _, m := range []map[int64]map[string]*big.Int{s.pendU, s.pendR} {
		for h, e := range m {
			for _, n := range e {
				if n.Sign() != 0 && h > mx {
					mx = h
				}
			}
		}
	}
	return mx
}

// stateKey is the BFS state identity: the height plus every record the delegation subsystem reads or
// writes: both delegation stores (deleg_*, delegRwz_*), the pool balance and the OLT balances of the
// accounts that can sign operations of the alphabet. Everything else is dropped because it cannot
// influence the subsystem within one world: validator powers are constant (no staking operation in
// the alphabet), the block-reward calculator's state (rwcum_*, ri_*) is a function of the height alone
// (constant time step, rewards pool never debited by delegation payouts), validators' reward chunks
// (rwz_*), fee shares (f_*) and vote bookkeeping (es__*) are written but never read by a delegation
// handler or hook. The height is absolute because maturity deadlines are absolute heights.
func stateKey(h int64, dump []harness.KV, actors map[string]bool) string {
	var keep []harness.KV
	for _, kv := range dump {
		k := string(kv.K)
		switch {
		case strings.HasPrefix(k, "deleg"):
			keep = append(keep, kv)
		case strings.HasPrefix(k, "b_") && strings.HasSuffix(k, "_OLT"):
			a := k[2 : len(k)-4]
			if a == poolAddr || actors[a] {
				keep = append(keep, kv)
			}
		}
	}
	return fmt.Sprintf("%d:%s", h, harness.DigestOf(keep))
}

func sortedKeys(m map[string]*big.Int) []string {
	out := make([]string, 0, len(m))
	for k := range m {
		out = append(out, k)
	}
	sort.Strings(out)
	return out
}

func sortedHeights(m map[int64]map[string]*big.Int) []int64 {
	out := make([]int64, 0, len(m))
	for h := range m {
		out = append(out, h)
	}
	sort.Slice(out, func(i, j int) bool { return out[i] < out[j] })
	return out
}
