package c12

import (
	"fmt"
	"math/big"
	"sort"
	"strings"

	"verif/harness"
)

// The reference model encodes the statement of C12, not the implementation:
//
//  (pool)      at every block boundary pool balance >= sum of active delegations, == when nobody donated;
//  (active)    an accepted delegation / reinvestment enters, an accepted undelegation leaves the active
//              set in the same block; nothing else changes it;
//  (payout)    an undelegated amount is credited to THAT delegator's balance exactly once, in the block
//              whose height is undelegation height + maturity; never earlier, twice or to anyone else.
//              Observed as: the OLT balance of every account changes, per block, by exactly
//              (amounts maturing for it now) - (amounts it delegated / donated) - (fees of its own
//              accepted transactions, gasUsed x price as reported in the results);
//  (rewards)   reward withdrawals follow the same maturity rule and an accepted withdrawal (or
//              reinvestment) never exceeds the accrued reward balance. The accrual rule itself is C13's
//              subject: here the accrual of a block is OBSERVED (balance record after - before + amounts
//              taken out by accepted operations) and must be non-negative, must add up over all
//              delegators to the growth of the store's own total counter, and must be zero for an
//              account that had no active delegation when the block began.
//
// It is driven by the same operations as the implementation and reads DeliverTx result codes to know
// whether an operation was accepted; whether accepting was right is judged here (an accepted
// undelegation above the active amount, an accepted reward withdrawal above the accrued balance are
// violations). Rejections the statement does not demand are only counted.

type rop struct {
	op  op
	amt *big.Int
}

type paid struct {
	who    int
	amt    *big.Int
	reward bool
}

type model struct {
	wd      *wdef
	addr    [nActors]string
	idx     map[string]int
	bal     map[string]*big.Int // expected OLT balance of every account that has a balance record
	other   map[string]string   // non-OLT balance records (must never change)
	active  [nActors]*big.Int
	pendU   map[int64]*[nActors]*big.Int
	pendR   map[int64]*[nActors]*big.Int
	tolU    map[string]bool // pending records whose amount was paid early (root cause already reported)
	rb      [nActors]*big.Int
	totalRw *big.Int
	donated *big.Int
	log     []paid
	height  int64

	viol    []violation
	seenSig map[string]bool
	info    map[string]int64
	tags    map[string]bool
	trivial bool

	poolReported bool
}

type violation struct {
	sig, what string
}

func zero3() [nActors]*big.Int {
	var a [nActors]*big.Int
	for i := range a {
		a[i] = new(big.Int)
	}
	return a
}

func newModel(wd *wdef, w *harness.World, genesis *snap) (*model, error) {
	m := &model{wd: wd, idx: map[string]int{}, bal: map[string]*big.Int{}, other: map[string]string{},
		pendU: map[int64]*[nActors]*big.Int{}, pendR: map[int64]*[nActors]*big.Int{}, tolU: map[string]bool{},
		totalRw: new(big.Int), donated: new(big.Int), seenSig: map[string]bool{}, info: map[string]int64{}, tags: map[string]bool{}, trivial: true}
	for i := 0; i < nActors; i++ {
		m.addr[i] = w.Users[i].Addr.String()
		m.idx[m.addr[i]] = i
	}
	m.active = zero3()
	m.rb = zero3()
	pre := wd.pre
	for i := 0; i < nActors; i++ {
		if pre.active[i] != nil {
			m.active[i].Set(pre.active[i])
		}
		if pre.rb[i] != nil {
			m.rb[i].Set(pre.rb[i])
			m.totalRw.Add(m.totalRw, pre.rb[i])
		}
	}
	load := func(dst map[int64]*[nActors]*big.Int, src map[int64][nActors]*big.Int) {
		for h, e := range src {
			z := zero3()
			for i := 0; i < nActors; i++ {
				if e[i] != nil {
					z[i].Set(e[i])
				}
			}
			dst[h] = &z
		}
	}
	load(m.pendU, pre.pendU)
	load(m.pendR, pre.pendR)
	if pre.donated != nil {
		m.donated.Set(pre.donated)
	}
	for a, n := range genesis.bal {
		m.bal[a] = new(big.Int).Set(n)
	}
	for k, v := range genesis.otherB {
		m.other[k] = v
	}
	// the genesis dump must show exactly the declared variant (otherwise the world is built wrongly:
	// a harness error, not a verdict)
	for i := 0; i < nActors; i++ {
		if got := genesis.active[m.addr[i]]; (got == nil && m.active[i].Sign() != 0) || (got != nil && got.Cmp(m.active[i]) != 0) {
			return nil, fmt.Errorf("genesis: active delegation of %s is %v, declared %v", actorNames[i], got, m.active[i])
		}
		if got := genesis.rb[m.addr[i]]; (got == nil && m.rb[i].Sign() != 0) || (got != nil && got.Cmp(m.rb[i]) != 0) {
			return nil, fmt.Errorf("genesis: reward balance of %s is %v, declared %v", actorNames[i], got, m.rb[i])
		}
	}
	chk := func(name string, decl map[int64]*[nActors]*big.Int, got map[int64]map[string]*big.Int) error {
		for h, e := range decl {
			for i := 0; i < nActors; i++ {
				g := got[h][m.addr[i]]
				if (g == nil && e[i].Sign() != 0) || (g != nil && g.Cmp(e[i]) != 0) {
					return fmt.Errorf("genesis: %s record of %s at %d is %v, declared %v", name, actorNames[i], h, g, e[i])
				}
			}
		}
		return nil
	}
	if err := chk("pending undelegation", m.pendU, genesis.pendU); err != nil {
		return nil, err
	}
	if err := chk("pending reward", m.pendR, genesis.pendR); err != nil {
		return nil, err
	}
	if genesis.totalRw.Cmp(m.totalRw) != 0 {
		return nil, fmt.Errorf("genesis: total rewards counter %v, declared %v", genesis.totalRw, m.totalRw)
	}
	return m, nil
}

func (m *model) violate(sig, what string) {
	if m.seenSig[sig] {
		return
	}
	m.seenSig[sig] = true
	m.viol = append(m.viol, violation{sig, what})
}

func (m *model) count(k string) { m.info[k]++ }

func (m *model) who(a string) string {
	if a == poolAddr {
		return "pool"
	}
	if i, ok := m.idx[a]; ok {
		return actorNames[i]
	}
	return "third-party"
}

func opsName(ops []rop) string {
	if len(ops) == 0 {
		return "none"
	}
	var p []string
	for _, o := range ops {
		p = append(p, kindNames[o.op.kind])
	}
	return strings.Join(p, "+")
}

// pred is the running prediction used to resolve relative amounts while a block is being built.
type pred struct {
	bal    [nActors]*big.Int
	active [nActors]*big.Int
	rb     [nActors]*big.Int
}

// predict returns the state the next block's transactions will see as far as the model knows it before
// the block runs: balances including the amounts maturing at that height; active amounts and reward
// balances as at the end of the previous block (the block's own reward accrual is not predicted).
func (m *model) predict() *pred {
	p := &pred{}
	h := m.height + 1
	for i := 0; i < nActors; i++ {
		p.bal[i] = new(big.Int).Set(m.balOf(m.addr[i]))
		if e := m.pendU[h]; e != nil {
			p.bal[i].Add(p.bal[i], e[i])
		}
		if e := m.pendR[h]; e != nil {
			p.bal[i].Add(p.bal[i], e[i])
		}
		p.active[i] = new(big.Int).Set(m.active[i])
		p.rb[i] = new(big.Int).Set(m.rb[i])
	}
	return p
}

func (m *model) balOf(a string) *big.Int {
	if n := m.bal[a]; n != nil {
		return n
	}
	return new(big.Int)
}

var one = big.NewInt(1)

// resolve turns an alphabet operation into a concrete amount and advances the prediction.
func (p *pred) resolve(o op) *big.Int {
	rel := func(base *big.Int) *big.Int {
		switch o.amt {
		case "1":
			return big.NewInt(1)
		case "half":
			return new(big.Int).Rsh(base, 1)
		case "all":
			return new(big.Int).Set(base)
		case "over":
			return new(big.Int).Add(base, one)
		}
		panic("bad amount class " + o.amt)
	}
	i := o.who
	var x *big.Int
	switch o.kind {
	case opDelegate:
		switch o.amt {
		case "big":
			x = olt(1000000)
			if i == 1 {
				x = olt(250000)
			}
		default:
			x = rel(p.bal[i])
		}
		if x.Cmp(p.bal[i]) <= 0 {
			p.bal[i].Sub(p.bal[i], x)
			p.active[i].Add(p.active[i], x)
		}
	case opUndelegate:
		x = rel(p.active[i])
		if x.Cmp(p.active[i]) <= 0 {
			p.active[i].Sub(p.active[i], x)
		}
	case opWithdrawRewards, opReinvest:
		x = rel(p.rb[i])
		if x.Cmp(p.rb[i]) <= 0 {
			p.rb[i].Sub(p.rb[i], x)
			if o.kind == opReinvest {
				p.active[i].Add(p.active[i], x)
			}
		}
	case opDonate:
		x = olt(500000)
		if x.Cmp(p.bal[i]) <= 0 {
			p.bal[i].Sub(p.bal[i], x)
		}
	}
	return x
}

func (m *model) pend(dst map[int64]*[nActors]*big.Int, h int64) *[nActors]*big.Int {
	if dst[h] == nil {
		z := zero3()
		dst[h] = &z
	}
	return dst[h]
}

var gasPrice = big.NewInt(1000000000)

// block advances the model over block h (operations with their DeliverTx results) and compares it with
// the committed state after the block.
func (m *model) block(h int64, ops []rop, res []harness.TxRes, after *snap) {
	m.height = h
	name := opsName(ops)
	cls := m.wd.class
	for _, k := range after.bad {
		m.violate(fmt.Sprintf("C12|undecodable-record|op=%s|world=%s", name, cls), "record "+k+" of the delegation stores cannot be decoded")
	}

	// (payout) amounts maturing now
	var dueNow []paid
	for i := 0; i < nActors; i++ {
		a := m.addr[i]
		if e := m.pendU[h]; e != nil && e[i].Sign() > 0 {
			m.bal[a] = new(big.Int).Add(m.balOf(a), e[i])
			dueNow = append(dueNow, paid{i, new(big.Int).Set(e[i]), false})
			m.count("antecedent_undelegation_matured")
			m.tags["payout-undelegation"] = true
			m.trivial = false
		}
		if e := m.pendR[h]; e != nil && e[i].Sign() > 0 {
			m.bal[a] = new(big.Int).Add(m.balOf(a), e[i])
			dueNow = append(dueNow, paid{i, new(big.Int).Set(e[i]), true})
			m.count("antecedent_reward_withdrawal_matured")
			m.tags["payout-reward"] = true
			m.trivial = false
		}
	}
	if len(dueNow) > 1 {
		m.count("antecedent_several_payouts_in_one_block")
		m.tags["several-payouts-one-block"] = true
	}
	delete(m.pendU, h)
	delete(m.pendR, h)

	activeAtStart := zero3()
	for i := range activeAtStart {
		activeAtStart[i].Set(m.active[i])
	}
	type rwOp struct {
		amt      *big.Int
		accepted bool
		kind     opKind
	}
	var rwOps [nActors][]rwOp
	perActor := [nActors]int{}
	for k, o := range ops {
		i := o.op.who
		a := m.addr[i]
		perActor[i]++
		ok := k < len(res) && res[k].Code == 0
		kn := kindNames[o.op.kind]
		if ok {
			m.count("accepted_" + kn)
			m.count("accepted_" + kn + "_" + o.op.amt)
			m.tags[kn+":accepted"] = true
			fee := new(big.Int).Mul(big.NewInt(res[k].GasUsed), gasPrice)
			m.bal[a] = new(big.Int).Sub(m.balOf(a), fee)
		} else {
			m.count("rejected_" + kn)
			m.count("rejected_" + kn + "_" + o.op.amt)
			m.tags[kn+":rejected"] = true
		}
		switch o.op.kind {
		case opDelegate:
			if ok {
				m.bal[a] = new(big.Int).Sub(m.balOf(a), o.amt)
				m.active[i].Add(m.active[i], o.amt)
				m.trivial = false
			}
		case opUndelegate:
			limit := m.active[i]
			if ok {
				if o.amt.Cmp(limit) > 0 {
					m.violate(fmt.Sprintf("C12|undelegate-exceeds-active|op=%s|who=delegator|amount=%s|world=%s", kn, o.op.amt, cls),
						fmt.Sprintf("height %d: undelegation of %v by %s accepted although only %v is actively delegated", h, o.amt, actorNames[i], limit))
				}
				m.active[i] = new(big.Int).Sub(m.active[i], o.amt)
				e := m.pend(m.pendU, h+maturity)
				if e[i].Sign() > 0 {
					m.count("antecedent_second_undelegation_same_maturity_height")
					m.tags["undelegations-accumulate"] = true
				}
				e[i].Add(e[i], o.amt)
				if o.amt.Sign() > 0 {
					m.trivial = false
				}
			} else {
				if o.amt.Cmp(limit) <= 0 {
					m.count("unexpected_reject_undelegate")
				} else if new(big.Int).Sub(o.amt, limit).Cmp(one) == 0 {
					m.count("antecedent_undelegate_exact_boundary_rejected")
				}
			}
		case opWithdrawRewards, opReinvest:
			rwOps[i] = append(rwOps[i], rwOp{o.amt, ok, o.op.kind})
			if ok {
				if o.op.kind == opWithdrawRewards {
					e := m.pend(m.pendR, h+maturity)
					if e[i].Sign() > 0 {
						m.count("antecedent_second_reward_withdrawal_same_maturity_height")
						m.tags["reward-withdrawals-accumulate"] = true
					}
					e[i].Add(e[i], o.amt)
				} else {
					m.active[i].Add(m.active[i], o.amt)
				}
				if o.amt.Sign() > 0 {
					m.trivial = false
				}
			}
		case opDonate:
			if ok {
				m.bal[a] = new(big.Int).Sub(m.balOf(a), o.amt)
				m.donated.Add(m.donated, o.amt)
				m.tags["donated"] = true
				m.trivial = false
			}
		}
	}
	for i := range perActor {
		if perActor[i] > 1 {
			m.count("antecedent_two_operations_one_delegator_one_block")
		}
	}

	// (active)
	seen := map[string]bool{}
	for i := 0; i < nActors; i++ {
		a := m.addr[i]
		seen[a] = true
		got := after.active[a]
		if got == nil {
			got = new(big.Int)
		}
		if got.Cmp(m.active[i]) != 0 {
			dir := "higher"
			if got.Cmp(m.active[i]) < 0 {
				dir = "lower"
			}
			m.violate(fmt.Sprintf("C12|active-set|op=%s|who=delegator|recorded=%s|world=%s", name, dir, cls),
				fmt.Sprintf("height %d: active delegation of %s is %v, the operations accepted so far give %v", h, actorNames[i], got, m.active[i]))
			m.active[i] = new(big.Int).Set(got)
		}
	}
	for _, a := range sortedKeys(after.active) {
		if !seen[a] && after.active[a].Sign() != 0 {
			m.violate(fmt.Sprintf("C12|active-set|op=%s|who=third-party|recorded=higher|world=%s", name, cls),
				fmt.Sprintf("height %d: active delegation record %v for %s who never delegated", h, after.active[a], a))
		}
	}

	// (pool)
	sum := after.sumActive()
	pool := after.balOf(poolAddr)
	if sum.Sign() > 0 {
		m.count("antecedent_pool_compared_with_nonzero_active_total")
	}
	if m.poolReported {
		// a pool/active-set discrepancy persists until the end of the execution: report its first block only
	} else if pool.Cmp(sum) < 0 {
		m.poolReported = true
		m.violate(fmt.Sprintf("C12|pool-below-active-total|op=%s|donated=%v|world=%s", name, m.donated.Sign() > 0, cls),
			fmt.Sprintf("height %d: delegation pool holds %v, active delegations add up to %v", h, pool, sum))
	} else if m.donated.Sign() == 0 {
		if pool.Cmp(sum) != 0 {
			m.poolReported = true
			m.violate(fmt.Sprintf("C12|pool-above-active-total-without-donation|op=%s|world=%s", name, cls),
				fmt.Sprintf("height %d: delegation pool holds %v, active delegations add up to %v, nobody donated", h, pool, sum))
		}
	} else {
		m.count("antecedent_pool_compared_after_donation")
	}

	// (payout) balances of every account
	accounts := map[string]bool{}
	for a := range after.bal {
		accounts[a] = true
	}
	for a := range m.bal {
		accounts[a] = true
	}
	var al []string
	for a := range accounts {
		al = append(al, a)
	}
	sort.Strings(al)
	for _, a := range al {
		if a == poolAddr {
			continue
		}
		got, want := after.balOf(a), m.balOf(a)
		if got.Cmp(want) == 0 {
			continue
		}
		diff := new(big.Int).Sub(got, want)
		i, isActor := m.idx[a]
		if !isActor {
			m.violate(fmt.Sprintf("C12|third-party-balance-changed|op=%s|direction=%s|world=%s", name, sign(diff), cls),
				fmt.Sprintf("height %d: balance of %s changed by %v although it took no part in any operation", h, a, diff))
			m.bal[a] = new(big.Int).Set(got)
			continue
		}
		for _, f := range m.explain(i, h, diff, dueNow) {
			// a difference explained by entries of the maturity queue is the block hook's doing whatever
			// operations the block carried; otherwise the block's operations are the trigger
			trigger := "begin-block"
			if f.kind == "unknown" {
				trigger = name
			}
			m.violate(fmt.Sprintf("C12|maturity-payout|op=%s|who=delegator|%s|of=%s|world=%s", trigger, f.fact, f.kind, cls),
				fmt.Sprintf("height %d: balance of %s is %v, expected %v (difference %v): %s (%s)", h, actorNames[i], got, want, diff, f.fact, f.kind))
		}
		m.bal[a] = new(big.Int).Set(got)
	}
	for _, p := range dueNow {
		m.log = append(m.log, p)
	}
	for k, v := range after.otherB {
		if old, ok := m.other[k]; !ok || old != v {
			m.violate(fmt.Sprintf("C12|third-party-balance-changed|op=%s|direction=other-currency|world=%s", name, cls),
				fmt.Sprintf("height %d: balance record %s changed from %q to %q", h, k, old, v))
			m.other[k] = v
		}
	}

	// pending records against the model's queue (observe_at: "pending entries vs. balance credits")
	m.compareQueue("undelegation", m.pendU, after.pendU, h, name, true)
	m.compareQueue("reward-withdrawal", m.pendR, after.pendR, h, name, false)

	// (rewards)
	sumAcc := new(big.Int)
	for _, a := range sortedKeys(after.rb) {
		if _, ok := m.idx[a]; !ok && after.rb[a].Sign() != 0 {
			m.violate(fmt.Sprintf("C12|reward-accounting|op=%s|who=third-party|fact=balance-for-non-delegator|world=%s", name, cls),
				fmt.Sprintf("height %d: reward balance %v recorded for %s who never delegated", h, after.rb[a], a))
		}
	}
	for i := 0; i < nActors; i++ {
		got := after.rb[m.addr[i]]
		if got == nil {
			got = new(big.Int)
		}
		taken := new(big.Int)
		for _, r := range rwOps[i] {
			if r.accepted {
				taken.Add(taken, r.amt)
			}
		}
		acc := new(big.Int).Sub(got, m.rb[i])
		acc.Add(acc, taken)
		sumAcc.Add(sumAcc, acc)
		if got.Sign() < 0 {
			m.violate(fmt.Sprintf("C12|reward-withdrawal-exceeds-accrued|op=%s|who=delegator|fact=negative-reward-balance|world=%s", name, cls),
				fmt.Sprintf("height %d: reward balance of %s is %v", h, actorNames[i], got))
		}
		if acc.Sign() < 0 {
			m.violate(fmt.Sprintf("C12|reward-accounting|op=%s|who=delegator|fact=balance-shrank-beyond-accepted-operations|world=%s", name, cls),
				fmt.Sprintf("height %d: reward balance of %s went from %v to %v, accepted operations took only %v", h, actorNames[i], m.rb[i], got, taken))
		}
		if acc.Sign() > 0 {
			m.count("antecedent_rewards_accrued")
			if activeAtStart[i].Sign() == 0 {
				m.violate(fmt.Sprintf("C12|reward-accounting|op=%s|who=delegator|fact=accrual-without-active-delegation|world=%s", name, cls),
					fmt.Sprintf("height %d: reward balance of %s grew by %v although it had no active delegation when the block began", h, actorNames[i], acc))
			}
		}
		// every accepted operation must fit into what was available when it ran
		running := new(big.Int).Add(m.rb[i], acc)
		for _, r := range rwOps[i] {
			kn := kindNames[r.kind]
			if r.accepted {
				if r.amt.Cmp(running) > 0 {
					m.violate(fmt.Sprintf("C12|reward-withdrawal-exceeds-accrued|op=%s|who=delegator|fact=accepted-above-balance|world=%s", kn, cls),
						fmt.Sprintf("height %d: %s of %v by %s accepted, accrued reward balance at that point %v", h, kn, r.amt, actorNames[i], running))
				} else if r.amt.Sign() > 0 {
					m.count("antecedent_reward_taken_within_balance")
				}
				running.Sub(running, r.amt)
			} else {
				if r.amt.Cmp(running) <= 0 {
					m.count("unexpected_reject_" + kn)
				} else if new(big.Int).Sub(r.amt, running).Cmp(one) == 0 {
					m.count("antecedent_reward_exact_boundary_rejected")
					m.tags["reward-boundary-exact"] = true
				} else {
					m.count("antecedent_reward_above_balance_rejected")
				}
			}
		}
		m.rb[i] = new(big.Int).Set(got)
	}
	dTotal := new(big.Int).Sub(after.totalRw, m.totalRw)
	if dTotal.Cmp(sumAcc) != 0 {
		m.violate(fmt.Sprintf("C12|reward-accounting|op=%s|who=all|fact=balances-disagree-with-total-accrued|world=%s", name, cls),
			fmt.Sprintf("height %d: reward balances (plus accepted withdrawals/reinvestments) grew by %v, the store's accrual counter by %v", h, sumAcc, dTotal))
	}
	m.totalRw = new(big.Int).Set(after.totalRw)
}

func sign(n *big.Int) string {
	if n.Sign() > 0 {
		return "credited"
	}
	return "debited"
}

// finding is one classified part of a balance difference.
type finding struct{ fact, kind string }

// explain classifies a balance difference of actor i as a combination of amounts paid before their
// maturity (still pending in the model), amounts due now that were not paid, or - failing that -
// amounts already paid that were paid again.
func (m *model) explain(i int, h int64, diff *big.Int, dueNow []paid) []finding {
	kindOf := func(p paid) string {
		if p.reward {
			return "reward"
		}
		return "undelegation"
	}
	type cand struct {
		p    paid
		h    int64
		sign int // +1: a credit that should not have happened, -1: a credit that is missing
	}
	var cs []cand
	for _, hh := range sortedHeightsArr(m.pendU) {
		if e := m.pendU[hh]; e[i].Sign() > 0 {
			cs = append(cs, cand{paid{i, e[i], false}, hh, +1})
		}
	}
	for _, hh := range sortedHeightsArr(m.pendR) {
		if e := m.pendR[hh]; e[i].Sign() > 0 {
			cs = append(cs, cand{paid{i, e[i], true}, hh, +1})
		}
	}
	for _, p := range dueNow {
		if p.who == i {
			cs = append(cs, cand{p, h, -1})
		}
	}
	subset := func(cs []cand, target *big.Int) []cand {
		n := len(cs)
		if n > 12 {
			n = 12
		}
		for mask := 1; mask < 1<<uint(n); mask++ {
			s := new(big.Int)
			var pick []cand
			for b := 0; b < n; b++ {
				if mask&(1<<uint(b)) != 0 {
					if cs[b].sign > 0 {
						s.Add(s, cs[b].p.amt)
					} else {
						s.Sub(s, cs[b].p.amt)
					}
					pick = append(pick, cs[b])
				}
			}
			if s.Cmp(target) == 0 {
				return pick
			}
		}
		return nil
	}
	uniq := func(fs []finding) []finding {
		seen := map[finding]bool{}
		var out []finding
		for _, f := range fs {
			if !seen[f] {
				seen[f] = true
				out = append(out, f)
			}
		}
		return out
	}
	if pick := subset(cs, diff); pick != nil {
		var out []finding
		for _, c := range pick {
			if c.sign < 0 {
				out = append(out, finding{"not-paid-at-maturity", kindOf(c.p)})
				continue
			}
			// the amount has been paid: it is no longer owed (so that a second payment at the proper
			// height is recognised as such)
			out = append(out, finding{"paid-before-maturity", kindOf(c.p)})
			m.log = append(m.log, paid{i, new(big.Int).Set(c.p.amt), c.p.reward})
			if c.p.reward {
				m.pendR[c.h][i] = new(big.Int)
			} else {
				m.pendU[c.h][i] = new(big.Int)
				m.tolU[fmt.Sprintf("%d/%d", c.h, i)] = true
			}
		}
		return uniq(out)
	}
	if diff.Sign() > 0 {
		var done []cand
		for _, p := range m.log {
			if p.who == i {
				done = append(done, cand{p, 0, +1})
			}
		}
		if pick := subset(done, diff); pick != nil {
			var out []finding
			for _, c := range pick {
				out = append(out, finding{"paid-again", kindOf(c.p)})
			}
			return uniq(out)
		}
		return []finding{{"credited-more-than-matured", "unknown"}}
	}
	return []finding{{"credited-less-than-matured-or-debited", "unknown"}}
}

func sortedHeightsArr(m map[int64]*[nActors]*big.Int) []int64 {
	out := make([]int64, 0, len(m))
	for h := range m {
		out = append(out, h)
	}
	sort.Slice(out, func(i, j int) bool { return out[i] < out[j] })
	return out
}

// compareQueue compares the pending records of a store with the model's queue: a record at a height
// already passed must be zero (paid and cleared), a record at a future height must carry exactly what
// is still owed.
func (m *model) compareQueue(what string, want map[int64]*[nActors]*big.Int, got map[int64]map[string]*big.Int, h int64, name string, undeleg bool) {
	cls := m.wd.class
	heights := map[int64]bool{}
	for hh := range want {
		heights[hh] = true
	}
	for hh := range got {
		heights[hh] = true
	}
	var hs []int64
	for hh := range heights {
		hs = append(hs, hh)
	}
	sort.Slice(hs, func(i, j int) bool { return hs[i] < hs[j] })
	for _, hh := range hs {
		for _, a := range sortedKeys(got[hh]) {
			if _, ok := m.idx[a]; !ok && got[hh][a].Sign() != 0 {
				m.violate(fmt.Sprintf("C12|pending-record|op=%s|queue=%s|who=third-party|fact=record-for-stranger|world=%s", name, what, cls),
					fmt.Sprintf("height %d: pending %s record %v at height %d for %s", h, what, got[hh][a], hh, a))
			}
		}
		for i := 0; i < nActors; i++ {
			g := got[hh][m.addr[i]]
			if g == nil {
				g = new(big.Int)
			}
			w := new(big.Int)
			if e := want[hh]; e != nil && hh > h {
				w = e[i]
			}
			if g.Cmp(w) == 0 {
				continue
			}
			if undeleg && m.tolU[fmt.Sprintf("%d/%d", hh, i)] {
				continue // consequence of an early payout already reported
			}
			fact := "differs-from-owed"
			if hh <= h {
				fact = "not-cleared-after-maturity"
			} else if g.Sign() == 0 {
				fact = "missing"
			}
			trigger := name
			if hh <= h {
				trigger = "begin-block" // clearing a matured entry is the block hook's job whatever the block carried
			}
			m.violate(fmt.Sprintf("C12|pending-record|op=%s|queue=%s|who=delegator|fact=%s|world=%s", trigger, what, fact, cls),
				fmt.Sprintf("height %d: pending %s record of %s at height %d is %v, owed %v", h, what, actorNames[i], hh, g, w))
			if hh > h && want[hh] != nil {
				// follow the record so that one root cause is reported once
				want[hh][i] = new(big.Int).Set(g)
			}
		}
	}
}

// maxPending returns the largest height at which the model still owes something.
func (m *model) maxPending() int64 {
	var mx int64
	for _, q := range []map[int64]*[nActors]*big.Int{m.pendU, m.pendR} {
		for h, e := range q {
			for i := range e {
				if e[i].Sign() > 0 && h > mx {
					mx = h
				}
			}
		}
	}
	return mx
}
