package c12

import (
	"fmt"
	"math/big"

	"github.com/Oneledger/protocol/consensus"
	"github.com/Oneledger/protocol/data/balance"
	"github.com/Oneledger/protocol/data/keys"
	"github.com/Oneledger/protocol/data/network_delegation"

	"verif/harness"
)

// maturity is the undelegation / reward-withdrawal maturity period in blocks (hard-coded by the
// application at InitChain whatever the genesis document says).
const maturity = int64(network_delegation.RewardsMaturityTime)

// Actors: D1, D2 are the delegators of the alphabet; D3 only donates (and owns pre-loaded records in
// some genesis variants).
const nActors = 3

var actorNames = [nActors]string{"D1", "D2", "D3"}

func olt(n int64) *big.Int { return new(big.Int).Mul(big.NewInt(n), e18) }

var e18 = new(big.Int).Exp(big.NewInt(10), big.NewInt(18), nil)

// preload is a genesis variant: network-delegation records that exist before block 1.
type preload struct {
	active  [nActors]*big.Int
	pendU   map[int64][nActors]*big.Int // pending undelegations by maturity height
	rb      [nActors]*big.Int           // delegation reward balances
	pendR   map[int64][nActors]*big.Int // pending reward withdrawals by maturity height
	donated *big.Int                    // pool balance beyond the active total (a donation made before genesis)
}

// opKind is an operation kind of the alphabet.
type opKind int

const (
	opDelegate opKind = iota
	opUndelegate
	opWithdrawRewards
	opReinvest
	opDonate
)

var kindNames = []string{"delegate", "undelegate", "withdraw-rewards", "reinvest", "donate"}

// op is one transaction of the alphabet; the concrete amount is resolved when the block is built.
type op struct {
	kind opKind
	who  int    // actor index
	amt  string // "1" | "half" | "all" | "over" | "big"
}

func (o op) String() string {
	if o.kind == opDonate {
		return fmt.Sprintf("donate(%s)", actorNames[o.who])
	}
	return fmt.Sprintf("%s(%s,%s)", kindNames[o.kind], actorNames[o.who], o.amt)
}

// event is one whole block: 0..2 operations.
type event struct {
	ops []op
}

func (e event) String() string {
	if len(e.ops) == 0 {
		return "empty"
	}
	s := ""
	for i, o := range e.ops {
		if i > 0 {
			s += "+"
		}
		s += o.String()
	}
	return s
}

// nDeep is the size of the reduced alphabet used for the deep search; nSingles the number of events
// with at most one operation. The full alphabet adds every ordered pair of single operations.
var (
	alphabet []event
	nDeep    int
	nSingles int
)

func init() {
	deep := []event{
		{},
		{[]op{{opDelegate, 0, "big"}}},
		{[]op{{opDelegate, 1, "big"}}},
		{[]op{{opUndelegate, 0, "half"}}},
		{[]op{{opUndelegate, 0, "all"}}},
		{[]op{{opUndelegate, 1, "half"}}},
		{[]op{{opWithdrawRewards, 0, "half"}}},
		{[]op{{opWithdrawRewards, 1, "all"}}},
		{[]op{{opReinvest, 0, "half"}}},
		{[]op{{opDonate, 2, "big"}}},
		{[]op{{opUndelegate, 0, "over"}}},
		{[]op{{opUndelegate, 0, "half"}, {opUndelegate, 0, "1"}}},
		{[]op{{opUndelegate, 0, "half"}, {opUndelegate, 1, "all"}}},
		{[]op{{opWithdrawRewards, 0, "half"}, {opWithdrawRewards, 0, "1"}}},
	}
	alphabet = append(alphabet, deep...)
	nDeep = len(alphabet)
	inDeep := map[string]bool{}
	for _, e := range deep {
		if len(e.ops) == 1 {
			inDeep[e.ops[0].String()] = true
		}
	}
	var singles []op
	for who := 0; who < 2; who++ {
		for _, a := range []string{"1", "big", "over"} {
			singles = append(singles, op{opDelegate, who, a})
		}
		for _, k := range []opKind{opUndelegate, opWithdrawRewards, opReinvest} {
			for _, a := range []string{"1", "half", "all", "over"} {
				singles = append(singles, op{k, who, a})
			}
		}
	}
	singles = append(singles, op{opDonate, 2, "big"})
	for _, o := range singles {
		if !inDeep[o.String()] {
			alphabet = append(alphabet, event{[]op{o}})
		}
	}
	nSingles = len(alphabet)
	for _, a := range singles {
		for _, b := range singles {
			alphabet = append(alphabet, event{[]op{a, b}})
		}
	}
}

// wdef is one world of the search: a genesis variant, the alphabet sizes per depth and the depth
// bounds per tier.
type wdef struct {
	name      string
	class     string // used in violation signatures: "fresh" | "preloaded"
	pre       preload
	numEvents func(tier string, depth int) int
	depth     map[string]int
	// share of the tier's time budget reserved for this world (worlds run one after the other)
	share float64
}

func three(a, b, c *big.Int) [nActors]*big.Int {
	z := func(x *big.Int) *big.Int {
		if x == nil {
			return new(big.Int)
		}
		return x
	}
	return [nActors]*big.Int{z(a), z(b), z(c)}
}

var worlds = []*wdef{
	{
		// pending undelegations of one delegator at heights 3, 9, 10 and 30, of another at 5 and 9; pending reward
		// withdrawals at the same heights; active amounts and reward balances
		name: "pend-3-30", class: "preloaded",
		pre: preload{
			active: three(olt(1000000), olt(250000), nil),
			// (9 and 10: the height at which the decimal key gets one digit longer - "…_10_" sorts BEFORE "…_9_". Added
			// after a seeded change - the pay-out walk of height H ending at the key prefix of height H+1 - escaped
			// the heights 2..5, 20, 21, 30)
			pendU: map[int64][nActors]*big.Int{
				3:  three(olt(700), nil, nil),
				30: three(olt(11000), nil, nil),
				5:  three(nil, olt(50), nil),
				9:  three(olt(40), olt(60), nil),
				10: three(olt(70), nil, nil),
			},
			rb: three(olt(5), olt(3), nil),
			pendR: map[int64][nActors]*big.Int{
				3:  three(olt(2), nil, nil),
				30: three(olt(9), nil, nil),
				5:  three(nil, olt(1), nil),
				9:  three(olt(3), olt(2), nil),
				10: three(olt(4), nil, nil),
			},
		},
		numEvents: func(tier string, depth int) int { return nDeep },
		depth:     map[string]int{"quick": 2, "thorough": 3},
		share:     0.10,
	},
	{
		// pending entries at heights 2, 20 and 21 for one delegator and at 20 for a third account that
		// never transacts; reward balance without any active delegation (exact boundary for withdrawals)
		name: "pend-2-20-21", class: "preloaded",
		pre: preload{
			active: three(olt(400000), nil, nil),
			pendU: map[int64][nActors]*big.Int{
				2:  three(nil, olt(30), nil),
				20: three(nil, olt(4000), olt(600)),
				21: three(nil, olt(50000), nil),
			},
			rb: three(olt(1), olt(7), olt(2)),
			pendR: map[int64][nActors]*big.Int{
				2:  three(nil, olt(1), nil),
				20: three(nil, olt(2), olt(3)),
				21: three(nil, olt(4), nil),
			},
		},
		numEvents: func(tier string, depth int) int { return nDeep },
		depth:     map[string]int{"quick": 2, "thorough": 3},
		share:     0.10,
	},
	{
		// active delegations, reward balances, a pending reward withdrawal and a pre-genesis donation:
		// every single operation and every ordered pair of operations in the first block
		name: "loaded", class: "preloaded",
		pre: preload{
			active:  three(olt(1000000), olt(250000), nil),
			rb:      three(olt(5), olt(3), olt(2)),
			pendU:   map[int64][nActors]*big.Int{4: three(olt(10), olt(20), nil)},
			pendR:   map[int64][nActors]*big.Int{5: three(olt(1), nil, nil)},
			donated: nil,
		},
		numEvents: func(tier string, depth int) int {
			if depth == 0 {
				return len(alphabet)
			}
			if tier == "thorough" && depth == 1 {
				return nSingles
			}
			return nDeep
		},
		depth: map[string]int{"quick": 2, "thorough": 3},
		share: 0.30,
	},
	{
		// nothing pre-loaded, every single operation and every ordered pair of operations in the FIRST block:
		// the pool's balance record, the reward records and the active records do not exist yet when the
		// second operation of the block runs (they were written in this block, never committed). (Added after
		// a seeded change - a donation that overwrites the pool balance with a sum computed from a read that
		// only sees committed keys - escaped both the pairs of world "loaded" and the single-operation
		// blocks of world "fresh")
		name: "fresh-pairs", class: "fresh",
		pre: preload{active: three(nil, nil, nil), rb: three(nil, nil, nil)},
		numEvents: func(tier string, depth int) int {
			if depth == 0 {
				return len(alphabet)
			}
			return nDeep
		},
		depth: map[string]int{"quick": 2, "thorough": 3},
		share: 0.25,
	},
	{
		// nothing pre-loaded: the deep search
		name: "fresh", class: "fresh",
		pre:       preload{active: three(nil, nil, nil), rb: three(nil, nil, nil)},
		numEvents: func(tier string, depth int) int { return nDeep },
		depth:     map[string]int{"quick": 4, "thorough": 5},
		share:     1.0,
	},
}

func worldByName(n string) *wdef {
	for _, w := range worlds {
		if w.name == n {
			return w
		}
	}
	return nil
}

// build constructs the harness world of a search world: the default small world (3 users, 3 genesis
// validators) plus the pre-loaded delegation records.
func (wd *wdef) build() *harness.World {
	w := harness.NewWorld("c12-"+wd.name, 3, 3)
	pre := wd.pre
	w.Mutate = func(w *harness.World, st *consensus.AppState) {
		cur := harness.OLT
		coin := func(n *big.Int) *balance.Coin {
			c := cur.NewCoinFromAmount(*balance.NewAmountFromBigInt(new(big.Int).Set(n)))
			return &c
		}
		addr := func(i int) *keys.Address { a := w.Users[i].Addr; return &a }
		pool := new(big.Int)
		for i := 0; i < nActors; i++ {
			if pre.active[i] != nil && pre.active[i].Sign() > 0 {
				st.NetDelegators.ActiveList = append(st.NetDelegators.ActiveList, network_delegation.Delegator{Address: addr(i), Amount: coin(pre.active[i])})
				pool.Add(pool, pre.active[i])
			}
			if pre.rb[i] != nil && pre.rb[i].Sign() > 0 {
				st.DelegatorRew.BalanceList = append(st.DelegatorRew.BalanceList, network_delegation.Reward{Address: w.Users[i].Addr, Amount: balance.NewAmountFromBigInt(new(big.Int).Set(pre.rb[i]))})
			}
		}
		for _, h := range sortedH(pre.pendU) {
			for i := 0; i < nActors; i++ {
				if n := pre.pendU[h][i]; n != nil && n.Sign() > 0 {
					st.NetDelegators.PendingList = append(st.NetDelegators.PendingList, network_delegation.PendingDelegator{Address: addr(i), Amount: coin(n), Height: h})
				}
			}
		}
		for _, h := range sortedH(pre.pendR) {
			for i := 0; i < nActors; i++ {
				if n := pre.pendR[h][i]; n != nil && n.Sign() > 0 {
					st.DelegatorRew.PendingList = append(st.DelegatorRew.PendingList, network_delegation.PendingReward{Address: w.Users[i].Addr, Amount: balance.NewAmountFromBigInt(new(big.Int).Set(n)), Height: h})
				}
			}
		}
		if pre.donated != nil {
			pool.Add(pool, pre.donated)
		}
		if pool.Sign() > 0 {
			st.Balances = append(st.Balances, consensus.BalanceState{
				Address:  keys.Address(network_delegation.DELEGATION_POOL_KEY),
				Currency: "OLT",
				Amount:   *balance.NewAmountFromBigInt(pool),
			})
		}
	}
	return w
}

func sortedH(m map[int64][nActors]*big.Int) []int64 {
	var out []int64
	for h := range m {
		out = append(out, h)
	}
	for i := 1; i < len(out); i++ {
		for j := i; j > 0 && out[j] < out[j-1]; j-- {
			out[j], out[j-1] = out[j-1], out[j]
		}
	}
	return out
}
