// Package c12 is the explicit-state explorer of property C12 (delegation pool consistency and
// undelegation maturity): breadth-first search over blocks of delegate / undelegate /
// withdraw-rewards / reinvest / donate operations on the real application, from the fresh genesis and
// from genesis variants with pre-loaded delegation records, with a reference model of the statement
// compared against the committed state after every block (see model.go).
package c12

import (
	"encoding/json"
	"fmt"
	"io"
	"os"
	"sort"
	"strings"
	"time"

	"verif/explore"
	"verif/harness"
	"verif/txs/stk"
)

const prop = "C12"

// minQuiet is the minimum number of empty blocks appended to every history; the extension always runs
// past the last height at which anything is still pending (model or records).
const minQuiet = 6

func workerMain(fn func(job json.RawMessage) interface{}) int {
	out := harness.KeepStdout() // results go to the original stdout (a pipe to the master)
	harness.SilenceStdout()
	defer harness.RemoveScratch()
	return explore.ServeWorker(out, fn)
}

// Main is the entry point: worker, replay or master.
func Main(args []string) int {
	if explore.IsWorker(prop) {
		return workerMain(func(raw json.RawMessage) interface{} {
			var j explore.BFSJob
			if err := json.Unmarshal(raw, &j); err != nil {
				return explore.BFSOut{Err: err.Error()}
			}
			_, wname := splitTier(j.Tier)
			wd := worldByName(wname)
			if wd == nil {
				return explore.BFSOut{Err: "unknown world " + wname}
			}
			return execHistory(wd, j.Hist, nil)
		})
	}
	var only string
	f := explore.ParseFlags(prop, args, nil)
	only = os.Getenv("VERIF_C12_WORLD")
	if f.Replay != "" {
		return replay(f.Replay)
	}
	harness.SilenceStdout()
	defer harness.RemoveScratch()
	rep := explore.NewReporter(prop, "model_checking", f, harness.Out())
	budget := 300 * time.Second
	if f.Tier == "thorough" {
		budget = 27 * time.Minute
	}
	if f.Budget > 0 {
		budget = f.Budget
	}
	start := time.Now()
	end := start.Add(budget)

	total := explore.BFSStats{Info: map[string]int64{}, Tags: map[string]int{}, Exhaustive: true}
	bounds := map[string]interface{}{}
	for _, wd := range worlds {
		if only != "" && wd.name != only {
			continue
		}
		wd := wd
		remaining := time.Until(end)
		dl := time.Now().Add(time.Duration(float64(remaining) * wd.share))
		cfg := explore.BFSConfig{
			Command:   prop,
			Workers:   f.Workers,
			MaxDepth:  wd.depth[f.Tier],
			NumEvents: func(depth int) int { return wd.numEvents(f.Tier, depth) },
			Deadline:  dl,
			PerJob:    2 * time.Minute,
			Tier:      f.Tier + "|" + wd.name,
			EventName: func(i int) string { return wd.name + "/" + alphabet[i].String() },
		}
		st := explore.RunBFS(cfg, rep)
		merge(&total, st, wd.name)
		var sizes []int
		for d := 0; d < wd.depth[f.Tier]; d++ {
			sizes = append(sizes, wd.numEvents(f.Tier, d))
		}
		bounds[wd.name] = map[string]interface{}{"max_depth": wd.depth[f.Tier], "depth_completed": st.DepthCompleted,
			"alphabet_size_per_depth": sizes, "states": st.States, "executions": st.Transitions, "exhaustive_within_bound": st.Exhaustive}
	}
	total.Fill(rep)
	rep.Set("bounds", map[string]interface{}{
		"worlds":           bounds,
		"maturity_blocks":  maturity,
		"quiet_extension":  fmt.Sprintf(">= %d empty blocks after every history, and always past the last pending height", minQuiet),
		"ops_per_block":    "0..2 (every ordered pair of single operations in the first block of world 'loaded'; three fixed pairs in the deep alphabet)",
		"alphabet_deep":    eventNames(0, nDeep),
		"alphabet_singles": eventNames(nDeep, nSingles),
		"alphabet_pairs":   len(alphabet) - nSingles,
	})
	rep.Set("distinct_nontrivial", int(total.Info["nontrivial_executions"]))
	rep.Set("rule", "state = (height, digest of the delegation stores' records, the pool balance and the actors' balances) at a block boundary; transition = one block of 0..2 operations executed by replaying the whole history from genesis on the real application, the reference model compared with the committed state after EVERY block including the quiet extension; every history is generated once, so executions are distinct; non-trivial = at least one oracle antecedent fired in the execution (an operation with a non-zero amount was accepted, or an undelegation / reward withdrawal matured)")
	rep.Assume("the accrual of delegation rewards per block is observed (reward balance records and the store's total counter), not predicted: the reward schedule is C13's subject")
	rep.Assume("fees are gasUsed x price of an account's own accepted transactions as reported in the DeliverTx results; rejected transactions cost nothing")
	rep.Assume("amount classes: 1 base unit, half, all, all+1 of the quantity the operation draws on (balance / active delegation / reward balance as known before the block), plus fixed large amounts for delegate and donate")

	// vacuity: every operation kind must have been accepted somewhere, every payout clause must have fired
	var missing []string
	for _, k := range kindNames {
		if total.Info["accepted_"+k] == 0 {
			missing = append(missing, "operation never accepted: "+k)
		}
	}
	if only == "" {
		for _, k := range []string{"antecedent_undelegation_matured", "antecedent_reward_withdrawal_matured", "antecedent_pool_compared_with_nonzero_active_total",
			"antecedent_pool_compared_after_donation", "antecedent_rewards_accrued", "antecedent_two_operations_one_delegator_one_block",
			"antecedent_second_undelegation_same_maturity_height", "antecedent_undelegate_exact_boundary_rejected", "antecedent_reward_exact_boundary_rejected"} {
			if total.Info[k] == 0 {
				missing = append(missing, "oracle antecedent never fired: "+k)
			}
		}
	}
	if total.HarnessErrors > 0 {
		fmt.Fprintf(harness.Out(), "%s: %d harness errors, e.g. %v\n", prop, total.HarnessErrors, total.ErrSamples)
	}
	code := rep.Finish()
	if len(missing) > 0 && total.DepthCompleted > 0 {
		fmt.Fprintf(harness.Out(), "%s: VACUOUS - refusing to report success: %s\n", prop, strings.Join(missing, "; "))
		return 2
	}
	if total.HarnessErrors > 0 && code == 0 {
		return 2
	}
	return code
}

func eventNames(from, to int) []string {
	var out []string
	for i := from; i < to; i++ {
		out = append(out, alphabet[i].String())
	}
	return out
}

func splitTier(t string) (tier, world string) {
	if i := strings.IndexByte(t, '|'); i >= 0 {
		return t[:i], t[i+1:]
	}
	return t, ""
}

// merge adds the statistics of one world's search to the total.
func merge(t *explore.BFSStats, s explore.BFSStats, world string) {
	t.States += s.States
	t.Transitions += s.Transitions
	if s.DepthCompleted > t.DepthCompleted {
		t.DepthCompleted = s.DepthCompleted
	}
	for _, l := range s.PerLevel {
		l2 := map[string]int{}
		for k, v := range l {
			l2[k] = v
		}
		// per_level entries of different worlds are told apart by the order of the worlds list
		l2["world_index"] = worldIndex(world)
		t.PerLevel = append(t.PerLevel, l2)
	}
	for k, v := range s.Info {
		t.Info[k] += v
	}
	for k, v := range s.Tags {
		t.Tags[k] += v
	}
	t.HarnessErrors += s.HarnessErrors
	t.ErrSamples = append(t.ErrSamples, s.ErrSamples...)
	if len(t.ErrSamples) > 5 {
		t.ErrSamples = t.ErrSamples[:5]
	}
	t.Died += s.Died
	t.Capped = t.Capped || s.Capped
	t.DeadlineHit = t.DeadlineHit || s.DeadlineHit
	t.Exhaustive = t.Exhaustive && s.Exhaustive
}

func worldIndex(n string) int {
	for i, w := range worlds {
		if w.name == n {
			return i
		}
	}
	return -1
}

// buildTx turns a resolved operation into a signed transaction; the memo carries the position in the
// history so that no two transactions of an execution are byte-identical.
func buildTx(w *harness.World, o rop, memo string) *harness.TxSpec {
	acct := w.Users[o.op.who]
	amt := stk.Coin("OLT", harness.Amt(o.amt.String()))
	switch o.op.kind {
	case opDelegate:
		return stk.Delegate(acct, amt, memo)
	case opUndelegate:
		return stk.Undelegate(acct, amt, memo)
	case opWithdrawRewards:
		return stk.DelegWithdrawRewards(acct, amt, memo)
	case opReinvest:
		return stk.DelegReinvestRewards(acct, amt, memo)
	case opDonate:
		return stk.SendPool(acct, "DelegationPool", amt, memo)
	}
	panic("bad op kind")
}

// execHistory replays one history on a fresh replica, runs the oracle on every block, extends the
// path by quiet blocks and returns the state key reached by the history proper.
func execHistory(wd *wdef, hist []int, trace io.Writer) explore.BFSOut {
	out := explore.BFSOut{Info: map[string]int64{}}
	w := wd.build()
	// starting a replica can fail for reasons that have nothing to do with the history (resource
	// exhaustion on a heavily shared machine): try again before giving up without a verdict
	var x *harness.Run
	var err error
	for attempt := 0; attempt < 4; attempt++ {
		if x, err = harness.StartRun(w); err == nil {
			break
		}
		time.Sleep(time.Duration(200*(attempt+1)) * time.Millisecond)
	}
	if err != nil {
		out.Err = "start: " + err.Error()
		return out
	}
	defer x.Close()
	m, err := newModel(wd, w, decode(x.R.Dump()))
	if err != nil {
		out.Err = err.Error()
		return out
	}
	actors := map[string]bool{}
	for i := 0; i < nActors; i++ {
		actors[m.addr[i]] = true
	}
	say := func(format string, a ...interface{}) {
		if trace != nil {
			fmt.Fprintf(trace, format, a...)
		}
	}
	finish := func() explore.BFSOut {
		for _, v := range m.viol {
			out.Viol = append(out.Viol, explore.BFSViol{Sig: v.sig, What: v.what})
		}
		for k, v := range m.info {
			out.Info[k] += v
		}
		out.Info["blocks_checked"] += m.height
		if !m.trivial {
			out.Info["nontrivial_executions"] = 1
		}
		for t := range m.tags {
			out.Tags = append(out.Tags, t)
		}
		sort.Strings(out.Tags)
		return out
	}
	runBlock := func(ev event, pos int) bool {
		h := x.C.Height + 1
		p := m.predict()
		var ops []rop
		var txs []*harness.TxSpec
		for k, o := range ev.ops {
			r := rop{o, p.resolve(o)}
			ops = append(ops, r)
			txs = append(txs, buildTx(w, r, fmt.Sprintf("c12-%d-%d", pos, k)))
		}
		res, err := x.BlockAt(harness.BlockSpec{Txs: txs}, false, nil)
		nv := len(m.viol)
		if x.R.Dead || (res != nil && res.Panicked) {
			m.violate(fmt.Sprintf("C12|application-panicked|op=%s|world=%s", opsName(ops), wd.class), fmt.Sprintf("height %d: the application panicked", h))
			say("block %d %-40s PANIC\n", h, ev)
			return false
		}
		if err != nil {
			m.violate(fmt.Sprintf("C12|consensus-halt|op=%s|world=%s", opsName(ops), wd.class), fmt.Sprintf("height %d: %v", h, err))
			say("block %d %-40s HALT %v\n", h, ev, err)
			return false
		}
		m.block(h, ops, res.Txs, decode(x.R.Dump()))
		if trace != nil {
			var codes []string
			for k, t := range res.Txs {
				codes = append(codes, fmt.Sprintf("%s=%v:code%d", ops[k].op, ops[k].amt, t.Code))
			}
			verdict := "ok"
			if len(m.viol) > nv {
				verdict = "VIOLATION"
			}
			say("block %d %-12s %s %s\n", h, verdict, ev, strings.Join(codes, " "))
			for _, v := range m.viol[nv:] {
				say("    %s\n    %s\n", v.sig, v.what)
			}
		}
		return true
	}
	for pos, e := range hist {
		if e < 0 || e >= len(alphabet) {
			out.Err = fmt.Sprintf("bad event index %d", e)
			return out
		}
		if !runBlock(alphabet[e], pos) {
			out.NoExpand = true
			out.Key = fmt.Sprintf("dead:%v", hist)
			return finish()
		}
	}
	out.Key = wd.name + ":" + stateKey(x.C.Height, x.R.Dump(), actors)
	// quiet extension: past every pending height, at least minQuiet blocks
	target := x.C.Height + minQuiet
	if mp := m.maxPending(); mp+1 > target {
		target = mp + 1
	}
	if mp := decode(x.R.Dump()).maxPendingHeight(); mp+1 > target {
		target = mp + 1
	}
	for pos := len(hist); x.C.Height < target; pos++ {
		if !runBlock(event{}, pos) {
			break
		}
	}
	return finish()
}

// replay re-executes one recorded history (a replay file written by the reporter, or a JSON object
// {"world": "...", "h": [...]}) and prints the oracle's verdict for every block.
func replay(path string) int {
	b, err := os.ReadFile(path)
	if err != nil {
		fmt.Println(err)
		return 2
	}
	var doc struct {
		World string `json:"world"`
		H     []int  `json:"h"`
		Case  *struct {
			History []string `json:"history"`
			H       []int    `json:"h"`
		} `json:"case"`
	}
	if err := json.Unmarshal(b, &doc); err != nil {
		fmt.Println(err)
		return 2
	}
	world, h := doc.World, doc.H
	if doc.Case != nil {
		h = doc.Case.H
		if len(doc.Case.History) > 0 {
			if i := strings.IndexByte(doc.Case.History[0], '/'); i > 0 {
				world = doc.Case.History[0][:i]
			}
		}
	}
	wd := worldByName(world)
	if wd == nil {
		fmt.Printf("unknown world %q\n", world)
		return 2
	}
	harness.SilenceStdout()
	defer harness.RemoveScratch()
	harness.Outf("replaying in world %s:", wd.name)
	for _, e := range h {
		harness.Outf(" [%s]", alphabet[e])
	}
	harness.Outf("\n")
	out := execHistory(wd, h, harness.Out())
	if out.Err != "" {
		harness.Outf("harness error: %s\n", out.Err)
		return 2
	}
	if len(out.Viol) > 0 {
		harness.Outf("%d violation(s)\n", len(out.Viol))
		return 1
	}
	harness.Outf("no violation\n")
	return 0
}
