package c11

import (
	"fmt"
	"math/big"
	"sort"
	"strings"

	"verif/checks/c10/stkview"
	"verif/explore"
	"verif/harness"
)

// The reference life-cycle model. It encodes the STATEMENT of C11:
//
//	per (validator V, delegator D): effective (locked) amount; per unstake an entry "maturing at
//	height u + maturity"; per delegator what has matured and not been withdrawn; the balance.
//
// It is driven by the delivered transactions and their result codes. It never demands that something
// be accepted (the statement is a safety statement); it judges every ACCEPTED unstake / withdraw:
//
//	unstake-while-frozen / withdraw-while-frozen   nothing can be unstaked or withdrawn while the
//	                                               validator is frozen
//	unstake-more-than-locked                       only what is staked can be unstaked
//	withdraw-not-matured                           only what was unstaked and whose maturity period has
//	                                               elapsed (height >= unstake height + maturity) can be withdrawn
//	withdrawn-exceeds-staked-minus-penalties       per delegator, at every block
//
// and after every block it compares the committed records with itself:
//
//	locked-differs / effective-differs / queue-differs / withdrawable-differs / balance-differs
//	total-vs-locked      st__t_V == sum over D of st__e_V_D
//	record-vs-locked     the validator record's stake == that sum (the one block between a verdict and
//	                     the delayed application of the penalty to the record is tolerated)
//
// Penalties are not predicted (the statement does not define their size): when a guilty verdict is
// reached, the amount by which the locked records shrink is taken as the penalty.

type pair struct{ V, D string }

type maturing struct {
	V, D string
	Amt  *big.Int
	At   int64
}

type model struct {
	eff       map[pair]*big.Int
	pending   []maturing                 // not yet matured
	matured   map[string]*big.Int        // per delegator: matured and not yet withdrawn
	origin    map[string]map[string]bool // delegator -> validators its unstaked (maturing or matured) funds came from
	staked    map[string]*big.Int
	withdrawn map[string]*big.Int
	penalties map[string]*big.Int
	bal       map[string]*big.Int
	lastStake map[string]string // validator -> label of the last accepted stake operation (attribution)
}

var e18 = new(big.Int).Exp(big.NewInt(10), big.NewInt(18), nil)

func get(m map[string]*big.Int, k string) *big.Int {
	if m[k] == nil {
		m[k] = new(big.Int)
	}
	return m[k]
}

func newModel(v *stkview.View) *model {
	m := &model{eff: map[pair]*big.Int{}, matured: map[string]*big.Int{}, origin: map[string]map[string]bool{},
		staked: map[string]*big.Int{}, withdrawn: map[string]*big.Int{}, penalties: map[string]*big.Int{}, bal: map[string]*big.Int{}, lastStake: map[string]string{}}
	for V, ds := range v.Locked {
		for D, n := range ds {
			m.eff[pair{V, D}] = new(big.Int).Set(n)
			get(m.staked, D).Add(get(m.staked, D), n)
		}
	}
	for a, n := range v.Balance {
		m.bal[a] = new(big.Int).Set(n)
	}
	return m
}

func (m *model) effOf(p pair) *big.Int {
	if m.eff[p] == nil {
		m.eff[p] = new(big.Int)
	}
	return m.eff[p]
}

type sink struct {
	viol  []explore.BFSViol
	seen  map[string]bool
	info  map[string]int64
	tags  map[string]bool
	trace func(format string, a ...interface{})
}

func newSink() *sink {
	return &sink{seen: map[string]bool{}, info: map[string]int64{}, tags: map[string]bool{}}
}

func (s *sink) count(k string) { s.info[k]++ }

func (s *sink) violate(clause, op, facts, what string) {
	sig := prop + "|" + clause + "|op=" + op
	if facts != "" {
		sig += "|" + facts
	}
	if s.trace != nil {
		s.trace("      VIOLATION %s: %s\n", sig, what)
	}
	if s.seen[sig] {
		return
	}
	s.seen[sig] = true
	s.viol = append(s.viol, explore.BFSViol{Sig: sig, What: what})
}

// frozenFor: the validators, frozen at the end of the previous block, whose funds delegator D would
// move with this operation.
func frozenNamed(prev *stkview.View, V string) bool { return prev.IsFrozen(V) }

// frozenAtTx: frozen when the transactions of block h run = frozen at the end of the previous block, or frozen
// by the BeginBlock of block h itself (missed votes; a guilty verdict falls at the END of a block, after its
// transactions, and carries status 2).
func frozenAtTx(prev, cur *stkview.View, V string, h int64) bool {
	if prev.IsFrozen(V) {
		return true
	}
	f := cur.Frozen[V]
	return f != nil && f.Frozen && f.Status != 2 && f.FrozenHeight == h
}

// applyBlock feeds one delivered block into the model and judges it. ops/codes/gas are parallel.
func (m *model) applyBlock(s *sink, h int64, prev, cur *stkview.View, ops []*op, res []harness.TxRes, lastOp string) {
	maturity := prev.Opt.Maturity
	feeOf := func(i int) *big.Int {
		// BasicFeeHandling / StakingPayerFeeHandling: gas used x price (10^9), charged only if the tx succeeded
		return new(big.Int).Mul(big.NewInt(res[i].GasUsed), big.NewInt(1000000000))
	}
	for i, o := range ops {
		ok := res[i].Code == 0
		if ok {
			s.count("acc:" + o.Label)
		} else {
			s.count("rej:" + o.Label)
			continue
		}
		switch o.Kind {
		case "evidence":
			// the fee is charged to the signing validator's stake account
			if r := prev.Vals[o.V]; r != nil {
				get(m.bal, r.StakeAddr).Sub(get(m.bal, r.StakeAddr), feeOf(i))
			}
		case "stake":
			m.effOf(pair{o.V, o.D}).Add(m.effOf(pair{o.V, o.D}), o.Amt)
			get(m.staked, o.D).Add(get(m.staked, o.D), o.Amt)
			m.lastStake[o.V] = o.Label
			b := get(m.bal, o.Payer)
			b.Sub(b, new(big.Int).Mul(o.Amt, e18))
			b.Sub(b, feeOf(i))
			if frozenNamed(prev, o.V) {
				s.count("fired:stake-accepted-while-frozen") // not forbidden by the statement
			}
		case "unstake":
			s.count("fired:unstake-judged")
			if frozenAtTx(prev, cur, o.V, h) {
				s.violate("unstake-while-frozen", o.Label, "", fmt.Sprintf("height %d: unstake of %s from %s by %s accepted although the validator is frozen", h, o.Amt, o.V, o.D))
			}
			e := m.effOf(pair{o.V, o.D})
			if o.Amt.Sign() <= 0 || o.Amt.Cmp(e) > 0 {
				s.violate("unstake-more-than-locked", o.Label, "", fmt.Sprintf("height %d: unstake of %s accepted, locked %s", h, o.Amt, e))
			}
			e.Sub(e, o.Amt)
			m.pending = append(m.pending, maturing{V: o.V, D: o.D, Amt: new(big.Int).Set(o.Amt), At: h + maturity})
			if m.origin[o.D] == nil {
				m.origin[o.D] = map[string]bool{}
			}
			m.origin[o.D][o.V] = true
			get(m.bal, o.Payer).Sub(get(m.bal, o.Payer), feeOf(i))
		case "withdraw":
			s.count("fired:withdraw-judged")
			// liberal reading of "the maturity period has elapsed": height >= unstake height + maturity
			avail := new(big.Int).Set(get(m.matured, o.D))
			for _, p := range m.pending {
				if p.D == o.D && p.At <= h {
					avail.Add(avail, p.Amt)
				}
			}
			if o.Amt.Sign() <= 0 || o.Amt.Cmp(avail) > 0 {
				s.violate("withdraw-not-matured", o.Label, "", fmt.Sprintf("height %d: withdraw of %s by %s accepted, only %s unstaked and matured", h, o.Amt, o.D, avail))
			}
			if frozenAtTx(prev, cur, o.V, h) {
				s.violate("withdraw-while-frozen", o.Label, "named-validator-frozen", fmt.Sprintf("height %d: withdraw of %s by %s accepted although validator %s is frozen", h, o.Amt, o.D, o.V))
			} else {
				var froz []string
				for V := range m.origin[o.D] {
					if frozenAtTx(prev, cur, V, h) {
						froz = append(froz, V)
					}
				}
				sort.Strings(froz)
				if len(froz) > 0 {
					s.violate("withdraw-while-frozen", o.Label, "funds-unstaked-from-frozen-validator", fmt.Sprintf(
						"height %d: %s withdrew %s naming validator %s, but the funds were unstaked from %v which is frozen", h, o.D, o.Amt, o.V, froz))
				}
			}
			// the implementation moves maturing -> withdrawable at the END of block At; a withdrawal inside
			// block At is therefore impossible there, but if it happened the model takes it from pending
			mt := get(m.matured, o.D)
			mt.Sub(mt, o.Amt)
			get(m.withdrawn, o.D).Add(get(m.withdrawn, o.D), o.Amt)
			b := get(m.bal, o.Payer)
			b.Add(b, new(big.Int).Mul(o.Amt, e18))
			b.Sub(b, feeOf(i))
			lim := new(big.Int).Sub(get(m.staked, o.D), get(m.penalties, o.D))
			if get(m.withdrawn, o.D).Cmp(lim) > 0 {
				s.violate("withdrawn-exceeds-staked-minus-penalties", o.Label, "", fmt.Sprintf("height %d: %s has withdrawn %s, staked %s, penalties %s",
					h, o.D, get(m.withdrawn, o.D), get(m.staked, o.D), get(m.penalties, o.D)))
			}
		}
	}
	// end of block: what matures at h becomes withdrawable
	var rest []maturing
	for _, p := range m.pending {
		if p.At <= h {
			get(m.matured, p.D).Add(get(m.matured, p.D), p.Amt)
			s.count("fired:maturity-reached")
		} else {
			rest = append(rest, p)
		}
	}
	m.pending = rest
	// a guilty verdict reached in this block: the shrink of the locked records is the penalty
	for V, f := range cur.Frozen {
		p := prev.Frozen[V]
		if f.Frozen && f.Status == 2 && (p == nil || !p.Frozen || p.FrozenHeight != f.FrozenHeight) {
			s.count("fired:guilty-verdict")
			for pr, e := range m.eff {
				if pr.V != V {
					continue
				}
				got := stkview.Big(cur.Locked[V], pr.D)
				if got.Cmp(e) < 0 {
					pen := new(big.Int).Sub(e, got)
					get(m.penalties, pr.D).Add(get(m.penalties, pr.D), pen)
					e.Set(got)
					s.count("fired:penalty-applied")
				}
			}
		}
	}
	m.compare(s, h, prev, cur, lastOp)
}

// compare checks the committed records against the model.
func (m *model) compare(s *sink, h int64, prev, cur *stkview.View, lastOp string) {
	pairs := map[pair]bool{}
	for p := range m.eff {
		pairs[p] = true
	}
	for V, ds := range cur.Locked {
		for D := range ds {
			pairs[pair{V, D}] = true
		}
	}
	var ps []pair
	for p := range pairs {
		ps = append(ps, p)
	}
	sort.Slice(ps, func(i, j int) bool { return ps[i].V+ps[i].D < ps[j].V+ps[j].D })
	sumByV := map[string]*big.Int{}
	sumByD := map[string]*big.Int{}
	for _, p := range ps {
		got := stkview.Big(cur.Locked[p.V], p.D)
		if got.Cmp(m.effOf(p)) != 0 {
			s.violate("locked-differs", lastOp, "", fmt.Sprintf("height %d: st__e_%s_%s = %s, model %s", h, p.V, p.D, got, m.effOf(p)))
		}
		get(sumByV, p.V).Add(get(sumByV, p.V), got)
		get(sumByD, p.D).Add(get(sumByD, p.D), m.effOf(p))
	}
	vs := map[string]bool{}
	for V := range sumByV {
		vs[V] = true
	}
	for V := range cur.Total {
		vs[V] = true
	}
	for V := range cur.Vals {
		vs[V] = true
	}
	var vl []string
	for V := range vs {
		vl = append(vl, V)
	}
	sort.Strings(vl)
	for _, V := range vl {
		sum := get(sumByV, V)
		s.count("fired:total-vs-locked-compared")
		if stkview.Big(cur.Total, V).Cmp(sum) != 0 {
			s.violate("total-vs-locked", lastOp, "", fmt.Sprintf("height %d: st__t_%s = %s, sum of st__e_ = %s", h, V, stkview.Big(cur.Total, V), sum))
		}
		rec := cur.Vals[V]
		// a record that disagrees with the locked amounts is attributed to the last accepted stake into
		// this validator (only a stake or a penalty moves the two apart), whatever ran afterwards
		recOp := lastOp
		if l, ok := m.lastStake[V]; ok {
			recOp = l
		}
		pendingPenalty := false
		for _, k := range cur.Delayed {
			if strings.HasSuffix(k, string(rawAddr(V))) {
				pendingPenalty = true
			}
		}
		switch {
		case rec == nil && sum.Sign() > 0:
			s.violate("record-vs-locked", recOp, "validator-record-missing", fmt.Sprintf("height %d: %s has %s locked but no validator record", h, V, sum))
		case rec != nil && rec.Staking.Cmp(sum) != 0:
			// tolerated: the block(s) between a verdict and the application of the delayed penalty
			if pendingPenalty && prev.Vals[V] != nil && rec.Staking.Cmp(sum) > 0 && s.delayTolerated(h, cur, V) {
				s.count("fired:delayed-penalty-tolerated")
			} else {
				s.violate("record-vs-locked", recOp, "record-stake-differs", fmt.Sprintf("height %d: validator record of %s says %s, locked %s", h, V, rec.Staking, sum))
			}
		}
	}
	ds := map[string]bool{}
	for D := range sumByD {
		ds[D] = true
	}
	for D := range cur.Effective {
		ds[D] = true
	}
	for D := range cur.Bounded {
		ds[D] = true
	}
	for D := range m.matured {
		ds[D] = true
	}
	var dl []string
	for D := range ds {
		dl = append(dl, D)
	}
	sort.Strings(dl)
	for _, D := range dl {
		if stkview.Big(cur.Effective, D).Cmp(get(sumByD, D)) != 0 {
			s.violate("effective-differs", lastOp, "", fmt.Sprintf("height %d: st__d_e_%s = %s, model %s", h, D, stkview.Big(cur.Effective, D), get(sumByD, D)))
		}
		if stkview.Big(cur.Bounded, D).Cmp(get(m.matured, D)) != 0 {
			s.violate("withdrawable-differs", lastOp, "", fmt.Sprintf("height %d: st__d_b_%s = %s, model (matured - withdrawn) %s", h, D, stkview.Big(cur.Bounded, D), get(m.matured, D)))
		}
		if b, ok := cur.Balance[D]; ok && m.bal[D] != nil && b.Cmp(m.bal[D]) != 0 {
			s.violate("balance-differs", lastOp, "", fmt.Sprintf("height %d: balance of %s = %s, model %s (difference %s)", h, D, b, m.bal[D], new(big.Int).Sub(b, m.bal[D])))
		}
	}
	// maturity queues: the entries still to mature
	want := map[string]int{}
	for _, p := range m.pending {
		want[fmt.Sprintf("%d/%s/%s", p.At, p.D, p.Amt)]++
	}
	got := map[string]int{}
	for q, es := range cur.Queue {
		for _, e := range es {
			if e.Amount.Sign() == 0 {
				continue
			}
			got[fmt.Sprintf("%d/%s/%s", q, e.Addr, e.Amount)]++
		}
	}
	if fmt.Sprint(sortedCounts(want)) != fmt.Sprint(sortedCounts(got)) {
		s.violate("queue-differs", lastOp, "", fmt.Sprintf("height %d: maturity queues %v, model %v", h, sortedCounts(got), sortedCounts(want)))
	}
}

// delayTolerated: the delayed unstake written by the verdict at height f is applied in BeginBlock(f+1):
// only the dump of f itself may still show the old record.
func (s *sink) delayTolerated(h int64, cur *stkview.View, V string) bool {
	f := cur.Frozen[V]
	return f != nil && f.Status == 2 && f.FrozenHeight == h
}

func sortedCounts(m map[string]int) []string {
	var out []string
	for k, n := range m {
		out = append(out, fmt.Sprintf("%s x%d", k, n))
	}
	sort.Strings(out)
	return out
}

// rawAddr converts "0lt<hex>" back to raw bytes.
func rawAddr(a string) []byte {
	a = strings.TrimPrefix(a, "0lt")
	out := make([]byte, len(a)/2)
	for i := range out {
		fmt.Sscanf(a[2*i:2*i+2], "%02x", &out[i])
	}
	return out
}
