// Package c11 is the explicit-state explorer for property C11 (stake life-cycle): unstaked funds
// unlock only after maturity and exactly once; the sum withdrawn never exceeds staked minus
// penalties; nothing is unstaked or withdrawn while the validator is frozen; the validator's recorded
// stake equals its delegators' locked amounts. Reference model: model.go; alphabet: events.go.
package c11

import (
	"encoding/json"
	"flag"
	"fmt"
	"os"
	"sort"
	"strings"
	"time"

	"verif/checks/c10/stkview"
	"verif/explore"
	"verif/harness"
)

const prop = "C11"

// keep: projection of the dump that enters the state key: validator records, purge bookkeeping, all
// stake records (locked, effective, withdrawable, maturity queues), all evidence records (vote blocks
// only inside the counting window) and all options. Dropped: balances and fee shares (they differ by
// fees between commuting orders; every account holds 10^9 OLT, so the only thing a staking handler
// reads from them - sufficiency - never changes within the bounds; the balance itself is still compared
// with the model on every block of every execution), reward and delegation accumulators, witnesses,
// domains, contract state (not read by the staking or evidence code). The height is part of the key
// because maturity heights are absolute.
func keep(height, window int64) stkview.Projection {
	return func(k string) bool {
		switch {
		case strings.HasPrefix(k, "es__svb_"):
			var h int64
			fmt.Sscanf(k[len("es__svb_"):], "%d", &h)
			return h > height-window
		case strings.HasPrefix(k, "v_"), strings.HasPrefix(k, "purged_"), strings.HasPrefix(k, "st__"),
			strings.HasPrefix(k, "es__"), strings.HasPrefix(k, "g_"):
			return true
		}
		return false
	}
}

func execute(wd *worldDef, hist []int, trace func(string, ...interface{})) (out explore.BFSOut) {
	w := wd.Build()
	x, err := harness.StartRun(w)
	if err != nil {
		out.Err = "start: " + err.Error()
		return
	}
	defer x.Close()
	evs := events()
	s := newSink()
	s.trace = trace
	prev := stkview.Decode(x.R.Dump())
	m := newModel(prev)
	var lastDump []harness.KV
	lastOp := "none"
	nontrivial := false
	runBlock := func(ops []*op, kind string) bool {
		h := x.C.Height + 1
		b := harness.BlockSpec{NoCheck: true} // the proposer is not trusted; DeliverTx validates like CheckTx
		var txOps []*op
		for _, o := range ops {
			if o.Kind == "absent" {
				b.Absent = append(b.Absent, o.Absent)
				continue
			}
			b.Txs = append(b.Txs, o.Tx)
			txOps = append(txOps, o)
		}
		ops = txOps
		r, herr := x.BlockAt(b, false, nil)
		if r == nil {
			out.Err = "no block result"
			return false
		}
		if x.R.Dead || r.Panicked {
			s.violate("application-died", lastOp, "", fmt.Sprintf("height %d: the application closed itself (recovered panic)", h))
			return false
		}
		if herr != nil {
			// a consensus halt is C10's business; the history simply ends here
			s.tags["halted"] = true
			return false
		}
		lastDump = x.R.Dump()
		cur := stkview.Decode(lastDump)
		if trace != nil {
			var codes []string
			for i, t := range r.Txs {
				codes = append(codes, fmt.Sprintf("%s(%s)=%d", ops[i].Kind, ops[i].Amt, t.Code))
			}
			trace("   h=%d %-24s %s\n", h, kind, strings.Join(codes, " "))
			for _, t := range r.Txs {
				if t.Code != 0 {
					trace("      rejected: %s\n", t.Log)
				}
			}
		}
		before := len(s.info)
		_ = before
		acc := s.info["fired:withdraw-judged"] + s.info["fired:guilty-verdict"] + s.info["fired:maturity-reached"]
		m.applyBlock(s, h, prev, cur, ops, r.Txs, lastOp)
		if s.info["fired:withdraw-judged"]+s.info["fired:guilty-verdict"]+s.info["fired:maturity-reached"] > acc {
			nontrivial = true
		}
		if len(cur.Bad) > 0 {
			s.violate("harness", lastOp, "undecodable-record", fmt.Sprintf("height %d: undecodable %v", h, cur.Bad))
		}
		if trace != nil {
			v1, s1 := w.Vals[0].Val.Addr.String(), w.Vals[0].Stake.Addr.String()
			rec := "none"
			if r := cur.Vals[v1]; r != nil {
				rec = r.Staking.String()
			}
			trace("      V1/S1: locked %s total %s record %s withdrawable %s queue %v frozen %v\n", stkview.Big(cur.Locked[v1], s1), stkview.Big(cur.Total, v1), rec,
				stkview.Big(cur.Bounded, s1), sortedQueue(cur), cur.IsFrozen(v1))
		}
		prev = cur
		return true
	}
	ok := true
	for pos, e := range hist {
		if e < 0 || e >= len(evs) {
			out.Err = fmt.Sprintf("event index %d out of range", e)
			return
		}
		ev := evs[e]
		if ev.Kind != "empty" {
			lastOp = ev.Kind
		}
		c := &evCtx{W: w, V: prev, M: m, H: x.C.Height + 1, Tag: fmt.Sprintf("p%d-%s", pos, ev.Kind)}
		for _, ops := range ev.Blocks(c) {
			if ok = runBlock(ops, ev.Kind); !ok {
				break
			}
		}
		if !ok {
			break
		}
	}
	if out.Err != "" {
		return
	}
	if ok {
		out.Key = stkview.StateKey(lastDump, keep(x.C.Height, w.Gov.EvidenceOptions.BlockVotesDiff), wd.Name, fmt.Sprint(x.C.Height))
		// quiet extension (not part of the state): let every pending maturity and delayed penalty happen
		for q := int64(0); q < w.Gov.StakingOptions.MaturityTime+2 && ok; q++ {
			ok = runBlock(nil, "quiet")
		}
	} else {
		out.NoExpand = true
	}
	if nontrivial {
		s.count("nontrivial")
	}
	// outcome tag: class of the final state of (V1,S1)
	v1, s1 := w.Vals[0].Val.Addr.String(), w.Vals[0].Stake.Addr.String()
	cls := func(n interface{ Sign() int }) string {
		if n.Sign() == 0 {
			return "0"
		}
		return "+"
	}
	rec := "no-record"
	if prev.Vals[v1] != nil {
		rec = "record"
	}
	s.tags[fmt.Sprintf("%s:locked=%s,withdrawable=%s,%s,frozen=%v,withdrawn=%s,penalty=%s", wd.Name, cls(stkview.Big(prev.Locked[v1], s1)),
		cls(stkview.Big(prev.Bounded, s1)), rec, prev.IsFrozen(v1), cls(get(m.withdrawn, s1)), cls(get(m.penalties, s1)))] = true
	out.Viol = s.viol
	out.Info = s.info
	for t := range s.tags {
		out.Tags = append(out.Tags, t)
	}
	sort.Strings(out.Tags)
	return
}

func sortedQueue(v *stkview.View) []string {
	var out []string
	for q, es := range v.Queue {
		for _, e := range es {
			out = append(out, fmt.Sprintf("%d:%s", q, e.Amount))
		}
	}
	sort.Strings(out)
	return out
}

func workerMain() int {
	fd3 := harness.KeepStdout() // results go to the original stdout (a pipe to the master)
	harness.SilenceStdout()
	// the scratch root is named after the pid: a crashed process with a recycled pid may have left
	// replica directories behind, and InitChain fails on a directory that already holds a chain
	harness.RemoveScratch()
	defer harness.RemoveScratch()
	return explore.ServeWorker(fd3, func(raw json.RawMessage) interface{} {
		var j explore.BFSJob
		if err := json.Unmarshal(raw, &j); err != nil {
			return explore.BFSOut{Err: err.Error()}
		}
		parts := strings.SplitN(j.Tier, ":", 2)
		if len(parts) != 2 {
			return explore.BFSOut{Err: "bad tier " + j.Tier}
		}
		wd := worldByName(parts[1])
		if wd == nil {
			return explore.BFSOut{Err: "unknown world " + parts[1]}
		}
		return execute(wd, j.Hist, nil)
	})
}

type replayFile struct {
	Case struct {
		History []string `json:"history"`
		H       []int    `json:"h"`
	} `json:"case"`
	Signature string `json:"signature"`
}

func replay(path string) int {
	harness.SilenceStdout()
	harness.RemoveScratch()
	defer harness.RemoveScratch()
	var rf replayFile
	b, err := os.ReadFile(path)
	if err == nil {
		err = json.Unmarshal(b, &rf)
	}
	if err != nil || len(rf.Case.History) == 0 || len(rf.Case.History) != len(rf.Case.H) {
		harness.Outf("cannot read replay %s: %v\n", path, err)
		return 2
	}
	wd := worldByName(strings.SplitN(rf.Case.History[0], ":", 2)[0])
	if wd == nil {
		harness.Outf("unknown world in replay\n")
		return 2
	}
	harness.Outf("replay %s\n  world %s: %s\n  history %v\n  recorded signature: %s\n", path, wd.Name, wd.What, rf.Case.History, rf.Signature)
	r := execute(wd, rf.Case.H, func(f string, a ...interface{}) { harness.Outf(f, a...) })
	if r.Err != "" {
		harness.Outf("harness error: %s\n", r.Err)
		return 2
	}
	if len(r.Viol) > 0 {
		for _, v := range r.Viol {
			harness.Outf("VIOLATION %s\n   %s\n", v.Sig, v.What)
		}
		return 1
	}
	harness.Outf("no violation on this history\n")
	return 0
}

// Main is the entry of `vc11 C11 ...`.
func Main(args []string) int {
	if explore.IsWorker(prop) {
		return workerMain()
	}
	only := ""
	depthOverride := 0
	flags := explore.ParseFlags(prop, args, func(fs *flag.FlagSet) {
		fs.StringVar(&only, "world", "", "explore only this world")
		fs.IntVar(&depthOverride, "depth", 0, "override the BFS depth")
	})
	if flags.Replay != "" {
		return replay(flags.Replay)
	}
	harness.SilenceStdout()
	rep := explore.NewReporter(prop, "model_checking", flags, harness.Out())
	budget := 210 * time.Second
	if flags.Tier == "thorough" {
		budget = 27 * time.Minute
	}
	if flags.Budget > 0 {
		budget = flags.Budget
	}
	end := time.Now().Add(budget)
	var ws []*worldDef
	for _, wd := range worlds() {
		if only == "" || only == wd.Name {
			ws = append(ws, wd)
		}
	}
	evs := events()
	total := explore.BFSStats{Info: map[string]int64{}, Tags: map[string]int{}, Exhaustive: true}
	perWorld := map[string]interface{}{}
	bounds := map[string]interface{}{}
	for i, wd := range ws {
		wd := wd
		depth := wd.Depth[flags.Tier]
		if depthOverride > 0 {
			depth = depthOverride
		}
		deadline := time.Now().Add(time.Until(end) / time.Duration(len(ws)-i))
		st := explore.RunBFS(explore.BFSConfig{
			Command:   prop,
			Workers:   flags.Workers,
			MaxDepth:  depth,
			NumEvents: func(int) int { return len(evs) },
			Deadline:  deadline,
			PerJob:    2 * time.Minute,
			Tier:      flags.Tier + ":" + wd.Name,
			EventName: func(e int) string { return wd.Name + ":" + evs[e].Name },
		}, rep)
		total.States += st.States
		total.Transitions += st.Transitions
		total.HarnessErrors += st.HarnessErrors
		total.ErrSamples = append(total.ErrSamples, st.ErrSamples...)
		total.Died += st.Died
		total.Capped = total.Capped || st.Capped
		total.DeadlineHit = total.DeadlineHit || st.DeadlineHit
		total.Exhaustive = total.Exhaustive && st.Exhaustive
		if total.DepthCompleted == 0 || st.DepthCompleted < total.DepthCompleted {
			total.DepthCompleted = st.DepthCompleted
		}
		for k, v := range st.Info {
			total.Info[k] += v
		}
		for k, v := range st.Tags {
			total.Tags[k] += v
		}
		for _, l := range st.PerLevel {
			l2 := map[string]int{}
			for k, v := range l {
				l2[k] = v
			}
			l2["world_index"] = i
			total.PerLevel = append(total.PerLevel, l2)
		}
		perWorld[wd.Name] = map[string]interface{}{"what": wd.What, "depth_bound": depth, "depth_completed": st.DepthCompleted,
			"states": st.States, "executions": st.Transitions, "exhaustive_within_bound": st.Exhaustive, "per_level": st.PerLevel}
		bounds[wd.Name] = fmt.Sprintf("%d events, depth %d, + maturity+2 quiet blocks per execution", len(evs), depth)
	}
	total.Fill(rep)
	rep.Set("worlds", perWorld)
	rep.Set("alphabet", eventNames())
	rep.Set("bounds", bounds)
	rep.Set("distinct_nontrivial", total.Info["nontrivial"])
	rep.Set("rule", "an execution counts as non-trivial when at least one withdrawal was accepted (and judged), a maturity was reached or a guilty verdict "+
		"(penalty) happened along it; counters acc:/rej: per operation, fired:* per oracle antecedent")
	rep.Assume("validators V1/V2/V3 with stake accounts S1/S2/S3 and user B as foreign delegator; amounts 1, half, all, all+1 relative to the committed records")
	rep.Assume("transactions are delivered without a preceding CheckTx (the proposer is not trusted; DeliverTx validates like CheckTx)")
	rep.Assume("maturity option 1 and 2 in two worlds; a mid-history change is unreachable (governance only admits 109200..468000 blocks)")
	rep.Assume("state identity: height + committed validator, purge, stake, evidence and option records; balances are not part of the identity (but compared with the model on every block)")
	var never []string
	for _, e := range evs {
		if e.Kind != "empty" && e.Kind != "absent" && !e.Hostile && total.Info["acc:"+e.Kind] == 0 {
			never = append(never, e.Kind)
		}
	}
	code := rep.Finish()
	if len(never) > 0 {
		harness.Outf("%s: operations never accepted anywhere: %v - the factory builds them wrongly; refusing to report success\n", prop, never)
		return 2
	}
	if total.HarnessErrors > 0 {
		harness.Outf("%s: %d harness errors, e.g. %v\n", prop, total.HarnessErrors, total.ErrSamples)
		if code == 0 {
			return 2
		}
	}
	return code
}
