package c11

import (
	"fmt"
	"math/big"

	"github.com/Oneledger/protocol/action"

	"verif/checks/c10/stkview"
	"verif/harness"
	"verif/txs/stk"
)

// ---------------------------------------------------------------------------------------------
// worlds: the default world (validators V1 3 000 000 / V2 2 000 000 / V3 1 000 000 with their stake
// accounts S1..S3, user B as a foreign delegator) with maturity time 1 and 2. A mid-history change of
// the maturity option is not explored: the only way to change it is a config proposal, and
// data/governance/validations.go only admits values in 109 200..468 000 blocks, so no reachable history
// could observe the difference.
// ---------------------------------------------------------------------------------------------

type worldDef struct {
	Name  string
	What  string
	Build func() *harness.World
	Depth map[string]int
}

func world(name string, maturity int64) *harness.World {
	w := harness.NewWorld("c11-"+name, 4, 3)
	w.Gov.StakingOptions.MaturityTime = maturity
	w.Gov.EvidenceOptions.MinVotesRequired = 2
	w.Gov.EvidenceOptions.BlockVotesDiff = 4
	w.Gov.EvidenceOptions.ValidatorReleaseTime = 0
	return w
}

func worlds() []*worldDef {
	return []*worldDef{
		{Name: "m1", What: "maturity time 1 block", Build: func() *harness.World { return world("m1", 1) }, Depth: map[string]int{"quick": 4, "thorough": 6}},
		{Name: "m2", What: "maturity time 2 blocks", Build: func() *harness.World { return world("m2", 2) }, Depth: map[string]int{"quick": 4, "thorough": 6}},
	}
}

func worldByName(n string) *worldDef {
	for _, w := range worlds() {
		if w.Name == n {
			return w
		}
	}
	return nil
}

// ---------------------------------------------------------------------------------------------
// operations and events
// ---------------------------------------------------------------------------------------------

// op is one staking transaction as the reference model sees it.
type op struct {
	Kind string // "stake", "unstake", "withdraw", "evidence"
	V    string // validator address named by the transaction ("0lt...")
	D    string // stake (delegator) address
	Amt  *big.Int
	// Payer: the account charged the fee (stake account for staking kinds; for evidence kinds the stake
	// account of the signing validator, resolved by the model from the records)
	Payer string
	Label string // event kind for counters/signatures
	Tx    *harness.TxSpec
	// Absent (Kind "absent", no transaction): validator index that does not sign the previous block's commit
	Absent int
}

type evCtx struct {
	W   *harness.World
	V   *stkview.View
	M   *model
	H   int64
	Tag string
}

type eventDef struct {
	Name    string
	Kind    string
	Hostile bool // a correct implementation may (or must) always reject it: acceptance is not demanded
	Blocks  func(c *evCtx) [][]*op
}

func amt(n int64) action.Amount { return stk.WholeOLT(n) }

func stakeOp(c *evCtx, label string, v *harness.ValSpec, d *harness.Account, n int64, memo string) *op {
	return &op{Kind: "stake", V: v.Val.Addr.String(), D: d.Addr.String(), Amt: big.NewInt(n), Payer: d.Addr.String(), Label: label,
		Tx: stk.Stake(v, d, amt(n), memo)}
}

func unstakeOp(label string, v, d *harness.Account, n int64, memo string) *op {
	return &op{Kind: "unstake", V: v.Addr.String(), D: d.Addr.String(), Amt: big.NewInt(n), Payer: d.Addr.String(), Label: label,
		Tx: stk.Unstake(v, d, amt(n), memo)}
}

func withdrawOp(label string, v, d *harness.Account, n int64, memo string) *op {
	return &op{Kind: "withdraw", V: v.Addr.String(), D: d.Addr.String(), Amt: big.NewInt(n), Payer: d.Addr.String(), Label: label,
		Tx: stk.Withdraw(v, d, amt(n), memo)}
}

func evidenceOp(label string, signer *harness.Account, tx *harness.TxSpec) *op {
	return &op{Kind: "evidence", V: signer.Addr.String(), Label: label, Tx: tx}
}

func one(o *op) [][]*op { return [][]*op{{o}} }

func i64(n *big.Int) int64 {
	if n != nil && n.IsInt64() {
		return n.Int64()
	}
	return 0
}

// locked / withdrawable as the DUMP shows them (the event amounts "all", "all+1" are relative to the
// implementation's own records, so that "all" is accepted by it and "all+1" is one too many).
func locked(c *evCtx, v *harness.ValSpec, d *harness.Account) int64 {
	if m := c.V.Locked[v.Val.Addr.String()]; m != nil {
		return i64(m[d.Addr.String()])
	}
	return 0
}

func withdrawable(c *evCtx, d *harness.Account) int64 { return i64(c.V.Bounded[d.Addr.String()]) }

// belowMin is the amount that takes a locked stake down to one below the minimum self-delegation (500 000).
func belowMin(lockedNow int64) int64 {
	if lockedNow > 499999 {
		return lockedNow - 499999
	}
	return 1
}

func atLeast1(n int64) int64 {
	if n < 1 {
		return 1
	}
	return n
}

func events() []*eventDef {
	type C = evCtx
	v1 := func(c *C) *harness.ValSpec { return c.W.Vals[0] }
	v2 := func(c *C) *harness.ValSpec { return c.W.Vals[1] }
	b := func(c *C) *harness.Account { return c.W.Users[1] }
	return []*eventDef{
		{Name: "empty", Kind: "empty", Blocks: func(c *C) [][]*op { return [][]*op{{}} }},
		{Name: "stake(V1,S1,1)", Kind: "stake", Blocks: func(c *C) [][]*op {
			return one(stakeOp(c, "stake", v1(c), v1(c).Stake, 1, c.Tag))
		}},
		{Name: "stake(V1,B,100)", Kind: "stake-foreign-delegator", Hostile: true, Blocks: func(c *C) [][]*op {
			return one(stakeOp(c, "stake-foreign-delegator", v1(c), b(c), 100, c.Tag))
		}},
		{Name: "unstake(V1,S1,1)", Kind: "unstake-1", Blocks: func(c *C) [][]*op {
			return one(unstakeOp("unstake-1", v1(c).Val, v1(c).Stake, 1, c.Tag))
		}},
		{Name: "unstake(V1,S1,all)", Kind: "unstake-all", Blocks: func(c *C) [][]*op {
			return one(unstakeOp("unstake-all", v1(c).Val, v1(c).Stake, atLeast1(locked(c, v1(c), v1(c).Stake)), c.Tag))
		}},
		{Name: "unstake(V1,S1,all+1)", Kind: "unstake-too-much", Hostile: true, Blocks: func(c *C) [][]*op {
			return one(unstakeOp("unstake-too-much", v1(c).Val, v1(c).Stake, locked(c, v1(c), v1(c).Stake)+1, c.Tag))
		}},
		{Name: "unstake(V1,B,1)", Kind: "unstake-foreign-delegator", Hostile: true, Blocks: func(c *C) [][]*op {
			return one(unstakeOp("unstake-foreign-delegator", v1(c).Val, b(c), 1, c.Tag))
		}},
		{Name: "withdraw(V1,S1,1)", Kind: "withdraw-1", Blocks: func(c *C) [][]*op {
			return one(withdrawOp("withdraw-1", v1(c).Val, v1(c).Stake, 1, c.Tag))
		}},
		{Name: "withdraw(V1,S1,all)", Kind: "withdraw-all", Blocks: func(c *C) [][]*op {
			return one(withdrawOp("withdraw-all", v1(c).Val, v1(c).Stake, atLeast1(withdrawable(c, v1(c).Stake)), c.Tag))
		}},
		{Name: "withdraw(V1,S1,all+1)", Kind: "withdraw-too-much", Hostile: true, Blocks: func(c *C) [][]*op {
			return one(withdrawOp("withdraw-too-much", v1(c).Val, v1(c).Stake, withdrawable(c, v1(c).Stake)+1, c.Tag))
		}},
		// S1 withdraws what it unstaked from V1 but names B's address in the validator field (B co-signs)
		{Name: "withdraw(validator-field=B,S1,all)", Kind: "withdraw-naming-other-validator", Hostile: true, Blocks: func(c *C) [][]*op {
			return one(withdrawOp("withdraw-naming-other-validator", b(c), v1(c).Stake, atLeast1(withdrawable(c, v1(c).Stake)), c.Tag))
		}},
		{Name: "unstake(V2,S2,half)", Kind: "unstake-half-V2", Blocks: func(c *C) [][]*op {
			return one(unstakeOp("unstake-half-V2", v2(c).Val, v2(c).Stake, atLeast1(locked(c, v2(c), v2(c).Stake)/2), c.Tag))
		}},
		{Name: "withdraw(V2,S2,all)", Kind: "withdraw-all-V2", Blocks: func(c *C) [][]*op {
			return one(withdrawOp("withdraw-all-V2", v2(c).Val, v2(c).Stake, atLeast1(withdrawable(c, v2(c).Stake)), c.Tag))
		}},
		// macro-op: V2 accuses V1, V2 and V3 vote yes in the next two blocks
		{Name: "guilty-verdict(V1)", Kind: "guilty", Blocks: func(c *C) [][]*op {
			id := "req-" + c.Tag
			w := c.W
			return [][]*op{
				{evidenceOp("guilty", w.Vals[1].Val, stk.Allegation(id, w.Vals[1].Val, w.Vals[0].Val.Addr, 1, "proof", c.Tag+"a"))},
				{evidenceOp("guilty", w.Vals[1].Val, stk.AllegationVote(id, w.Vals[1].Val, stk.Yes, c.Tag+"b"))},
				{evidenceOp("guilty", w.Vals[2].Val, stk.AllegationVote(id, w.Vals[2].Val, stk.Yes, c.Tag+"c"))},
			}
		}},
		// V1 drops below the minimum self-delegation (it loses its seat and is purged from the validator queue a
		// few blocks later) but keeps a stake that a penalty can be taken from; alone, and inside the verdict
		// macro, so that purge and verdict meet in one block or in neighbouring blocks (the cut of the validator
		// RECORD is applied a block after the verdict, by a routine that refuses changes right after a purge)
		{Name: "unstake(V1,S1,down-to-minimum-1)", Kind: "unstake-below-min", Blocks: func(c *C) [][]*op {
			return one(unstakeOp("unstake-below-min", v1(c).Val, v1(c).Stake, belowMin(locked(c, v1(c), v1(c).Stake)), c.Tag))
		}},
		{Name: "guilty-verdict(V1)+unstake(V1,S1,down-to-minimum-1)-in-its-first-block", Kind: "guilty-unstake-first", Blocks: func(c *C) [][]*op {
			id := "req-" + c.Tag
			w := c.W
			return [][]*op{
				{evidenceOp("guilty", w.Vals[1].Val, stk.Allegation(id, w.Vals[1].Val, w.Vals[0].Val.Addr, 1, "proof", c.Tag+"a")),
					unstakeOp("guilty-unstake-first", v1(c).Val, v1(c).Stake, belowMin(locked(c, v1(c), v1(c).Stake)), c.Tag+"u")},
				{evidenceOp("guilty", w.Vals[1].Val, stk.AllegationVote(id, w.Vals[1].Val, stk.Yes, c.Tag+"b"))},
				{evidenceOp("guilty", w.Vals[2].Val, stk.AllegationVote(id, w.Vals[2].Val, stk.Yes, c.Tag+"c"))},
			}
		}},
		{Name: "guilty-verdict(V1)+unstake(V1,S1,down-to-minimum-1)-in-its-second-block", Kind: "guilty-unstake-second", Blocks: func(c *C) [][]*op {
			id := "req-" + c.Tag
			w := c.W
			return [][]*op{
				{evidenceOp("guilty", w.Vals[1].Val, stk.Allegation(id, w.Vals[1].Val, w.Vals[0].Val.Addr, 1, "proof", c.Tag+"a"))},
				{evidenceOp("guilty", w.Vals[1].Val, stk.AllegationVote(id, w.Vals[1].Val, stk.Yes, c.Tag+"b")),
					unstakeOp("guilty-unstake-second", v1(c).Val, v1(c).Stake, belowMin(locked(c, v1(c), v1(c).Stake)), c.Tag+"u")},
				{evidenceOp("guilty", w.Vals[2].Val, stk.AllegationVote(id, w.Vals[2].Val, stk.Yes, c.Tag+"c"))},
			}
		}},
		// V1 does not sign (2 signatures in a window of 4 are required: after enough of these blocks the BeginBlock
		// of a block freezes V1 for missed votes - a freeze that is NEW IN THAT VERY BLOCK, not yet committed when
		// the block's transactions run), alone and together with a withdrawal / an unstake of S1 in the same block.
		// (Added after a sub-agent's remark: WITHDRAW's scan of the frozen validators only sees committed records.)
		{Name: "absent(V1)", Kind: "absent", Blocks: func(c *C) [][]*op {
			return [][]*op{{{Kind: "absent", Absent: 0, Label: "absent"}}}
		}},
		{Name: "block[absent(V1);withdraw(validator-field=B,S1,all)]", Kind: "absent-withdraw-naming-other-validator", Hostile: true, Blocks: func(c *C) [][]*op {
			return [][]*op{{{Kind: "absent", Absent: 0, Label: "absent"},
				withdrawOp("absent-withdraw-naming-other-validator", b(c), v1(c).Stake, atLeast1(withdrawable(c, v1(c).Stake)), c.Tag)}}
		}},
		{Name: "block[absent(V1);unstake(V1,S1,1)]", Kind: "absent-unstake", Hostile: true, Blocks: func(c *C) [][]*op {
			return [][]*op{{{Kind: "absent", Absent: 0, Label: "absent"},
				unstakeOp("absent-unstake", v1(c).Val, v1(c).Stake, 1, c.Tag)}}
		}},
		{Name: "release(V1)", Kind: "release", Blocks: func(c *C) [][]*op {
			return one(evidenceOp("release", c.W.Vals[0].Val, stk.Release(c.W.Vals[0].Val, c.Tag)))
		}},
		// two operations of the same delegator in one block
		{Name: "block[unstake(V1,S1,1);withdraw(V1,S1,1)]", Kind: "pair-unstake-withdraw", Blocks: func(c *C) [][]*op {
			return [][]*op{{
				unstakeOp("pair-unstake-withdraw", v1(c).Val, v1(c).Stake, 1, c.Tag+"a"),
				withdrawOp("pair-unstake-withdraw", v1(c).Val, v1(c).Stake, 1, c.Tag+"b"),
			}}
		}},
		// two unstakes of the same delegator in one block: two entries of one account in one maturity queue
		// (added after a seeded change - entries of one delegator folded with a stale tail - escaped the
		// alphabet in which an account unstaked at most once per block)
		{Name: "block[unstake(V1,S1,1);unstake(V1,S1,2)]", Kind: "pair-unstake-unstake", Blocks: func(c *C) [][]*op {
			return [][]*op{{
				unstakeOp("pair-unstake-unstake", v1(c).Val, v1(c).Stake, 1, c.Tag+"a"),
				unstakeOp("pair-unstake-unstake", v1(c).Val, v1(c).Stake, 2, c.Tag+"b"),
			}}
		}},
		// two DIFFERENT stake accounts unstake in one block, in both orders (their entries share one maturity
		// queue, which is kept sorted by address: the second one is inserted before or behind the first).
		// (Added after a seeded change - the new entry inserted through an aliased slice, overwriting a
		// neighbour - escaped the alphabet in which a queue never held two accounts.)
		{Name: "block[unstake(V1,S1,1);unstake(V2,S2,half)]", Kind: "pair-unstake-two-accounts", Blocks: func(c *C) [][]*op {
			return [][]*op{{
				unstakeOp("pair-unstake-two-accounts", v1(c).Val, v1(c).Stake, 1, c.Tag+"a"),
				unstakeOp("pair-unstake-two-accounts", v2(c).Val, v2(c).Stake, atLeast1(locked(c, v2(c), v2(c).Stake)/2), c.Tag+"b"),
			}}
		}},
		{Name: "block[unstake(V2,S2,half);unstake(V1,S1,1)]", Kind: "pair-unstake-two-accounts-reversed", Blocks: func(c *C) [][]*op {
			return [][]*op{{
				unstakeOp("pair-unstake-two-accounts-reversed", v2(c).Val, v2(c).Stake, atLeast1(locked(c, v2(c), v2(c).Stake)/2), c.Tag+"a"),
				unstakeOp("pair-unstake-two-accounts-reversed", v1(c).Val, v1(c).Stake, 1, c.Tag+"b"),
			}}
		}},
	}
}

func eventNames() []string {
	var out []string
	for _, e := range events() {
		out = append(out, e.Name)
	}
	return out
}

var _ = fmt.Sprint
