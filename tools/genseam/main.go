// genseam puts the three sources of run-to-run nondeterminism of the application behind seams the
// explorer decides (C01): in every non-test file of every package of the repository's module that
// package app depends on it rewrites
//
//	for k, v := range m { BODY }   (m a map)  ->  iteration in an order chosen by verifseam.Order
//	time.Now()                                 ->  verifseam.Now()
//	uuid.NewUUID()                             ->  verifseam.UUID()
//
// The rewritten files are written to <outdir>/seam/ and listed in <outdir>/extra_overlay.json (merged
// into the build overlay by genprep), together with the verifseam package itself, which is added to the
// module as a virtual package <module>/utils/verifseam. Nothing in the repository is touched.
//
// usage: genseam <repo> <outdir> <verifseam.go>
package main

import (
	"bytes"
	"encoding/json"
	"fmt"
	"go/ast"
	"go/parser"
	"go/printer"
	"go/token"
	"go/types"
	"os"
	"path/filepath"
	"sort"
	"strings"

	"golang.org/x/tools/go/ast/astutil"
	"golang.org/x/tools/go/packages"
)

type site struct {
	File string `json:"file"`
	Line int    `json:"line"`
	Kind string `json:"kind"` // "map-range" | "time.Now" | "uuid.NewUUID"
	Key  string `json:"key_type,omitempty"`
}

func die(f string, a ...interface{}) {
	fmt.Fprintf(os.Stderr, "genseam: "+f+"\n", a...)
	os.Exit(2)
}

func main() {
	if len(os.Args) != 4 {
		die("usage: genseam <repo> <outdir> <verifseam.go>")
	}
	repo, out, seamSrc := os.Args[1], os.Args[2], os.Args[3]
	cfg := &packages.Config{
		Mode: packages.NeedName | packages.NeedFiles | packages.NeedCompiledGoFiles | packages.NeedSyntax | packages.NeedTypes | packages.NeedTypesInfo | packages.NeedImports | packages.NeedDeps | packages.NeedModule,
		Dir:  repo,
		Env:  append(os.Environ(), "GOFLAGS=-mod=mod", "GOPROXY=off", "GOSUMDB=off", "GOTOOLCHAIN=local"),
	}
	pkgs, err := packages.Load(cfg, "./app")
	if err != nil {
		die("load: %v", err)
	}
	if len(pkgs) != 1 {
		die("expected one root package, got %d", len(pkgs))
	}
	root := pkgs[0]
	if root.Module == nil {
		die("no module info")
	}
	modPath := root.Module.Path
	seamImport := modPath + "/utils/verifseam"
	// collect module packages reachable from app
	seen := map[string]*packages.Package{}
	var visit func(p *packages.Package)
	visit = func(p *packages.Package) {
		if seen[p.PkgPath] != nil {
			return
		}
		seen[p.PkgPath] = p
		for _, ip := range p.Imports {
			if strings.HasPrefix(ip.PkgPath, modPath) {
				visit(ip)
			}
		}
	}
	visit(root)
	var paths []string
	for p := range seen {
		paths = append(paths, p)
	}
	sort.Strings(paths)
	os.RemoveAll(filepath.Join(out, "seam"))
	if err := os.MkdirAll(filepath.Join(out, "seam"), 0o755); err != nil {
		die("%v", err)
	}
	overlay := map[string]string{}
	var sites []site
	counter := 0
	for _, pp := range paths {
		p := seen[pp]
		if len(p.Errors) > 0 {
			die("package %s has errors: %v", pp, p.Errors[0])
		}
		if strings.HasSuffix(pp, "/utils/verifseam") || strings.HasSuffix(pp, "/log") {
			continue // the logger's timestamps never reach the state
		}
		for i, f := range p.Syntax {
			fname := p.CompiledGoFiles[i]
			if strings.HasSuffix(fname, "_test.go") || !strings.HasPrefix(fname, repo) {
				continue
			}
			rel, _ := filepath.Rel(repo, fname)
			changed := false
			// 1. calls
			ast.Inspect(f, func(n ast.Node) bool {
				call, ok := n.(*ast.CallExpr)
				if !ok {
					return true
				}
				sel, ok := call.Fun.(*ast.SelectorExpr)
				if !ok {
					return true
				}
				id, ok := sel.X.(*ast.Ident)
				if !ok {
					return true
				}
				pn, ok := p.TypesInfo.Uses[id].(*types.PkgName)
				if !ok {
					return true
				}
				ip := pn.Imported().Path()
				switch {
				case ip == "time" && sel.Sel.Name == "Now" && len(call.Args) == 0:
					sites = append(sites, site{File: rel, Line: p.Fset.Position(call.Pos()).Line, Kind: "time.Now"})
					call.Fun = &ast.SelectorExpr{X: ast.NewIdent("verifseam"), Sel: ast.NewIdent("Now")}
					changed = true
				case ip == "github.com/google/uuid" && sel.Sel.Name == "NewUUID" && len(call.Args) == 0:
					sites = append(sites, site{File: rel, Line: p.Fset.Position(call.Pos()).Line, Kind: "uuid.NewUUID"})
					call.Fun = &ast.SelectorExpr{X: ast.NewIdent("verifseam"), Sel: ast.NewIdent("UUID")}
					changed = true
				}
				return true
			})
			// 2. map ranges
			astutil.Apply(f, nil, func(c *astutil.Cursor) bool {
				rs, ok := c.Node().(*ast.RangeStmt)
				if !ok {
					return true
				}
				tv := p.TypesInfo.TypeOf(rs.X)
				if tv == nil {
					return true
				}
				mt, ok := tv.Underlying().(*types.Map)
				if !ok {
					return true
				}
				pos := p.Fset.Position(rs.Pos())
				siteID := fmt.Sprintf("%s:%d", rel, pos.Line)
				sites = append(sites, site{File: rel, Line: pos.Line, Kind: "map-range", Key: mt.Key().String()})
				counter++
				n := counter
				mVar := ast.NewIdent(fmt.Sprintf("verifM%d", n))
				wantVar := ast.NewIdent(fmt.Sprintf("verifW%d", n))
				label := ast.NewIdent(fmt.Sprintf("verifL%d", n))
				// the loop label, if any, moves to the outer loop
				var outerLabel *ast.Ident
				if ls, ok := c.Parent().(*ast.LabeledStmt); ok && ls.Stmt == rs {
					outerLabel = ls.Label
				}
				breakTo := label
				if outerLabel != nil {
					breakTo = outerLabel
				}
				// key variable must be bound
				keyIdent, _ := rs.Key.(*ast.Ident)
				tok := rs.Tok
				if rs.Key == nil || (keyIdent != nil && keyIdent.Name == "_") {
					keyIdent = ast.NewIdent(fmt.Sprintf("verifK%d", n))
					rs.Key = keyIdent
					if tok == token.ILLEGAL || tok == token.ASSIGN {
						// "for range m" or "for _, v = range m": bind a fresh key with :=, which would shadow v;
						// only := loops are rewritten in that shape
						if rs.Value != nil && tok == token.ASSIGN {
							return true // leave this (rare) loop alone
						}
						tok = token.DEFINE
					}
				}
				rs.Tok = tok
				// unlabeled break directly in the body must leave the whole iteration
				nBreaks := rewriteBreaks(rs.Body, breakTo)
				keyExpr := rs.Key
				guard := &ast.IfStmt{
					Cond: &ast.BinaryExpr{
						X:  &ast.CallExpr{Fun: &ast.SelectorExpr{X: ast.NewIdent("verifseam"), Sel: ast.NewIdent("ID")}, Args: []ast.Expr{keyExpr}},
						Op: token.NEQ,
						Y:  wantVar,
					},
					Body: &ast.BlockStmt{List: []ast.Stmt{&ast.BranchStmt{Tok: token.CONTINUE}}},
				}
				innerBody := &ast.BlockStmt{List: append([]ast.Stmt{guard}, rs.Body.List...)}
				innerBody.List = append(innerBody.List, &ast.BranchStmt{Tok: token.BREAK})
				inner := &ast.RangeStmt{Key: rs.Key, Value: rs.Value, Tok: rs.Tok, X: mVar, Body: innerBody}
				outer := &ast.RangeStmt{
					Key: ast.NewIdent("_"), Value: wantVar, Tok: token.DEFINE,
					X: &ast.CallExpr{Fun: &ast.SelectorExpr{X: ast.NewIdent("verifseam"), Sel: ast.NewIdent("Order")},
						Args: []ast.Expr{&ast.BasicLit{Kind: token.STRING, Value: fmt.Sprintf("%q", siteID)}, mVar}},
					Body: &ast.BlockStmt{List: []ast.Stmt{inner}},
				}
				assign := &ast.AssignStmt{Lhs: []ast.Expr{mVar}, Tok: token.DEFINE, Rhs: []ast.Expr{rs.X}}
				var loop ast.Stmt = outer
				if nBreaks > 0 {
					loop = &ast.LabeledStmt{Label: label, Stmt: outer}
				}
				if outerLabel != nil {
					// parent is the LabeledStmt: replace its statement by the outer loop, and hoist the
					// assignment by wrapping: L: for ... cannot be preceded inside the label, so evaluate the
					// map expression inside the Order call instead
					outer.X.(*ast.CallExpr).Args[1] = rs.X
					inner.X = rs.X
					c.Replace(outer)
					changed = true
					return true
				}
				c.Replace(&ast.BlockStmt{List: []ast.Stmt{assign, loop}})
				changed = true
				return true
			})
			// 3. write log: every Set/Delete that reaches the committed tree reports itself (C01 compares the
			// ORDER of insertions and deletions between replicas: the tree's shape, and with it the root hash,
			// depends on it)
			if rel == "storage/chainstate.go" {
				hooked := 0
				for _, d := range f.Decls {
					fd, ok := d.(*ast.FuncDecl)
					if !ok || fd.Recv == nil || len(fd.Recv.List) != 1 || len(fd.Recv.List[0].Names) != 1 || fd.Body == nil {
						continue
					}
					star, ok := fd.Recv.List[0].Type.(*ast.StarExpr)
					if !ok {
						continue
					}
					if id, ok := star.X.(*ast.Ident); !ok || id.Name != "ChainState" {
						continue
					}
					if (fd.Name.Name != "Set" && fd.Name.Name != "Delete") || len(fd.Type.Params.List) == 0 || len(fd.Type.Params.List[0].Names) == 0 {
						continue
					}
					recv := fd.Recv.List[0].Names[0].Name
					key := fd.Type.Params.List[0].Names[0].Name
					src := fmt.Sprintf("verifseam.Wrote([]byte(%s), false, %s.Delivered.Has([]byte(%s)))", key, recv, key)
					if fd.Name.Name == "Delete" {
						src = fmt.Sprintf("verifseam.Wrote([]byte(%s), true, true)", key)
					}
					ex, err := parser.ParseExpr(src)
					if err != nil {
						die("write-log hook: %v", err)
					}
					fd.Body.List = append([]ast.Stmt{&ast.ExprStmt{X: ex}}, fd.Body.List...)
					hooked++
					changed = true
				}
				if hooked != 2 {
					die("write-log hook: expected ChainState.Set and ChainState.Delete in storage/chainstate.go, hooked %d", hooked)
				}
				sites = append(sites, site{File: rel, Line: 0, Kind: "write-log"})
			}
			if !changed {
				continue
			}
			astutil.AddNamedImport(p.Fset, f, "verifseam", seamImport)
			for _, imp := range []string{"time", "github.com/google/uuid"} {
				if !astutil.UsesImport(f, imp) {
					for _, is := range f.Imports {
						if strings.Trim(is.Path.Value, `"`) == imp {
							if is.Name != nil {
								astutil.DeleteNamedImport(p.Fset, f, is.Name.Name, imp)
							} else {
								astutil.DeleteImport(p.Fset, f, imp)
							}
							break
						}
					}
				}
			}
			var buf bytes.Buffer
			if err := printer.Fprint(&buf, p.Fset, f); err != nil {
				die("print %s: %v", rel, err)
			}
			dst := filepath.Join(out, "seam", strings.ReplaceAll(rel, "/", "__"))
			if err := os.WriteFile(dst, buf.Bytes(), 0o644); err != nil {
				die("%v", err)
			}
			overlay[fname] = dst
		}
	}
	_ = seamSrc
	b, _ := json.MarshalIndent(map[string]interface{}{"Replace": overlay}, "", " ")
	if err := os.WriteFile(filepath.Join(out, "extra_overlay.json"), b, 0o644); err != nil {
		die("%v", err)
	}
	sb, _ := json.MarshalIndent(sites, "", " ")
	os.WriteFile(filepath.Join(out, "seam_sites.json"), sb, 0o644)
	fmt.Printf("genseam: %d packages, %d files rewritten, %d sites\n", len(paths), len(overlay), len(sites))
}

// rewriteBreaks turns unlabeled break statements that refer to the range loop itself into labeled ones.
func rewriteBreaks(body *ast.BlockStmt, label *ast.Ident) (n int) {
	ast.Inspect(body, func(x ast.Node) bool {
		switch t := x.(type) {
		case *ast.ForStmt, *ast.RangeStmt, *ast.SwitchStmt, *ast.TypeSwitchStmt, *ast.SelectStmt, *ast.FuncLit:
			return false // an unlabeled break inside refers to that statement
		case *ast.BranchStmt:
			if t.Tok == token.BREAK && t.Label == nil {
				t.Label = ast.NewIdent(label.Name)
				n++
			}
		}
		return true
	})
	return n
}
