#!/bin/bash
# Runs every check's thorough tier once, sequentially, from the directory it is started in (meant for
# `vp run -- tools/run_thorough_all.sh`: a snapshot of /verif); evidence and replays stay in that directory.
export VERIF_DIR="$PWD"
mkdir -p evidence replays logs
for id in ${@:-C09 C16 C11 C14 C20 C12 C19 C15 C10 C13 C17 C02 C03 C04 C05 C06 C08 C18 C01 C07}; do
  s=$(date +%s)
  ./check $id thorough > logs/$id.thorough.log 2>&1
  rc=$?
  echo "$id thorough exit=$rc $(( $(date +%s)-s ))s $(tail -1 logs/$id.thorough.log | cut -c1-200)"
done
echo ALL-DONE
