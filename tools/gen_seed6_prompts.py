#!/usr/bin/env python3
# Round-6 seeding prompts for the ten properties that had none yet: property text from properties.jsonl,
# template = tools/prompts/seed6-C19.md, "already taken" = the 'change' lines of the seeds collected so far.
import json, re, glob, os
os.chdir(os.path.dirname(os.path.abspath(__file__)) + "/..")
props = {json.loads(l)["id"]: json.loads(l) for l in open("properties.jsonl")}
tpl = open("tools/prompts/seed6-C19.md").read()
p19 = props["C19"]
prefer = {
 "C03": "allegation bounty / penalty bookkeeping (whose stake is cut), the fee charged to 'signature[0]' in two-signer kinds, cross-chain redeem (whose wrapped balance is debited, who is refunded on failure), or the validator-reward withdrawal",
 "C06": "in-memory state that a transaction session does not roll back (a cursor, a counter, a cached option or record, a slice reused between transactions), or an error path that returns before a clean-up, in the handlers of governance, ONS, staking or the bid application",
 "C07": "a store object, cursor, cache or option copy shared by the mempool check and block execution in the evidence, rewards, network-delegation or ONS modules; or something EndBlock / Commit reads that a CheckTx between two consensus calls can leave pointing elsewhere",
 "C08": "something kept only in memory that block execution reads (validator queue, evidence / missed-vote bookkeeping, currencies, fee or ONS options, the EVM adapter's block hash or logs) and that start-up code rebuilds differently or not at all",
 "C09": "the gas-metering wrapper, GetVersioned / version rotation, reopening the database, or the interplay of two nested levels (session inside block) on a key written at both levels",
 "C10": "the Frankenstein fork option rewrite, the power calculation (int64 conversions), the ordering / de-duplication of the update list, or a validator that re-stakes after having been removed",
 "C11": "the WITHDRAW path (bounded amounts), a change of the maturity option in mid-history, a stake to a validator from a second stake address, or the total/effective sum bookkeeping",
 "C12": "reward accrual vs. withdrawal maturity of delegation rewards, REINVEST, the pool balance bookkeeping on a donation, or a delegate / undelegate pair of one delegator in one block",
 "C15": "ERC20 lock/redeem (token amount parsing, token address match), the supply cap test, the redeem debit / refund amounts, or the tracker's witness list when the witness set changes in mid-flight",
 "C16": "the access list, refund counter, logs / tx index bookkeeping (Prepare, AddLog), snapshots nested three deep, SetCode / code size on an account that is later reverted, or Empty/Exist of touched accounts",
}
for pid, pref in prefer.items():
    p = props[pid]
    taken = []
    for m in sorted(glob.glob(f"seeded/{pid}-*/meta.json")):
        c = json.load(open(m)).get("change", "").strip()
        if c: taken.append(re.sub(r"\s+", " ", c)[:300])
    t = tpl.replace("seed6-C19", f"seed6-{pid}")
    t = t.replace(f"**{p19['title']}**", f"**{p['title']}**").replace(p19["statement"], p["statement"]).replace(p19["quantifier"]["text"], p["quantifier"]["text"])
    a = re.search(r"yours should preferably be of this kind: .*? Avoid the single most obvious", t, re.S)
    new = f"yours should preferably be of this kind: {pref}. Already taken by other engineers - do NOT repeat these mechanisms, not even in another spelling: " + "; ".join(taken) + ". Avoid the single most obvious"
    t = t[:a.start()] + new + t[a.end():]
    assert p["statement"] in t and "C19" not in t, pid
    open(f"tools/prompts/seed6-{pid}.md", "w").write(t)
    print(pid, len(taken), "taken")
