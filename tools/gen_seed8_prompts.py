#!/usr/bin/env python3
# Round-7 seeding prompts: property text from properties.jsonl, template = tools/prompts/seed6-C19.md,
# "already taken" = the 'change' lines of every seed collected so far for the property + the mechanisms
# that agents kept re-submitting under other properties.
import json, re, glob, os
os.chdir(os.path.dirname(os.path.abspath(__file__)) + "/..")
props = {json.loads(l)["id"]: json.loads(l) for l in open("properties.jsonl")}
tpl = open("tools/prompts/seed6-C19.md").read()
p19 = props["C19"]
common = ("(submitted several times already, under this or another property - do not use them: the statement reordering in CloseBidConv that leaves the bid store's prefix cursor elsewhere; "
 "OLVM Validate / pre-checks reading nonce, balance or code through the shared CommitStateDB; the reward calculator using Distributed instead of TillLastCycle; "
 "EthAccount.AddBalance adding in place on a shared big.Int; a cache of the stake maturity block in DelegationStore; pre-hash (hardware wallet) signatures with trailing bytes; "
 "the network-delegation store's prefix cursor in REINVEST / UNDELEGATE)")
prefer = {
 "C04": "which signers a kind REQUIRES (the Signers() list of a handler vs. the addresses its payload acts for), signature checks of multi-signer kinds, the type byte / router lookup, or fee fields that are read before the signature check",
 "C09": "version rotation and pruning (recent / every), GetVersioned of a version that was rotated out, the gas figures of reads and writes (they are consensus input), or a session opened while another one is open",
 "C10": "power as int64 of a big stake, the ordering of the update list, evidence of byzantine validators in BeginBlock, or the governance change of the top count / minimum while validators are seated",
 "C11": "bounded (matured) amounts and WITHDRAW, the maturity queue at heights with several entries, or stakes of one delegator with two validators",
 "C12": "the accrual of delegation rewards (shares by active amount, commission), the withdrawal of rewards and its maturity queue, or UNDELEGATE of the whole amount followed by a new delegation",
 "C15": "the ERC20 token list / token address comparison, the supply cap, tracker clean-up at block end (success / failed stores), or what happens to a tracker whose witness list differs from the current witnesses",
 "C16": "logs and their indexes across transactions of a block, the refund counter, GetCommittedState after several writes, SetCode / GetCodeHash of accounts created and reverted, or Empty / Exist for touched accounts with zero balance and a nonce",
 "C18": "time and height arithmetic (deadlines, expiry, release time, reward years), slices indexed by a value taken from a transaction or from an option, or type assertions on decoded JSON",
}
for pid, pref in prefer.items():
    p = props[pid]
    taken = []
    for m in sorted(glob.glob(f"seeded/{pid}-*/meta.json")):
        c = json.load(open(m)).get("change", "").strip()
        if c: taken.append(re.sub(r"\s+", " ", c)[:260])
    t = tpl.replace("seed6-C19", f"seed8-{pid}")
    t = t.replace(f"**{p19['title']}**", f"**{p['title']}**").replace(p19["statement"], p["statement"]).replace(p19["quantifier"]["text"], p["quantifier"]["text"])
    a = re.search(r"yours should preferably be of this kind: .*? Avoid the single most obvious", t, re.S)
    new = f"yours should preferably be of this kind: {pref}. Already taken by other engineers - do NOT repeat these mechanisms, not even in another spelling: " + "; ".join(taken) + "; " + common + ". Avoid the single most obvious"
    t = t[:a.start()] + new + t[a.end():]
    assert p["statement"] in t and "C19" not in t.replace(pid, ""), pid
    open(f"tools/prompts/seed8-{pid}.md", "w").write(t)
    print(pid, len(taken), "taken")
