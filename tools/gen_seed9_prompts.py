#!/usr/bin/env python3
# Round-7 seeding prompts: property text from properties.jsonl, template = tools/prompts/seed6-C19.md,
# "already taken" = the 'change' lines of every seed collected so far for the property + the mechanisms
# that agents kept re-submitting under other properties.
import json, re, glob, os
os.chdir(os.path.dirname(os.path.abspath(__file__)) + "/..")
props = {json.loads(l)["id"]: json.loads(l) for l in open("properties.jsonl")}
tpl = open("tools/prompts/seed6-C19.md").read()
p19 = props["C19"]
common = ("(submitted several times already, under this or another property - do not use them: the statement reordering in CloseBidConv that leaves the bid store's prefix cursor elsewhere; "
 "OLVM Validate / pre-checks reading nonce, balance or code through the shared CommitStateDB; the reward calculator using Distributed instead of TillLastCycle; "
 "EthAccount.AddBalance adding in place on a shared big.Int; a cache of the stake maturity block in DelegationStore; pre-hash (hardware wallet) signatures with trailing bytes; "
 "the network-delegation store's prefix cursor in REINVEST / UNDELEGATE)")
prefer = {
 "C01": "the fee distribution of EndBlock (order of recipients), events / tags / logs returned by DeliverTx, the ONS or governance block hooks, or anything read from the node configuration (cfg.*) during block execution",
 "C02": "the bid application's escrow (lock, unlock, exchange on accept), proposal fund distribution (shares, burn, remainder), delegation reward commission, or the staking WITHDRAW of bounded amounts",
 "C03": "the bid application (who gets which escrow back on reject / cancel / expire, who pays on accept), governance WITHDRAW_FUNDS (beneficiary vs. contributor), or the fee payer of two-signer kinds",
 "C06": "network-delegation, rewards-withdrawal or governance handlers that change an in-memory option copy, a cursor or a counter before they can still fail; or the EVM adapter's bookkeeping (refund counter, access list, tx index, logs) after a transaction that failed its consensus checks",
 "C07": "the governance, ONS or bid modules: a Validate or ProcessCheck that writes through a store object, option copy or cache shared with block execution; or BeginBlock / EndBlock code that trusts a pointer the last CheckTx left behind",
 "C08": "the internal-transaction queue (proposal expiry / finalisation, bid expiry), the rewards calculator's cached cycle data, in-memory option copies of the fee, ONS or proposal stores, or the EVM adapter's per-block fields",
 "C13": "the split between validators, delegators and the proposer (who gets the rounding remainder), absent signers, the burn-out regime after the last reward year, or the interval bookkeeping of matured rewards",
 "C14": "EXPIRE_VOTES / PROPOSAL_FINALIZE sent by users, the refund of contributions after a failed or cancelled proposal, the moment a configuration change becomes visible, or proposals of type general vs. config update",
 "C17": "what Validate (CheckTx) and the state transition (DeliverTx) each check about nonce, balance and gas limit, the gas charged for a contract creation that runs out of gas while storing its code, value sent with a call to a precompile or to an address without code, or the nonce of a contract that creates contracts",
 "C20": "DOMAIN_UPDATE (beneficiary / activation), DOMAIN_SELL (listing, cancelling a listing, price zero), the price checks of create (base price, per-block fee), or names that differ only in case or contain unusual characters",
}
for pid, pref in prefer.items():
    p = props[pid]
    taken = []
    for m in sorted(glob.glob(f"seeded/{pid}-*/meta.json")):
        c = json.load(open(m)).get("change", "").strip()
        if c: taken.append(re.sub(r"\s+", " ", c)[:260])
    t = tpl.replace("seed6-C19", f"seed9-{pid}")
    t = t.replace(f"**{p19['title']}**", f"**{p['title']}**").replace(p19["statement"], p["statement"]).replace(p19["quantifier"]["text"], p["quantifier"]["text"])
    a = re.search(r"yours should preferably be of this kind: .*? Avoid the single most obvious", t, re.S)
    new = f"yours should preferably be of this kind: {pref}. Already taken by other engineers - do NOT repeat these mechanisms, not even in another spelling: " + "; ".join(taken) + "; " + common + ". Avoid the single most obvious"
    t = t[:a.start()] + new + t[a.end():]
    assert p["statement"] in t and "C19" not in t.replace(pid, ""), pid
    open(f"tools/prompts/seed9-{pid}.md", "w").write(t)
    print(pid, len(taken), "taken")
