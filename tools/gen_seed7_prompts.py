#!/usr/bin/env python3
# Round-7 seeding prompts: property text from properties.jsonl, template = tools/prompts/seed6-C19.md,
# "already taken" = the 'change' lines of every seed collected so far for the property + the mechanisms
# that agents kept re-submitting under other properties.
import json, re, glob, os
os.chdir(os.path.dirname(os.path.abspath(__file__)) + "/..")
props = {json.loads(l)["id"]: json.loads(l) for l in open("properties.jsonl")}
tpl = open("tools/prompts/seed6-C19.md").read()
p19 = props["C19"]
common = ("(submitted several times already, under this or another property - do not use them: the statement reordering in CloseBidConv that leaves the bid store's prefix cursor elsewhere; "
 "OLVM Validate / pre-checks reading nonce, balance or code through the shared CommitStateDB; the reward calculator using Distributed instead of TillLastCycle; "
 "EthAccount.AddBalance adding in place on a shared big.Int; a cache of the stake maturity block in DelegationStore; pre-hash (hardware wallet) signatures with trailing bytes; "
 "the network-delegation store's prefix cursor in REINVEST / UNDELEGATE)")
prefer = {
 "C01": "the event package (cross-chain tracker transitions and job creation on witnesses), the block functions of external apps, the order of events/tags in a DeliverTx response, or anything derived from the node's own key, address, home directory or peer state",
 "C02": "validator reward withdrawal, wrapped-token supply accounting on redeem / failed redeem, the EndBlock fee distribution among validators (rounding, who gets the remainder), or the percentage split of proposal funds",
 "C03": "domain sale / purchase payments, DOMAIN_SEND, SENDPOOL, the signer check of WITHDRAW_REWARD, or ERC20 redeem",
 "C05": "the canonical-encoding test of incoming bytes, the two routers (public / internal) for EXPIRE_VOTES and PROPOSAL_FINALIZE, the cached-response path of DeliverTx for transactions that failed, or OLVM nonce handling",
 "C06": "staking, evidence (allegation / vote / release) or cross-chain handlers that update something in memory or in a second store object before they can still fail; EVM logs / bloom / refund bookkeeping of a failed transaction; gas consumed by a discarded session",
 "C07": "what Commit does to the check state, the header CheckTx runs with, store objects of the rewards, evidence or ONS modules shared between check and deliver, or a value memoised by a handler's Validate",
 "C08": "the last block header / block time kept in memory, ValidatorStore fields set in BeginBlock, currencies registered at start-up, the witness list, the EVM adapter's block hash and log index, or the internal-transaction queue",
 "C13": "the proposer's share, the movement of a reward chunk to the withdrawable balance at an interval boundary, the year boundary, or the bound on WITHDRAW_REWARD",
 "C14": "how votes are weighted and counted (power snapshot, give-up votes), the transition at the funding goal, the shares of the fund distribution, or an off-by-one at a deadline other than the funding-deadline withdrawal",
 "C17": "the refund cap, intrinsic gas of call data, value moved by nested calls that revert, SELFDESTRUCT beneficiaries, or the fee-pool credit when gas used and gas limit differ",
 "C19": "the release time arithmetic, percentage decimals of penalty or bounty, the rounding of the required-votes threshold, votes of a validator that changed its stake, or allegations involving the reporter itself",
 "C20": "sub-domain creation and deletion, DOMAIN_SEND, updating or renewing an expired name, the renewal arithmetic, or what a purchase does to sub-domains",
}
for pid, pref in prefer.items():
    p = props[pid]
    taken = []
    for m in sorted(glob.glob(f"seeded/{pid}-*/meta.json")):
        c = json.load(open(m)).get("change", "").strip()
        if c: taken.append(re.sub(r"\s+", " ", c)[:260])
    t = tpl.replace("seed6-C19", f"seed7-{pid}")
    t = t.replace(f"**{p19['title']}**", f"**{p['title']}**").replace(p19["statement"], p["statement"]).replace(p19["quantifier"]["text"], p["quantifier"]["text"])
    a = re.search(r"yours should preferably be of this kind: .*? Avoid the single most obvious", t, re.S)
    new = f"yours should preferably be of this kind: {pref}. Already taken by other engineers - do NOT repeat these mechanisms, not even in another spelling: " + "; ".join(taken) + "; " + common + ". Avoid the single most obvious"
    t = t[:a.start()] + new + t[a.end():]
    assert p["statement"] in t and "C19" not in t.replace(pid, ""), pid
    open(f"tools/prompts/seed7-{pid}.md", "w").write(t)
    print(pid, len(taken), "taken")
