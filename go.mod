module verif

go 1.21

require (
	github.com/Oneledger/protocol v0.0.0
	github.com/btcsuite/btcd v0.20.1-beta
	github.com/ethereum/go-ethereum v1.10.8
	github.com/tendermint/tendermint v0.33.3
	github.com/tendermint/tm-db v0.5.1
)

require (
	github.com/ChainSafe/go-schnorrkel v0.0.0-20200102211924-4bcbc698314f // indirect
	github.com/Oneledger/toml v0.4.1 // indirect
	github.com/VictoriaMetrics/fastcache v1.6.0 // indirect
	github.com/beorn7/perks v1.0.1 // indirect
	github.com/blockcypher/gobcy v1.3.1 // indirect
	github.com/btcsuite/btclog v0.0.0-20170628155309-84c8d2346e9f // indirect
	github.com/btcsuite/btcutil v0.0.0-20190425235716-9e5f4b9a998d // indirect
	github.com/btcsuite/go-socks v0.0.0-20170105172521-4720035b7bfd // indirect
	github.com/btcsuite/websocket v0.0.0-20150119174127-31079b680792 // indirect
	github.com/cespare/xxhash/v2 v2.1.1 // indirect
	github.com/cosmos/go-bip39 v0.0.0-20180819234021-555e2067c45d // indirect
	github.com/davecgh/go-spew v1.1.1 // indirect
	github.com/deckarep/golang-set v1.7.1 // indirect
	github.com/fjl/memsize v0.0.0-20190710130421-bcb5799ab5e5 // indirect
	github.com/gballet/go-libpcsclite v0.0.0-20190607065134-2772fd86a8ff // indirect
	github.com/go-kit/kit v0.10.0 // indirect
	github.com/go-logfmt/logfmt v0.5.0 // indirect
	github.com/go-stack/stack v1.8.0 // indirect
	github.com/gogo/protobuf v1.3.1 // indirect
	github.com/golang/protobuf v1.4.3 // indirect
	github.com/golang/snappy v0.0.3 // indirect
	github.com/google/btree v1.0.0 // indirect
	github.com/google/go-cmp v0.5.4 // indirect
	github.com/google/uuid v1.1.5 // indirect
	github.com/gorilla/websocket v1.4.2 // indirect
	github.com/gtank/merlin v0.1.1-0.20191105220539-8318aed1a79f // indirect
	github.com/gtank/ristretto255 v0.1.2 // indirect
	github.com/hashicorp/golang-lru v0.5.5-0.20210104140557-80c98217689d // indirect
	github.com/holiman/bloomfilter/v2 v2.0.3 // indirect
	github.com/holiman/uint256 v1.2.0 // indirect
	github.com/huin/goupnp v1.0.2 // indirect
	github.com/jackpal/go-nat-pmp v1.0.2-0.20160603034137-1fa385a6f458 // indirect
	github.com/karalabe/usb v0.0.0-20190919080040-51dc0efba356 // indirect
	github.com/libp2p/go-buffer-pool v0.0.2 // indirect
	github.com/mattn/go-colorable v0.1.8 // indirect
	github.com/mattn/go-isatty v0.0.12 // indirect
	github.com/mattn/go-runewidth v0.0.9 // indirect
	github.com/matttproud/golang_protobuf_extensions v1.0.1 // indirect
	github.com/mimoo/StrobeGo v0.0.0-20181016162300-f8f6d4d2b643 // indirect
	github.com/olekukonko/tablewriter v0.0.5 // indirect
	github.com/pkg/errors v0.9.1 // indirect
	github.com/powerman/rpc-codec v1.1.2 // indirect
	github.com/prometheus/client_golang v1.5.0 // indirect
	github.com/prometheus/client_model v0.2.0 // indirect
	github.com/prometheus/common v0.9.1 // indirect
	github.com/prometheus/procfs v0.0.8 // indirect
	github.com/prometheus/tsdb v0.10.0 // indirect
	github.com/rcrowley/go-metrics v0.0.0-20181016184325-3113b8401b8a // indirect
	github.com/rjeczalik/notify v0.9.2 // indirect
	github.com/rs/cors v1.7.0 // indirect
	github.com/shirou/gopsutil v3.21.4-0.20210419000835-c7a38de76ee5+incompatible // indirect
	github.com/status-im/keycard-go v0.0.0-20190424133014-d95853db0f48 // indirect
	github.com/syndtr/goleveldb v1.0.1-0.20210305035536-64b5b1c73954 // indirect
	github.com/tendermint/go-amino v0.14.1 // indirect
	github.com/tendermint/iavl v0.13.3 // indirect
	github.com/tklauser/go-sysconf v0.3.5 // indirect
	github.com/tklauser/numcpus v0.2.2 // indirect
	github.com/vmihailenco/msgpack v4.0.4+incompatible // indirect
	golang.org/x/crypto v0.0.0-20210322153248-0c34fe9e7dc2 // indirect
	golang.org/x/net v0.0.0-20210805182204-aaa1db679c0d // indirect
	golang.org/x/sync v0.0.0-20210220032951-036812b2e83c // indirect
	golang.org/x/sys v0.0.0-20210816183151-1e6c022a8912 // indirect
	golang.org/x/text v0.3.6 // indirect
	google.golang.org/genproto v0.0.0-20200108215221-bd8f9a0ef82f // indirect
	google.golang.org/grpc v1.28.0 // indirect
	google.golang.org/protobuf v1.23.0 // indirect
	gopkg.in/urfave/cli.v1 v1.20.0 // indirect
)

replace github.com/Oneledger/protocol => /repo
